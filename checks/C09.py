from checks_common import *  # noqa: F401,F403

CHECK = {
    "harness": "c09_normals.cpp",
    "srcs": ["src/pointset/algorithms/NormalAndCurvatureEstimation.cpp", "src/pointset/KdTree.cpp"],
    "flavours": ["asan"],
    "quick": {"shards": 8, "timeout": 900},
    "thorough": {"shards": 16, "timeout": 3600},
    "required_categories": ["type_Cartesian2f", "type_Cartesian2d", "type_Cartesian3f", "type_Cartesian3d",
                            "type_Homogeneous2f", "type_Homogeneous2d", "type_Homogeneous3f", "type_Homogeneous3d",
                            "cloud_plane", "cloud_room", "cloud_regular_room", "cloud_sphere_around_sensor", "cloud_noisy_plane", "cloud_blob", "cloud_in_small_units", "cloud_with_point_at_origin",
                            "prefill_default_constructed", "prefill_zero", "estimator_and_buffer_reused", "fresh_estimator_per_cloud"],
    "required_oracles": ["unit_length", "faces_sensor", "least_variance_direction.angle", "planar.normal_is_surface_normal",
                         "planar.curvature_zero", "curvature.upper", "curvature.lower", "rotation_equivariance"],
    "rule": "case = cloud of k+1..2000 points around a sensor at the origin (plane/line at distance 0.5..50, box room, "
            "sphere/circle around the sensor incl. radius < 1, noisy variants, offset blob), k = 3..30, one of the 8 point types, "
            "output normal buffer pre-filled with PointType::Zero() or default-constructed points (homogeneous w = 0 / 1); all 6 "
            "compute overloads are run on the cloud and on a copy rotated about the origin; unit length / sensor-facing / curvature "
            "range are checked on every point, the least-variance, planar and rotation oracles on up to 40 sampled points per cloud; "
            "non-trivial = not (exact plane with a Cartesian type)",
    "level_text": "exploration: the real estimator (6 overloads, 8 point types) is executed on 640 (quick) / 1.6e5 (thorough) "
                  "generated clouds and their rotated copies; every returned normal is checked for unit length and sensor-facing "
                  "orientation, sampled points against a brute-force kNN + long-double eigen-decomposition (least-variance direction, "
                  "exact normal and zero curvature on planes, curvature range, rotation equivariance); ASan+UBSan and Eigen/libstdc++ "
                  "assertions watch the same executions",
    "level_note": ASAN_NOTE,
    "technique": "runtime monitoring: sanitizer build + brute-force kNN / long-double eigen oracle + metamorphic rotation monitor over generated clouds",
    "assumptions": ["k nearest neighbours include the query point itself (as the library's kd-tree query does)",
                    "eigenvector bound 16 eps c/gap with c = 1+|mean|^2/lambda_max, gap = (l1-l0)/lambda_max; ties (1e-6) and gaps below 1e-6 are skipped and counted"],
}

# additionally: a reduced workload under valgrind memcheck, for uninitialised-value
# use and invalid accesses that the ASan build cannot see; oracle verdicts are not taken from this
# flavour (valgrind emulates long double with 64 bits), only memcheck's own reports and aborts
CHECK["thorough"]["flavours"] = list(CHECK.get("flavours", ["asan"])) + ["memcheck"]
CHECK["quick"]["flavours"] = list(CHECK.get("flavours", ["asan"])) + ["memcheck"]
CHECK["flavour_cases"] = {"memcheck": {"quick": 24, "thorough": 600}}
