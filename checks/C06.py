from checks_common import *  # noqa: F401,F403

CHECK = {
    "harness": "c06_icp_ransac.cpp",
    "srcs": ["src/transform/estimation/*.cpp", "src/regression/ransac/*.cpp", "src/regression/leastsquares/LeastSquares.cpp",
             "src/pointset/*.cpp", "src/pointset/algorithms/*.cpp"],
    "flavours": ["asan"],
    "quick": {"shards": 16, "timeout": 1800},
    "thorough": {"shards": 16, "timeout": 7200},
    "required_categories": ["fp_traps_unmasked_around_library_call", "icp_zero_displacement", "icp_envelope_face_edge_corner", "icp_known_corner_witness", "icp_known_inaccurate_witness",
                            "icp_uniform_interior", "icp_boundary_biased", "icp_around_known_corner",
                            "icp_Cartesian2d", "icp_Homogeneous2d", "ransac_no_outliers", "ransac_outliers_5_to_30pct", "ransac_coherent_outlier_group",
                            "ransac_pairs_index_aligned", "ransac_pairs_permuted_target", "ransac_pairs_permuted_and_shuffled_list", "ransac_pairs_inside_larger_clouds",
                            "ransac_permuted_pairs_no_outliers",
                            "ransac_Cartesian2d", "ransac_Cartesian3d", "ransac_Homogeneous2d", "ransac_Homogeneous3d",
                            "ransac_Cartesian2f", "ransac_Homogeneous3f"],
    "required_oracles": ["icp.reports_success", "icp.frobenius_error", "ransac.estimation_succeeds",
                         "ransac.frobenius_error", "ransac.consensus_error_below_noise_level"],
    "rule": "ICP cases: test/data/scan2d.txt (702 points) displaced by (tx,ty,theta): zero, the 26 face/edge/corner points of "
            "the envelope box |tx|,|ty|<=0.2, |theta|<=0.05, three fixed witnesses of the known non-convergence corner, then "
            "uniform-interior / boundary-biased / around-the-known-corner random displacements; Cartesian and homogeneous 2D "
            "double points (float in a quarter of the random thorough cases); fresh FindRigidTransformationByICP(0.2), identity "
            "guess.  RANSAC cases (7 of 8 indices): 40..400 pairs uniform in [-10,10]^D, sigma 0.02..0.06, inlier noise 0.3 sigma, "
            "0..30% outliers displaced 10..30 sigma in independent directions or (35% of the sets with outliers) all by one common displacement of 10..50 sigma, motion up to 0.5 m / 0.2 rad, all 8 point types, fresh SVD model + Ransac; the pairs are index aligned (i,i), or the target cloud is stored in its own random order (i,perm[i]), or that plus a shuffled list of pairs, or the pairs name arbitrary positions inside clouds holding up to 3x as many (unmatched) points, one quarter each.  "
            "non-trivial = ICP displacement with |t|>0.05 or |theta|>0.01, RANSAC set with >= 5% outliers",
    "level_text": "exploration: the real ICP and RANSAC code is executed on about 1e4 ICP + 7e4 RANSAC registrations (quick) / "
                  "5e4 ICP + 3.5e5 RANSAC (thorough) with known ground truth; reported success, Frobenius error <= 0.015 and consensus "
                  "RMSE < sigma are checked on each; ASan+UBSan and the library's asserts watch the same executions (kd-tree, "
                  "correspondence buffers, RANSAC sampling)",
    "level_note": ASAN_NOTE,
    "technique": "runtime monitoring: sanitizer build + ground-truth-by-construction monitors over generated displacements and outlier sets",
    "assumptions": ["scan loaded as 702 points (while(f>>x>>y)); the repository's test loader duplicates the last point",
                    "'the outliers have no influence' is read as the stated bounds holding with outliers present",
                    "KNOWN_FINDINGS.txt lists the ICP non-convergence corner; anything outside it is reported"],
}
