import os
import sys

from checks_common import *  # noqa: F401,F403


def _tier():
    """tier of the vcheck invocation that imported this file (vcheck <ID> [quick|thorough], else VERIF_TIER)"""
    a = sys.argv[1:]
    return a[1] if len(a) > 1 and a[1] in ("quick", "thorough") else os.environ.get("VERIF_TIER", "quick")


CHECK = {
    "harness": "c15_wrappable_grid.cpp",
    "srcs": [],                       # WrappableGrid.hpp / Grid.hpp are header-only
    "flavours": ["asan"],
    # watchdogs are sized for a machine shared with other checks (calibrated CPU time, all shards together:
    # quick ~20 s; thorough ~500 s bounded-exhaustive (int + uint8_t) + ~550 s random, i.e. < 1 min per shard on an idle
    # 16-core machine)
    "quick": {"shards": 8, "timeout": 1800},
    "thorough": {"shards": 16, "timeout": 14400},
    # Only the thorough tier enumerates the property's whole bounded scope (2D grids 1..4, 3D grids 1..3,
    # <= 3 translations, offsets in [-(n+1), n+1]).  The quick tier enumerates a reduced 3D scope (stated in
    # "rule") completely, which is not the stated scope, so it does not claim exhaustive.
    "exhaustive": _tier() == "thorough",
    "required_categories": ["exh2d_enum", "exh2d_bfs", "exh3d_bfs", "random_2d", "random_3d",
                            "cells_int", "cells_double", "cells_string",
                            # other instantiations of the template: byte-sized and 2-byte cells
                            "cells_uint8", "cells_int8", "cells_char", "cells_uint16",
                            "cells_float", "cells_rgb3",
                            "exh_cells_int", "exh_cells_uint8",
                            # histories that start with 2^8+k / 2^16+k identical translations, observed afterwards
                            "long_history_2p8", "long_history_2p16"],
    "required_oracles": ["cells.survivors_keep_value", "cells.entrants_read_empty",
                         "offset.accumulated_mod_size",
                         "stability.bound_offset_reference", "stability.bound_cell_reference", "stability.value_snapshot",
                         "value_semantics.copy_behaves_as_original",
                         "interference.sibling_objects_leave_grid_unchanged", "base_grid.cell_reads_last_write"],
    "required_counters": ["states", "transitions", "bfs3d_transitions", "bfs2d_transitions", "enum2d_sequences",
                          "exh_byte_cells_transitions",
                          "translation_after_nonzero_offset", "negative_z_with_survivors",
                          "offset_below_minus_n", "offset_nonzero_multiple_of_n", "offset_magnitude_above_n",
                          "writes", "written_cell_survived_translation",
                          "grid_copies_moves_assignments", "sibling_object_operations",
                          "translations_with_own_cell_as_empty_value", "translations_with_rvalue_empty_value",
                          "accesses_indexed_by_own_offset_getter", "duplicate_value_writes",
                          "repeated_identical_translations", "equal_component_translations",
                          "long_history_2p8_translations", "long_history_2p16_translations"],
    "rule": "case index < number of exhaustive units: one unit of the bounded-exhaustive part (every unit exists twice: "
            "int cells and uint8_t cells; pristine cells hold unique ids (uint8: consecutive values modulo 240), the empty "
            "value of the k-th translation of a history is -(10+k) (uint8: 240+k), per-axis offsets of every "
            "translation range over [-(n+1), n+1]); units are (a) exh2d_enum: every translation sequence on a 2D grid "
            "that starts with one given translation, by direct enumeration without de-duplication (quick: grids 1..3 "
            "cells/axis, <= 2 translations; thorough: grids 1..4, <= 3 translations), (b) exh2d_bfs: breadth-first search "
            "over copies of the real object, de-duplicated on the real object's full state (index offsets + buffer), every "
            "distinct state reached by < 3 translations expanded with every translation (2D grids 1..4 cells/axis, both "
            "tiers = full stated scope), (c) exh3d_bfs: the same on 3D grids 1..3 cells/axis (thorough: <= 3 translations "
            "everywhere = full stated scope; quick: <= 3 translations on grids 1..2 cells/axis, <= 2 translations on the "
            "others); the last expansion of a search is split in chunks (one unit each), counters 'states' = distinct states "
            "expanded, 'transitions' = translations executed and fully compared; 'exhaustive' (claimed by the thorough tier "
            "only, whose units cover the whole stated bounded scope) refers to this part. Remaining case indices: random histories from PRNG(seed, index): 2D/3D grids "
            "of 1..8 cells/axis with int / double / float / std::string / uint8_t / int8_t / char / uint16_t / 3-byte struct cells (strings beyond the "
            "small-string buffer, NaN, -0.0, INT_MIN, 0x00/0x7f/0x80/0xff as values; grids of byte cells are kept <= 240 cells by "
            "shrinking the leading axes so that the 240 ids stay unambiguous, the last axis keeps sizes 1..8), 1..50 translations with per-axis offsets up to +-2n (uniform, small, single-axis, "
            "{0,+-1,+-(n-1),+-n,+-(n+1),+-(2n-1),+-2n}, all-negative), explicit / special / defaulted empty value, "
            "interleaved with bursts of operator() writes and occasional setValue; all cells and the reported offset are "
            "compared with the reference after EVERY operation.  Cross-application classes inside every random history: "
            "(1) the const references returned by getIndexOffsetAlongAxes() and by the const operator() are bound once after "
            "each translation/copy and re-read after later writes, setValue and sibling-object operations, values copied out "
            "of the pristine grid are re-compared at the end; (2) copy-construct / copy-assign onto a grid of other sizes / "
            "move-construct / move-assign / self-assign / copy-use-destroy in mid-history, source overwritten and destroyed, "
            "the history continues on the copy; (3) the empty value passed as a reference to one of the grid's own cells "
            "(expected = its value at call time), cells assigned from the grid's own accessor, the offset getter's reference "
            "passed straight back as cell index; (4) empty values and written values also as temporaries and std::move'd; "
            "(5) random index % 50 == 3 / % 1000 == 7: the history starts with 2^8+k / 2^16+k (k<=5) identical translations "
            "by a small offset on a grid of <= 4 / <= 3 cells per axis, observed only afterwards; (8) between observations a "
            "second WrappableGrid with its own reference model, a plain Grid (sizing constructor or default constructor + "
            "init, written cell by cell, read back through const and non-const operator()) and short-lived temporary grids "
            "are operated; (9) all-zero translations, +-n, +-2n, equal offsets on all axes, the same translation twice in a "
            "row, an empty value equal to a value already in the grid, the same value written twice.  Offsets beyond +-2n "
            "per translation are not generated (the statement's quantifier stops there; accumulated offsets reach 2^17 in "
            "the long histories).  Non-trivial = the history contains >= 2 translations "
            "(the unit tests never translate twice); distinct = hash of (cell type, dimension, sizes, every operation)",
    "level_text": "exploration: the real WrappableGrid is driven through every translation history of the bounded scope "
                  "(2D grids up to 4x4 and, in the thorough tier, 3D grids up to 3x3x3, up to 3 translations with per-axis "
                  "offsets in [-(n+1), n+1]; state-de-duplicated search over copies of the real object plus, for 2D, direct "
                  "enumeration) and through 3e3 (quick) / 5e5 (thorough) random histories of up to 50 translations and writes "
                  "on grids up to 8 cells per axis with int, double, std::string, uint8_t, int8_t, char and uint16_t cells (the bounded "
                  "part is run for int and for uint8_t cells); after every operation every cell "
                  "and the reported offset are compared with a window-over-unbounded-map reference model; ASan+UBSan, "
                  "libstdc++ assertions and the library's asserts watch the same executions",
    "level_note": ASAN_NOTE + "; the bounded part is complete only for its stated scope (quick: reduced 3D scope), it is "
                  "not a proof for larger grids, longer histories or larger offsets",
    "technique": "runtime monitoring: sanitizer build + executable reference model (map from absolute coordinates to "
                 "values + window origin) compared after every operation; bounded-exhaustive state search over the real "
                 "object + random histories",
    "assumptions": ["direction convention taken from the existing unit tests: after translate(off) logical cell x shows "
                    "what logical cell x + off showed before",
                    "every cell is written before it is read (the statement does not cover never-written cells)",
                    "the behaviour of translate() is a function of the object's state (index offsets + buffer) and its "
                    "arguments only, which is what makes state de-duplication sound",
                    "values are compared bitwise for double (NaN and -0.0 must come back), by == for the integral types and std::string",
                    "a reference to a cell (operator()) is only required to keep denoting that logical cell until the next "
                    "translation or copy of the same grid; the reference returned by getIndexOffsetAlongAxes() is required to "
                    "stay live (show the current accumulated offset) for the lifetime of the grid",
                    "copies made by the implicitly generated copy operations (moves degrade to copies because of the "
                    "user-declared destructor) must behave as the original; a plain Grid is only required to read back the "
                    "last value written to a logical cell (what a never-translated window shows), nothing about its layout",
                    "Grid::init() on an already used WrappableGrid (re-sizing) is outside the statement and not exercised",
                    "bool cells are not covered: Grid<bool> does not compile (operator() returns T& into std::vector<bool>)",
                    "g++ 12 ASan+UBSan runtime; asserts live (no -DNDEBUG)"],
}

# additionally: a reduced workload under valgrind memcheck, for uninitialised-value
# use and invalid accesses that the ASan build cannot see; oracle verdicts are not taken from this
# flavour (valgrind emulates long double with 64 bits), only memcheck's own reports and aborts
CHECK["thorough"]["flavours"] = list(CHECK.get("flavours", ["asan"])) + ["memcheck"]
CHECK["quick"]["flavours"] = list(CHECK.get("flavours", ["asan"])) + ["memcheck"]
CHECK["flavour_cases"] = {"memcheck": {"quick": 60, "thorough": 800}}
