from checks_common import *  # noqa: F401,F403

CHECK = {
    "harness": "c03_lambert.cpp",
    "srcs": GEODESY,
    "flavours": ["asan"],
    "quick": {"shards": 8, "timeout": 600},
    "thorough": {"shards": 16, "timeout": 3600},
    "required_categories": ["secant_north", "secant_south", "tangent_north", "tangent_south", "named_zone",
                            "zone_Lambert93", "zone_CC42", "zone_CC50", "zone_LambertI", "zone_LambertIV",
                            "zone_LambertIIetendu",
                            "ellipsoid_sphere", "ellipsoid_random", "ellipsoid_Clarke1880IGN",
                            "pt_origin", "pt_on_parallel", "pt_on_central_meridian", "pt_box_corner", "pt_generic",
                            "sibling_converters_interleaved", "sibling_differs_in_k0",
                            "sibling_differs_in_semi_major_axis", "sibling_differs_in_false_origin",
                            "sibling_differs_in_longitude0", "sibling_differs_in_latitude0",
                            "sphere_radius_continuous", "sphere_radius_authalic", "sphere_radius_round",
                            "ellipsoid_tiny_eccentricity",
                            "value_semantics", "value_semantics_copy_source_overwritten",
                            "value_semantics_move_source_overwritten", "value_semantics_copy_source_destroyed",
                            "value_semantics_vector_growth", "value_semantics_copy_assigned",
                            "value_semantics_move_assigned", "value_semantics_self_assigned",
                            "value_semantics_copy_source_kept_both_used",
                            "constructor_overloads", "constructor_ctor_six_scalars_then_clobbered",
                            "constructor_ctor_constants_struct_then_clobbered", "static_GRS80_object_passed",
                            "long_history_2p8_calls", "long_history_2p16_calls",
                            "extreme_semi_major_axis", "extreme_false_origin", "signed_zero_parameter"],
    "required_oracles": ["conformal.h_over_k", "conformal.orthogonality", "scale.standard_parallel_k",
                         "scale.tangent_parallel_k", "origin.to_false_origin_m", "central_meridian.x_m",
                         "roundtrip.lat_rad", "roundtrip.lon_rad", "forward.vs_snyder_m",
                         "stability.kept_results_unchanged", "stability.reevaluation_bit_identical",
                         "stability.after_neighbouring_facilities",
                         "aliasing.static_helpers_same_object_for_all_arguments",
                         "aliasing.constructor_one_variable_for_xs_and_ys", "shared_state.static_GRS80_unchanged"],
    "required_counters": ["loop_hook_calls", "points", "roundtrip_points_north", "roundtrip_points_south",
                          "points_evaluated_on_both_siblings_in_turn", "sibling_sets_with_bit_identical_n_and_e_but_other_c",
                          "interference_probes", "points_at_whole_degrees", "points_with_equal_offsets"],
    "rule": "case = one projection parameter set + 25 (quick) / 40 (thorough) points.  Sets: secant with standard "
            "parallels 1..20 deg apart inside 15..75 deg (ends and the 1 deg / 20 deg gaps included, either order), "
            "origin latitude on / between / up to 3 deg outside the parallels; tangent with latitude0 in 15..75 deg and "
            "k0 in [0.99, 1] (ends included); both hemispheres with equal probability; ellipsoids GRS80 / Clarke 1880 IGN / "
            "International 1924 / sphere / random eccentricity in [0, 0.1] (0.1 and 1e-6..1e-2 included); longitude0 in "
            "+-149 deg; false origins 0, Lambert-93's and random up to 1e7 m; the 15 named zones Lambert-93, CC42..CC50, "
            "Lambert I-IV, II etendu are the first 15 cases of every run and 3 % of the rest.  Points: the origin, "
            "the standard/tangent parallels (when inside the box), the central meridian, a box corner, and random points "
            "in the +-8 deg x +-30 deg box incl. log-spaced offsets 1e-12.. from the origin.  For 40 % of the cases a sibling "
            "converter (same set but for ONE of k0 / latitude0 / false origin / semi-major axis at equal eccentricity / "
            "longitude0) is alive too and every forward, stencil and inverse call is made on the two converters in turn "
            "with bit-identical points (special points taken from either set), all oracles applied to each.  "
            "Spheres take their radius from {6378137, 6371000, authalic 6371007.180918475, any double in 6.3e6..6.4e6}; "
            "eccentricities down to 1e-9 with a continuous semi-major axis.  For 30 % of the cases the converter under test "
            "is not constructed in place but is a copy / a moved-to object whose source (a std::optional slot, a heap object, "
            "a growing std::vector) is then overwritten with ANOTHER zone, destroyed, or relocated before any oracle runs.  "
            "Further constructions: copy-/move-/self-assigned converter, a copy used in turn with its untouched source, "
            "the six-scalar and the (constants struct, e) constructors fed by reference from storage that is clobbered "
            "afterwards; GRS80 sets pass the library's static EarthEllipsoid::GRS80 object half of the time.  Extremes (2 % "
            "each): the whole figure scaled by 1e-100..1e100 or to a = 1 (the unchanged code is finite for scales 1e-160.."
            "1e140, limited by a*a in EarthEllipsoid; length tolerances scale with a / 6378137); false origins up to 3e9 m "
            "(above ~1e10 m one ulp of an easting is itself a sizeable part of 1e-11 rad at 83 deg); -0.0 for zero longitude0 / "
            "x0 / y0.  Point offsets include exact +-0, whole degrees, equal dlat = dlon, one denormal.  2 % / 0.3 % of the "
            "cases make 2^8+k / 2^16+k forward calls before the first observation.  Per case: results bound by const "
            "reference before the first point are compared at the end and re-evaluated bit-for-bit; every 4th point is "
            "re-evaluated after stream formatting, ECEF conversions on the shared GRS80 object and the static helpers.  "
            "non-trivial = parameter set other than the two the unit tests pin a value for (CC46, Lambert I), or any "
            "interleaved pair or non-direct construction",
    "level_text": "exploration: the real LambertConverter is built through its public secant / tangent constructors for "
                  "2e4 (quick) / 3e5 (thorough) generated parameter sets of both hemispheres (40 % of them together with a sibling converter differing in one parameter, calls interleaved) and evaluated at 5e5 / 1.2e7 points; "
                  "at each point the two local scales and the angle between the images of meridian and parallel are measured by "
                  "4th-order finite differences of the library's own forward map against the long-double radii M and N cos(lat), "
                  "the forward image is compared with a differently factored long-double (Snyder) implementation, origin and "
                  "central meridian are checked against (x0, y0), and the inverse of the forward image is compared with the input "
                  "(1e-11 rad); ASan+UBSan and the live asserts watch the same executions and an iteration hook bounds the "
                  "fixed-point loop of computeLatitude",
    "level_note": ASAN_NOTE,
    "technique": "runtime monitoring: sanitizer build + finite-difference geometry monitor on the real forward map + "
                 "long-double reference implementation + round-trip monitor + loop-iteration hook over generated parameter sets",
    "assumptions": ["long double (x87 80-bit) radii of curvature M, N and the Snyder-form (USGS PP 1395 eqs 15-1..15-11) projection are the reference",
                    "finite-difference scales (Richardson, steps 2e-4 / 1e-4 rad) resolve 1e-11 relative; the stated equalities are tested to 1e-9",
                    "longitudes are not wrapped: longitude0 is kept within +-149 deg so that every point of the +-30 deg box is inside [-pi, pi]",
                    "a standard parallel farther than 8 deg from latitude0 is outside the quantified box and is not sampled for the k = 1 oracle",
                    "value semantics: assignment variants are compiled only if the class is assignable (otherwise their categories stay empty and the run is inconclusive)",
                    "absolute length tolerances (1e-7 m origin / meridian, 1e-6 m against the reference) are meant at Earth scale and scale with a / 6378137; "
                    "'maps to (x0, y0)' is judged to max(1e-7 m, 8 ulp-units of |x0|+|y0|+|rho0|), the best a double result can do at a large false origin",
                    "finite-difference oracles are skipped (counted) where 4 eps |coordinate| / (1e-4 rad * M) > 8e-11 (a tenth of their tolerance), i.e. for coordinates beyond ~6e7 m at Earth scale",
                    "false origins beyond 3e9 m and figures scaled beyond 1e+-100 are not explored; repeated evaluation is required to be bit-identical (pure functions)",
                    "cross-object interference is looked for on one thread only, between two converters alive at a time that differ in a single parameter",
                    "g++ 12 ASan+UBSan runtime; asserts live (no -DNDEBUG)"],
}
