from checks_common import *  # noqa: F401,F403

CHECK = {
    "harness": "c03_lambert.cpp",
    "srcs": GEODESY,
    "flavours": ["asan"],
    "quick": {"shards": 8, "timeout": 600},
    "thorough": {"shards": 16, "timeout": 3600},
    "required_categories": ["secant_north", "secant_south", "tangent_north", "tangent_south", "named_zone",
                            "zone_Lambert93", "zone_CC42", "zone_CC50", "zone_LambertI", "zone_LambertIV",
                            "zone_LambertIIetendu",
                            "ellipsoid_sphere", "ellipsoid_random", "ellipsoid_Clarke1880IGN",
                            "pt_origin", "pt_on_parallel", "pt_on_central_meridian", "pt_box_corner", "pt_generic",
                            "sibling_converters_interleaved", "sibling_differs_in_k0",
                            "sibling_differs_in_semi_major_axis", "sibling_differs_in_false_origin",
                            "sibling_differs_in_longitude0", "sibling_differs_in_latitude0",
                            "sphere_radius_continuous", "sphere_radius_authalic", "sphere_radius_round",
                            "ellipsoid_tiny_eccentricity",
                            "value_semantics", "value_semantics_copy_source_overwritten",
                            "value_semantics_move_source_overwritten", "value_semantics_copy_source_destroyed",
                            "value_semantics_vector_growth"],
    "required_oracles": ["conformal.h_over_k", "conformal.orthogonality", "scale.standard_parallel_k",
                         "scale.tangent_parallel_k", "origin.to_false_origin_m", "central_meridian.x_m",
                         "roundtrip.lat_rad", "roundtrip.lon_rad", "forward.vs_snyder_m"],
    "required_counters": ["loop_hook_calls", "points", "roundtrip_points_north", "roundtrip_points_south",
                          "points_evaluated_on_both_siblings_in_turn", "sibling_sets_with_bit_identical_n_and_e_but_other_c"],
    "rule": "case = one projection parameter set + 25 (quick) / 40 (thorough) points.  Sets: secant with standard "
            "parallels 1..20 deg apart inside 15..75 deg (ends and the 1 deg / 20 deg gaps included, either order), "
            "origin latitude on / between / up to 3 deg outside the parallels; tangent with latitude0 in 15..75 deg and "
            "k0 in [0.99, 1] (ends included); both hemispheres with equal probability; ellipsoids GRS80 / Clarke 1880 IGN / "
            "International 1924 / sphere / random eccentricity in [0, 0.1] (0.1 and 1e-6..1e-2 included); longitude0 in "
            "+-149 deg; false origins 0, Lambert-93's and random up to 1e7 m; the 15 named zones Lambert-93, CC42..CC50, "
            "Lambert I-IV, II etendu are the first 15 cases of every run and 3 % of the rest.  Points: the origin, "
            "the standard/tangent parallels (when inside the box), the central meridian, a box corner, and random points "
            "in the +-8 deg x +-30 deg box incl. log-spaced offsets 1e-12.. from the origin.  For 40 % of the cases a sibling "
            "converter (same set but for ONE of k0 / latitude0 / false origin / semi-major axis at equal eccentricity / "
            "longitude0) is alive too and every forward, stencil and inverse call is made on the two converters in turn "
            "with bit-identical points (special points taken from either set), all oracles applied to each.  "
            "Spheres take their radius from {6378137, 6371000, authalic 6371007.180918475, any double in 6.3e6..6.4e6}; "
            "eccentricities down to 1e-9 with a continuous semi-major axis.  For 30 % of the cases the converter under test "
            "is not constructed in place but is a copy / a moved-to object whose source (a std::optional slot, a heap object, "
            "a growing std::vector) is then overwritten with ANOTHER zone, destroyed, or relocated before any oracle runs.  "
            "non-trivial = parameter set other than the two the unit tests pin a value for (CC46, Lambert I), or any "
            "interleaved pair or non-direct construction",
    "level_text": "exploration: the real LambertConverter is built through its public secant / tangent constructors for "
                  "2e4 (quick) / 3e5 (thorough) generated parameter sets of both hemispheres (40 % of them together with a sibling converter differing in one parameter, calls interleaved) and evaluated at 5e5 / 1.2e7 points; "
                  "at each point the two local scales and the angle between the images of meridian and parallel are measured by "
                  "4th-order finite differences of the library's own forward map against the long-double radii M and N cos(lat), "
                  "the forward image is compared with a differently factored long-double (Snyder) implementation, origin and "
                  "central meridian are checked against (x0, y0), and the inverse of the forward image is compared with the input "
                  "(1e-11 rad); ASan+UBSan and the live asserts watch the same executions and an iteration hook bounds the "
                  "fixed-point loop of computeLatitude",
    "level_note": ASAN_NOTE,
    "technique": "runtime monitoring: sanitizer build + finite-difference geometry monitor on the real forward map + "
                 "long-double reference implementation + round-trip monitor + loop-iteration hook over generated parameter sets",
    "assumptions": ["long double (x87 80-bit) radii of curvature M, N and the Snyder-form (USGS PP 1395 eqs 15-1..15-11) projection are the reference",
                    "finite-difference scales (Richardson, steps 2e-4 / 1e-4 rad) resolve 1e-11 relative; the stated equalities are tested to 1e-9",
                    "longitudes are not wrapped: longitude0 is kept within +-149 deg so that every point of the +-30 deg box is inside [-pi, pi]",
                    "a standard parallel farther than 8 deg from latitude0 is outside the quantified box and is not sampled for the k = 1 oracle",
                    "value semantics: copies are exercised through copy/move construction only (no converter assignment is used)",
                    "cross-object interference is looked for on one thread only, between two converters alive at a time that differ in a single parameter",
                    "g++ 12 ASan+UBSan runtime; asserts live (no -DNDEBUG)"],
}
