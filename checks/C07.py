from checks_common import *  # noqa: F401,F403

CHECK = {
    "harness": "c07_leastsquares.cpp",
    "srcs": ["src/regression/leastsquares/LeastSquares.cpp"],
    "flavours": ["asan"],
    "quick": {"shards": 8, "timeout": 900},
    "thorough": {"shards": 16, "timeout": 3600},
    "required_categories": ["float", "double", "method_cholesky", "method_svd", "method_weighted", "precond_general", "precond_graded_nearly_diagonal",
                            "precond_diagonal", "history_with_shrink", "problem_written_through_kept_references", "problem_at_exact_buffer_capacity", "history_with_growth", "estimate_size_1", "estimate_size_8",
                            "regressors_orthogonal_up_to_a_small_coupling", "constructed_default_then_setEstimateSize", "constructed_for_another_estimate_size_then_setEstimateSize", "constructed_with_estimate_size",
                            "estimate_size_changed_in_history", "history_continues_on_copy_constructed", "history_continues_on_copy_assigned",
                            "history_continues_on_move_constructed", "history_continues_on_move_assigned"],
    "required_oracles": ["normal_equations.cholesky", "normal_equations.svd", "normal_equations.weighted", "agrees_with_qr",
                         "affine_preconditioner_applied", "affine_preconditioner_applied.componentwise", "cholesky_svd_agree", "history_independent",
                         "copy_reproduces_last_answer"],
    "required_counters": ["problems_checked"],
    "rule": "case = history of 2..12 problems on ONE LeastSquares<float|double> object of estimate size 1..8: data size m..500 "
            "going up and down, J = U S V^T with prescribed cond(J) (cond(JtJ) < 1e6) and overall scale 1e-6..1e6, Y in range / "
            "slightly / far out of range, method {Cholesky, SVD, weighted}, optional affine preconditioner (diagonal or general A, b), "
            "buffers filled element-wise through getJ/getY/getW and rows beyond the current size poisoned with 1e30; each problem is "
            "also solved by the other un-weighted path and by a fresh solver; the object is built by one of three routes (sized constructor, "
            "default constructor + setEstimateSize, constructor for another estimate size + setEstimateSize), its estimate size is changed "
            "by setEstimateSize inside 12 % of the steps, and after 15 % of the steps the history continues on a copy-constructed / "
            "copy-assigned / move-constructed / move-assigned object while the source gets an unrelated problem or is destroyed; non-trivial = history in which the data size both "
            "shrinks and grows",
    "level_text": "exploration: the real solver is driven through 4e3 (quick) / 6e5 (thorough) generated problem histories "
                  "(about 7 problems each); every answer is checked against the long-double normal equations / QR solution within "
                  "the conditioning-aware bound G, against the other decomposition path and against a fresh solver given the same "
                  "problem alone (history independence, stale rows poisoned); ASan+UBSan and Eigen assertions watch the same executions",
    "level_note": ASAN_NOTE,
    "technique": "runtime monitoring: sanitizer build + long-double QR reference + differential (fresh vs reused object, Cholesky vs SVD) monitors over generated histories",
    "assumptions": ["bound G = 16 eps (cond(JtJ)|JtY| + sqrt(n)|J||Y| + |JtJ||x|); problems with 16 eps cond >= 1e-1 (float beyond cond ~5e3) are counted as vacuous, not as checked",
                    "'problems of varying sizes solved with one solver object' is read as varying data sizes and, through the public setEstimateSize, estimate sizes"],
}

# additionally: a reduced workload under valgrind memcheck (uninitialised-value use in the solver's
# resized, never-initialised buffers is invisible to ASan)
CHECK["thorough"]["flavours"] = ["asan", "memcheck"]
CHECK["quick"]["flavours"] = ["asan", "memcheck"]
CHECK["flavour_cases"] = {"memcheck": {"quick": 400, "thorough": 8000}}
