from checks_common import *  # noqa: F401,F403

CHECK = {
    "harness": "c04_svd.cpp",
    "srcs": ["src/transform/estimation/FindRigidTransformationBySVD.cpp",
             "src/pointset/algorithms/PreconditionedPointSet.cpp",
             "src/pointset/algorithms/PointSetPreconditioner.cpp",
             "src/pointset/algorithms/Correspondence.cpp"],
    "flavours": ["asan"],
    "quick": {"shards": 8, "timeout": 900},
    "thorough": {"shards": 16, "timeout": 3600},
    "required_categories": ["types_2f_cart+hom", "types_2d_cart+hom", "types_3f_cart+hom", "types_3d_cart+hom",
                            "shape_coplanar_axis", "shape_coplanar_rotated", "shape_nearly_coplanar", "shape_three_points",
                            "shape_clustered", "corr_subset", "corr_subset_far_from_rest", "corr_permuted", "preconditioned_sets_reused", "preconditioned_sets_fresh", "data_exact", "data_heavy_noise",
                            "angle_pi", "angle_zero"],
    "required_oracles": ["det_positive", "orthonormal", "exact.maps_source_onto_target",
                         "noisy.agrees_with_kabsch_on_cloud", "noisy.residual_excess", "variants_agree",
                         "exact.recovers_rotation_matrix", "exact.recovers_translation", "variants_agree.rotation_matrix",
                         "noisy.rotation_matrix_agrees_with_kabsch"],
    "rule": "case = (dim 2/3, float/double, n=3..500 correspondences, cloud shape {generic, coplanar exact/rotated, nearly "
            "coplanar 1e-12..1e-3, clustered, two-cluster, elongated, three points}, offset 0..100 spreads, rotation any axis "
            "angle 0..pi incl. 0, pi and their neighbourhoods, translation, noise {none, 1e-6..1e-2, 0.05..0.5 spreads}, "
            "correspondences {identity, permuted, strict subset with distractor points}, preconditioning scale 1e-3..1e3); "
            "each case runs 10 variants: {Cartesian, homogeneous} x {indexed, indexed with permuted list, aligned, "
            "preconditioned indexed, preconditioned aligned}; collinear sets excluded (2nd singular value of the centred source "
            ">= 2e-3 of the 1st); non-trivial = not (generic shape, exact data, identity correspondences, zero offset)",
    "level_text": "exploration: the real estimator (all 4 overloads, all 8 point types) is executed on 4.8e3 (quick) / 8e5 "
                  "(thorough) generated registration problems x 10 variants; every returned matrix is checked for orthonormality, "
                  "determinant +1, exact mapping (exact data) or agreement with and residual-optimality against a long-double "
                  "Kabsch/Umeyama solution (noisy data), and the variants against each other; ASan+UBSan and Eigen/libstdc++ "
                  "assertions watch the same executions",
    "level_note": ASAN_NOTE,
    "technique": "runtime monitoring: sanitizer build + long-double Kabsch reference + metamorphic (permutation / overload / "
                 "preconditioning / representation) monitors over generated inputs",
    "assumptions": ["long double Kabsch with determinant correction (Eigen JacobiSVD on long double) is the reference optimum",
                    "rounding tolerance 64 eps (1+offset/spread)^2 x conditioning x magnitude (DESIGN 2.6); stated 1e-9 relative for double exact data",
                    "preconditioning = scale-only PreconditionedPointSet (what the library and its tests use)"],
}

# additionally: a reduced workload under valgrind memcheck, for uninitialised-value
# use and invalid accesses that the ASan build cannot see; oracle verdicts are not taken from this
# flavour (valgrind emulates long double with 64 bits), only memcheck's own reports and aborts
CHECK["thorough"]["flavours"] = list(CHECK.get("flavours", ["asan"])) + ["memcheck"]
CHECK["quick"]["flavours"] = list(CHECK.get("flavours", ["asan"])) + ["memcheck"]
CHECK["flavour_cases"] = {"memcheck": {"quick": 160, "thorough": 3000}}
