from checks_common import *  # noqa: F401,F403

CHECK = {
    "harness": "c17_rate.cpp",
    "srcs": MONITORING + DIAGNOSTICS,
    "flavours": ["asan"],
    "quick": {"shards": 8, "timeout": 600},
    "thorough": {"shards": 16, "timeout": 3600},
    "required_categories": [
        "periods_steady", "periods_jittered", "periods_bursty", "periods_silences", "periods_loguniform",
        "periods_near_threshold", "periods_extremes",
        "hb_none", "hb_clocked", "hb_adversarial", "hb_mixed",
        "W_4", "W_64", "W_between", "two_rate_not_integer",
        "window_never_full", "rollover_nonconstant_periods",
        "timeout", "timeout_then_recovery", "timeout_before_window_full",
        "hb_before_first_stamp", "hb_before_first_stamp_later_than_500ms",
        "hb_at_500ms_exact", "hb_at_500ms_plus_1ns", "hb_at_500ms_minus_1ns", "hb_earlier_than_last_stamp",
        "t0_zero", "t0_epoch_ns", "events_500",
        "status_ok_seen", "status_too_low_seen", "status_too_high_seen", "status_stale_seen",
        "status_no_data_seen",
        # cross-application classes
        "t0_logspaced_to_int64_limits", "t0_int64_max_side", "t0_int64_min_side",
        "eps_zero", "eps_tiny", "eps_huge", "ctor_rate_and_eps_same_object",
        "steady_rate_exactly_on_threshold", "rate_exactly_on_threshold_seen",
        "args_named_lvalue", "args_temporary", "args_std_move", "args_freed_after_call",
        "monitor_default_ctor_then_initialize",
        "monitor_copy_then_source_destroyed", "monitor_move_then_source_destroyed", "monitor_copy_forked",
        "interference_steps", "long_prefix_2p8", "long_prefix_2p16", "long_prefix_of_stamps",
        "long_prefix_of_heartbeats", "hb_same_value_twice", "stamps_ge_257",
        # global locale switched during the history
        "locale_switched_during_history", "locale_switch_before_first_evaluation",
        "locale_switch_between_call_and_getReport", "locale_switch_to_classic", "locale_switch_to_decimal_comma",
        "locale_switch_to_comma_and_grouping", "value_with_decimal_comma_seen",
        "value_with_thousands_grouping_seen"],
    "required_oracles": [
        "monitor.rate_rel", "monitor.rate_zero_until_window_full", "monitor.timeout_flag",
        "monitor.timeout_forces_rate_zero", "monitor.early_heartbeat_changes_nothing",
        "checkup_eq.status", "checkup_gt.status", "checkup_eq.value_vs_rate", "checkup_gt.value_vs_rate",
        "checkup_eq.stale", "checkup_gt.stale", "checkup_eq.no_data", "checkup_gt.no_data",
        "checkup_eq.message_matches_status", "checkup_gt.message_matches_status",
        "checkup_eq.early_heartbeat_changes_nothing", "checkup_gt.early_heartbeat_changes_nothing",
        "checkup_eq.evaluate_returns_status", "checkup_gt.evaluate_returns_status",
        "checkup_eq.retained_reports_stable", "checkup_gt.retained_reports_stable",
        "copy.rate_equals_source", "copy.rate_rel", "copy.timeout_flag", "copy.source_unaffected_by_copy",
        "copy.unaffected_by_later_use_of_source",
        "interference.rate_unchanged", "interference.report_eq_unchanged", "interference.report_gt_unchanged",
        "checkup_eq.value_punctuation_of_locale_in_force", "checkup_gt.value_punctuation_of_locale_in_force",
        "checkup_eq.value_equals_fresh_stream_output", "checkup_gt.value_equals_fresh_stream_output"],
    "required_counters": ["stamps", "heartbeats", "timeouts", "recoveries", "nonzero_rate_histories",
                          "interference_steps", "locale_switches"],
    "rule": "case = (expected rate in [0.5,200] Hz: round values, k/2, log-uniform, uniform; tolerance 1e-3..10; name) + "
            "one history of 1..500 events fed to RateMonitoring, CheckupEqualToRate and CheckupGreaterThanRate and "
            "compared with the reference model after every event. Data periods 1 us..10 s in modes {steady, jittered "
            "1e-6..0.9, bursty, steady with silences around 0.5 s and up to 10 s, log-uniform, steady within +-3 ns of "
            "the period that puts the rate on a check-up threshold, extremes 1 us/10 s/0.5 s+-1 ns}; first stamp 0, 1, "
            "small, ~1.7e18 ns (epoch), negative; heartbeats {none, periodic timer in chronological order, adversarial: "
            "last stamp + 0.5 s -1/0/+1 ns, earlier, later up to 20 s, before the last stamp, equal to it, far future, "
            "before the first stamp incl. > 0.5 s after time zero, mixed}; history lengths concentrated on <= W+3, "
            "W+1..2W+6 and up to 500. Variants drawn independently of the history: first stamp log-spaced up to the "
            "int64-nanosecond limits (+-9.2e18 ns minus the 8e12 ns the longest history can span; the unchanged code "
            "is exact up to there because only stamp differences and one int64 running sum bounded by the last stamp "
            "are formed) and at both limits; tolerance 0, 4.9e-324, 1e-300, 1e-15, 1e15, 1e300, DBL_MAX; the same "
            "double object passed as rate and tolerance; steady periods for which the rate is exactly a threshold "
            "(dyadic ties); every by-reference call with a named lvalue / a temporary / std::move / a heap object "
            "overwritten and freed right after the call (constructor arguments always overwritten and freed after "
            "construction); RateMonitoring() + initialize(rate); the monitor copy-constructed (also through "
            "std::move) with the source destroyed, or forked: the copy is fed its own continuation against a copy of "
            "the model, source and copy must not affect each other; first and mid-history reports bound by const "
            "auto & and re-compared at the end; interference steps between observations (sibling objects of the same "
            "classes incl. one with the same name, stream formatting state of cout and of string streams, the "
            "library's report helpers) after which rate and reports must be unchanged; runs of 2^8+k (all objects) "
            "and 2^16+k (monitor only) repetitions of one mutator (steady or alternating stamps, early heartbeats, "
            "timeout heartbeats) before the first observation; in 20 % of the cases the global C++ locale is switched "
            "at 1..3 points of the history (before anything is constructed, before an event, between "
            "evaluate/heartBeatCallback and the getReport that observes it) among classic, decimal comma, and decimal "
            "comma with '.' grouping by 3: the rate string must carry the punctuation of the locale in force when the "
            "check-up formatted it (strict reading per locale; the right number in another locale's punctuation is "
            "kind info_value_locale) and equal what a fresh std::ostringstream printed for the modelled rate at that "
            "moment (or for one of its 8 neighbouring doubles either side); the classic locale is restored before the "
            "case returns. Non-trivial = the history contains a timeout followed by a stamp that makes the "
            "rate non-zero again, or rolls the window over (>= W+2 stamps) with non-constant periods",
    "level_text": "exploration: the real rate monitor and both rate check-ups are driven through 3e3 (quick) / 1e6 "
                  "(thorough) generated event histories of up to 500 stamps and heartbeats; after every event the "
                  "reported rate, timeout flag, status, message and value string are compared with a sequential "
                  "reference model that recomputes the rate from the list of stamps in integer nanoseconds / long "
                  "double; ASan+UBSan and the library's asserts watch the same executions",
    "level_note": ASAN_NOTE,
    "technique": "runtime monitoring: sanitizer build + executable reference model checked after every event of "
                 "generated histories",
    "assumptions": [
        "W = clamp(floor(2*expected rate), 4, 64) (the statement leaves the rounding of a non-integer 2*rate open; "
        "floor is what a window *size* obtained by integer conversion means)",
        "'exactly' for the rate = 1e-12 relative to the long-double quotient W*1e9/span_ns (two double roundings "
        "are about 2e-16)",
        "check-up verdicts are required only outside a band of 1e-9*max(1,|rate|+|tolerance|) around the thresholds "
        "(inside it only mutual consistency is required; counted as skipped_as_ambiguous)",
        "the value string must parse to the modelled rate within one unit of the 6th significant digit (default "
        "stream formatting); messages are matched by the words 'no data received', 'timeout', 'is OK', 'too low', "
        "'too high' and by naming '<name>_rate', not by exact text",
        "heartBeatCallback is taken to report a timeout by returning false (as the unit tests pin it)",
        "runs of 2^16+k stamps exceed the statement's 500 events; they are applied to the bare monitor only and "
        "reported under the ordinary kinds (a sliding window has no reason to depend on the history length)",
        "the rate check-ups hold mutexes and are neither copyable nor movable; RateMonitoring has no assignment "
        "(atomic member), so value semantics = its copy constructor (std::move selects it too)",
        "the rate string is 'the rate as a default-constructed stream prints it': a switch of the global C++ "
        "locale takes effect at the next evaluation, never retroactively on a stored report",
        "re-initialising a monitor that has already received stamps, non-increasing "
        "data stamps and expected rates outside [0.5, 200] Hz are outside the statement and not exercised",
        "single-threaded use only (C19 covers concurrency)",
        "g++ 12 ASan+UBSan runtime; asserts live (no -DNDEBUG)"],
}

# additionally: a reduced workload under valgrind memcheck, for uninitialised-value
# use and invalid accesses that the ASan build cannot see; oracle verdicts are not taken from this
# flavour (valgrind emulates long double with 64 bits), only memcheck's own reports and aborts
CHECK["thorough"]["flavours"] = list(CHECK.get("flavours", ["asan"])) + ["memcheck"]
CHECK["quick"]["flavours"] = list(CHECK.get("flavours", ["asan"])) + ["memcheck"]
CHECK["flavour_cases"] = {"memcheck": {"quick": 300, "thorough": 6000}}
