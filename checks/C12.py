from checks_common import *  # noqa: F401,F403

CHECK = {
    "harness": "c12_derivatives.cpp",
    "srcs": ["src/transform/SmartRotation3D.cpp", "src/geometry/*.cpp", "src/regression/leastsquares/LeastSquares.cpp"],
    "flavours": ["asan"],
    "quick": {"shards": 8, "timeout": 900},
    "thorough": {"shards": 16, "timeout": 3600},
    "required_categories": ["a_smart_rotation", "a_reinitialised_object", "a_fresh_object", "b_pose_covariance", "b_rank_deficient_covariance",
                            "b_identity_transform_and_attitude", "c_ls_covariance_float", "c_ls_covariance_double",
                            "c_later_problem_on_reused_solver", "c_block_boundary_size", "c_written_through_kept_references", "c_path_svd", "c_path_cholesky", "c_path_weighted",
                            "a_history_mixing_init_overloads", "c_preconditioner_set_between_solve_and_covariance"],
    "required_oracles": ["a.dRTdAngles_is_matrix_times_vector", "a.R_is_RzRyRx", "b.symmetric", "b.positive_semidefinite",
                         "b.covariance_is_J_C_Jt", "c.covariance_is_v_A_invJtJ_At"],
    "rule": "index mod 3 selects the sub-property: (a) angle triple roll,yaw in [-pi,pi], |pitch| <= pi/2-0.05 incl. zeros, limits "
            "and tiny angles, plus a random vector; (b) pose (position up to 1e3, attitude away from gimbal lock before and after), "
            "rigid transform (any axis, angle up to 3.1 rad, translation up to 1e3), symmetric PSD 6x6 covariance with condition up "
            "to 1e6 incl. rank-deficient and diagonal ones; (c) history of 1..4 full-rank least-squares problems on one solver object (estimate size 1..8, up to 200 rows, stale rows poisoned, SVD / Cholesky / weighted path per problem, "
            "prescribed condition and scale, float/double, Cholesky or SVD path) with a diagonal preconditioner and a data variance; "
            "non-trivial = (a) at least two non-zero angles, (b) non-identity transform and attitude, (c) non-identity preconditioner",
    "level_text": "exploration: 1e4 (quick) / 2e6 (thorough) generated cases per sub-property; the reported derivative matrices "
                  "are compared with 4th-order finite differences of the object's own R(), the transformed pose covariance with "
                  "J C J^T for the finite-difference Jacobian of the library's own operator*, the solver covariance with the "
                  "long-double v A (JtJ)^-1 A^T; mismatches are classified by signature so that the two recorded open findings "
                  "(identity leftovers in the per-axis derivative matrices; the hand-written pose Jacobian) are recognised exactly "
                  "and any other deviation is reported; ASan+UBSan watch the same executions",
    "level_note": ASAN_NOTE,
    "technique": "runtime monitoring: sanitizer build + finite-difference / long-double reference oracles with defect-signature classification",
    "assumptions": ["4th-order central differences with h = 1e-3 resolve the derivatives to ~1e-11 relative; tolerances 1e-8 (a) and 1e-6 (b)",
                    "(b) the documented defective Jacobian is re-implemented in the harness in long double, independent of the library's accessors"],
}
