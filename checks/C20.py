from checks_common import *  # noqa: F401,F403

CHECK = {
    "harness": "c20_bounding.cpp",
    # Interval.hpp and EigenContainers.hpp are header only
    "srcs": BBOX + ["src/pointset/algorithms/PointSetPreconditioner.cpp"],
    "flavours": ["asan"],
    "quick": {"shards": 8, "timeout": 600},
    "thorough": {"shards": 16, "timeout": 3600},
    "required_categories": [
        "scalar_float", "scalar_double",
        "aabb_from_interval", "aabb_inside_dyadic", "aabb_inside_generic",
        "aabb_face_point", "aabb_edge_point", "aabb_corner_point", "aabb_zero_extent",
        "obb_inside_dyadic_axis_rotation", "obb_inside_generic",
        "obb_face_point", "obb_edge_point", "obb_corner_point", "obb_zero_extent", "obb_to_aabb",
        "tiny_length_boxes", "aabb_inside_tiny_lengths", "obb_inside_tiny_lengths", "tiny_zero_extent", "tiny_centre_origin",
        "huge_length_boxes", "aabb_inside_huge_lengths", "obb_inside_huge_lengths", "huge_centre_origin",
        "obb_to_aabb_tiny_lengths", "obb_to_aabb_huge_lengths", "aabb_from_interval_tiny", "aabb_from_interval_huge",
        "box_object_semantics", "preconditioner_object_semantics", "preconditioner_history_2p8", "interval_history_2p8",
        "set_tiny_magnitudes", "set_huge_magnitudes", "set_integer_coordinates", "set_symmetric_pairs",
        "container_four_components",
        "rotation_mode_0", "rotation_mode_1", "rotation_mode_2", "rotation_mode_3", "rotation_mode_4",
        "interval_union", "interval_dim1", "interval_dim2", "interval_dim3",
        "pointset_preconditioner", "set_all_negative", "set_all_positive", "set_fixed_mixed_octant",
        "set_straddling_origin", "set_nonpositive_with_zeros", "set_single_point", "set_500_or_more_points",
        "type_Vector2f", "type_Vector2d", "type_Vector3f", "type_Vector3d",
        "type_HomogeneousCoordinates2f", "type_HomogeneousCoordinates2d",
        "type_HomogeneousCoordinates3f", "type_HomogeneousCoordinates3d",
        "container_of_arrays_min_max_mean", "container_of_matrices_mean",
        "container_VectorOfEigenVector", "container_DequeOfEigenVector", "container_ListOfEigenVector"],
    "required_oracles": [
        "aabb.from_interval.exact", "aabb.from_interval.rel", "aabb.to_interval.exact", "aabb.inside.exact", "aabb.inside.generic",
        "obb.inside.exact", "obb.inside.generic",
        "aabb.inside.tiny.exact", "aabb.inside.tiny.generic", "obb.inside.tiny.exact", "obb.inside.tiny.generic",
        "aabb.inside.huge.exact", "aabb.inside.huge.generic", "obb.inside.huge.exact", "obb.inside.huge.generic",
        "semantics.box.getters_return_what_was_given", "semantics.box.first_observation",
        "semantics.box.copies_behave_as_the_original", "semantics.box.default_constructed",
        "semantics.box.aliased_arguments", "semantics.box.temporaries_give_the_same_answers", "semantics.box.results_stable",
        "semantics.set.first_observation", "semantics.set.copies_behave_as_the_original",
        "semantics.set.aliased_and_temporary_arguments", "semantics.set.long_history", "semantics.set.results_stable",
        "container.repeatable_and_input_untouched",
        "obb2aabb.corners_enclosed", "obb2aabb.faces_touched", "obb2aabb.point_of_obb_inside",
        "interval.union_is_hull", "interval.inside_closed",
        "pointset.min_is_true_minimum", "pointset.max_is_true_maximum", "pointset.mean_vs_centroid",
        "pointset.scale_times_largest_side",
        "container.min_is_true_minimum", "container.max_is_true_maximum", "container.mean_of_arrays",
        "container.mean_of_matrices"],
    "required_counters": ["aabb_exact_on_boundary_checked", "obb_exact_on_boundary_checked",
                          "interval_inside_on_boundary_checked", "aabb_inside_via_interval_ctor",
                          "preconditioner_recomputed_on_used_object", "tiny_exact_outside_checked", "huge_exact_outside_checked",
                          "interval_special_endpoint"],
    "rule": "case = one of {box built from an interval; axis-aligned containment on a dyadic grid (points on faces, edges, "
            "corners, zero extents, one-ulp neighbours of the faces) or with random operands and offsets of 0.5..1e5 ulps from a "
            "face; oriented containment with exact signed-permutation rotations on the grid or with random / multiple-of-45-deg / "
            "tiny-angle rotations; axis-aligned and oriented containment for boxes with tiny lengths (half extents 0, the smallest "
            "denormal, around the smallest normal, or log-uniform 1e-300..1e-3 (double) / 1e-44..1e-3 (float); centre at the "
            "origin, equally tiny, or ordinary; query points displaced from the faces by offsets of the same tiny scales, either "
            "side; verdict exact whenever every operand is representable, e.g. centre at the origin) and with huge lengths (the same "
            "construction with lengths log-uniform 1e3..max/32, max/32 being the magnitude up to which every sum in the unchanged "
            "containment / enclosing-box code stays finite); object semantics of boxes, intervals and the preconditioner (results "
            "bound by const reference re-compared at the end, copy/move construction and assignment, self-assignment, source "
            "overwritten or destroyed, default-constructed objects, arguments aliasing the object's own getters, temporaries, "
            "sibling objects at work in between, 2^8+k and 2^16+k repetitions of Interval::include and of compute() on one "
            "object); magnitudes at the ends of the floating range also for the enclosing box (tiny / up to max/32), for boxes "
            "built from intervals (ends down to the denormals / up to max/2, beyond which upper+lower overflows) and for point "
            "sets (coordinates down to 8 denorm_min / up to max/4096, the limit for the sum of 1000 coordinates and the "
            "reciprocal of the side to stay finite), integer coordinates, +-pairs, interval end points 0, -0, +-denorm_min, "
            "+-min, +-max; enclosing axis-aligned box of an oriented box; union of 2..5 intervals in 1D/2D/3D sharing end "
            "points, with closed-containment queries on and one ulp off the hull; PointSetPreconditioner over the eight point types, "
            "fresh or re-used object, 1..1000 points all-negative / all-positive / fixed mixed octant / straddling / with exact "
            "zeros, clustered far from the origin, identical points, one constant coordinate; min/max/mean of vector/deque/list "
            "of Eigen arrays and mean of Eigen matrices}, float and double, 2D and 3D; non-trivial = everything except double 2D "
            "axis-aligned containment of a point well away from every face (what the unit test samples)",
    "level_text": "exploration: the real bounding-box, interval, container and preconditioner code is executed on 1e6 (quick) / "
                  "5e7 (thorough) generated cases; each answer is compared with the definition evaluated in long double on the "
                  "same operands (brute force over corners / exhaustive scan of the set); containment verdicts are required "
                  "exactly where every intermediate is representable and outside a few-ulp ambiguity band otherwise (skips "
                  "counted); ASan+UBSan and the library's asserts watch the same executions",
    "level_note": ASAN_NOTE,
    "technique": "runtime monitoring: sanitizer build + long-double definitional oracles (brute-force corners, exhaustive "
                 "min/max/mean) over generated boxes, rotations, intervals and point sets",
    "assumptions": ["half extents are non-negative and interval lower <= upper (the documented preconditions; the constructors assert them)",
                    "rotations are proper (det +1) and orthogonal to within the rounding of their entries",
                    "homogeneous points are generated with w == 1 (the unit last coordinate they carry everywhere in the library); "
                    "the extrema/mean are compared on all stored components, sets with w != 1 are outside the workload",
                    "magnitudes stay within 1e-3..1e6 so that no overflow/underflow enters the extents, except in the tiny/huge-length "
                    "classes, whose lengths go down to the denormals and up to the stated limits (the ambiguity band there includes the absolute "
                    "error of underflowing products)",
                    "a zero-size point set (largest side 0) is not asked for a scale (infinite accepted, counted); nor is a set whose "
                    "largest side lies outside [4/max, max/4], where the reciprocal is not a normal number of the scalar type",
                    "getTranslation() is exercised (stability, copies) but its value is not part of the statement",
                    "point sets beyond 1000 points and integer-valued Interval<int> are outside the statement's quantifier",
                    "long double (x87 80-bit) evaluation of the definitions is the reference",
                    "g++ 12 ASan+UBSan runtime; asserts live (no -DNDEBUG)"],
}

# additionally: a reduced workload under valgrind memcheck, for uninitialised-value
# use and invalid accesses that the ASan build cannot see; oracle verdicts are not taken from this
# flavour (valgrind emulates long double with 64 bits), only memcheck's own reports and aborts
CHECK["thorough"]["flavours"] = list(CHECK.get("flavours", ["asan"])) + ["memcheck"]
CHECK["quick"]["flavours"] = list(CHECK.get("flavours", ["asan"])) + ["memcheck"]
CHECK["flavour_cases"] = {"memcheck": {"quick": 5000, "thorough": 80000}}
