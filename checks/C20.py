from checks_common import *  # noqa: F401,F403

CHECK = {
    "harness": "c20_bounding.cpp",
    "srcs": BBOX + ["src/pointset/algorithms/PointSetPreconditioner.cpp"],
    "flavours": ["asan"],
    "quick": {"shards": 4, "timeout": 600},
    "thorough": {"shards": 16, "timeout": 3600},
    "required_categories": [],
    "required_oracles": [],
    "required_counters": [],
    "rule": "tbd",
    "level_text": "tbd",
    "level_note": ASAN_NOTE,
    "technique": "tbd",
    "assumptions": [],
}
