from checks_common import *  # noqa: F401,F403

CHECK = {
    "harness": "c19_concurrency.cpp",
    "srcs": MONITORING + DIAGNOSTICS,
    "flavours": ["tsan", "asan"],
    "no_directed_rounding": True,      # the rounding direction is per thread; the scenarios spawn their own threads
    "quick": {"shards": 4, "timeout": 1200},
    "thorough": {"shards": 8, "timeout": 7200},
    "required_categories": ["scenario_SharedVariable", "scenario_SharedOptionalVariable", "scenario_OnlineAverage",
                            "scenario_OnlineVariance", "scenario_CheckupEqualTo", "scenario_CheckupGreaterThan",
                            "scenario_CheckupLowerThan", "scenario_CheckupReliability", "scenario_CheckupEqualToRate",
                            "scenario_CheckupGreaterThanRate", "scenario_RateMonitoring", "scenario_RateMonitoring_slow_source",
                            "scenario_CheckupEqualToRate_slow_source", "scenario_CheckupGreaterThanRate_slow_source", "scenario_OnlineAverage_concurrent_reset",
                            "scenario_OnlineVariance_concurrent_reset", "readers_1", "readers_8",
                            "producers_4", "optional_constructed_with_value", "optional_constructed_empty", "with_injected_yields", "no_injected_yields"],
    "required_counters": ["scenario_runs_with_overlap", "reader_observed_value_changes", "hook.Checkup::setDiagnostic_",
                          "hook.CheckupRate::evaluate", "hook.CheckupRate::heartBeatCallback",
                          "ops.SharedOptionalVariable::consume(non-empty)", "ops.CheckupEqualToRate::heartBeatCallback(timeout)"],
    "rule": "case = one multi-threaded scenario run: object under test in {SharedVariable<64-byte record>, SharedOptionalVariable, "
            "OnlineAverage, OnlineVariance, CheckupEqualTo/GreaterThan/LowerThan<double>, CheckupReliability, CheckupEqualToRate, "
            "CheckupGreaterThanRate, RateMonitoring} x readers in {1,2,4,8} (optional variable: producers x consumers in {1..4}^2) x "
            "injected-yield probability (0 or 0.1..3 % at the guarded hook points and between operations), 1.2e4 (quick) / 6e4 (thorough) "
            "writer operations per run with free-running readers (and a heartbeat thread for the rate objects); every scenario is run "
            "under ThreadSanitizer and again under ASan+UBSan; non-trivial = run with more than one reader/consumer in which the readers "
            "saw the value change",
    "level_text": "exploration of schedules: 176 (quick) / 1760 (thorough) scenario runs x 2 sanitizer builds, about 1e7 / 5e8 "
                  "operations; ThreadSanitizer's happens-before analysis decides data races for every pair of accesses that executed "
                  "(generalising over all schedules with the same synchronisation); value-level monitors check that every value read is "
                  "one the same calls produce sequentially (untorn records, exactly-once in-order consumption, statistics equal to the "
                  "state after some prefix with non-decreasing prefix per reader, report triples from the sequential table); the "
                  "evidence lists operations per method and how often readers saw a change",
    "level_note": "trusted base: g++ 12.2 TSan/ASan runtimes, std::mutex/std::atomic interception by TSan; a racy pair of methods "
                  "the workload never runs from two threads stays invisible (the op matrix in the evidence shows what ran)",
    "technique": "runtime monitoring: ThreadSanitizer race detection + sequential-table value monitors over stressed multi-threaded scenarios with injected yields",
    "assumptions": ["the sequential reference for a value is the library's own code run single-threaded on the same operation sequence",
                    "for the rate check-ups with a concurrent heartbeat thread, a report copy is checked for internal consistency (status, message class, value belong together)"],
}
