from checks_common import *  # noqa: F401,F403

CHECK = {
    "harness": "c13_grid_index.cpp",
    "srcs": ["src/containers/grid/GridIndexMapping.cpp"],
    "flavours": ["asan"],
    "quick": {"shards": 8, "timeout": 900},
    "thorough": {"shards": 16, "timeout": 5400},
    "required_categories": ["float2", "double2", "float3", "double3",
                            "generic", "multiple", "half_multiple", "tiny", "limits", "mixed", "symmetric",
                            "res_dyadic", "res_decimal", "res_generic",
                            "axis_ge_1e5_cells", "float_axis_ge_5e5_cells",
                            "axis_straddles_zero", "axis_negative_only", "axis_zero_width",
                            "reassigned", "reassigned_from_fresh_temporary", "reassigned_from_source_with_indexes_used",
                            "reassigned_from_source_with_centres_used", "reassigned_from_checked_source",
                            "reassigned_by_move", "reassigned_twice", "reassigned_from_copy_of_itself",
                            "reassigned_target_never_used", "reassigned_target_indexes_used",
                            "reassigned_target_centres_used", "reassigned_target_fully_checked",
                            "reassigned_from_own_getters", "reassigned_after_2p8_history", "reassigned_after_2p16_history",
                            "move_constructed", "value_semantics", "copy_constructed_from_used_object",
                            "copy_assigned_from_used_object", "move_constructed_from_copy_of_used_object",
                            "move_assigned_from_copy_of_used_object",
                            "alias_range_is_resolution", "alias_resolution_is_bound", "own_count_passed_as_axis",
                            "ctor_args_temporaries", "ctor_args_moved",
                            "zero_special", "integer_bounds", "point_origin", "point_equal_components",
                            "related_pair", "related_same_counts_other_resolution", "related_same_origin_other_resolution",
                            "related_same_counts_and_origin_other_resolution",
                            "related_same_counts_and_origin_other_resolution/float2",
                            "related_same_counts_and_origin_other_resolution/double2",
                            "related_same_counts_and_origin_other_resolution/float3",
                            "related_same_counts_and_origin_other_resolution/double3",
                            "related_same_resolution_and_counts_shifted_origin", "related_same_upper_bound_only",
                            "related_identical", "related_per_axis_mixture",
                            "related_symmetric_same_counts_other_resolution",
                            "related_op_assign_temporary", "related_op_copy_assign", "related_op_move_assign",
                            "related_op_assign_after_default_construction", "related_op_alternating_history",
                            "related_op_assign_back"],
    "required_oracles": ["in_bounds", "half_cell", "exact.half_cell", "centre_maps_to_own_index",
                         "spacing", "exact.spacing", "cover", "exact.cover", "cells_have_centres",
                         "resolution_getter", "result_stable", "call_form_independent", "same_as_fresh_object",
                         "source_unaffected_by_copy_use", "copy_survives_source"],
    "required_counters": ["points_checked", "exact_regime_coordinates", "centres_mapped_back",
                          "centre_pairs_checked", "shards_with_ge_90pct_decisive_axes"],
    "rule": "case = one grid: scalar/dimension = case index mod 4 (float2, double2, float3, double3); resolution dyadic "
            "2^-9..2^3, decimal (1e-3 .. 10) or log-uniform in [1e-3,10]; extent by the maximalRange constructor or by an "
            "interval whose axes are generic / exact multiples / half multiples of the resolution (computed in the scalar "
            "type or rounded from the real value) / narrower than one cell (zero width included) / pinned to -1e3 and/or "
            "+1e3 / mixed, placed uniformly, across zero, or at log-spaced distances from zero; per-axis cell counts from 1 "
            "to 2e6 with the product kept <= 1e7; the mapping object is direct-, copy- or default-constructed-then-assigned, "
            "and in 34 % of the cases re-used: after serving nothing / indexes only / centres only / all oracles it is "
            "assigned a second, independently drawn configuration (from a never-queried temporary, from a source whose "
            "indexes or centres were already used, from a fully checked source, by move, twice in a row, or from a copy of "
            "itself, from a mapping built out of references returned by its own getter, or after 2^8+k (1/150 of the cases) / "
            "2^16+k (1/6000, full-size workloads only) alternating assignments followed by as many queries) and all oracles "
            "run again on the same object against the new parameters, plus a bitwise comparison of a fixed probe (counts, "
            "resolution, table fingerprints, indexes and centres of the two extreme corners and the middle) with a freshly "
            "constructed object; 8 % of the cases end with a value-semantics block (copy-construct / copy-assign / "
            "move-construct / move-assign from a copy; full oracles on the copy; source probe unchanged by the use of the "
            "copy; copy's bound references and probe unchanged after the source is overwritten or destroyed; copy == fresh "
            "object); further classes: constructor arguments as named lvalues / temporaries / std::move, one object for "
            "both reference parameters G(x,x), the resolution a reference into the interval's own bound, bounds that are "
            "+0, -0, denormals or the smallest normal, integer bounds with any resolution, points that are +-0 / denormal / "
            "integer / the origin / all components equal; every full check binds the getters' results by const reference at "
            "its start, calls every method in several forms (lvalue, temporary, std::move, Eigen expression, the object's "
            "own cell count as axis argument), builds/uses/assigns/destroys sibling mappings of all four instantiations and "
            "formats numbers on a stream with changed flags in the middle, and re-reads the kept references and repeats the "
            "probe at its end; magnitudes stay inside the statement's quantifier (|bound| <= 1e3, 1e-3 <= res <= 10), which "
            "is far inside the range where the code stays finite, so no empirical magnitude limit applies; 7 % of the cases "
            "take a pair of RELATED configurations through the re-use operations (assignment from a temporary, copy-assign, "
            "move-assign, assignment to a default-constructed-then-assigned object, 2^8+k / 2^16+k alternations between the "
            "two, and back again): on the dyadic lattice res1 = a u, res2 = b u (a != b odd <= 9, u = 2^-7..1), lower bounds "
            "(k + q/4) res, the pair shares exactly -- per relation -- the cell counts only, the snapped origin only "
            "(a(2 k1 - 1) = b(2 k2 - 1)), counts and origin with different resolutions (e.g. [-1,3]^2 at 1 and [0,12]^2 at "
            "3), resolution and counts with a shifted origin, the upper bounds only, everything (identical), counts and "
            "origin on one axis only, or (maximalRange form) the counts with different resolutions; per grid "
            "60 (quick) / 100 (thorough) points of the closed extent: all corners, then per coordinate lo, hi, uniform, "
            "cell borders (table centre +- res/2), centres, k*res and (k+0.5)*res in scalar arithmetic and correctly "
            "rounded, log-spaced offsets 1e-8..2 res from a bound, lattice points (res/4)Z, each with 0..3 nextafter steps, "
            "clamped to the extent; plus 12 index tuples (first, last, alternating, random) mapped to centres and back, and "
            "all (<=200 cells) or 100 sampled consecutive centre pairs per axis; non-trivial = not (resolution 1 with "
            "integer bounds of magnitude <= 3), i.e. not the unit-resolution grid family of the unit tests",
    "level_text": "exploration: the real GridIndexMapping<float|double, 2|3> is built for 1.2e5 (quick) / 2e6 (thorough) "
                  "generated extents and resolutions and queried at 60/100 points each (corners, bounds, cell borders, "
                  "centres, nextafter neighbours, random), a third of the objects being re-assigned a second configuration "
                  "after use and checked again; the statement is evaluated on the returned indexes, centres "
                  "and counts in long double: index < count, |p - centre| <= res/2 (+16 eps S rounding allowance; zero "
                  "allowance when the resolution is a power of two and all operands lie on the res/4 lattice), centres "
                  "map back to their own indexes, consecutive centres differ by res (16 eps S; exactly in the lattice "
                  "regime), first/last cell reach the bounds; ASan+UBSan (float-cast-overflow: a negative quotient cast "
                  "to size_t aborts) and libstdc++/Eigen assertions watch the same executions",
    "level_note": ASAN_NOTE + "; the half-cell allowance 16 eps (max|bound| + 2 res) exceeds res/4 on about 7 % of the "
                  "float axes (|bound|/res > 1.3e5): there an index off by one cell can hide inside the allowance and only "
                  "the in-bounds, centre-round-trip and sanitizer monitors are decisive (counted in the evidence: "
                  "axes_decisive / axes_total, float_axes_decisive / float_axes_total; a shard below 90 % of its float axes makes the run "
                  "inconclusive)",
    "technique": "runtime monitoring: sanitizer build + exact long-double evaluation of the stated relations on the "
                 "library's own outputs over generated grids and points",
    "assumptions": ["'at most 1e7 cells' is honoured in both readings: the product of the per-axis cell counts is <= 1e7 "
                    "(so a 2e6-cell axis is only paired with 1- or 2-cell axes, and the maximalRange form stays below "
                    "3162 (2D) / 215 (3D) cells per axis)",
                    "'the first and last cells cover the extent's bounds' is read as: the first cell's lower edge is <= "
                    "the lower bound and the last cell's upper edge is >= the upper bound (the library snaps centres to "
                    "multiples of the resolution, so the first cell need not contain the lower bound itself)",
                    "a point exactly on a cell border may be given to either adjacent cell (both centres are res/2 away)",
                    "rounding allowance: S = max|bound| + 2 res per axis; forward-error bound of the centre table and of the "
                    "quotient is 3.5 eps S for the half-cell relation and 3 eps S for the spacing (tolerance 16 eps S for both)",
                    "bounds, resolution and points are values of the grid's scalar type; a float resolution 'in [1e-3,10]' "
                    "is the float nearest to the decimal (e.g. 0.001f = 0.00100000005)",
                    "a mapping object that is assigned a new configuration must from then on satisfy the statement for the new "
                    "extent and resolution, whatever it served before (object re-use is a configuration history, not a new property)",
                    "a copy / moved-to / re-assigned mapping answers a fixed probe bit-for-bit like a freshly constructed mapping "
                    "with the same parameters, results do not depend on the value category or aliasing of the arguments, and "
                    "getCellResolution() returns the resolution the mapping was built with (value semantics of a deterministic "
                    "object; the statement's relations alone would also admit a different but self-consistent copy)",
                    "magnitudes beyond the quantifier (|bound| > 1e3, res outside [1e-3,10]) are not generated: outside the statement",
                    "other instantiations (other scalars, DIM 1 or >3) do not exist: the class is explicitly instantiated for "
                    "float/double x 2/3 only in GridIndexMapping.cpp",
                    "g++ 12 ASan+UBSan runtime; asserts live (no -DNDEBUG)"],
}

# additionally: a reduced workload under valgrind memcheck, for uninitialised-value
# use and invalid accesses that the ASan build cannot see; oracle verdicts are not taken from this
# flavour (valgrind emulates long double with 64 bits), only memcheck's own reports and aborts
CHECK["thorough"]["flavours"] = list(CHECK.get("flavours", ["asan"])) + ["memcheck"]
CHECK["quick"]["flavours"] = list(CHECK.get("flavours", ["asan"])) + ["memcheck"]
CHECK["flavour_cases"] = {"memcheck": {"quick": 2000, "thorough": 40000}}
