from checks_common import *  # noqa: F401,F403

CHECK = {
    "harness": "c01_ecef.cpp",
    "srcs": GEODESY,
    "flavours": ["asan"],
    "quick": {"shards": 8, "timeout": 600},
    "thorough": {"shards": 16, "timeout": 3600},
    "required_categories": ["generic", "antimeridian_near", "meridian_exact", "ecef_first",
                            "ellipsoid_sphere", "ellipsoid_random", "ellipsoid_Clarke1880IGN", "ellipsoid_near_sphere",
                            "second_point_of_pair"],
    "required_oracles": ["forward.vs_definition_m", "roundtrip.lon_rad", "ecef_first.roundtrip_m"],
    "required_counters": ["loop_hook_calls"],
    "rule": "case = (ellipsoid, lat, lon, h) drawn from categories {generic, latitude bands at +-89.9/0/45 deg, "
            "exact meridians 0/+-90/+-180 deg and their nextafter neighbours, log-spaced offsets 1e-15..1e-3 rad "
            "from the antimeridian and prime meridian, ECEF-first points with zero/denormal/tiny Y}, heights incl. "
            "-11 km and 100 km, ellipsoids GRS80/Clarke/International/sphere/random(a within 0.1%, f in [0,1/290] incl. log-spaced neighbourhoods of both ends: axes differing by micrometres); every point is followed, on the same converter, by a second point 1 mm..100 km away (call-history independence); "
            "non-trivial = not (GRS80 and |lon|<3 rad and |lat|<60 deg), i.e. outside what the unit tests sample",
    "level_text": "exploration: the real converter is executed on 3e5 (quick) / 5e7 (thorough) generated "
                  "(ellipsoid, lat, lon, h) cases concentrated on the meridians, the antimeridian neighbourhood, the latitude "
                  "limits and the height limits; each result is compared with the long-double definition and round-tripped; "
                  "ASan+UBSan and the library's asserts watch the same executions, an iteration hook watches the latitude loop",
    "level_note": ASAN_NOTE,
    "technique": "runtime monitoring: sanitizer build + long-double reference oracle + round-trip monitors over generated inputs",
    "assumptions": ["long double (x87 80-bit) closed form of the foot point + h*normal is the reference for the forward map",
                    "longitudes compared modulo 2*pi (+pi and -pi denote the same meridian)",
                    "g++ 12 ASan+UBSan runtime; asserts live (no -DNDEBUG)"],
}
