from checks_common import *  # noqa: F401,F403

CHECK = {
    "harness": "c16_window_stats.cpp",
    "srcs": MONITORING,   # OnlineAverage.cpp, OnlineVariance.cpp (+ RateMonitoring.cpp, unused here); the ring is header-only
    "flavours": ["asan"],
    "quick": {"shards": 8, "timeout": 600},
    "thorough": {"shards": 16, "timeout": 3600},
    "required_categories": ["average", "variance", "ring", "exhaustive_small_scope", "exhaustive_average",
                            "exhaustive_variance", "exhaustive_ring", "ctor_then_setWindowSize",
                            "precision_fine_squared_multiplier_over_int32", "precision_m_100000", "precision_m_1000000",
                            "precision_m_1", "ring_capacity_non_pow2", "ring_capacity_pow2",
                            "average_history_wrapped", "average_history_reset_mid_window", "average_history_reset_then_data",
                            "variance_history_wrapped", "variance_history_reset_mid_window", "variance_history_reset_then_data",
                            "ring_history_wrapped", "ring_history_reset_mid_window", "ring_history_reset_then_data",
                            "exh_average_history_reset_mid_window", "exh_variance_history_reset_mid_window",
                            "exh_ring_history_reset_mid_window", "exh_ring_history_wrapped",
                            "ring_append_aliasing_own_entry", "ring_append_permuting_expr_of_evicted_entry",
                            "exh_ring_append_permuting_expr_of_evicted_entry"],
    "required_oracles": ["average.vs_exact_mean", "variance.vs_exact_unbiased", "availability.iff_window_full",
                         "ring.size_is_min_n_capacity", "ring.kth_most_recent"],
    "required_counters": ["average_updates", "average_resets", "variance_updates", "variance_resets",
                          "ring_updates", "ring_resets", "ring_alias_appends", "exhaustive_sequences", "samples_generated"],
    "rule": "case = one object (OnlineAverage W 1..64 | OnlineVariance W 2..64 | RingOfEigenVector capacity 1..16 over "
            "Vector2d/3d/4d/6d/2f/3f) driven through one generated history of update/reset (append/clear) of length 0..10W, "
            "checked against the reference model after EVERY operation; 35 % of the appends on a non-empty ring pass an argument "
            "that aliases the ring's own state -- ring[k] by reference or an unevaluated Eigen expression (reverse, cyclic shift, "
            "-ring[k], ring[k]+ring[j], 2*ring[k], ring[k].reverse()+ring[j]), k = the oldest (evicted) entry 45 % of the time; "
            "the model evaluates the expression on its own copy before the append; precision in {1, .5, .25, .1, .01, 1e-3, 1e-4, 1e-5, "
            "1e-6} (80 %) or {.2, .125, .05, .002, 2e-5, 5e-6}; object built by the (precision, W) constructor or by "
            "(precision) + setWindowSize(W); resets: none | Bernoulli 1/(0.5..4 W) | targeted at n_since_reset in "
            "{0, 1, W-1, W, W+1, 2W-1, 2W, 2W+1, random <= 3W} | bursts of consecutive resets; samples: dyadic (x*m exactly "
            "integer or a multiple of 2^-12 away), uniform in +-A (A log-uniform up to 0.999e8*precision), large offset + "
            "small spread, domain extremes / zeros / denormals / sub-precision values, constant, gaussian, mixed; every "
            "sample has |x|/precision <= 1e8 and x*m either an exact integer or >= 1e-6 away from every non-zero integer; "
            "case indices 0..647 are the small-scope exhaustive part: all 3^7 sequences over {update a, update b, reset} "
            "for W <= 3 (27 sequences per index); non-trivial = the history wraps the window (n > W) or has a reset/clear "
            "after data followed by new data -- the unit test does neither",
    "level_text": "exploration: the real OnlineAverage / OnlineVariance / RingOfEigenVector are driven through 2e4 (quick) / "
                  "5e6 (thorough) generated histories of update/reset (append/clear) plus all 3^7 depth-7 histories for W <= 3; "
                  "after every operation availability, average, variance and every ring entry are compared with a reference "
                  "model that keeps the whole history and recomputes mean and unbiased variance in exact __int128 arithmetic; "
                  "ASan+UBSan (signed overflow of the integer sums and scale factors, float-cast overflow) and libstdc++ "
                  "assertions watch the same executions",
    "level_note": ASAN_NOTE,
    "technique": "runtime monitoring: sanitizer build + executable reference model (full history, exact integer arithmetic) "
                 "checked after every operation of generated and small-scope-exhaustive histories",
    "assumptions": ["'precision' is the reciprocal of an integer m (all generated precisions are); truncated sample = trunc(x*m)/m, "
                    "computed exactly from the mantissa of x; samples within 1e-6 of a non-zero integer multiple of the "
                    "precision (without being one) are not generated, so the truncation is unambiguous",
                    "average tolerance 4 eps |mean| (one rounded division of exact integers), variance tolerance "
                    "16 eps sum(x^2)/(W-1) (conditioning of sum(x^2) - n mean^2; first-order worst case of a direct evaluation is "
                    "4 eps sum(x^2)/(W-1)); neither grows with the history length",
                    "operator[] is only called for k < size(); the average is only read after at least one sample since the last reset; "
                    "setWindowSize only before the first sample; single-threaded (concurrency is C19)",
                    "g++ 12 ASan+UBSan runtime; asserts live (no -DNDEBUG)"],
}

# additionally: a reduced workload under valgrind memcheck, for uninitialised-value
# use and invalid accesses that the ASan build cannot see; oracle verdicts are not taken from this
# flavour (valgrind emulates long double with 64 bits), only memcheck's own reports and aborts
CHECK["thorough"]["flavours"] = list(CHECK.get("flavours", ["asan"])) + ["memcheck"]
CHECK["quick"]["flavours"] = list(CHECK.get("flavours", ["asan"])) + ["memcheck"]
CHECK["flavour_cases"] = {"memcheck": {"quick": 3000, "thorough": 50000}}
