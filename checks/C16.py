from checks_common import *  # noqa: F401,F403

CHECK = {
    "harness": "c16_window_stats.cpp",
    "srcs": MONITORING,   # OnlineAverage.cpp, OnlineVariance.cpp (+ RateMonitoring.cpp, unused here); the ring is header-only
    "flavours": ["asan"],
    "quick": {"shards": 8, "timeout": 600},
    "thorough": {"shards": 16, "timeout": 3600},
    "required_categories": ["average", "variance", "ring", "exhaustive_small_scope", "exhaustive_average",
                            "exhaustive_variance", "exhaustive_ring", "ctor_then_setWindowSize",
                            "precision_fine_squared_multiplier_over_int32", "precision_m_100000", "precision_m_1000000",
                            "precision_m_1", "ring_capacity_non_pow2", "ring_capacity_pow2",
                            "average_history_wrapped", "average_history_reset_mid_window", "average_history_reset_then_data",
                            "variance_history_wrapped", "variance_history_reset_mid_window", "variance_history_reset_then_data",
                            "ring_history_wrapped", "ring_history_reset_mid_window", "ring_history_reset_then_data",
                            "exh_average_history_reset_mid_window", "exh_variance_history_reset_mid_window",
                            "exh_ring_history_reset_mid_window", "exh_ring_history_wrapped",
                            "ring_append_aliasing_own_entry", "ring_append_permuting_expr_of_evicted_entry",
                            "exh_ring_append_permuting_expr_of_evicted_entry",
                            # wave-3 cross-application classes
                            "average_copied_or_assigned_mid_history", "variance_copied_or_assigned_mid_history",
                            "stats_copy_continues_source_destroyed", "stats_copy_discarded_source_continues",
                            "stats_copy_from_rvalue_continues_source_destroyed",
                            "average_window_resized_while_empty", "variance_window_resized_while_empty",
                            "average_setWindowSize_with_own_getter_reference", "variance_setWindowSize_with_own_getter_reference",
                            "average_sibling_object_interleaved", "variance_sibling_object_interleaved",
                            "ring_sibling_object_interleaved",
                            "ring_copy_constructed_continues", "ring_copy_assigned_continues", "ring_move_constructed_continues",
                            "ring_move_assigned_continues", "ring_self_assigned", "ring_copy_discarded_source_continues",
                            "ring_append_reference_from_own_get", "ring_append_rvalue", "ring_references_kept_and_reread",
                            "ring_items_extreme_inf_nan_denormal",
                            "ring_element_type_6", "ring_element_type_7", "ring_element_type_8",
                            "long_history", "long_history_2pow8_plus_k", "long_history_2pow16_plus_k",
                            "long_history_average", "long_history_variance", "long_history_ring",
                            "long_history_shape_0", "long_history_shape_1", "long_history_shape_2"],
    "required_oracles": ["average.vs_exact_mean", "variance.vs_exact_unbiased", "availability.iff_window_full",
                         "ring.size_is_min_n_capacity", "ring.kth_most_recent",
                         "copy.shows_same_as_source", "copy.independent_of_other_object", "stability.shown_state",
                         "ring.copy_holds_same_items", "ring.references_stable", "ring.accessors_consistent"],
    "required_counters": ["average_updates", "average_resets", "variance_updates", "variance_resets",
                          "ring_updates", "ring_resets", "ring_alias_appends", "exhaustive_sequences", "samples_generated",
                          "average_copy_events", "variance_copy_events", "ring_copy_events", "average_window_resizes",
                          "variance_window_resizes", "ring_reference_rereads", "long_history_operations"],
    "rule": "case = one object (OnlineAverage W 1..64 | OnlineVariance W 2..64 | RingOfEigenVector capacity 1..16 over "
            "Vector2d/3d/4d/6d/Xd(5), Vector2f/3f/4f, Vector3i) driven through one generated history of update/reset (append/clear) of length 0..10W, "
            "checked against the reference model after EVERY operation; 35 % of the appends on a non-empty ring pass an argument "
            "that aliases the ring's own state -- ring[k] by reference or an unevaluated Eigen expression (reverse, cyclic shift, "
            "-ring[k], ring[k]+ring[j], 2*ring[k], ring[k].reverse()+ring[j]), k = the oldest (evicted) entry 45 % of the time; "
            "the model evaluates the expression on its own copy before the append; precision in {1, .5, .25, .1, .01, 1e-3, 1e-4, 1e-5, "
            "1e-6} (80 %) or {.2, .125, .05, .002, 2e-5, 5e-6}; object built by the (precision, W) constructor or by "
            "(precision) + setWindowSize(W); resets: none | Bernoulli 1/(0.5..4 W) | targeted at n_since_reset in "
            "{0, 1, W-1, W, W+1, 2W-1, 2W, 2W+1, random <= 3W} | bursts of consecutive resets; samples: dyadic (x*m exactly "
            "integer or a multiple of 2^-12 away), uniform in +-A (A log-uniform up to 0.999e8*precision), large offset + "
            "small spread, domain extremes / zeros / denormals / sub-precision values, constant, gaussian, mixed; every "
            "sample has |x|/precision <= 1e8 and x*m either an exact integer or >= 1e-6 away from every non-zero integer; "
            "case indices 0..647 are the small-scope exhaustive part: all 3^7 sequences over {update a, update b, reset} "
            "for W <= 3 (27 sequences per index); non-trivial = the history wraps the window (n > W) or has a reset/clear "
            "after data followed by new data -- the unit test does neither; "
            "ON TOP of each history, from a separate random stream: update()/append() called with lvalues, prvalues, xvalues and "
            "clobbered locals; setWindowSize(getWindowSize()) mid-history (own member by reference); setWindowSize(W') with "
            "another W' while the window is empty (before the first sample / right after / immediately before a reset), the "
            "model continuing with W'; in 30 % of the histories one copy event at a random operation -- statistics: "
            "copy-construction from an lvalue or an rvalue, then either the copy continues and the source is fed other data, "
            "reset and destroyed, or the copy is abused and dropped; ring: copy-construct / copy-assign over a ring of another "
            "capacity / move-construct / move-assign / self-assign / discarded copy; a sibling object of the same family "
            "(other window, other precision / other capacity) driven between mutation and observation (10 % of operations) "
            "and a temporary third object created and destroyed; references (getWindowSize(), ring[0], ring[size-1]) kept and "
            "re-read; everything shown re-read at the end of the case; ring appends also take ring.get()[slot] / const "
            "get().back(); 10 % of the ring histories carry items with +-max, +-min, denormal, signed-zero, +-inf and NaN "
            "components (bit-exact comparison); 0.6 % of the case indices are long histories: one mutator repeated 2^8+k or "
            "(indices >= 3000 only, the valgrind flavour replays the first 3000) 2^16+k times, k = 0..W+3, before the first "
            "observation -- that many updates/appends, or a few samples then that many resets/clears, or alternating -- then "
            "W+3 observed operations; magnitudes: the statement's own bound |x|/precision <= 1e8 is used (the unchanged "
            "code's 64-bit sum of squares stays defined up to 3.76e8 at W = 64 and overflows -- UBSan -- at 3.77e8)",
    "level_text": "exploration: the real OnlineAverage / OnlineVariance / RingOfEigenVector are driven through 1e5 (quick) / "
                  "5e6 (thorough) generated histories of update/reset (append/clear) plus all 3^7 depth-7 histories for W <= 3; "
                  "after every operation availability, average, variance and every ring entry are compared with a reference "
                  "model that keeps the whole history and recomputes mean and unbiased variance in exact __int128 arithmetic; "
                  "ASan+UBSan (signed overflow of the integer sums and scale factors, float-cast overflow) and libstdc++ "
                  "assertions watch the same executions; the same histories also exercise copies, moves, self-assignment, "
                  "arguments aliasing the object's own state, sibling objects, kept references, window re-configuration on an "
                  "empty window and 2^8 / 2^16-fold repetition of one mutator",
    "level_note": ASAN_NOTE,
    "technique": "runtime monitoring: sanitizer build + executable reference model (full history, exact integer arithmetic) "
                 "checked after every operation of generated and small-scope-exhaustive histories",
    "assumptions": ["'precision' is the reciprocal of an integer m (all generated precisions are); truncated sample = trunc(x*m)/m, "
                    "computed exactly from the mantissa of x; samples within 1e-6 of a non-zero integer multiple of the "
                    "precision (without being one) are not generated, so the truncation is unambiguous",
                    "average tolerance 4 eps |mean| (one rounded division of exact integers), variance tolerance "
                    "16 eps sum(x^2)/(W-1) (conditioning of sum(x^2) - n mean^2; first-order worst case of a direct evaluation is "
                    "4 eps sum(x^2)/(W-1)); neither grows with the history length",
                    "operator[] is only called for k < size(); the average is only read after at least one sample since the last reset; "
                    "single-threaded (concurrency is C19)",
                    "setWindowSize(W') with a different W' is only called while the window is empty (before the first sample, right "
                    "after or immediately before reset()); re-configuring a window that holds samples is outside the statement "
                    "(it does not say which samples the new window should hold; the unchanged code then never becomes available "
                    "again when shrinking and evicts out of order when growing) and is not generated",
                    "the classes have no copy assignment (mutex member) and no move constructor: 'move' construction selects the "
                    "copy constructor; copies are taken single-threaded",
                    "ring references are only required to stay valid across const calls and activity on other objects, not across "
                    "append()/clear() on the same ring; a moved-from ring is only destroyed or assigned to",
                    "long histories exceed the 10 W of the statement's quantifier; they are kept because 'no accumulated drift' "
                    "is exactly about them and the unchanged code passes",
                    "g++ 12 ASan+UBSan runtime; asserts live (no -DNDEBUG)"],
}

# additionally: a reduced workload under valgrind memcheck, for uninitialised-value
# use and invalid accesses that the ASan build cannot see; oracle verdicts are not taken from this
# flavour (valgrind emulates long double with 64 bits), only memcheck's own reports and aborts
CHECK["thorough"]["flavours"] = list(CHECK.get("flavours", ["asan"])) + ["memcheck"]
CHECK["quick"]["flavours"] = list(CHECK.get("flavours", ["asan"])) + ["memcheck"]
CHECK["flavour_cases"] = {"memcheck": {"quick": 3000, "thorough": 50000}}
