from checks_common import *  # noqa: F401,F403

CHECK = {
    "harness": "c02_enu.cpp",
    "srcs": GEODESY,
    "flavours": ["asan"],
    "quick": {"shards": 8, "timeout": 600},
    "thorough": {"shards": 16, "timeout": 3600},
    "required_categories": ["history_random", "history_reset_auto_geodetic", "history_reset_auto_wgs84",
                            "history_reanchor_no_reset", "history_default_auto", "has_reset", "has_reanchor",
                            "auto_anchor_geodetic", "auto_anchor_wgs84", "auto_anchor_after_reset",
                            "reanchor_without_reset", "reanchor_within_1m", "anchor_lon_exact_pi",
                            "anchor_antimeridian_near", "anchor_lat_limit", "anchor_south", "anchor_west",
                            "scalar_overloads", "history_long_setanchor_run", "history_long_conversion_run",
                            "history_long_reset_cycle_run", "value_copy_construct", "value_copy_assign", "value_move_construct",
                            "value_move_assign", "value_self_assign", "value_source_unaffected_by_copy", "argument_aliasing",
                            "auto_anchor_on_own_anchor_reference", "rvalue_arguments", "lvalue_arguments", "far_points",
                            "neighbour_interference", "pair_same_point_twice"],
    "required_oracles": ["state.is_anchored", "anchor.get_anchor", "transform.orthonormal", "transform.det_plus_one",
                         "axes.first_is_east_rad", "axes.second_is_north_rad", "axes.third_is_up_rad",
                         "transform.translation_is_anchor_ecef_m", "origin.anchor_maps_to_zero_m",
                         "origin.auto_anchor_point_m", "above.point_h_above_anchor_m",
                         "distance.enu_to_ecef", "distance.ecef_to_enu",
                         "inverse.enu_ecef_enu_m", "inverse.ecef_enu_ecef_m", "inverse.enu_geodetic_enu_m",
                         "inverse.geodetic_enu_geodetic_m",
                         "model.toENU_geodetic_m", "model.toENU_wgs84_m", "model.toENU_ecef_m", "model.toECEF_m",
                         "model.toWGS84_m", "fresh.same_as_new_converter_m", "oracle.selfcheck",
                         "stability.result_kept", "stability.frame_untouched_by_conversions", "value.copy_equals_source",
                         "value.copy_converts_like_source", "interference.same_result_after_neighbours",
                         "far.finite", "far.toECEF_vs_model_rel", "far.enu_ecef_enu_rel", "far.toENU_vs_model_rel"],
    "required_counters": ["loop_hook_calls", "operations", "conversions", "op_reset", "op_setAnchor",
                          "op_ENUConverter()", "op_ENUConverter(anchor)", "op_toENU(geodetic)", "op_toENU(wgs84)",
                          "op_toENU(ecef)", "op_toECEF", "op_toWGS84", "op_getEnuToEcefTransform",
                          "wgs84_auto_anchor_altitude_adopted",
                          "long_run_setAnchor_calls", "long_run_conversion_calls", "long_run_reset_cycles"],
    "rule": "case = one HISTORY of 5..40 operations on one ENUConverter, drawn from {ENUConverter(), ENUConverter(anchor), "
            "copy, setAnchor, setAnchor(getAnchor()), reset, toENU(geodetic) [auto-anchors when un-anchored], toENU(wgs84) "
            "[idem], toENU(ecef), toECEF (both overloads), toWGS84 (both overloads), isAnchored, getEnuToEcefTransform, "
            "pair-distance, point-above-anchor, anchor-to-origin}, 40% of the histories starting with a scripted prefix "
            "(construct/use/reset/auto-anchor, re-anchor without reset, default-construct/auto-anchor), executed in lock step "
            "with a sequential model {anchored, anchor}; conversions that assert(isAnchored_) are issued only when the model "
            "is anchored; anchors |lat|<=85 deg (uniform, +-85 deg, equator, 45 deg bands), any lon (uniform, exactly +-pi and "
            "nextafter neighbours, log offsets 1e-15..1e-3 rad from +-pi and 0, 0/+-90 deg), h in [-500,9000] m with the ends; "
            "re-anchors far away, 1e-6 m..1 km from an earlier anchor, or back on an earlier anchor; local points <=100 km "
            "horizontally / 10 km vertically incl. zero, axis points (d,0,0),(0,d,0),(0,0,d), the 100 km / 10 km limits and "
            "sub-millimetre points; very long histories on one object (state 2^8 / 2^16 operations wide): the case indices "
            "17 and 4113 modulo 8191 carry, inside such a history, a run of 66000..70000 setAnchor calls alternating between 2-3 "
            "anchors (isAnchored() compared after every call, frame + one conversion every 4096 calls and around the 255..257th / "
            "65535..65537th anchoring since the converter was last un-anchored) resp. 66000..70000 fully checked conversions, "
            "each followed by one pass over every per-operation oracle (300..600 calls under valgrind); index 6000 modulo 8191 carries "
            "33000..35000 cycles of reset() + anchoring (setAnchor / toENU(geodetic) / toENU(wgs84) in turn), flag compared after every "
            "call, frame + conversion every 2048 cycles and around the 128th / 256th / 32768th cycle; "
            "every result of the object under test is bound as returned (decltype(auto)), its value at call time is what the oracles "
            "see, up to 6 are kept and re-read after every later operation, before the object is replaced and at the end of the case; "
            "between two state changes the transform and the anchor must stay bit-identical; value semantics: copy/move construct, "
            "copy/move assign over a target in another state, self-assign, with the source overwritten (reset / re-anchored / "
            "auto-anchored) and destroyed before the history goes on with the copy, and a copy that is used, spoiled and destroyed "
            "while the history goes on with the source; aliasing: setAnchor(getAnchor()), toENU(getAnchor()) anchored and "
            "un-anchored (expected anchor = the value at call time), toENU(base sub-object of getAnchor()), "
            "toENU(getEnuToEcefTransform().translation()), v = toENU(v) / v = toECEF(v), setAnchor(reference into a sibling that "
            "then dies); arguments passed as lvalues, temporaries and std::move'd objects; the same conversion repeated after a "
            "sibling converter, a copy of it, ECEF converters on two ellipsoids and the coordinate stream operators were used; "
            "exact specials: anchor (0,0,0), +-0.0, denormal and 1e-310 latitudes / longitudes / heights / local coordinates, equal "
            "components, whole degrees / radians / metres, powers of two, a pair made of the same point twice; far points: local "
            "points of magnitude 1e5..1e300 m (the unchanged code stays finite up to about 5e307 m), affine conversions only, "
            "checked relative to the magnitude; distinct = 64-bit hash of the operation sequence with all its numeric arguments; "
            "non-trivial = history with >=1 reset or re-anchoring of an anchored converter and >=3 conversions",
    "level_text": "exploration: 1e5 (quick) / 1e6 (thorough) generated operation histories are executed on the real ENUConverter "
                  "in lock step with a sequential model; after every operation isAnchored() is compared with the model, after every "
                  "(re-)anchoring the frame transform is compared with long-double east/north/up directions obtained by numerical "
                  "differentiation of the geodetic->ECEF definition (orthonormality and det=+1 to 16 eps, axes to 1e-9 rad), every conversion is compared "
                  "with the model frame, with its inverse conversions (1 mm) and with a fresh converter anchored at the same place "
                  "(1e-9 m), distances of point pairs are compared across frames; ASan+UBSan and the library's asserts watch the "
                  "same executions; about one history in 4000 contains a run of > 65536 setAnchor calls or conversions on one "
                  "object (counter-width class); results are bound as returned and re-read later (stability), the converter is "
                  "copied / moved / assigned with the source overwritten, arguments alias the converter's own getters, neighbouring "
                  "facilities are used between two identical conversions",
    "level_note": ASAN_NOTE,
    "technique": "runtime monitoring: sanitizer build + lock-step sequential reference model + long-double oracle over generated "
                 "operation histories",
    "assumptions": ["long double (x87 80-bit) foot-point-plus-h*normal definition is the reference geodetic->ECEF map (GRS80 a, b "
                    "as defined by the library's EarthEllipsoid::GRS80); east/north are its normalised 4th-order central differences "
                    "(step 3e-4 rad), up = east x north, self-checked against the ellipsoid normal on every anchoring",
                    "toENU(wgs84) on an anchored converter means the point at the anchor's altitude; on an un-anchored converter "
                    "the statement fixes nothing about the new frame's height, so the model adopts getAnchor().altitude (the "
                    "converter keeps the altitude of the anchor it had before reset(); counted, not alarmed on)",
                    "the transform of an un-anchored converter is not constrained by the statement and is not checked",
                    "absolute comparisons involving the geodetic<->ECEF conversion allow 2 mm (1 mm of C01 plus 1 mm of C02)",
                    "points farther than 100 km / 10 km are outside the statement's quantifier: for them only toECEF / toENU(ecef) are "
                    "exercised (never the geodetic conversions) and only finiteness, the round trip to 64 eps x (|p| + 6.4e6 m) and the "
                    "model to 1e-12 x (|p| + 6.4e6 m) are demanded, under a violation kind of their own (far_point_mismatch)",
                    "a moved-from converter is only destroyed, never used; self-move-assignment is not exercised",
                    "references returned by getAnchor() / getEnuToEcefTransform() are live views of the converter: they are required "
                    "to be unchanged only between two state-changing operations",
                    "g++ 12 ASan+UBSan runtime; asserts live (no -DNDEBUG)"],
}

# additionally: a reduced workload under valgrind memcheck, for uninitialised-value
# use and invalid accesses that the ASan build cannot see; oracle verdicts are not taken from this
# flavour (valgrind emulates long double with 64 bits), only memcheck's own reports and aborts
CHECK["thorough"]["flavours"] = list(CHECK.get("flavours", ["asan"])) + ["memcheck"]
CHECK["quick"]["flavours"] = list(CHECK.get("flavours", ["asan"])) + ["memcheck"]
CHECK["flavour_cases"] = {"memcheck": {"quick": 2000, "thorough": 40000}}
