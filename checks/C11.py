from checks_common import *  # noqa: F401,F403

CHECK = {
    "harness": "c11_pose_reductions.cpp",
    # Pose3D::operator* needs SmartRotation3D; everything else it uses is header-only
    "srcs": GEOMETRY + ["src/transform/SmartRotation3D.cpp"],
    "flavours": ["asan"],
    "quick": {"shards": 8, "timeout": 600},
    "thorough": {"shards": 16, "timeout": 3600},
    "required_categories": ["reduce", "se3", "ellipse",
                            "reduce_cov_spd", "reduce_cov_rankdef", "reduce_cov_illcond", "reduce_cov_givens",
                            "embed_cov_rankdef", "embed_cov_spd",
                            "xf_quaternion", "xf_signed_permutation", "xf_to_near_lock", "xf_small_angle",
                            "att_near_lock", "att_huge", "se3_image_near_lock",
                            "ellipse_cov_rankdef", "ellipse_cov_illcond", "ellipse_cov_givens", "ellipse_cov_isotropic",
                            "ellipse_of_pose", "ellipse_of_position",
                            # cross-application classes (value semantics, aliasing, rvalues, histories, extremes, ties)
                            "reduce_api", "se3_api_copies", "se3_api_rvalues", "se3_api_transform_types",
                            "se3_api_neighbours", "ellipse_api", "history_2^8", "history_2^16",
                            "reduce_history_2^8", "se3_history_2^8", "ellipse_history_2^8",
                            "reduce_extreme_scale", "reduce_negative_zero_cov", "ellipse_extreme_scale",
                            "ellipse_exact_ties", "ellipse_negative_zero_cov", "ellipse_tiny_sigma",
                            "se3_huge_translation", "se3_same_transform_twice", "se3_transform_and_inverse",
                            "se3_image_at_origin"],
    "required_oracles": ["reduce.pose2d.mean", "reduce.pose2d.cov", "reduce.twist2d.mean", "reduce.twist2d.cov",
                         "reduce.poseandtwist2d", "reduce.outparam_overwrites", "reduce.position3d",
                         "reduce.float_selection", "embed.roundtrip",
                         "cov.symmetric_reduced", "cov.symmetric_embedded", "cov.psd_pose2d", "cov.psd_twist2d",
                         "cov.psd_position3d", "cov.psd_embedded",
                         "se3.identity_position", "se3.identity_attitude", "se3.position", "se3.attitude",
                         "se3.compose_position", "se3.compose_attitude",
                         "ellipse.centre", "ellipse.order", "ellipse.reconstruct", "ellipse.accessors",
                         "reduce.long_double_selection", "reduce.api.copy_semantics", "reduce.api.rvalue_arguments",
                         "reduce.api.stable_after_neighbour_calls", "reduce.api.long_history",
                         "reduce.api.inputs_untouched", "reduce.api.results_kept",
                         "se3.api.copy_semantics", "se3.api.rvalue_and_self_assignment", "se3.api.transform_types",
                         "se3.api.stable_after_neighbour_calls", "se3.api.long_history", "se3.history_position_drift",
                         "se3.history_attitude_drift", "se3.api.inputs_untouched",
                         "ellipse.api.copy_semantics", "ellipse.api.aliasing_and_rvalues",
                         "ellipse.api.stable_after_neighbour_calls", "ellipse.api.long_history",
                         "ellipse.api.references_stable", "ellipse.api.inputs_untouched"],
    "required_counters": [],
    "rule": "case = one of three families drawn per index: reduce 30% (Pose3D+Twist3D with components in [-1e4,1e4] "
            "incl. 0, -0.0, +-1e4, 1e-300..1e-6, denormals, DBL_MIN, integers and equal components, attitude >= 1e-3 rad from gimbal lock incl. angles up to 1e4 rad, 6x6 and 3x3 "
            "covariances Q diag(lambda) Q^T built in long double: SPD, rank 1..n-1, diagonal, condition 1e4..1e8, zero, "
            "exact integer Gram matrices, single plane rotations at k*pi/4 +- 1e-12..1e-3, isotropic; lambda_max 1e-8..1e8, in 10% of the cases 1e-290..1e290 (the selection copies and the ellipse's SVD rescales: the unchanged code stays finite over the whole double range, probe); zero off-diagonal entries stored as -0.0 in 10%), "
            "se3 40% (pose as above; rigid transforms A, B from unit quaternions, Euler angles, the 24 signed permutations, "
            "pure translations, angles 1e-9..1e-2, half turns, and rotations steering the image to 1e-3..3e-2 rad from "
            "gimbal lock; translations in [-1e4,1e4] with the same special values, 10% log-spaced up to 1e300 (finite up to ~1e307); A == B, A == B^-1 and T == -R p (image at the origin) 4% each; re-drawn while an image is closer than 1e-3 rad to gimbal lock), "
            "ellipse 30% (2x2 covariances of the same kinds, alone or as the xy block of a 3x3 pose covariance; sigma 1, 10, "
            "integers, uniform (0,10], log-uniform 1e-12..10 and 1e-200..1e-12 ([1e-3,10] with the extreme covariance scales, so that sqrt(lambda)*sigma stays a normal number); 6% exact ties [[a,b],[b,a]] with dyadic a, b in {0, +-a/2, +-a, +-a(1-2^-20)}); in every family a share of the cases re-runs the call on copied / moved / self-assigned / temporary / aliased arguments, after stream output and sibling objects, and after 2^8+k (0.15..0.5%) or 2^16+k (1e-5..5e-5) earlier calls; non-trivial = reduce: pose or twist covariance not "
            "diagonal/zero/isotropic; se3: not (pure translation of a zero attitude); ellipse: not (diagonal/isotropic/zero "
            "covariance with sigma == 1)",
    "level_text": "exploration: the real reductions, the real operator*(Affine3d, Pose3D) and the real uncertaintyEllipse "
                  "are executed on 1e6 (quick) / 3e7 (thorough) generated cases; reduced entries are compared bit for bit "
                  "with the selected (0,1,5) entries (double, float and long double, by-value and out-parameter overloads on pre-filled "
                  "destinations), produced covariances are tested for exact symmetry and lambda_min >= -16 eps trace by a "
                  "long-double Jacobi eigen-solver, the transformed position/attitude are compared with the long-double "
                  "group action (attitude as rotation matrices, tolerance 256 eps / cos pitch, position 256 eps (|p|+|T|)), identity and composition are "
                  "checked on the library's own outputs, ellipses are re-expanded to R diag(a^2,b^2) R^T / sigma^2 and "
                  "compared with the xy covariance (64 eps lambda_max); ASan+UBSan and the live asserts watch the same "
                  "executions; the same calls are repeated on copies, moved-from sources, temporaries, aliased arguments (sigma referring to a member of the pose, accessor references passed back into a constructor), Isometry3d / AffineCompact3d transforms, after stream formatting and sibling objects and after up to 2^16+7 earlier calls, and must give the same bits; references returned by the Ellipse accessors are bound at construction and re-read at the end of the case; pose <- A^-1 (A pose) is iterated 2^7 times against the accumulated rounding budget.  The covariance returned by operator* is not examined here (C12).",
    "level_note": ASAN_NOTE,
    "technique": "runtime monitoring: sanitizer build + long-double definitional oracles (selection, eigenvalues, SE(3) "
                 "action, ellipse re-expansion) over generated poses, covariances, transforms",
    "assumptions": ["attitude convention R = Rz(yaw) Ry(pitch) Rx(roll) (the library's documented Euler order); attitudes "
                    "are compared as rotation matrices, so any representative of the angles is accepted",
                    "a rigid transform is an Eigen::Affine3d whose linear part is a rotation matrix to within a few ulps "
                    "(as produced by quaternion/Euler/angle-axis constructions); the oracle takes that stored matrix as the rotation",
                    "'rank-deficient' covariances are the double roundings of exactly rank-deficient matrices (their zero "
                    "eigenvalues become +-eps*lambda_max); non-zero eigenvalues span less than 1e8",
                    "sigma below 1e-200 is not generated, nor sigma below 1e-3 together with covariance scales outside "
                    "1e-8..1e8: sqrt(lambda)*sigma would be subnormal and the radii lose relative accuracy by underflow, not by a defect",
                    "pose positions below the normal range are compared with an absolute floor of 32 denorm_min (the rounding "
                    "unit there is absolute); pose components beyond 1e4 are outside the quantifier, translations are not",
                    "repeated evaluation of the same call with the same values is required to be bitwise reproducible (same "
                    "binary, same code path)",
                    "g++ 12 ASan+UBSan runtime; asserts live (no -DNDEBUG)"],
}
