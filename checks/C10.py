from checks_common import *  # noqa: F401,F403

CHECK = {
    "harness": "c10_param.cpp",
    # everything else under test is header-only
    "srcs": ["src/transform/SmartRotation3D.cpp"],
    "flavours": ["asan"],
    "quick": {"shards": 8, "timeout": 600},
    "thorough": {"shards": 16, "timeout": 3600},
    "required_categories": [
        "scalar_float", "scalar_double",
        "euler_generic", "euler_pitch_limit", "euler_wrap", "euler_axis_only",
        "rotmat_generic", "rotmat_r20_limit", "quaternion_generic", "quaternion_r20_limit",
        "quaternion_scale_almost_unit", "quaternion_scale_almost_unit_steep_pitch",
        "quaternion_scale_extreme_small", "quaternion_scale_extreme_large", "smart_near_duplicate_reinit",
        "rigid_transformation3", "rigid_transformation3_axis_only", "api_call_semantics", "normaliser_call_semantics", "smart_object_semantics", "smart_argument_aliasing",
        "smart_long_history_2p8", "smart_long_history_2p16",
        "polar_scalar_overloads", "spherical_scalar_overloads", "coordinates_object_semantics",
        "euler_equal_components", "euler_integer", "rotmat_exact_quarter_turns", "quaternion_exact_quarter_turns",
        "normaliser_integer", "rot2d_special_values", "polar_special_values", "spherical_special_values",
        "normaliser_random", "normaliser_multiple_ulps", "normaliser_multiple_near", "normaliser_tiny",
        "rot2d", "polar_generic", "polar_axis", "polar_homogeneous",
        "spherical_generic", "spherical_pole", "spherical_axis", "spherical_homogeneous"],
    "required_oracles": [
        "euler.angles_matrix_angles.d", "euler.angles_matrix_angles.f",
        "euler.angles_quaternion_angles.d", "euler.angles_quaternion_angles.f",
        "rotation.matrix_angles_matrix.d", "rotation.matrix_angles_matrix.f",
        "rotation.quaternion_angles_matrix.d", "rotation.quaternion_angles_matrix.f",
        "rotation.rotation_angles_quaternion.d", "rotation.rotation_angles_smart.d",
        "build.euler_matrix_vs_zyx.d", "build.euler_matrix_vs_zyx.f",
        "build.quaternion_vs_zyx.d", "build.quaternion_vs_zyx.f",
        "build.smart_vs_zyx.d", "build.smart_vs_euler_matrix.d", "build.smart_reinit_near_vs_zyx.d",
        "build.rigid_transformation3_axis_only_vs_zyx.d", "build.rigid_transformation3_axis_only_vs_zyx.f",
        "build.smart_long_history_vs_zyx.d", "smart.value_semantics.d", "smart.copy_identical.d", "smart.argument_aliasing.d",
        "smart.times_vector.d", "smart.times_vector_call_forms.d", "smart.result_stable.d",
        "api.rvalue_equals_lvalue.d", "api.rvalue_equals_lvalue.f", "api.result_over_argument.d", "api.result_over_argument.f",
        "api.same_input_same_result.d", "api.same_input_same_result.f", "api.result_stable.d", "api.result_stable.f",
        "coordinates.rvalue_equals_lvalue.d", "coordinates.rvalue_equals_lvalue.f", "coordinates.result_stable.d",
        "coordinates.result_stable.f", "coordinates.object_semantics.d", "coordinates.object_semantics.f",
        "polar.scalar_overloads_roundtrip.d", "polar.scalar_overloads_roundtrip.f", "polar.same_object_arguments.d",
        "polar.same_object_arguments.f", "spherical.scalar_overloads_roundtrip.d", "spherical.scalar_overloads_roundtrip.f",
        "spherical.same_object_arguments.d", "spherical.same_object_arguments.f",
        "proper.orthonormal.d", "proper.orthonormal.f", "proper.det.d", "proper.det.f",
        "normaliser.0_2pi.congruent.d", "normaliser.0_2pi.congruent.f",
        "normaliser.0_2pi.interval.d", "normaliser.0_2pi.interval.f",
        "normaliser.mpi_pi.congruent.d", "normaliser.mpi_pi.congruent.f",
        "normaliser.mpi_pi.interval.d", "normaliser.mpi_pi.interval.f",
        "rot2d.angle_matrix_angle.d", "rot2d.angle_matrix_angle.f",
        "rot2d.matrix_angle_matrix.d", "rot2d.matrix_angle_matrix.f", "rot2d.proper.d", "rot2d.proper.f",
        "polar.cartesian_polar_cartesian.d", "polar.cartesian_polar_cartesian.f",
        "polar.polar_cartesian_polar.d", "polar.polar_cartesian_polar.f",
        "spherical.cartesian_spherical_cartesian.d", "spherical.cartesian_spherical_cartesian.f",
        "spherical.elevation_back.d", "spherical.elevation_back.f",
        "spherical.azimut_back.d", "spherical.azimut_back.f"],
    "required_counters": ["smart_rotation_fresh", "smart_rotation_reinitialised",
                          "smart_rotation_near_duplicate_reinits", "smart_rotation_reinit_delta_below_1e-5",
                          "normaliser_result_at_upper_end", "spherical_inside_acos_plateau"],
    "rule": "case = (family, Scalar in {float, double}, inputs) with families: Euler angles given (roll, yaw in "
            "(-2pi,2pi): uniform, multiples of pi/2 +-0..3 ulps or +-1e-15..1e-3, tiny/denormal, +-0; |pitch| <= pi/2-1e-3: "
            "uniform, log-spaced band 1e-12..1e-2 below the limit, the limit itself, tiny, +-0; axis-only; the quaternion of the "
            "angles is handed back with the same scale classes; the stateful SmartRotation3D is built fresh, re-initialised from "
            "unrelated angles, and in half of the cases re-initialised 1..3 more times with previous+delta, |delta| log-spaced "
            "1e-15..1e-2 on one, two or three components or exactly 0, checked after every step); rotation "
            "given as a matrix or as a quaternion (scale classes: exactly unit, almost unit = 1+-delta with delta log-spaced "
            "1e-8..1e-2 and drawn more often in the steep-pitch band, norm 1e-3..1e3, extreme norm log-spaced 1e-18..1e-3 / "
            "1e3..1e18 for float and 1e-150..1e-3 / 1e3..1e150 for double incl. the end values; either sign) built in long double from a "
            "random unit quaternion or with R(2,0) log-spaced 1e-12..1e-3 below +-(1-1e-6), rounded to Scalar; normaliser "
            "inputs in (-4pi,4pi): uniform, k*pi/2 (|k|<=8) +-0..3 ulps or +-1e-16..1e-3, +-0, denormals, tiny of either "
            "sign; planar angles like roll; 2D/3D points with norm 1e-6..1e6, uniform direction, on/next to the axes and "
            "coordinate planes, elevation log-spaced 1e-12..1e-2 from either pole, Cartesian and homogeneous containers, in "
            "both directions (point first, polar/spherical coordinates first), in a third of the cases also through the scalar "
            "overloads of PolarTransform/SphericalTransform and with one object for every reference parameter; 5% of the cases "
            "take exact special values (equal angles, integer angles, exact quarter-turn matrices/quaternions with +-0 entries, "
            "integer normaliser inputs, points with equal/integer/opposite components times a power of two); a quarter of the "
            "cases re-do the calls with temporaries/moved arguments, assign results over their own argument, keep results bound "
            "by reference across unrelated calls in both scalar types and sibling objects, and repeat the same input (bit-for-bit "
            "comparisons); 40% of the double Euler cases copy/move/self-assign the SmartRotation3D, overwrite or destroy the "
            "source, re-use the copy, and call init() with arguments aliasing its own R(); 1 case in 2000 / 250000 re-initialises "
            "one object 2^8+k / 2^16+k times (near-duplicate walk, 3-cycle, or constant) before observing; "
            "non-trivial = not (axis-only rotation) and not (double normaliser input already inside (0.01, pi-0.01)) and "
            "not (zero planar angle) and not (generic double Cartesian point well away from the poles), i.e. outside what "
            "the unit tests sample",
    "level_text": "exploration: the real conversion functions are executed on 2e6 (quick) / 6e7 (thorough) generated inputs "
                  "concentrated on the wrap-around points, the pitch / R(2,0) limits, the interval ends of the normalisers, "
                  "the poles and the axes, in float and double; every result is compared with the long-double definition "
                  "(Rz*Ry*Rx, Hamilton product, remainder modulo 2*pi) or with the input of the round trip under a "
                  "conditioning-aware rounding bound; ASan+UBSan and the library's asserts watch the same executions",
    "level_note": ASAN_NOTE,
    "technique": "runtime monitoring: sanitizer build + long-double reference oracle + round-trip monitors over generated inputs",
    "assumptions": [
        "long double (x87 80-bit) Rz*Ry*Rx / qz*qy*qx is the reference for 'the Z-Y-X rotation'",
        "'to rounding' = K*eps(Scalar)*conditioning: K=16 quaternion coefficients, SmartRotation3D::R entries and the well "
        "conditioned part of the coordinate round trips; 48 entries of a matrix obtained through the quaternion and 96 its "
        "orthonormality/determinant defect (a quaternion product with squared norm 1+e, |e|<=16 eps, gives R+e(R-I): distance "
        "<= 2 sqrt2 |e|, ||MM^T-I|| <= 4 sqrt2 |e|); 48/cos(pitch) extracted angles, 64/cos(pitch) rotation->angles->rotation; "
        "32 normaliser congruence and the 2D pair; spherical round trip r*(16 eps + min(2D/sin(el), sqrt(2D))), D=32 eps "
        "(conditioning of the acos-based elevation: about 1e-7*r next to the polar axis in double, 4e-3*r in float)",
        "normaliser intervals are closed ([0,2pi], [-pi,pi]); a float result may be the float nearest to the end point "
        "(one float ulp above it)",
        "a quaternion input is in the domain when the rotation it denotes has |R(2,0)| <= 1-1e-6 (same limit as for "
        "matrices); norms log-spaced over what normalized() can represent (|q|^2 finite and normal): "
        "1e-18..1e18 float, 1e-150..1e150 double",
        "the azimuth/elevation conventions of the polar/spherical maps and the sign convention of the 2x2 pair are not part "
        "of the statement and are not checked",
        "rigid_transformation3 (Transformation.hpp) is not among the conversions the statement names and has no inverse: only "
        "what holds for every produced matrix is demanded of it (proper rotation, affine last row) plus agreement with Z-Y-X "
        "when at most one angle is non-zero; for generic angles it composes Rx*Ry*Rz (X-Y-Z), which is NOT the Z-Y-X rotation of "
        "the other builders -- reported to the maintainers of the property list, not raised as a violation",
        "SmartRotation3D::dRTdAngles and the dRdAngle* getters are only compared bit-for-bit between a copy and a fresh object "
        "(value semantics); their values are property C12's",
        "bit-for-bit reproducibility of a pure function on identical inputs within one process is assumed legitimate to demand "
        "(fixed-size Eigen types, no runtime-dependent code paths)",
        "g++ 12 ASan+UBSan runtime; asserts live (no -DNDEBUG)"],
}
