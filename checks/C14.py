from checks_common import *  # noqa: F401,F403

CHECK = {
    "harness": "c14_raycast.cpp",
    "srcs": GRID,
    "flavours": ["asan"],
    "quick": {"shards": 8, "timeout": 900},
    "thorough": {"shards": 16, "timeout": 7200},
    "required_categories": ["f2", "d2", "f3", "d3", "ctor_symmetric_range", "ctor_interval", "res_dyadic",
                            "grid_1000_to_2000_cells", "grid_offset_from_frame_origin",
                            "ray_generic", "ray_coincident", "ray_same_cell", "ray_axis_aligned", "ray_planar",
                            "ray_diagonal", "ray_diagonal_dyadic", "ray_near_axis", "ray_extent_corners",
                            "ray_reverse", "ray_border_end",
                            "api_cast_o_e", "api_setorigin_cast_e", "api_cast_e_keep_origin",
                            "api_setorigin_setend_cast", "api_next_loop",
                            "api_alias_cast_getend_q", "api_alias_cast_p_getorigin", "api_alias_cast_getend_getorigin",
                            "api_alias_cast_getorigin_getend", "api_alias_cast_getend", "api_alias_cast_getorigin",
                            "api_alias_setend_getorigin_cast", "api_alias_setorigin_getend_cast_q",
                            "disturb_stray_next", "disturb_stale_cast", "disturb_setend_only",
                            "disturb_setorigin_only",
                            "grid_change_set_mapping", "grid_change_reassign_object",
                            "same_origin_after_grid_change",
                            "disturb_caster_copied_or_moved", "disturb_same_grid_set_again",
                            "disturb_mutator_repeated_2p8_plus_k", "disturb_mutator_repeated_2p16_plus_k",
                            "value_copy_construct", "value_copy_assign", "value_move_construct", "value_move_assign",
                            "value_self_assign", "value_copy_used_source_kept",
                            "value_op_between_setend_and_traversal", "interference_between_setend_and_traversal",
                            "interrupted_in_the_middle_of_next_loop", "interference_after_cast",
                            "arguments_as_temporaries", "same_object_for_both_arguments",
                            "grid_beyond_1e5_cells_from_frame_origin", "grid_default_constructed_then_assigned",
                            "point_with_zero_or_denormal_coordinate"],
    "required_oracles": ["history.equals_fresh_caster", "result.kept_rays_unchanged", "alias.equals_cast_of_copied_values", "accessors", "length.l1_plus_1", "start.cell_of_origin",
                         "start.contains_origin_cells", "in_bounds", "steps.face_adjacent",
                         "segment.cell_gap_cells", "end.closed_extent_cells", "end.own_cell"],
    "required_counters": ["casts", "value_semantics_steps", "interference_steps", "long_repetitions", "casts_with_aliased_arguments", "casts_right_after_grid_change", "history_compared_on_reused_caster", "cells_checked_against_segment",
                          "float_rays_segment_checked"],
    "rule": "case = one grid (float/double x 2D/3D drawn per case; resolution from {0.1, 0.125, 0.01, 1, 0.5, 0.25, "
            "0.05, 0.2, 1/16, 1/64} or log-uniform in [0.01,1]; 1..2000 cells per axis; range constructor or interval "
            "constructor with per-axis bounds that contain the frame origin, start/end at it, are multiples of the "
            "resolution, are offset up to |bound| = 1000, or (6 % of the interval axes) lie far from the frame origin with |bound| "
            "log-spaced from 1e3 up to 1e6 cells (float) / 1e13 cells (double) - the unchanged mapping stays consistent "
            "up to about 8e6 / 1e15 cells, where one ulp of a coordinate reaches a cell; 20 % of the mappings are "
            "default-constructed and receive their grid by assignment) plus a sequence of 3..20 (quick) / 3..30 (thorough) casts on "
            "ONE caster; per cast the points are drawn per axis from {uniform, cell centre, cell border and its "
            "nextafter neighbours, extent bound, k*res and (k+1/2)*res, 1e-7..1e-2 cell from a centre/border, special values 0 / -0 / +-denorm_min / +-smallest normal / +-1 / an "
            "integer (clamped into the extent)}, 4 % of the points with all components equal, and the ray "
            "from {generic, coincident, same cell, axis aligned, one zero component, exact diagonal from a "
            "centre/border (corner ties on dyadic resolutions), all-but-one component tiny, extent corner to corner, "
            "reverse of the previous ray, end on borders/corners}; the cast goes through one of cast(o,e) / "
            "setOriginPoint+cast(e) / cast(e) keeping the origin / setOriginPoint+setEndPoint+cast() / the manual "
            "next() loop, or (25 % of the casts that follow a cast on the same grid) a call whose arguments are references "
            "to the caster's own points: cast(getEndPoint(), q), cast(p, getOriginPoint()), cast(getEndPoint(), "
            "getOriginPoint()), cast(getOriginPoint(), getEndPoint()), cast(getEndPoint()), cast(getOriginPoint()), "
            "setEndPoint(getOriginPoint())+cast(), setOriginPoint(getEndPoint())+cast(q), the expected ray being the one "
            "between the values the references had at the call; each after one of {nothing, 1..40 stray next(), a stale cast(), setEndPoint only, setOriginPoint "
            "only}; with probability 0.12 between two casts the grid seen by the caster changes (setGridIndexMapping "
            "to a second mapping, or a new mapping assigned to the pointed-to object: same bounds with another "
            "resolution, perturbed bounds, or an unrelated grid) and the next cast specifies its origin, 65 % of the "
            "time the bit-identical origin of the previous cast (clamped into the new extent); also between casts, or between setEndPoint and the traversal, or "
            "in the middle of a next() loop: the caster is copy-constructed / copy-assigned over a used caster / "
            "move-constructed / move-assigned (source then overwritten with another ray and destroyed), self-assigned, or "
            "copied with the copy used for other rays while the source goes on; sibling casters on the same and on the "
            "other grid, stream formatting and mapping queries run in between; the same grid pointer is set again; "
            "30 % of the regular calls pass temporaries or std::move'd points, coincident cast(o,e) passes one object "
            "twice; 0.5 % / 0.1 % of the casts are preceded by 2^8+k / 2^16+k repetitions (k in 0..3) of next(), "
            "setEndPoint, setOriginPoint or a one-cell cast; returned rays are bound as returned and re-hashed at the end "
            "of the case, getter references are bound after the cast and read after other objects were used; non-trivial = not (double 2D range-constructor grid with only generic rays and no disturbance), "
            "i.e. outside what the unit tests cast",
    "level_text": "exploration: the real ray caster is executed on 2e4 (quick) / 8e5 (thorough) generated grids with "
                  "~12 / ~17 casts each on one reused caster; every returned cell sequence is checked exactly (first cell, "
                  "L1+1 cells, face-adjacent steps, in-bounds indexes, accessors, bitwise equality with a fresh caster) and "
                  "geometrically in long double (each visited cell's closed extent meets the segment, last cell contains the "
                  "end point, own cell when the end point is clear of the borders) under the incremental-DDA allowance "
                  "eps*(8*Ncoord + j^2/2) cells; ASan+UBSan (float-cast-overflow included), libstdc++ and Eigen assertions "
                  "watch the same executions",
    "level_note": ASAN_NOTE,
    "technique": "runtime monitoring: sanitizer build + exact combinatorial monitors + long-double slab-test oracle + "
                 "fresh-object differential for history independence, over generated grids and cast sequences",
    "assumptions": ["grid geometry (cell centre table, resolution, cell counts, computeCellIndexes) is taken from "
                    "GridIndexMapping, whose own correctness is property C13",
                    "geometric sub-checks allow eps(Scalar)*(8*Ncoord + j^2/2) cells after j traversal steps (Ncoord = "
                    "max(cells per axis, max|bound|/res)): rounding of the incremental tMax += tDelta traversal and of the "
                    "cell-centre table is not counted as leaving the segment; sub-checks whose allowance exceeds 1/4 cell "
                    "(float rays beyond ~2000 steps) are reported as skipped, the exact sub-checks still apply to them",
                    "cast() without arguments on a caster whose end point was not set since the last traversal is outside "
                    "the history clause (the statement covers casts that specify their end point); it is only used as a "
                    "disturbance",
                    "after the grid seen by the caster changed, the first cast specifies its origin (cast(o,e) or "
                    "setOriginPoint first); cast(e) / setEndPoint relying on an origin given under the previous grid are "
                    "not exercised",
                    "grids farther from the frame origin than 1e6 (float) / 1e13 (double) cells are not generated: beyond "
                    "~8e6 / ~1e15 cells one ulp of a coordinate is a cell or more and GridIndexMapping itself returns indexes "
                    "outside its cell count (its validity is property C13's subject), which the caster then uses",
                    "self move-assignment of a caster and use of a moved-from caster without re-specifying origin and end "
                    "are not exercised (unspecified for any C++ value type)",
                    "points are drawn inside the closed interval given to the grid constructor",
                    "g++ 12 ASan+UBSan runtime; asserts live (no -DNDEBUG)"],
}

# additionally: a reduced workload under valgrind memcheck, for uninitialised-value
# use and invalid accesses that the ASan build cannot see; oracle verdicts are not taken from this
# flavour (valgrind emulates long double with 64 bits), only memcheck's own reports and aborts
CHECK["thorough"]["flavours"] = list(CHECK.get("flavours", ["asan"])) + ["memcheck"]
CHECK["quick"]["flavours"] = list(CHECK.get("flavours", ["asan"])) + ["memcheck"]
CHECK["flavour_cases"] = {"memcheck": {"quick": 600, "thorough": 8000}}
