from checks_common import *  # noqa: F401,F403

CHECK = {
    "harness": "c08_kdtree.cpp",
    "srcs": ["src/pointset/KdTree.cpp"],
    "flavours": ["asan"],
    "quick": {"shards": 8, "timeout": 900},
    "thorough": {"shards": 16, "timeout": 3600},
    "required_categories": [
        "type_Vector2f", "type_Vector2d", "type_Vector3f", "type_Vector3d",
        "type_Homogeneous2f", "type_Homogeneous2d", "type_Homogeneous3f", "type_Homogeneous3d",
        "set_uniform", "set_clustered", "set_collinear", "set_coplanar", "set_lattice", "set_identical",
        "set_duplicates", "set_multiscale", "set_large_offset",
        "n_1", "n_2_9_below_leaf", "n_10_11_leaf_boundary", "n_12_200", "n_201_2000", "n_2001_5000",
        "query_inside", "query_on_data_point", "query_near_data_point", "query_far_outside", "query_outside",
        "query_bbox_corner_face", "query_midpoint_tie", "query_extreme_far"],
    "required_oracles": ["knn.index_in_range", "knn.indices_distinct", "knn.ascending",
                         "knn.distance_of_indexed_point", "knn.jth_distance_vs_bruteforce",
                         "nn.index_in_range", "nn.distance_of_indexed_point", "nn.distance_vs_bruteforce"],
    "required_counters": ["queries", "knn_outputs_checked", "queries_with_tie_at_kth_boundary",
                          "queries_with_exact_ties_among_k_plus_1", "queries_at_zero_distance",
                          "queries_with_reused_buffers", "sets_with_exact_duplicates",
                          "queries_with_all_sqdist_above_2pow64"],
    "rule": "case = one point set + 40 queries. Point type drawn from the 8 types (homogeneous w = 1); n from "
            "{1, 2..9 (< leaf size), 10..11, 12..200, 201..2000, 2001..5000 (5000 itself included)}; set from {uniform box, "
            "1..6 Gaussian clusters, collinear (axis-aligned exact / oblique), coplanar or axis-degenerate, integer lattice "
            "1..7 cells per axis (exact duplicates and ties), all identical, uniform with exact duplicates, nested multiscale "
            "clusters}, scale log-uniform 1e-3..1e3, centre 0 / +-10 / +-1e3 scales / dyadic / unit-spaced set translated by 1e5..1e9 per axis; query from {inside the box, "
            "exactly a data point, a data point moved by 0..3 ulps or 1e-6..1e-2 extents, 1e3..2e3 extents outside along an "
            "axis / the set's line / a box diagonal / a random direction, 0.6..100 extents outside, box corners-faces-centre, "
            "midpoint of two data points (exact tie), absolute distance log-uniform 1e3..1e16 from the set (squared distances up to "
            "~1e32, beyond 2^64)}; k from {1, min(n,50), uniform 1..min(n,50)}; output buffers "
            "caller-sized (capacity == k) and either sentinel-filled or left holding the previous query's results; "
            "non-trivial = n > 10 (a tree with at least one split; every case has queries that are not data points)",
    "level_text": "exploration: the real KdTree (all 8 point-type instantiations, vendored nanoflann index) is built on "
                  "6e3 (quick) / 1e5 (thorough) generated point sets of 1..5000 points and queried 40 times each "
                  "(2.4e5 / 4e6 k-nearest + as many single-nearest queries); every returned index and squared distance is "
                  "compared with an exhaustive long-double scan: indices in range and distinct, distances ascending, each "
                  "distance that of the indexed point, j-th distance the j-th smallest; ASan+UBSan and live asserts watch "
                  "the caller-sized heap result buffers during the same executions",
    "level_note": ASAN_NOTE,
    "technique": "runtime monitoring: sanitizer build + brute-force long-double reference oracle over generated point sets and queries",
    "assumptions": [
        "Euclidean distance over the Cartesian coordinates; homogeneous points and queries carry w = 1 exactly",
        "'exactly the k smallest' is read to rounding of the point type's Scalar: reported distance within 2(DIM+2) eps of "
        "the indexed point's true squared distance (4x the a-priori bound of the evaluation), j-th reported distance within "
        "16 eps of the j-th smallest true one; ties may be returned in any order",
        "finite coordinates, no overflow of squared distances in float (|coordinates| <= ~1e16, squared distances < ~3e32), "
        "1 <= k <= min(n, 50), n >= 1",
        "g++ 12 ASan+UBSan runtime; asserts live (no -DNDEBUG)"],
}

# additionally: a reduced workload under valgrind memcheck, for uninitialised-value
# use and invalid accesses that the ASan build cannot see; oracle verdicts are not taken from this
# flavour (valgrind emulates long double with 64 bits), only memcheck's own reports and aborts
CHECK["thorough"]["flavours"] = list(CHECK.get("flavours", ["asan"])) + ["memcheck"]
CHECK["quick"]["flavours"] = list(CHECK.get("flavours", ["asan"])) + ["memcheck"]
CHECK["flavour_cases"] = {"memcheck": {"quick": 80, "thorough": 1200}}
