from checks_common import *  # noqa: F401,F403

CHECK = {
    "harness": "c08_kdtree.cpp",
    "srcs": ["src/pointset/KdTree.cpp"],
    "flavours": ["asan"],
    "quick": {"shards": 8, "timeout": 900},
    "thorough": {"shards": 16, "timeout": 3600},
    "required_categories": [
        "type_Vector2f", "type_Vector2d", "type_Vector3f", "type_Vector3d",
        "type_Homogeneous2f", "type_Homogeneous2d", "type_Homogeneous3f", "type_Homogeneous3d",
        "set_uniform", "set_clustered", "set_collinear", "set_coplanar", "set_lattice", "set_identical",
        "set_duplicates", "set_multiscale", "set_special_values", "set_jittered_lattice", "set_large_offset", "set_tiny_scale",
        "realloc_copy_and_swap", "realloc_shrink_to_fit", "realloc_reserve_bigger", "realloc_swap_old_block_kept",
        "realloc_swap_old_block_overwritten", "realloc_move_assign_from_copy",
        "realloc_between_build_and_first_query", "realloc_between_two_queries",
        "n_1", "n_2_9_below_leaf", "n_10_11_leaf_boundary", "n_12_200", "n_201_2000", "n_2001_5000",
        "query_inside", "query_on_data_point", "query_near_data_point", "query_far_outside", "query_outside",
        "query_bbox_corner_face", "query_midpoint_tie", "query_extreme_far", "query_special_point",
        "call_lvalue", "call_temporaries_const_object", "call_moved_query", "call_query_is_dataset_element",
        "call_k_aliases_index_buffer", "call_lvalue_const_object",
        "sibling_index_same_type", "history_2pow8_plus_calls", "history_2pow16_plus_calls"],
    "required_oracles": ["knn.index_in_range", "knn.indices_distinct", "knn.ascending",
                         "knn.distance_of_indexed_point", "knn.jth_distance_vs_bruteforce",
                         "nn.index_in_range", "nn.distance_of_indexed_point", "nn.distance_vs_bruteforce",
                         "stability.kept_outputs_unchanged", "stability.requery_same_distances"],
    "required_counters": ["queries", "knn_outputs_checked", "queries_with_tie_at_kth_boundary",
                          "queries_with_exact_ties_among_k_plus_1", "queries_at_zero_distance",
                          "queries_with_reused_buffers", "sets_with_exact_duplicates",
                          "queries_with_all_sqdist_above_2pow64", "sibling_queries", "sibling_destroyed_mid_case",
                          "history_calls", "reallocations_that_changed_the_buffer_address"],
    "rule": "case = one point set + 40 queries. Point type drawn from the 8 types (homogeneous w = 1); n from "
            "{1, 2..9 (< leaf size), 10..11, 12..200, 201..2000, 2001..5000 (5000 itself included)}; set from {uniform box, "
            "1..6 Gaussian clusters, collinear (axis-aligned exact / oblique), coplanar or axis-degenerate, integer lattice "
            "1..7 cells per axis (exact duplicates and ties), all identical, uniform with exact duplicates, nested multiscale "
            "clusters, special values (+0, -0, +-1, +-2, 0.5, 3, 4, +-denorm_min, min normal; 30% with equal components), lattice of 1..24 cells per axis or regularly sampled segment "
            "with a jitter of 1e-12..1e-8 steps (near ties far above a double's rounding and far below a float's epsilon)}, scale log-uniform 1e-3..1e3, centre 0 / +-10 / +-1e3 scales / dyadic / unit-spaced set translated by 1e5..1e9 per axis / tiny extents "
            "log-uniform from 1e-15 (float) or 1e-150 (double) to 1e-6 (the smallest decades where squared neighbour distances are still "
            "normal numbers; below, the underflow floor DIM*min-normal makes the value oracles vacuous); query from {inside the box, "
            "exactly a data point, a data point moved by 0..3 ulps or 1e-6..1e-2 extents, 1e3..2e3 extents outside along an "
            "axis / the set's line / a box diagonal / a random direction, 0.6..100 extents outside, box corners-faces-centre, "
            "midpoint of two data points (exact tie), absolute distance log-uniform from 1e3 to 1e18 (float) / 1e150 (double) from the set "
            "(the last decades for which DIM*distance^2 is finite in the Scalar: FLT_MAX 3.4e38, DBL_MAX 1.8e308; beyond, the unchanged "
            "code returns inf), exact special points (origin with signed zeros, equal components, integer coordinates, the previous "
            "query again)}; k from {1, min(n,50), uniform 1..min(n,50)}; output buffers "
            "caller-sized (capacity == k) and either sentinel-filled or left holding the previous query's results; call form from {lvalues, temporaries through a "
            "const object, std::move'd query, the query being an element of the indexed set passed by reference, k read through a reference "
            "into the index output buffer, lvalues through a const object}; half of the cases keep a second index of the same type over "
            "1..40 points (random / same coordinates / translated) that is queried (and checked) between the queries and is sometimes "
            "destroyed mid-case; in 35% of the cases the caller's point set gets a new buffer with "
            "the same points in the same order, between the build and the first query or between two queries (30% of those twice), by "
            "{copy-and-swap (old block freed), shrink_to_fit after an earlier reserve, reserve(2*capacity+16), swap with an equal copy "
            "whose vector is kept alive, the same with the old block then overwritten with other coordinates, move-assignment from a "
            "copy}, the oracle scanning the current contents; the first query's output buffers are kept untouched and re-compared at the end and the first query is "
            "repeated at the end; 3% of the cases with n <= 200 first make 2^8+j, 0.5% 2^16+j calls of one of the two queries "
            "(j = -40..3, so that call number 2^8 / 2^16 on the object is one of the observed ones or just precedes them); "
            "non-trivial = n > 10 (a tree with at least one split; every case has queries that are not data points)",
    "level_text": "exploration: the real KdTree (all 8 point-type instantiations, vendored nanoflann index) is built on "
                  "1.2e4 (quick) / 1e5 (thorough) generated point sets of 1..5000 points and queried 41 times each "
                  "(4.9e5 / 4.1e6 k-nearest + as many single-nearest queries, in every call form the signatures admit, interleaved "
                  "with queries on a sibling index and preceded in a small share of cases by 2^8 / 2^16 calls); every returned index and squared distance is "
                  "compared with an exhaustive long-double scan: indices in range and distinct, distances ascending, each "
                  "distance that of the indexed point, j-th distance the j-th smallest, earlier results unchanged by later calls; ASan+UBSan and live asserts watch "
                  "the caller-sized heap result buffers during the same executions",
    "level_note": ASAN_NOTE,
    "technique": "runtime monitoring: sanitizer build + brute-force long-double reference oracle over generated point sets and queries",
    "assumptions": [
        "Euclidean distance over the Cartesian coordinates; homogeneous points and queries carry w = 1 exactly",
        "'exactly the k smallest' is read to rounding of the point type's Scalar: reported distance within 2(DIM+2) eps of "
        "the indexed point's true squared distance (4x the a-priori bound of the evaluation), j-th reported distance within "
        "16 eps of the j-th smallest true one; ties may be returned in any order",
        "finite coordinates, no overflow of squared distances in the Scalar (|coordinates| <= ~1e18 float, ~1e150 double), "
        "1 <= k <= min(n, 50), n >= 1",
        "the point set OBJECT outlives the index and its points, count and order are not modified while the index exists (KdTree keeps a "
        "reference to the vector and has no rvalue overload: a temporary point set would dangle; lifetime contract, outside the "
        "statement); the vector's buffer may be re-allocated at any time (same points => same answers)",
        "the outputs do not overlap the query: findNearestNeighbor(Q, i, Q[0]) writes its 'not found yet' sentinel (max) through the "
        "distance reference before it reads the query and then finds nothing; writing an output over a const input is treated as "
        "a caller error (Eigen aliasing convention), not as a point of the statement's quantifier. Aliasing that leaves the "
        "inputs intact (k referring into the index buffer, query referring into the indexed set) is exercised",
        "KdTree is neither copyable nor movable (static fact, re-checked at compile time by the harness: if it becomes so, the copy "
        "is used after the source is destroyed); radiusResearch is outside the statement",
        "g++ 12 ASan+UBSan runtime; asserts live (no -DNDEBUG)"],
}

# additionally: a reduced workload under valgrind memcheck, for uninitialised-value
# use and invalid accesses that the ASan build cannot see; oracle verdicts are not taken from this
# flavour (valgrind emulates long double with 64 bits), only memcheck's own reports and aborts
CHECK["thorough"]["flavours"] = list(CHECK.get("flavours", ["asan"])) + ["memcheck"]
CHECK["quick"]["flavours"] = list(CHECK.get("flavours", ["asan"])) + ["memcheck"]
CHECK["flavour_cases"] = {"memcheck": {"quick": 80, "thorough": 1200}}
