from checks_common import *  # noqa: F401,F403

CHECK = {
    "harness": "c05_p2plane.cpp",
    "srcs": ["src/transform/estimation/FindRigidTransformationByLeastSquares.cpp",
             "src/regression/leastsquares/LeastSquares.cpp",
             "src/pointset/algorithms/PreconditionedPointSet.cpp",
             "src/pointset/algorithms/PointSetPreconditioner.cpp",
             "src/pointset/algorithms/Correspondence.cpp"],
    "flavours": ["asan"],
    "quick": {"shards": 8, "timeout": 900},
    "thorough": {"shards": 16, "timeout": 3600},
    "required_categories": ["unreferenced_points_far_from_the_registered_subset", "correspondences_with_arbitrary_distance_and_weight_fields", "types_2f_cart+hom", "types_2d_cart+hom", "types_3f_cart+hom", "types_3d_cart+hom",
                            "normals_random", "normals_room", "normals_noisy_room", "motion_pure_translation",
                            "motion_small_rotation", "motion_noisy", "corr_subset", "corr_permuted",
                            "second_problem_mirror_last_axis", "second_problem_new_targets_same_geometry", "normal_w_m1", "normal_w_0", "normal_w_p1", "accepted"],
    "required_oracles": ["structure.identity_plus_skew", "normal_equations", "normal_equations.precond",
                         "recovers_pure_translation", "second_related_problem.normal_equations", "aliased_source_and_target", "recovers_rotation_O(theta^2)", "variants_agree"],
    "rule": "case = (dim 2/3, float/double, n=6..500 correspondences, unit normals {random, three-wall room, noisy room}, "
            "cloud radius 0.1..100, offset, motion {pure translation, small rotation <=0.1 rad, both, noisy}, translation up to "
            "the diameter, correspondences {identity, permuted, subset with distractors}, preconditioning scale 1e-3..1e3, "
            "homogeneous normals with last coordinate -1/0/+1, optionally a larger unrelated problem solved first on the same "
            "estimator); problems with cond(JtJ) >= 1e6 are rejected (outside the quantifier) and counted; each accepted case "
            "runs 8 variants {Cartesian, homogeneous} x {indexed, aligned} x {plain, preconditioned}; non-trivial = not (scale 1, "
            "identity correspondences, pure translation)",
    "level_text": "exploration: the real point-to-plane estimator (4 overloads, 8 point types, with and without "
                  "preconditioning) is executed on 3.2e3 (quick) / 4e5 (thorough) generated problems x 8 variants; the parameters "
                  "read back from each returned matrix must satisfy the long-double normal equations of the stated problem within a "
                  "conditioning-aware rounding bound, recover pure translations / small rotations within the derived O(theta^2) "
                  "bound, have the exact identity+skew+translation structure and agree across variants; ASan+UBSan and "
                  "Eigen/libstdc++ assertions watch the same executions",
    "level_note": ASAN_NOTE,
    "technique": "runtime monitoring: sanitizer build + long-double normal-equation oracle + metamorphic monitors over generated inputs",
    "assumptions": ["normal-equation bound G = 16 eps (cond |JtY| + sqrt(n)|J||Y| + |JtJ||x|); cases with 16 eps cond >= 1e-2 are counted as vacuous, not as checked",
                    "preconditioning applied as the library's tests do: scale-only PreconditionedPointSet + setPreconditioner()"],
}

# additionally: a reduced workload under valgrind memcheck, for uninitialised-value
# use and invalid accesses that the ASan build cannot see; oracle verdicts are not taken from this
# flavour (valgrind emulates long double with 64 bits), only memcheck's own reports and aborts
CHECK["thorough"]["flavours"] = list(CHECK.get("flavours", ["asan"])) + ["memcheck"]
CHECK["quick"]["flavours"] = list(CHECK.get("flavours", ["asan"])) + ["memcheck"]
CHECK["flavour_cases"] = {"memcheck": {"quick": 160, "thorough": 3000}}
