from checks_common import *  # noqa: F401,F403

CHECK = {
    "harness": "c18_checkups.cpp",
    # check-ups are header templates; CheckupRate.cpp (C17) is not needed and would pull in src/monitoring
    "srcs": ["src/diagnostics/CheckupReliability.cpp", "src/diagnostics/Diagnostic.cpp",
             "src/diagnostics/DiagnosticReport.cpp", "src/diagnostics/DiagnosticStatus.cpp",
             # neighbouring printable types interleaved with the evaluations (shared hidden state)
             "src/geodesy/WGS84Coordinates.cpp", "src/geodesy/GeodeticCoordinates.cpp",
             "src/geometry/Twist2D.cpp", "src/geometry/Twist3D.cpp", "src/geometry/Pose2D.cpp", "src/geometry/Position2D.cpp",
             "src/geometry/PoseAndTwist2D.cpp", "src/geometry/Pose3D.cpp", "src/geometry/PoseAndTwist3D.cpp",
             "src/geometry/Ellipse.cpp", "src/geometry/Position3D.cpp", "src/transform/SmartRotation3D.cpp"],
    "flavours": ["asan"],
    "quick": {"shards": 8, "timeout": 600},
    "thorough": {"shards": 16, "timeout": 3600},
    "required_categories": [
        "algebra_exhaustive",
        "eq_double", "eq_float", "eq_int", "gt_double", "gt_float", "gt_int", "lt_double", "lt_float", "lt_int",
        "eq_long_double", "gt_long_double", "lt_long_double", "eq_short", "gt_short", "lt_short",
        "eq_long_long", "gt_long_long", "lt_long_long", "eq_unsigned", "gt_unsigned", "lt_unsigned",
        "construct_3_arguments", "construct_4_arguments", "construct_from_temporaries", "construct_then_free_arguments",
        "construct_alias_target_epsilon", "evaluate_temporary", "evaluate_moved", "evaluate_then_free_argument",
        "held_report_across_later_calls", "interleaved_sibling_checkup",
        "history_2pow8_plus_k", "history_2pow16_plus_k", "append_history_2pow8_plus_k", "append_history_2pow16_plus_k",
        "append_copy_constructed", "append_copy_assigned", "append_move_constructed", "append_move_assigned",
        "append_self_assigned", "append_copy_source_kept", "append_rhs_is_left_operand",
        "reliability", "regime_exact", "regime_generic", "epsilon_zero",
        "value_on_threshold", "value_one_ulp_above", "value_one_ulp_below", "value_just_outside_band",
        "scale_tiny_subnormal", "scale_huge",
        "seq_timeout_then_evaluate", "seq_error_low_and_high", "seq_multi_step",
        "seq_near_duplicate_consecutive", "seq_same_value_again", "seq_signed_zero_flip", "seq_adjacent_value",
        "status_lists_random", "status_lists_length_20",
        "interleaved_neighbour_printing", "interleaved_wgs84_print", "eval_after_neighbour_printing_needing_7plus_digits",
        "interleaved_library_geometry_eigen_print", "eval_after_library_printer",
        "locale_switched_during_history", "locale_decimal_comma", "locale_decimal_comma_grouping",
        "locale_classic_during_history", "locale_switched_before_first_evaluation_of_process",
        "locale_switched_before_construction", "locale_switched_between_steps",
        "locale_switched_between_evaluate_and_getReport",
        "report_append", "append_duplicate_keys", "append_chain", "append_20_or_more_diagnostics",
        "append_rhs_lvalue", "append_rhs_const_lvalue", "append_rhs_temporary", "append_rhs_moved", "append_rhs_checkup_report",
        "append_left_empty", "append_left_diagnostics_no_info", "append_left_info_no_diagnostics",
        "append_left_diagnostics_and_info", "append_rvalue_onto_info_only_left", "append_rvalue_onto_info_only_left_shared_keys"],
    "required_oracles": [
        "verdict.equal_to", "verdict.greater_than", "verdict.lower_than", "verdict.reliability",
        "verdict.exact_regime", "verdict.in_band_consistent",
        "status.returned_eq_stored", "report.one_diagnostic_one_info",
        "message.names_quantity", "message.matching_verdict", "info.printed_value",
        "info.after_library_printer", "info.fresh_stream_under_global_locale",
        "timeout.stale_named_no_verdict",
        "worse.pairs_exhaustive", "worse.triples_exhaustive", "worse.commutative", "worse.associative",
        "worse.idempotent", "worseStatus.lists_le4_exhaustive", "allOK.lists_le4_exhaustive",
        "worseStatus.lists_random", "allOK.lists_random",
        "append.diagnostics_concatenated_in_order", "append.info_merged",
        "band.disagreement_distance_over_band",
        "stability.held_report_unchanged_by_later_calls", "stability.report_unchanged_by_other_objects",
        "value_categories.status_functions", "value_semantics.report_copy_behaves_as_original",
        "value_semantics.copy_source_unaffected", "append.self_alias", "append.after_long_history"],
    "required_counters": ["algebra_pairs", "algebra_triples", "lists_exhaustive", "threshold_evaluations", "timeouts"],
    "rule": "case 0 = the complete status algebra (16 pairs, 64 triples, all 340 status lists of length 1..4); every other "
            "case is one of: (66%) a sequence of 1..8 evaluate/timeout steps on one CheckupEqualTo/GreaterThan/LowerThan "
            "<double|float|int|long double|short|long long|unsigned> object (built from lvalues, temporaries, heap arguments freed "
            "right after construction, or one object for target and epsilon; 3- and 4-argument constructors; evaluate called with "
            "lvalues, temporaries, moved and freed arguments; getReport through const and non-const access; 1 case in 300 starts with "
            "an unobserved history of 2^8+k, 1 in 15000 of 2^16+k evaluations/timeouts; between steps a sibling check-up of the same "
            "name or the neighbouring printing facilities are used and the report re-read; in 30% a report obtained mid-sequence is "
            "kept bound and re-compared at the end), (14%) a sequence of 1..8 evaluations on one CheckupReliability, (10%) a random status "
            "list of length 1..20, (10%) a chain of 1..4 report appends with 0..20 diagnostics and 0..6 info keys each "
            "(small key pool to force duplicate keys; the left operand starts in each of the four states {no diagnostics, diagnostics} x "
            "{no info, info}; the right operand is an lvalue, a const lvalue, a function-return temporary, a std::move'd object, a "
            "real check-up's getReport() or the left operand itself; the accumulated report is copy-/move-constructed/-assigned or "
            "self-assigned between appends with the source overwritten and destroyed or kept and re-checked; 1 chain in 100 starts "
            "with 2^8+k / 2^16+k repeated appends of an info-only report); with probability 0.12 an evaluation is preceded by calls that print other library types "
            "(WGS84/geodetic coordinates, statuses, diagnostics, optionals, strings, wide doubles) through setReportInfo / "
            "toStringInfoValue / a local stream on the same thread (also Twist2D/3D, Pose2D/3D, PoseAndTwist2D/3D, Position2D, Eigen "
            "matrices, bool through the library's toStringInfoValue / setReportInfo; the next info value is then judged under the "
            "kind info_value_after_library_printer); every case with index <= 256 and 6% of the other sequences switch "
            "std::locale::global among classic, decimal comma and decimal comma with '.' grouping by 3 before construction, "
            "between steps and between evaluate and getReport (expected info = a fresh std::ostringstream at the moment of "
            "evaluate; classic restored at the end of the case).  (target, epsilon) are either dyadic (a*2^-k, b*2^-k, |a|,b <= 2^20, k "
            "from moderate, subnormal and huge ranges, epsilon 0 in 20%) so that the thresholds are exactly representable, or "
            "generic (log-uniform magnitudes 1e-6..1e6, subnormal, near the type's maximum: the unchanged code stays correct for every "
            "finite operand up to +-max, target+-epsilon may overflow to +-inf; reliability thresholds and values log-uniform over "
            "the whole finite double range, denormals included; long double exact regime only); values are the threshold itself, "
            "nextafter on either side, 2..4 ulps off, grid neighbours, (generic regime) 8.5..1e4 eps*max(|t|,|e|) off i.e. just outside "
            "the ambiguity band, the target, far values, 0 and +-max; with probability 0.35 the next value of a sequence is instead a near-duplicate of the "
            "previous one (same value again, the other signed zero, nextafter up/down, previous +- a log-spaced delta, +-0); integer operands keep "
            "target+-epsilon representable in the promoted type (int: |t|,e < 2^30; long long: < 2^62; unsigned: e <= t < 2^31; short: "
            "whole range) and values over the whole range of the type; non-trivial = a threshold sequence with at least one value on / within 4 ulps "
            "/ within 1e4 eps*max of a threshold or an evaluation after a timeout or a near-duplicate successor, a status list longer than 4 with >= 2 distinct statuses, an "
            "append chain of >= 2 operands or with duplicate keys (none of which the unit tests contain)",
    "level_text": "exploration, with an exhaustive part: the status algebra (worse over all 16 pairs and 64 triples, "
                  "worseStatus and allOK over all 340 lists of length <= 4) is enumerated completely on every run; the real "
                  "check-up objects are then driven through 1e6 (quick) / 5e7 (thorough) generated cases -- about 3.2e6 / 1.6e8 "
                  "threshold evaluations in sequences mixed with timeouts, concentrated on the thresholds and their "
                  "nextafter neighbours for double, float and int -- and after every step the returned status, the stored "
                  "status, the message, and the info entry are compared with the real-number predicate of the statement "
                  "evaluated in long double / int64 and with printf formatting; random status lists up to length 20 and "
                  "report-append chains are compared with an executable model; ASan+UBSan and the library's asserts watch "
                  "the same executions",
    "level_note": ASAN_NOTE,
    "technique": "runtime monitoring: sanitizer build + exact (dyadic) and banded (generic) threshold oracles in long double, "
                 "exhaustive enumeration of the status algebra, reference model for report concatenation",
    "assumptions": [
        "exact regime: target and epsilon are multiples of one power of two with |a|+b < 2^21, so target-epsilon and "
        "target+epsilon are exactly representable in float and double and the floating verdict must equal the real one",
        "generic regime: the verdict is required only when the value is further than 8 eps(T) max(|target|,|epsilon|) from a "
        "threshold; inside that band either neighbouring verdict is accepted (counted under skipped_as_ambiguous); a correctly "
        "rounded threshold is within eps/2*|t+-e| <= eps*max of the real one, so the reported ratio "
        "band.disagreement_distance_over_band (largest distance at which the library and the real verdict differ, over the "
        "band) is bounded by 0.125 and approaches it",
        "integer check-ups: target and epsilon are kept where target-epsilon and target+epsilon are representable in the "
        "promoted type of the scalar (int: |t|, e <= 2^30-1; long long: <= 2^62-1; unsigned: e <= t <= 2^31-1; short: whole range, "
        "the arithmetic is done in int): outside, the threshold expression itself overflows (undefined for signed types, "
        "wrap-around for unsigned: e.g. CheckupEqualTo<int>(INT_MAX, 1).evaluate(INT_MAX) says 'too high'); the library only "
        "instantiates double, so this is treated as a precondition, not as a finding",
        "long double check-ups are checked in the exact (dyadic) regime only: the oracle's own arithmetic is long double and "
        "cannot referee long double rounding; under the memcheck flavour (64-bit long double emulation) oracle verdicts are not used",
        "r += r (the same object on both sides) is exercised and must double the diagnostics and keep the info; the library "
        "implements it with std::list::insert(end, first, last) on its own range, which the C++ standard leaves undefined but "
        "libstdc++ implements through a temporary list; no failure is observable with this toolchain",
        "check-ups hold a std::mutex and are neither copyable nor movable: value semantics is exercised on DiagnosticReport only",
        "statuses outside the four enumerators are only printed (toString -> \"\"), never combined",
        "low <= high for the reliability check-up; worseStatus/allOK are called on non-empty lists only (the library asserts "
        "this)",
        "info value reference = printf(\"%g\") of the value (float promoted to double), \"%d\" for int; message verdict = "
        "the text after the name contains exactly the verdict word low/high/OK/uncertain (reliability OK: high or OK)",
        "after timeout() only: one diagnostic, one info entry, status STALE, message names the quantity and carries no "
        "OK/low/high verdict (the info value after a timeout is C17's subject)",
        "on duplicate info keys either operand's value is accepted",
        "locale cases: the reference for the info value is what a fresh std::ostringstream constructed just before evaluate() "
        "prints under the global locale of that moment (printf formatting in all other cases); the time types of the library "
        "have no printer and are not part of the interleaved calls",
        "caller in a directed rounding mode (1 case in 16): when target-epsilon or target+epsilon lies beyond the finite range "
        "of the scalar type, IEEE arithmetic saturates the library's threshold to -+max instead of -+inf, so a value of exactly "
        "-+max is accepted with either verdict there (counted under skipped_as_ambiguous as "
        "verdict:threshold_overflow_under_directed_rounding); under round-to-nearest the overflow to inf gives the right verdict "
        "and is demanded",
        "g++ 12 ASan+UBSan runtime; asserts live (no -DNDEBUG)"],
}

# additionally: a reduced workload under valgrind memcheck, for uninitialised-value
# use and invalid accesses that the ASan build cannot see; oracle verdicts are not taken from this
# flavour (valgrind emulates long double with 64 bits), only memcheck's own reports and aborts
CHECK["thorough"]["flavours"] = list(CHECK.get("flavours", ["asan"])) + ["memcheck"]
CHECK["quick"]["flavours"] = list(CHECK.get("flavours", ["asan"])) + ["memcheck"]
CHECK["flavour_cases"] = {"memcheck": {"quick": 3000, "thorough": 50000}}
