# Shared constants for the per-property configuration files in checks/.
GEODESY = ["src/geodesy/*.cpp"]
MONITORING = ["src/monitoring/*.cpp"]
DIAGNOSTICS = ["src/diagnostics/*.cpp"]
GRID = ["src/containers/grid/*.cpp"]
BBOX = ["src/containers/boundingbox/*.cpp"]
POINTSET = ["src/pointset/*.cpp", "src/pointset/algorithms/*.cpp"]
REGRESSION = ["src/regression/leastsquares/*.cpp", "src/regression/ransac/*.cpp"]
TRANSFORM = ["src/transform/*.cpp", "src/transform/estimation/*.cpp"]
GEOMETRY = ["src/geometry/*.cpp"]

ASAN_NOTE = ("trusted base: g++ 12.2 ASan/UBSan runtime, the reference oracles in the harness, the PRNG-driven "
             "generators; says nothing about inputs the generators never produce")
