#!/usr/bin/env python3
"""Development aid (not a registered check): confirm a seeded change delivered by an independent
sub-agent and run the property's check against it.

  selftest/seeded.py confirm <PID> <variant-dir> [--props C01,C02] [--no-tests] [--thorough-if-missed]

<variant-dir> holds patch.diff, demo.cpp and README.md.  Steps, all in a fresh scratch worktree of
/repo HEAD under /tmp (removed afterwards):
  1. demo built and run on the pristine worktree          -> must pass (exit 0)
  2. patch applied (git apply)                             -> must apply
  3. cmake build + the repository's unit tests             -> must pass (unless --no-tests)
  4. demo built and run on the patched worktree            -> must fail (exit != 0)
  5. vcheck <prop> quick with VERIF_REPO=<worktree>        -> CAUGHT if exit 1
     (optionally thorough when quick misses)
and the result is stored as /verif/seeded/<PID>_<variant>/{patch.diff,demo.cpp,README.md,meta.json}.
"""
import json
import os
import re
import shutil
import subprocess
import sys
import tempfile
import time

HERE = os.path.dirname(os.path.abspath(__file__))
VERIF = os.path.dirname(HERE)


def sh(cmd, **kw):
    return subprocess.run(cmd, shell=isinstance(cmd, str), capture_output=True, text=True, errors="replace", **kw)


def make_tree():
    d = tempfile.mkdtemp(prefix="romea_seedchk_", dir="/tmp")
    os.rmdir(d)
    r = sh(["git", "-C", "/repo", "worktree", "add", "--detach", d, "HEAD"])
    if r.returncode:
        raise SystemExit(r.stderr)
    return d


def drop_tree(d):
    sh(["git", "-C", "/repo", "worktree", "remove", "--force", d])
    shutil.rmtree(d, ignore_errors=True)
    sh(["git", "-C", "/repo", "worktree", "prune"])


def demo_command_unused(vdir, pid, tree):
    """first g++/clang++ command line found in demo.cpp or README.md, re-targeted at `tree`"""
    cands = []
    for name in ("demo.cpp", "README.md", "build.sh"):
        p = os.path.join(vdir, name)
        if os.path.exists(p):
            text = open(p, errors="replace").read()
            # strip comment leaders so that a command wrapped over several comment lines joins up
            text = re.sub(r"(?m)^\s*(//+|\*|#)\s?", "", text)
            text = re.sub(r"\\\s*\n\s*", " ", text)
            lines = text.splitlines()
            for i, line in enumerate(lines):
                m = re.search(r"((?:g\+\+|clang\+\+)\s.*)", line)
                if not m:
                    continue
                cmd = m.group(1).strip().strip("`").strip()
                # continuation lines: indented text that looks like more arguments
                j = i + 1
                while j < len(lines) and re.match(r"\s+(-|/|\$|\.|src/|[\w./-]+\.cpp)", lines[j]) and "g++" not in lines[j]:
                    cmd += " " + lines[j].strip().strip("`").strip()
                    j += 1
                if "demo" in cmd:
                    cands.append(cmd)
    if not cands:
        return None
    cmd = cands[0]
    cmd = re.sub(r"\s*&&.*$", "", cmd)
    cmd = cmd.replace("/tmp/seed_%s" % pid, tree)
    cmd = re.sub(r"\$\{?(SRC|ROOT|REPO|WT|TREE)\}?", tree, cmd)
    cmd = re.sub(r"(?<![\w/.-])demo\.cpp", os.path.join(vdir, "demo.cpp"), cmd)
    cmd = re.sub(r"-o\s+\S+", "-o %s/_demo_bin" % tree, cmd)
    if "-o " not in cmd:
        cmd += " -o %s/_demo_bin" % tree
    return cmd


def run_demo(vdir, pid, include_root, libdir, workdir):
    """builds demo.cpp against the headers under include_root and the shared library in libdir"""
    exe = os.path.join(workdir, "_demo_bin")
    extra = []
    text = open(os.path.join(vdir, "demo.cpp"), errors="replace").read() if os.path.exists(os.path.join(vdir, "demo.cpp")) else ""
    if "-fsanitize=thread" in text or os.path.exists(os.path.join(vdir, "USE_TSAN")):
        extra = []          # the shared library is not instrumented; demos must manifest without TSan
    cmd = ["g++", "-std=c++17", "-O1", "-I" + os.path.join(include_root, "include"), "-I/usr/include/eigen3",
           os.path.join(vdir, "demo.cpp"), "-L" + libdir, "-lromea_core_common", "-Wl,-rpath," + libdir, "-lpthread", "-o", exe] + extra
    b = sh(cmd, cwd=workdir)
    if b.returncode:
        return None, "demo build failed: " + " ".join(cmd) + "\n" + b.stderr[-1500:]
    try:
        r = sh([exe], cwd=workdir, timeout=900)
        return r.returncode, (r.stdout + r.stderr)[-600:]
    except subprocess.TimeoutExpired:
        return 124, "demo timed out"


def main():
    a = sys.argv[1:]
    if len(a) < 3 or a[0] != "confirm":
        print(__doc__)
        return 2
    pid, vdir = a[1], os.path.abspath(a[2])
    props = [pid]
    if "--props" in a:
        props = a[a.index("--props") + 1].split(",")
    variant = os.path.basename(vdir.rstrip("/"))
    meta = {"property": pid, "variant": variant, "base_commit": sh(["git", "-C", "/repo", "log", "--format=%h", "-1"]).stdout.strip()}
    tree = make_tree()
    try:
        up = sh("cmake --build /repo/_build -j16 --target romea_core_common 2>&1 | tail -2")
        rc0, out0 = run_demo(vdir, pid, "/repo", "/repo/_build", tree)
        meta["demo_on_pristine"] = {"exit": rc0, "tail": out0}
        ap = sh(["git", "-C", tree, "apply", os.path.join(vdir, "patch.diff")])
        meta["patch_applies"] = ap.returncode == 0
        if ap.returncode:
            meta["patch_error"] = ap.stderr[-800:]
            print(json.dumps(meta, indent=1))
            return 1
        b = os.path.join(tree, "_build")
        target = "" if "--no-tests" not in a else "--target romea_core_common"
        r = sh("cmake -G Ninja -S %s -B %s -DCMAKE_BUILD_TYPE=RelWithDebInfo -DCMAKE_CXX_FLAGS=-Wno-error >/dev/null && cmake --build %s -j16 %s 2>&1 | tail -3" % (tree, b, b, target))
        if "--no-tests" not in a:
            t = sh("ctest --test-dir %s -j8 --timeout 900 2>&1 | tail -5" % b)
            meta["unit_tests_with_change"] = "pass" if "100% tests passed" in t.stdout else ("FAIL: " + t.stdout[-400:] + r.stdout[-400:])
        rc1, out1 = run_demo(vdir, pid, tree, b, tree)
        meta["demo_with_change"] = {"exit": rc1, "tail": out1}
        shutil.rmtree(b, ignore_errors=True)
        meta["checks"] = {}
        for prop in props:
            env = dict(os.environ, VERIF_REPO=tree, VERIF_EVIDENCE_DIR=os.path.join(tree, "_evidence"),
                       VERIF_REPLAY_DIR=os.path.join(tree, "_replays"))
            for tier in ("quick", "thorough"):
                t0 = time.time()
                r = subprocess.run([os.path.join(VERIF, "vcheck"), prop, tier], env=env, capture_output=True, text=True)
                kinds = [l.strip()[:300] for l in r.stdout.splitlines() if l.startswith("  kind=")]
                meta["checks"]["%s_%s" % (prop, tier)] = {"exit": r.returncode, "seconds": round(time.time() - t0, 1),
                                                         "verdict": "CAUGHT" if r.returncode == 1 else ("MISSED" if r.returncode == 0 else "INCONCLUSIVE"),
                                                         "kinds": kinds[:4], "tail": r.stdout[-300:] if r.returncode == 2 else ""}
                if r.returncode == 1 or "--thorough-if-missed" not in a:
                    break
    finally:
        drop_tree(tree)
    out = os.path.join(VERIF, "seeded", "%s_%s" % (pid, variant))
    os.makedirs(out, exist_ok=True)
    for name in os.listdir(vdir):
        p = os.path.join(vdir, name)
        if os.path.isfile(p) and os.path.getsize(p) < 200000:
            shutil.copy(p, os.path.join(out, name))
    old = {}
    if os.path.exists(os.path.join(out, "meta.json")):
        old = json.load(open(os.path.join(out, "meta.json")))
    merged_checks = dict(old.get("checks", {}))
    merged_checks.update(meta.get("checks", {}))
    old.update(meta)
    old["checks"] = merged_checks
    json.dump(old, open(os.path.join(out, "meta.json"), "w"), indent=1)
    print(json.dumps(meta, indent=1))
    return 0


if __name__ == "__main__":
    sys.exit(main())
