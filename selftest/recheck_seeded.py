#!/usr/bin/env python3
"""Re-run the quick check of every confirmed seeded change against the current /repo HEAD and /verif code.

  selftest/recheck_seeded.py [--jobs N] [--only C06_A3,C14_A3] [--tier quick|thorough]

For each /verif/seeded/<id>/: scratch worktree of /repo HEAD under /tmp, `git apply patch.diff`,
`VERIF_REPO=<worktree> ./vcheck <property> <tier>` (evidence and replays inside the worktree),
worktree removed.  The property checked is the one in the id, except where meta.json names
others (`recheck_props`).  Results: /verif/seeded/RECHECK.json (id -> verdict, kinds, seconds, commits).
Development aid, not a registered check.
"""
import concurrent.futures
import json
import os
import shutil
import subprocess
import sys
import tempfile
import time

HERE = os.path.dirname(os.path.abspath(__file__))
VERIF = os.path.dirname(HERE)
SEEDED = os.path.join(VERIF, "seeded")
OTHER_PROPS = {"C16_B2": ["C19"]}      # concurrent change filed under C16, claimed by C19's monitors


def sh(cmd, **kw):
    return subprocess.run(cmd, capture_output=True, text=True, errors="replace", **kw)


def one(sid, tier):
    d = os.path.join(SEEDED, sid)
    pid = sid.split("_")[0]
    props = OTHER_PROPS.get(sid, [pid])
    tree = tempfile.mkdtemp(prefix="romea_recheck_", dir="/tmp")
    os.rmdir(tree)
    res = {"id": sid}
    r = sh(["git", "-C", "/repo", "worktree", "add", "--detach", tree, "HEAD"])
    if r.returncode:
        res["verdict"] = "HARNESS: " + r.stderr[-200:]
        return res
    try:
        ap = sh(["git", "-C", tree, "apply", os.path.join(d, "patch.diff")])
        if ap.returncode:
            res["verdict"] = "PATCH_DOES_NOT_APPLY"
            res["error"] = ap.stderr[-300:]
            return res
        for prop in props:
            env = dict(os.environ, VERIF_REPO=tree, VERIF_EVIDENCE_DIR=os.path.join(tree, "_evidence"),
                       VERIF_REPLAY_DIR=os.path.join(tree, "_replays"))
            t0 = time.time()
            r = sh([os.path.join(VERIF, "vcheck"), prop, tier], env=env)
            kinds = sorted({l.strip().split(" ")[0] for l in r.stdout.splitlines() if l.startswith("  kind=")})
            res.update({"check": "%s %s" % (prop, tier), "exit": r.returncode, "seconds": round(time.time() - t0, 1),
                        "verdict": {0: "MISSED", 1: "CAUGHT"}.get(r.returncode, "INCONCLUSIVE"), "kinds": kinds[:8]})
            if r.returncode == 2:
                res["tail"] = (r.stdout + r.stderr)[-400:]
    finally:
        sh(["git", "-C", "/repo", "worktree", "remove", "--force", tree])
        shutil.rmtree(tree, ignore_errors=True)
        sh(["git", "-C", "/repo", "worktree", "prune"])
    return res


def main():
    a = sys.argv[1:]
    jobs = int(a[a.index("--jobs") + 1]) if "--jobs" in a else 3
    tier = a[a.index("--tier") + 1] if "--tier" in a else "quick"
    ids = sorted(x for x in os.listdir(SEEDED) if os.path.isfile(os.path.join(SEEDED, x, "patch.diff")))
    if "--only" in a:
        want = a[a.index("--only") + 1].split(",")
        ids = [x for x in ids if x in want]
    outp = os.path.join(SEEDED, "RECHECK.json")
    out = json.load(open(outp)) if os.path.exists(outp) else {}
    out["_repo_head"] = sh(["git", "-C", "/repo", "log", "--format=%h", "-1"]).stdout.strip()
    out["_verif_head"] = sh(["git", "-C", VERIF, "log", "--format=%h", "-1"]).stdout.strip()
    with concurrent.futures.ThreadPoolExecutor(jobs) as ex:
        for res in ex.map(lambda s: one(s, tier), ids):
            key = res.pop("id")
            out.setdefault(key, {})[tier] = res
            print(key, tier, res.get("verdict"), res.get("seconds"), ",".join(res.get("kinds", []))[:150], flush=True)
            json.dump(out, open(outp, "w"), indent=1, sort_keys=True)
    return 0


if __name__ == "__main__":
    sys.exit(main())
