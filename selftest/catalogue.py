# Mutation catalogue: single-site changes to /repo that break a property (development aid).
MUTANTS = [
    {"id": "c01_z_sign_e2", "prop": "C01", "file": "src/geodesy/ECEFConverter.cpp",
     "old": "(N * (1.0 - ellipsoid_.e2) + altitude)", "new": "(N * (1.0 + ellipsoid_.e2) + altitude)",
     "what": "sign of the e2 term in Z"},
    {"id": "c01_eps_loose", "prop": "C01", "file": "src/geodesy/ECEFConverter.cpp",
     "old": "const double EPSILON = 1e-11;", "new": "const double EPSILON = 1e-6;",
     "what": "latitude iteration stopped at 1e-6"},
    {"id": "c01_alt_sin", "prop": "C01", "file": "src/geodesy/ECEFConverter.cpp",
     "old": "double altitude = norm / cos(latitude)", "new": "double altitude = norm / sin(latitude)",
     "what": "altitude uses sin"},
    {"id": "c01_halfangle_back", "prop": "C01", "file": "src/geodesy/ECEFConverter.cpp",
     "old": "double longitude = atan2(Y, X);", "new": "double longitude = 2.0 * atan(Y / (X + norm));",
     "what": "re-introduce the half-angle longitude (the repaired defect)"},
    {"id": "c01_lon_branch", "prop": "C01", "file": "src/geodesy/ECEFConverter.cpp",
     "old": "double longitude = atan2(Y, X);", "new": "double longitude = (X > 0) ? atan(Y / X) : atan2(Y, X);\n  if (X > 0 && fabs(Y) > 1e3 * X) {longitude = atan(Y / X) * (1 + 1e-7);}",
     "what": "longitude wrong only within 1e-3 rad of the +-90 deg meridians"},
]
