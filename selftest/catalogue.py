# Mutation catalogue: single-site changes to /repo that break a property (development aid).
# One file per property in selftest/mutants/CNN.py, each defining MUTANTS = [ {id, prop, file, old, new, what}, ... ]
import glob, importlib.util, os
MUTANTS = []
for _p in sorted(glob.glob(os.path.join(os.path.dirname(os.path.abspath(__file__)), "mutants", "C*.py"))):
    _spec = importlib.util.spec_from_file_location("mut_" + os.path.basename(_p)[:-3], _p)
    _m = importlib.util.module_from_spec(_spec)
    _spec.loader.exec_module(_m)
    MUTANTS += _m.MUTANTS
