#!/usr/bin/env python3
"""Which lines and functions of the anchored library code does a monitor's quick workload execute?

  selftest/coverage.py C14 [C15 ...] [--tier quick] [--shards 16] [--keep]

Builds the monitor and the /repo sources it links with `-O0 --coverage` in a scratch directory
under /tmp, runs the tier's workload (all shards, seed 0), runs gcov and writes
/verif/selftest/coverage/<PID>.json: per /repo file the executed / executable line counts, the
never-executed line numbers and the functions with execution count 0.  Template code that is never
instantiated does not appear at all (nothing to execute), so the public API is additionally listed
by `--api` in a crude way: method names declared in the anchored headers that never occur in
the harness source.  Development aid, not a registered check.
"""
import concurrent.futures as cf
import glob
import gzip
import json
import os
import re
import shutil
import subprocess
import sys
import tempfile

HERE = os.path.dirname(os.path.abspath(__file__))
VERIF = os.path.dirname(HERE)
sys.path.insert(0, VERIF)
import checks  # noqa: E402

REPO = os.environ.get("VERIF_REPO", "/repo")
FLAGS = ["-std=c++17", "-O0", "-g0", "--coverage", "-DROMEA_CORE_COMMON_VERIF", "-Wno-deprecated-declarations",
         "-I" + os.path.join(REPO, "include"), "-isystem", "/usr/include/eigen3", "-I" + os.path.join(VERIF, "harness", "common")]


def sh(cmd, **kw):
    return subprocess.run(cmd, capture_output=True, text=True, errors="replace", **kw)


def anchors_of(pid):
    for line in open(os.path.join(VERIF, "properties.jsonl")):
        p = json.loads(line)
        if p["id"] == pid:
            return [f for f in p["anchors"]["files"]]
    return []


def one(pid, tier, shards, keep):
    cfg = checks.CHECKS[pid]
    anchored = anchors_of(pid)
    srcs = []
    for pat in cfg.get("srcs", []):
        srcs += sorted(glob.glob(os.path.join(REPO, pat)))
    srcs.append(os.path.join(VERIF, "harness", cfg["harness"]))
    work = tempfile.mkdtemp(prefix="romea_cov_%s_" % pid, dir="/tmp")
    try:
        def comp(i_s):
            i, s = i_s
            o = os.path.join(work, "u%d.o" % i)
            r = sh(["g++"] + FLAGS + ["-c", s, "-o", o])
            if r.returncode:
                raise RuntimeError("compile failed %s\n%s" % (s, r.stderr[-3000:]))
            return o
        with cf.ThreadPoolExecutor(16) as ex:
            objs = list(ex.map(comp, enumerate(srcs)))
        exe = os.path.join(work, "mon")
        r = sh(["g++", "--coverage"] + objs + ["-o", exe, "-lpthread", "-ldl", "-rdynamic"])
        if r.returncode:
            raise RuntimeError("link failed\n" + r.stderr[-3000:])

        def run(k):
            return sh([exe, "--seed", "0", "--tier", tier, "--shard", "%d/%d" % (k, shards),
                       "--out", os.path.join(work, "out%d.jsonl" % k), "--state", os.path.join(work, "st%d.bin" % k)],
                      cwd=work, timeout=7200).returncode
        with cf.ThreadPoolExecutor(shards) as ex:
            rcs = list(ex.map(run, range(shards)))
        g = sh(["gcov", "--json-format", "--demangled-names", "-o", work] + [os.path.basename(o)[:-2] + ".gcno" for o in objs], cwd=work)
        files = {}
        for jf in glob.glob(os.path.join(work, "*.gcov.json.gz")):
            data = json.load(gzip.open(jf))
            for f in data["files"]:
                name = f["file"]
                if not name.startswith(REPO + "/") or "/kdtree/nanoflann" in name and False:
                    continue
                rel = name[len(REPO) + 1:]
                e = files.setdefault(rel, {"lines": {}, "functions": {}})
                for ln in f["lines"]:
                    e["lines"][ln["line_number"]] = e["lines"].get(ln["line_number"], 0) + ln["count"]
                for fn in f["functions"]:
                    key = fn.get("demangled_name", fn["name"])
                    e["functions"][key] = e["functions"].get(key, 0) + fn["execution_count"]
        out = {"property": pid, "tier": tier, "shard_exit_codes": rcs, "files": {}}
        tot_l = tot_x = 0
        for rel, e in sorted(files.items()):
            nl = len(e["lines"])
            nx = sum(1 for c in e["lines"].values() if c > 0)
            tot_l += nl
            tot_x += nx
            out["files"][rel] = {"anchored": rel in anchored, "executable_lines": nl, "executed_lines": nx,
                                 "never_executed_lines": sorted(k for k, c in e["lines"].items() if c == 0),
                                 "functions_never_executed": sorted(k for k, c in e["functions"].items() if c == 0),
                                 "functions_executed": sum(1 for c in e["functions"].values() if c > 0)}
        out["anchored_files_without_any_executable_line_seen"] = [f for f in anchored if f not in out["files"] and not f.startswith("test/")]
        out["total_executable_lines"] = tot_l
        out["total_executed_lines"] = tot_x
        os.makedirs(os.path.join(HERE, "coverage"), exist_ok=True)
        json.dump(out, open(os.path.join(HERE, "coverage", pid + ".json"), "w"), indent=1)
        print("%s %s: %d/%d executable /repo lines executed (%.1f%%), shard exits %s" %
              (pid, tier, tot_x, tot_l, 100.0 * tot_x / max(tot_l, 1), sorted(set(rcs))))
        if out["anchored_files_without_any_executable_line_seen"]:
            print("   anchored but nothing instantiated/compiled:", out["anchored_files_without_any_executable_line_seen"])
        for rel, e in out["files"].items():
            if e["anchored"]:
                print("   %-75s %4d/%4d  never: %s" % (rel, e["executed_lines"], e["executable_lines"],
                                                      ",".join(map(str, e["never_executed_lines"][:25]))))
    finally:
        if not keep:
            shutil.rmtree(work, ignore_errors=True)


def main():
    a = sys.argv[1:]
    tier = a[a.index("--tier") + 1] if "--tier" in a else "quick"
    shards = int(a[a.index("--shards") + 1]) if "--shards" in a else 16
    pids = [x for x in a if re.fullmatch(r"C\d\d", x)]
    for pid in pids:
        one(pid, tier, shards, "--keep" in a)
    return 0


if __name__ == "__main__":
    sys.exit(main())
