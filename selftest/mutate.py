#!/usr/bin/env python3
"""Development aid (not a registered check): apply one catalogue mutant or a patch file to a
scratch worktree of /repo, run a property's check against it, report whether it was caught.

  selftest/mutate.py list
  selftest/mutate.py run <mutant-id>... [--tier quick|thorough] [--tests]
  selftest/mutate.py all [--prop C01] [--tests]
  selftest/mutate.py patch <file.diff> <prop>... [--tier quick] [--tests]

--tests additionally builds the scratch tree with cmake and runs the repository's unit tests
(to tell whether the mutant survives the existing suite).  Scratch trees live under
/tmp/romea_mut_* and are removed afterwards.
"""
import json, os, subprocess, sys, shutil, tempfile, time
HERE = os.path.dirname(os.path.abspath(__file__))
VERIF = os.path.dirname(HERE)
sys.path.insert(0, HERE)
from catalogue import MUTANTS


def sh(cmd, **kw):
    return subprocess.run(cmd, shell=isinstance(cmd, str), capture_output=True, text=True, **kw)


def make_tree():
    d = tempfile.mkdtemp(prefix="romea_mut_", dir="/tmp")
    os.rmdir(d)
    r = sh(["git", "-C", "/repo", "worktree", "add", "--detach", d, "HEAD"])
    if r.returncode:
        raise SystemExit(r.stderr)
    # carry over uncommitted tracked changes of /repo, if any
    diff = sh(["git", "-C", "/repo", "diff", "HEAD"]).stdout
    if diff.strip():
        subprocess.run(["git", "-C", d, "apply"], input=diff, text=True)
    return d


def drop_tree(d):
    sh(["git", "-C", "/repo", "worktree", "remove", "--force", d])
    shutil.rmtree(d, ignore_errors=True)
    sh(["git", "-C", "/repo", "worktree", "prune"])


def run_tests(d):
    b = os.path.join(d, "_build")
    r = sh("cmake -G Ninja -S %s -B %s -DCMAKE_BUILD_TYPE=RelWithDebInfo -DCMAKE_CXX_FLAGS=-Wno-error >/dev/null && cmake --build %s -j16 2>&1 | tail -3" % (d, b, b))
    if r.returncode:
        return "build-failed"
    t = sh("ctest --test-dir %s -j8 --timeout 900 2>&1 | tail -4" % b)
    ok = "100% tests passed" in t.stdout
    return "tests-pass" if ok else "tests-FAIL: " + t.stdout.strip().splitlines()[-1]


def run_check(d, prop, tier):
    env = dict(os.environ, VERIF_REPO=d, VERIF_EVIDENCE_DIR=os.path.join(d, "_evidence"),
               VERIF_REPLAY_DIR=os.path.join(d, "_replays"))
    t0 = time.time()
    r = subprocess.run([os.path.join(VERIF, "vcheck"), prop, tier], env=env, capture_output=True, text=True)
    kinds = [l.strip() for l in r.stdout.splitlines() if l.startswith("  kind=")]
    return r.returncode, time.time() - t0, kinds, r.stdout


def apply_mutant(d, m):
    edits = m.get("edits") or [{"file": m["file"], "old": m["old"], "new": m["new"], "count": m.get("count", 1)}]
    for e in edits:
        p = os.path.join(d, e["file"])
        s = open(p).read()
        if s.count(e["old"]) < 1:
            raise SystemExit("mutant %s: pattern not found in %s" % (m["id"], e["file"]))
        s = s.replace(e["old"], e["new"], e.get("count", 1))
        open(p, "w").write(s)


def main():
    a = sys.argv[1:]
    if not a or a[0] == "list":
        for m in MUTANTS:
            print(m["id"], m["prop"], m["file"], "--", m["what"])
        return
    tier = "quick"
    tests = "--tests" in a
    if "--tier" in a:
        tier = a[a.index("--tier") + 1]
    verbose = "-v" in a
    if a[0] == "patch":
        d = make_tree()
        try:
            r = sh(["git", "-C", d, "apply", os.path.abspath(a[1])])
            if r.returncode:
                raise SystemExit("patch does not apply: " + r.stderr)
            props = [x for x in a[2:] if x.startswith("C")]
            tr = run_tests(d) if tests else "-"
            for prop in props:
                rc, dt, kinds, out = run_check(d, prop, tier)
                print("%s %s rc=%d %.0fs %s %s" % (a[1], prop, rc, dt, tr, kinds[:3]))
                if verbose:
                    print(out)
        finally:
            drop_tree(d)
        return
    sel = [m for m in MUTANTS if (a[0] == "all" and ("--prop" not in a or m["prop"] == a[a.index("--prop") + 1])) or m["id"] in a[1:]]
    res = []
    for m in sel:
        d = make_tree()
        try:
            apply_mutant(d, m)
            tr = run_tests(d) if tests else "-"
            rc, dt, kinds, out = run_check(d, m["prop"], tier)
            verdict = "CAUGHT" if rc == 1 else ("MISSED" if rc == 0 else "INCONCLUSIVE")
            print("%-28s %s %-12s %5.0fs %s %s" % (m["id"], m["prop"], verdict, dt, tr, kinds[:2]), flush=True)
            if verbose or rc == 2:
                print(out)
            res.append((m["id"], verdict, tr))
        finally:
            drop_tree(d)
    print("summary: %d caught, %d missed, %d inconclusive" % (
        sum(1 for r in res if r[1] == "CAUGHT"), sum(1 for r in res if r[1] == "MISSED"),
        sum(1 for r in res if r[1] == "INCONCLUSIVE")))


if __name__ == "__main__":
    main()
