#!/usr/bin/env python3
"""Calibration aid for C06 (not a registered check): surveys the ICP envelope with an optimised
(-O2, no sanitizer) build and prints every displacement for which ICP does not converge or is
inaccurate, so that the regions recorded in KNOWN_FINDINGS.txt can be kept honest.

usage: selftest/c06_survey.py <cases> [double|float] [seed]     (writes /tmp/c06_survey_<mode>_<seed>.jsonl)
"""
import importlib.machinery, importlib.util, json, os, subprocess, sys
HERE = os.path.dirname(os.path.abspath(__file__))
VERIF = os.path.dirname(HERE)
loader = importlib.machinery.SourceFileLoader("vcheck_mod", os.path.join(VERIF, "vcheck"))
spec = importlib.util.spec_from_loader("vcheck_mod", loader)
vc = importlib.util.module_from_spec(spec)
loader.exec_module(vc)
n = int(sys.argv[1]); mode = sys.argv[2] if len(sys.argv) > 2 else "double"; seed = int(sys.argv[3]) if len(sys.argv) > 3 else 0
binp = vc.build_binary("C06", vc.CHECKS["C06"], os.environ.get("C06_SURVEY_FLAVOUR", "plain"))
os.environ.update(vc.RUN_ENV[os.environ.get("C06_SURVEY_FLAVOUR", "plain")])
nsh = int(os.environ.get("VERIF_JOBS", "16"))
outs = []
procs = []
for i in range(nsh):
    o = "/tmp/c06_survey_%s_%d_%d.jsonl" % (mode, seed, i)
    if os.path.exists(o):
        os.remove(o)
    outs.append(o)
    env = dict(os.environ, C06_SURVEY=mode, VERIF_REPO=vc.REPO)
    procs.append(subprocess.Popen([binp, "--seed", str(seed), "--tier", "quick", "--cases", str(n), "--shard", "%d/%d" % (i, nsh), "--out", o], env=env))
for p in procs:
    p.wait()
final = "/tmp/c06_survey_%s_%d.jsonl" % (mode, seed)
cnt = {}
with open(final, "w") as f:
    for o in outs:
        for line in open(o):
            r = json.loads(line)
            if r["t"] == "survey":
                f.write(line)
            elif r["t"] == "summary":
                for k, v in r["counters"].items():
                    cnt[k] = cnt.get(k, 0) + v
        os.remove(o)
print(cnt, "->", final)
