# Per-property configuration of the runtime monitors (read by vcheck and gen_manifest.py).
# One file per property in checks/CNN.py, each defining CHECK = {...} with the keys
#
#   harness            monitor program under harness/
#   srcs               /repo sources (globs) compiled, instrumented, into the monitor
#   flavours           sanitizer builds the workload is repeated under (one family per build)
#   quick / thorough   shards (processes), watchdog timeout in seconds per shard (generous;
#                      firing means inconclusive, never a violation), optional extra args
#   required_*         observations without which the run is inconclusive (exit 2)
#   rule               how cases are generated and what makes one non-trivial (goes to evidence)
#   level_text / level_note / technique / assumptions     texts for MANIFEST.json and evidence
#   claimed            False while a monitor is still being calibrated (not in MANIFEST.checks)
import glob
import importlib.util
import os
import sys

_HERE = os.path.dirname(os.path.abspath(__file__))
sys.path.insert(0, _HERE)

# commits in /repo that add guarded hooks (ROMEA_CORE_COMMON_VERIF)
HOOK_COMMITS = ["3f1b53b", "bda8058", "3f6df55"]

# properties deliberately not claimed, with the reason
NOT_APPLICABLE = {}

# checks whose monitor has been calibrated silent on the unchanged (repaired) tree and validated
# against mutants; only these are listed under MANIFEST.checks
CLAIMED = ["C01", "C02", "C03", "C04", "C05", "C06", "C07", "C08", "C09", "C10", "C11", "C12", "C13", "C14", "C15", "C16", "C17", "C18", "C19", "C20"]

CHECKS = {}
for _p in sorted(glob.glob(os.path.join(_HERE, "checks", "C*.py"))):
    _name = os.path.basename(_p)[:-3]
    _spec = importlib.util.spec_from_file_location("checks_" + _name, _p)
    _mod = importlib.util.module_from_spec(_spec)
    _spec.loader.exec_module(_mod)
    CHECKS[_name] = _mod.CHECK
