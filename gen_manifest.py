#!/usr/bin/env python3
"""Regenerates MANIFEST.json from checks.py (claimed checks) and properties.jsonl (ids)."""
import json, os, subprocess, sys
HERE = os.path.dirname(os.path.abspath(__file__))
sys.path.insert(0, HERE)
from checks import CHECKS, NOT_APPLICABLE, HOOK_COMMITS, CLAIMED
ids = [json.loads(l)["id"] for l in open(os.path.join(HERE, "properties.jsonl"))]
m = {
    "version": 1,
    "setup_cmd": "./vcheck --setup",
    "hooks": {
        "guard": "ROMEA_CORE_COMMON_VERIF",
        "enable": "vcheck compiles the /repo sources each check needs (and the headers they include) with "
                  "-DROMEA_CORE_COMMON_VERIF plus the sanitizer flags of the flavour; the strong hook definitions "
                  "live in harness/common/vh_hooks.hpp",
        "baseline_off_cmd": "cmake -G Ninja -S /repo -B /repo/_build -DCMAKE_BUILD_TYPE=RelWithDebInfo "
                            "-DCMAKE_CXX_FLAGS=-Wno-error && cmake --build /repo/_build -j16 && "
                            "ctest --test-dir /repo/_build -j8 --timeout 900",
        "source_commits": HOOK_COMMITS,
        "add_only": True,
    },
    "engines": [{"name": "vcheck", "path": "vcheck", "serves_properties": sorted(CLAIMED),
                 "kind_free_text": "python driver: content-addressed sanitizer builds of /repo, sharded monitor "
                                   "programs (harness/cNN_*.cpp), crash restart, known-finding matching, evidence"}],
    "checks": [],
    "not_applicable": [],
    "notes": "All checks are runtime monitors over executions of the real library code (ASan+UBSan or TSan builds of "
             "/repo's working tree); see DESIGN.md.  KNOWN_FINDINGS.txt lists open findings and repaired defects.",
}
for pid in ids:
    if pid in CHECKS and pid in CLAIMED:
        c = CHECKS[pid]
        mem = any("memcheck" in c.get(t, {}).get("flavours", []) for t in ("quick", "thorough"))
        tech = c["technique"] + ("; plus a reduced workload under valgrind memcheck (uninitialised-value use, invalid accesses)" if mem else "")
        note = c["level_note"] + ("; valgrind 3.19 memcheck (its reports and aborts only: oracle verdicts are not taken from that run because valgrind emulates long double with 64 bits)" if mem else "")
        if not c.get("no_release_flavour"):
            tech += "; the first quarter of the workload repeated in a -O2 -DNDEBUG sanitizer build (the configuration the repository's tests and users build)"
        tech += "; every case entered with a stale errno and sticky FP exception flags" + ("" if c.get("no_directed_rounding") else ", one case in 16 run under a directed caller rounding mode (tolerances x8)") + ", process-state monitor (rounding mode, MXCSR control, global locale) after every case"
        m["checks"].append({
            "property_id": pid,
            "quick_cmd": "./vcheck %s quick" % pid,
            "thorough_cmd": "./vcheck %s thorough" % pid,
            "evidence_file": "evidence/%s.json" % pid,
            "replay_cmd_template": "./vcheck %s --replay {path}" % pid,
            "engine": "vcheck",
            "level_claimed": {"category": "exploration", "text": c["level_text"], "design_ref": c.get("design_ref", "DESIGN.md section 3, " + pid)},
            "level_note": note,
            "technique": tech,
        })
    else:
        m["not_applicable"].append({"property_id": pid, "reason": NOT_APPLICABLE.get(pid, "monitor not built yet; not claimed until it is calibrated silent on the unchanged tree")})
json.dump(m, open(os.path.join(HERE, "MANIFEST.json"), "w"), indent=1)
print("claimed:", [c["property_id"] for c in m["checks"]])
