// C05  Point-to-plane least-squares registration solves its linearised problem.
//
// Oracle: the normal equations of the problem as the statement defines it (rows [n, s x n],
// residual (t - s).n), rebuilt in long double from exactly the inputs the library received.
#include <numeric>
#include "romea_core_common/transform/estimation/FindRigidTransformationByLeastSquares.hpp"
#include "romea_core_common/pointset/NormalSet.hpp"
#include "vh_points.hpp"

using namespace vhp;
using romea::core::Correspondence;
using romea::core::PointSet;
using romea::core::NormalSet;
using romea::core::PreconditionedPointSet;
using romea::core::FindRigidTransformationByLeastSquares;

struct CaseData
{
  int dim; bool is_float; int n;
  std::string normals_kind, motion_kind, corr_kind;
  LD radius, offset_norm, theta, tnorm, noise, scale; int normal_w;
  std::vector<VecL> src_full, tgt_full, nrm_full;   // normals indexed like targets
  std::vector<Correspondence> corr;
  VecL ttrue, wtrue;    // true translation and rotation vector (3D) / angle (2D, size 1)
  bool decoy_first;
  bool far_unreferenced = false, random_corr_fields = false;
};

struct Variant {std::string name; MatL H;};

static VecL cross_term(const VecL & s, const VecL & n)
{
  if (s.size() == 2) {VecL v(1); v(0) = s(0) * n(1) - s(1) * n(0); return v;}
  VecL v(3);
  v(0) = s(1) * n(2) - s(2) * n(1); v(1) = s(2) * n(0) - s(0) * n(2); v(2) = s(0) * n(1) - s(1) * n(0);
  return v;
}

static VecL params_of(const MatL & H, int d)
{
  if (d == 2) {VecL x(3); x << H(0, 2), H(1, 2), H(1, 0); return x;}
  VecL x(6); x << H(0, 3), H(1, 3), H(2, 3), H(2, 1), H(0, 2), H(1, 0); return x;
}

template<class P>
static std::vector<Variant> run_library(
  vh::Rng & r, const CaseData & cd, std::vector<VecL> & s_used, std::vector<VecL> & t_used, std::vector<VecL> & n_used,
  std::vector<VecL> & s_scaled, std::vector<VecL> & t_scaled)
{
  using S = typename P::Scalar;
  const int d = Tr<P>::DIM;
  PointSet<P> src(cd.src_full.size()), tgt(cd.tgt_full.size());
  NormalSet<P> nrm(cd.tgt_full.size());
  for (size_t i = 0; i < src.size(); ++i) {src[i] = make_point<P>(cd.src_full[i]);}
  for (size_t i = 0; i < tgt.size(); ++i) {
    tgt[i] = make_point<P>(cd.tgt_full[i]);
    nrm[i] = make_point<P>(cd.nrm_full[i]);
    if (Tr<P>::HOMOGENEOUS) {nrm[i](d) = static_cast<S>(cd.normal_w);}
  }
  PointSet<P> srcA(cd.corr.size()), tgtA(cd.corr.size());
  NormalSet<P> nrmA(cd.corr.size());
  s_used.clear(); t_used.clear(); n_used.clear();
  for (size_t k = 0; k < cd.corr.size(); ++k) {
    srcA[k] = src[cd.corr[k].sourcePointIndex];
    tgtA[k] = tgt[cd.corr[k].targetPointIndex];
    nrmA[k] = nrm[cd.corr[k].targetPointIndex];
    s_used.push_back(cart_of(srcA[k])); t_used.push_back(cart_of(tgtA[k])); n_used.push_back(cart_of(nrmA[k]));
  }
  std::vector<Variant> out;
  const std::string rep = Tr<P>::HOMOGENEOUS ? "hom_" : "cart_";
  {
    FindRigidTransformationByLeastSquares<P> est;
    if (cd.decoy_first) {
      // history: a larger unrelated problem first, so that the solver buffers hold stale rows
      size_t m = cd.corr.size() + (size_t)r.range(1, 40);
      PointSet<P> ds(m), dt(m); NormalSet<P> dn(m);
      for (size_t i = 0; i < m; ++i) {
        VecL a(d), b(d); for (int k = 0; k < d; ++k) {a(k) = r.normal() * 1e3; b(k) = r.normal() * 1e3;}
        ds[i] = make_point<P>(a); dt[i] = make_point<P>(b); dn[i] = make_point<P>(random_unit(r, d));
      }
      (void)est.find(ds, dt, dn);
    }
    out.push_back({rep + "indexed", to_ld(est.find(src, tgt, nrm, cd.corr))});
    out.push_back({rep + "aligned", to_ld(est.find(srcA, tgtA, nrmA))});
  }
  {
    S sc = static_cast<S>(cd.scale);
    PreconditionedPointSet<P> psrc(src, sc), ptgt(tgt, sc), psrcA(srcA, sc), ptgtA(tgtA, sc);
    s_scaled.clear(); t_scaled.clear();
    for (size_t k = 0; k < cd.corr.size(); ++k) {
      s_scaled.push_back(cart_of(psrcA.get()[k])); t_scaled.push_back(cart_of(ptgtA.get()[k]));
    }
    FindRigidTransformationByLeastSquares<P> est;
    if (cd.decoy_first) {
      // history on the preconditioner: another scale (possibly exactly 1, possibly the same) first
      S s0 = r.coin(0.3) ? S(1) : static_cast<S>(r.logu(1e-3, 1e3));
      PreconditionedPointSet<P> d1(src, s0), d2(tgt, s0);
      est.setPreconditioner(d1, d2);
      (void)est.find(d1, d2, nrm, cd.corr);
    }
    est.setPreconditioner(psrc, ptgt);
    out.push_back({rep + "precond_indexed", to_ld(est.find(psrc, ptgt, nrm, cd.corr))});
    est.setPreconditioner(psrcA, ptgtA);
    out.push_back({rep + "precond_aligned", to_ld(est.find(psrcA, ptgtA, nrmA))});
  }
  return out;
}

struct Problem {MatL J; VecL Y; MatL JtJ; VecL JtY; LD cond, smin, smax, normJ, normY;};

static Problem build(const std::vector<VecL> & s, const std::vector<VecL> & t, const std::vector<VecL> & n)
{
  const int d = (int)s[0].size(), m = d == 2 ? 3 : 6;
  Problem p;
  p.J = MatL(s.size(), m); p.Y = VecL(s.size());
  for (size_t i = 0; i < s.size(); ++i) {
    p.J.row(i).head(d) = n[i].transpose();
    p.J.row(i).tail(m - d) = cross_term(s[i], n[i]).transpose();
    p.Y(i) = (t[i] - s[i]).dot(n[i]);
  }
  p.JtJ = p.J.transpose() * p.J; p.JtY = p.J.transpose() * p.Y;
  Eigen::JacobiSVD<MatL> svd(p.J);
  p.smax = svd.singularValues()(0); p.smin = svd.singularValues()(m - 1);
  p.cond = p.smin > 0 ? (p.smax / p.smin) * (p.smax / p.smin) : INFINITY;
  p.normJ = p.J.norm(); p.normY = p.Y.norm();
  return p;
}

static void gen_case(vh::Rng & r, CaseData & cd)
{
  const int d = cd.dim;
  int nk = r.range(0, 9);
  cd.n = nk == 0 ? 6 : nk <= 2 ? (int)r.range(6, 12) : nk <= 7 ? (int)r.range(12, 80) : (int)r.range(80, 500);
  cd.radius = r.logu(0.1, 100.0);
  int ok = r.range(0, 3);
  cd.offset_norm = ok <= 1 ? 0 : r.logu(0.01, 3.0) * cd.radius;
  VecL off = random_unit(r, d) * cd.offset_norm;
  static const char * nk_names[] = {"random", "room", "noisy_room"};
  cd.normals_kind = nk_names[r.range(0, 2)];
  static const char * mk_names[] = {"pure_translation", "small_rotation", "rotation_and_translation", "noisy"};
  cd.motion_kind = mk_names[r.range(0, 3)];
  const LD PI_L = 3.14159265358979323846264338327950288L;
  (void)PI_L;
  cd.theta = cd.motion_kind == "pure_translation" ? 0 : (r.coin(0.2) ? 0.1L : (LD)r.logu(1e-6, 0.1));
  cd.tnorm = cd.motion_kind == "small_rotation" ? 0 : (r.coin(0.2) ? 2 * cd.radius : (LD)r.logu(1e-4, 2.0) * cd.radius);
  cd.noise = cd.motion_kind == "noisy" ? r.logu(1e-4, 0.1) * cd.radius : 0;
  cd.scale = r.coin(0.15) ? 1.0 : r.logu(1e-3, 1e3);
  cd.normal_w = (int)r.range(-1, 1);
  cd.decoy_first = r.coin();
  cd.ttrue = random_unit(r, d) * cd.tnorm;
  MatL R;
  if (d == 2) {
    LD a = r.coin() ? cd.theta : -cd.theta;
    cd.wtrue = VecL(1); cd.wtrue(0) = a; R = rotation2(a);
  } else {
    VecL ax = random_unit(r, 3); cd.wtrue = ax * cd.theta; R = rotation3(ax, cd.theta);
  }
  MatL Rw = random_rotation(r, d, r.uni(0, 6.28));    // orientation of the "room"
  int ck = r.range(0, 2);
  cd.corr_kind = ck == 0 ? "identity" : ck == 1 ? "permuted" : "subset";
  size_t extra_s = ck == 2 ? r.range(1, 20) : 0, extra_t = ck == 2 ? r.range(1, 20) : 0;
  size_t ns = cd.n + extra_s, nt = cd.n + extra_t;
  std::vector<size_t> ps(ns), pt(nt);
  std::iota(ps.begin(), ps.end(), 0); std::iota(pt.begin(), pt.end(), 0);
  auto shuffle = [&](std::vector<size_t> & v) {for (size_t i = v.size(); i > 1; --i) {std::swap(v[i - 1], v[r.range(0, i - 1)]);}};
  if (ck >= 1) {shuffle(pt);}
  if (ck == 2) {shuffle(ps);}
  cd.src_full.assign(ns, VecL::Zero(d)); cd.tgt_full.assign(nt, VecL::Zero(d)); cd.nrm_full.assign(nt, VecL::Zero(d));
  // points no correspondence names are either ordinary or very far from the registered subset
  // (they must not enter any centroid, scale or bound): drawn from a separate stream
  vh::Rng rx(r.next(), 0, 5);
  const LD far = (ck == 2 && rx.coin(0.4)) ? (LD)rx.logu(1e3, 1e7) : 1.0L;
  cd.far_unreferenced = far > 1.0L;
  for (size_t i = 0; i < ns; ++i) {VecL p(d); for (int k = 0; k < d; ++k) {p(k) = r.normal() * cd.radius * 5 * far;} cd.src_full[i] = p;}
  for (size_t i = 0; i < nt; ++i) {
    VecL p(d); for (int k = 0; k < d; ++k) {p(k) = r.normal() * cd.radius * 5 * far;}
    cd.tgt_full[i] = p; cd.nrm_full[i] = random_unit(r, d);
  }
  // the optional fields of a correspondence (squared distance, weight) are not part of the
  // statement: whatever they hold, the estimate is the un-weighted least-squares solution
  cd.random_corr_fields = ck >= 1 && rx.coin(0.4);
  cd.corr.clear();
  for (int i = 0; i < cd.n; ++i) {
    VecL s(d), nv(d);
    if (cd.normals_kind == "random") {
      for (int k = 0; k < d; ++k) {s(k) = r.uni(-1, 1) * cd.radius;}
      nv = random_unit(r, d);
    } else {
      // point on one of the 2d walls of a box, normal = inward wall normal (optionally perturbed)
      int wall = i % (2 * d), axis = wall / 2; LD sgn = wall % 2 ? 1 : -1;
      for (int k = 0; k < d; ++k) {s(k) = r.uni(-1, 1) * cd.radius;}
      s(axis) = sgn * cd.radius;
      nv = VecL::Zero(d); nv(axis) = -sgn;
      if (cd.normals_kind == "noisy_room") {for (int k = 0; k < d; ++k) {nv(k) += r.normal() * 0.05;} nv /= nv.norm();}
      s = Rw * s; nv = Rw * nv;
    }
    s += off;
    VecL nz = VecL::Zero(d);
    if (cd.noise > 0) {for (int k = 0; k < d; ++k) {nz(k) = r.normal() * cd.noise;}}
    cd.src_full[ps[i]] = s;
    cd.tgt_full[pt[i]] = R * s + cd.ttrue + nz;
    cd.nrm_full[pt[i]] = nv;
    if (cd.random_corr_fields) {cd.corr.emplace_back(ps[i], pt[i], rx.logu(1e-6, 1e3), rx.logu(1e-3, 1e3));} else {cd.corr.emplace_back(ps[i], pt[i]);}
  }
  if (ck >= 1) {for (size_t i = cd.corr.size(); i > 1; --i) {std::swap(cd.corr[i - 1], cd.corr[r.range(0, i - 1)]);}}
}

template<class S, int DIM>
static void run_case(vh::Ctx & c, vh::Rng & r, CaseData & cd)
{
  using PC = Eigen::Matrix<S, DIM, 1>;
  using PH = typename std::conditional<DIM == 2, romea::core::HomogeneousCoordinates2<S>,
      romea::core::HomogeneousCoordinates3<S>>::type;
  const int d = DIM, m = d == 2 ? 3 : 6;
  const LD eps = std::numeric_limits<S>::epsilon();

  // ---- oracle problem on the rounded inputs; reject ill-conditioned ones before calling anything
  std::vector<VecL> s_used, t_used, n_used, s_sc, t_sc, a, b, e, f, g;
  {
    for (auto & cr : cd.corr) {
      s_used.push_back(cart_of(make_point<PC>(cd.src_full[cr.sourcePointIndex])));
      t_used.push_back(cart_of(make_point<PC>(cd.tgt_full[cr.targetPointIndex])));
      n_used.push_back(cart_of(make_point<PC>(cd.nrm_full[cr.targetPointIndex])));
    }
  }
  Problem pb = build(s_used, t_used, n_used);
  if (!(pb.cond < 1e6L)) {c.skip("problem:cond_ge_1e6_outside_quantifier"); c.cat("rejected_ill_conditioned"); return;}
  c.cat("accepted");

  std::vector<Variant> vs = run_library<PC>(r, cd, a, b, e, s_sc, t_sc);
  std::vector<Variant> vh2 = run_library<PH>(r, cd, a, b, e, f, g);
  for (auto & v : vh2) {vs.push_back(v);}
  // the scaled problem the preconditioned variants solve (its own conditioning matters for them)
  Problem ps = build(s_sc, t_sc, n_used);

  auto params = [&]() {
      return vh::Params{{"dim", (double)d}, {"is_float", (double)cd.is_float}, {"n", (double)cd.n},
        {"cond", (double)pb.cond}, {"cond_scaled", (double)ps.cond}, {"theta", (double)cd.theta},
        {"scale", (double)cd.scale}, {"noise_rel", (double)(cd.noise / cd.radius)}};
    };

  // rounding that no solver can avoid: the residual (t - s).n is formed with an error relative to
  // |t - s| (not to its value), and the preconditioned variants receive coordinates re-rounded
  // after scaling, i.e. perturbed by eps |p| *before* the difference t - s is taken
  LD Dts = 0, pmax2 = 0, spmax = 0;
  for (size_t i = 0; i < s_used.size(); ++i) {
    Dts += (t_used[i] - s_used[i]).squaredNorm();
    pmax2 = std::max(pmax2, t_used[i].norm() + s_used[i].norm());
    spmax = std::max(spmax, s_used[i].norm());
  }
  Dts = sqrtl(Dts);
  const LD sqn = sqrtl((LD)cd.n);
  auto Gbound = [&](LD cnd, const VecL & xx, bool pre) {
      LD g = 16 * eps * (cnd * pb.JtY.norm() + sqn * pb.normJ * Dts + pb.JtJ.norm() * xx.norm());
      if (pre) {g += pb.smax * sqn * 2 * eps * (pmax2 + spmax * xx.tail(m - d).norm());}
      return g;
    };

  std::vector<VecL> xs;
  for (size_t k = 0; k < vs.size(); ++k) {
    const MatL & H = vs[k].H;
    const bool pre = vs[k].name.find("precond") != std::string::npos;
    auto wit = [&]() {
        return vh::J().s("variant", vs[k].name).s("normals", cd.normals_kind).s("motion", cd.motion_kind)
               .s("corr", cd.corr_kind).f("n", cd.n).f("radius", cd.radius).f("theta", cd.theta)
               .f("t", cd.tnorm).f("scale", cd.scale).f("cond", pb.cond).f("cond_scaled", ps.cond)
               .raw("H", vh::jmat(H)).str();
      };
    if (!c.expect("finite", H.allFinite(), "nonfinite", params, wit)) {xs.push_back(VecL()); continue;}
    // structure: identity + skew + translation, exactly
    LD st = 0;
    for (int i = 0; i <= d; ++i) {st = std::max(st, fabsl(H(i, i) - 1));}
    for (int j = 0; j < d; ++j) {st = std::max(st, fabsl(H(d, j)));}
    for (int i = 0; i < d; ++i) {for (int j = i + 1; j < d; ++j) {st = std::max(st, fabsl(H(i, j) + H(j, i)));}}
    c.expect_le("structure.identity_plus_skew", st, 0.0L, "bad_structure", params, wit);
    VecL x = params_of(H, d);
    xs.push_back(x);
    // normal equations of the stated problem; the preconditioned variants solve the scaled
    // problem, whose conditioning governs their rounding
    LD cnd = pre ? std::max(pb.cond, ps.cond) : pb.cond;
    if (16 * eps * cnd >= 1e-2L) {c.skip(pre ? "normal_eq:vacuous_precond" : "normal_eq:vacuous"); continue;}
    LD G = Gbound(cnd, x, pre);
    LD grad = (pb.JtJ * x - pb.JtY).norm();
    c.expect_le(pre ? "normal_equations.precond" : "normal_equations", grad, G, "normal_equations_residual", params, wit);
    LD xtol = G / (pb.smin * pb.smin);
    // recovery of the motion
    VecL xt(m); xt.head(d) = cd.ttrue; xt.tail(m - d) = cd.wtrue;
    if (cd.noise == 0) {
      // the true motion leaves linearisation residuals |r_i| <= (theta^2/2 + theta^3/6) |s_i| (+ rounding of the targets)
      LD smax = 0; for (auto & s : s_used) {smax = std::max(smax, s.norm());}
      LD lin = sqrtl((LD)cd.n) * (0.5L * cd.theta * cd.theta + cd.theta * cd.theta * cd.theta / 6) * smax * 1.001L / pb.smin;
      LD rnd = sqrtl((LD)cd.n) * 4 * eps * (smax + cd.tnorm) / pb.smin;
      LD err = (x - xt).norm();
      const char * o = cd.theta == 0 ? "recovers_pure_translation" : "recovers_rotation_O(theta^2)";
      c.expect_le(o, err, xtol + lin + rnd, cd.theta == 0 ? "translation_not_recovered" : "rotation_not_recovered", params, wit);
    }
  }
  // ---- argument aliasing: source and target are ONE PointSet object (a scan registered against a
  // later part of itself), correspondences i -> i + n; must equal the answer for separate objects
  {
    const size_t nn = s_used.size();
    PointSet<PC> both(2 * nn), srcO(nn), tgtO(2 * nn); NormalSet<PC> nrmB(2 * nn);
    std::vector<Correspondence> cc;
    for (size_t i = 0; i < nn; ++i) {
      both[i] = make_point<PC>(s_used[i]); both[nn + i] = make_point<PC>(t_used[i]);
      nrmB[i] = make_point<PC>(n_used[i]); nrmB[nn + i] = make_point<PC>(n_used[i]);
      cc.emplace_back(i, nn + i);
    }
    PointSet<PC> copy_of_both = both;
    FindRigidTransformationByLeastSquares<PC> e1, e2;
    MatL Ha = to_ld(e1.find(both, both, nrmB, cc));
    MatL Hb = to_ld(e2.find(both, copy_of_both, nrmB, cc));
    c.expect_le("aliased_source_and_target", (Ha - Hb).cwiseAbs().maxCoeff(), 0.0L, "depends_on_argument_aliasing", params, [&]() {
        return vh::J().f("n", (int)nn).raw("H_same_object", vh::jmat(Ha)).raw("H_separate_objects", vh::jmat(Hb)).str();
      });
  }
  // ---- history with a RELATED second problem: one estimator solves the problem and then an exact
  // symmetric image of it (mirror of the last axis, quarter/half turn about z, reversed order) or
  // the same geometry with new targets; the second answer must solve the second problem
  {
    const int mode = (int)r.range(0, 4);
    auto sym = [&](const VecL & v, bool is_point) {
        VecL o = v;
        if (mode == 0) {o(d - 1) = -o(d - 1);} else if (mode == 1) {o(0) = -v(1); o(1) = v(0);} else if (mode == 2) {
          o(0) = -v(0); o(1) = -v(1);
        }
        (void)is_point;
        return o;
      };
    const size_t nn = s_used.size();
    std::vector<VecL> s2(nn), t2(nn), n2(nn);
    VecL shift = random_unit(r, d) * (LD)(1e-3 * (double)cd.radius);
    for (size_t i = 0; i < nn; ++i) {
      size_t j = mode == 3 ? nn - 1 - i : i;
      s2[i] = sym(s_used[j], true); n2[i] = sym(n_used[j], false);
      t2[i] = mode == 4 ? VecL(t_used[j] + shift) : sym(t_used[j], true);
    }
    PointSet<PC> a1(nn), b1(nn), a2(nn), b2(nn); NormalSet<PC> c1(nn), c2(nn);
    for (size_t i = 0; i < nn; ++i) {
      a1[i] = make_point<PC>(s_used[i]); b1[i] = make_point<PC>(t_used[i]); c1[i] = make_point<PC>(n_used[i]);
      a2[i] = make_point<PC>(s2[i]); b2[i] = make_point<PC>(t2[i]); c2[i] = make_point<PC>(n2[i]);
      s2[i] = cart_of(a2[i]); t2[i] = cart_of(b2[i]); n2[i] = cart_of(c2[i]);
    }
    FindRigidTransformationByLeastSquares<PC> est;
    (void)est.find(a1, b1, c1);
    MatL H2 = to_ld(est.find(a2, b2, c2));
    Problem p2 = build(s2, t2, n2);
    static const char * MODES[] = {"mirror_last_axis", "quarter_turn_z", "half_turn_z", "reversed_order", "new_targets_same_geometry"};
    c.cat(std::string("second_problem_") + MODES[mode]);
    if (H2.allFinite() && p2.cond < 1e6L && 16 * eps * p2.cond < 1e-2L) {
      VecL x2 = params_of(H2, d);
      LD D2 = 0; for (size_t i = 0; i < nn; ++i) {D2 += (t2[i] - s2[i]).squaredNorm();}
      LD G2 = 16 * eps * (p2.cond * p2.JtY.norm() + sqn * p2.normJ * sqrtl(D2) + p2.JtJ.norm() * x2.norm());
      c.expect_le("second_related_problem.normal_equations", (p2.JtJ * x2 - p2.JtY).norm(), G2, "depends_on_history", params, [&]() {
          return vh::J().s("second_problem", MODES[mode]).f("n", (int)nn).raw("H2", vh::jmat(H2)).f("cond", p2.cond).str();
        });
    }
  }
  // ---- variants agree
  for (size_t k = 1; k < vs.size(); ++k) {
    if (xs[0].size() == 0 || xs[k].size() == 0) {continue;}
    LD cnd = std::max(pb.cond, ps.cond);
    if (16 * eps * cnd >= 1e-2L) {c.skip("variants_agree:vacuous"); continue;}
    LD G = Gbound(cnd, xs[0], true);
    LD tol = 2 * G / (pb.smin * pb.smin);
    c.expect_le("variants_agree", (xs[k] - xs[0]).norm(), tol, "variant_disagreement", params, [&]() {
        return vh::J().s("a", vs[0].name).s("b", vs[k].name).raw("xa", vh::jvec(xs[0])).raw("xb", vh::jvec(xs[k]))
               .f("cond", pb.cond).f("cond_scaled", ps.cond).f("scale", cd.scale).str();
      });
  }
}

static void one_case(vh::Ctx & c, uint64_t idx)
{
  vh::Rng r(c.seed, idx);
  CaseData cd;
  cd.dim = r.coin() ? 2 : 3;
  cd.is_float = r.coin();
  gen_case(r, cd);
  std::string cat = std::string(cd.dim == 2 ? "2" : "3") + (cd.is_float ? "f" : "d");
  c.cat("types_" + cat + "_cart+hom");
  c.cat("normals_" + cd.normals_kind);
  c.cat("motion_" + cd.motion_kind);
  c.cat("corr_" + cd.corr_kind);
  if (cd.far_unreferenced) {c.cat("unreferenced_points_far_from_the_registered_subset");}
  if (cd.random_corr_fields) {c.cat("correspondences_with_arbitrary_distance_and_weight_fields");}
  c.cat(std::string("normal_w_") + (cd.normal_w < 0 ? "m1" : cd.normal_w == 0 ? "0" : "p1"));
  uint64_t h = vh::hash_doubles({(double)cd.dim, (double)cd.is_float, (double)cd.n, (double)cd.radius, (double)cd.theta,
        (double)cd.tnorm, (double)cd.noise, (double)cd.scale, (double)cd.src_full[0](0)});
  bool trivial = cd.scale == 1.0 && cd.corr_kind == "identity" && cd.motion_kind == "pure_translation";
  c.distinct(h, !trivial);
  c.sample("motion_" + cd.motion_kind, [&]() {
      return vh::J().f("dim", cd.dim).boolean("float", cd.is_float).f("n", cd.n).s("normals", cd.normals_kind)
             .s("motion", cd.motion_kind).s("corr", cd.corr_kind).f("radius", cd.radius).f("offset", cd.offset_norm)
             .f("theta", cd.theta).f("t", cd.tnorm).f("noise", cd.noise).f("precond_scale", cd.scale)
             .f("homogeneous_normal_w", cd.normal_w).boolean("decoy_problem_first", cd.decoy_first).str();
    });
  if (cd.dim == 2) {
    if (cd.is_float) {run_case<float, 2>(c, r, cd);} else {run_case<double, 2>(c, r, cd);}
  } else {
    if (cd.is_float) {run_case<float, 3>(c, r, cd);} else {run_case<double, 3>(c, r, cd);}
  }
}

int main(int argc, char ** argv)
{
  return vh::run(argc, argv, "C05", {12000, 400000}, one_case);
}
