// C01  ECEF <-> geodetic conversion is an accurate bijection near the Earth.
//
// Oracle: the *definition* in long double.  The foot point P0 is the point of the ellipsoid
// x²/a² + y²/a² + z²/b² = 1 whose outward normal is n(lat, lon); the expected ECEF point is
// P0 + h n.  This uses (a, b) only, not the library's N / e² formulation.  The inverse is checked
// by round trips in both directions (no second implementation of the inverse).
#include <Eigen/Core>
#include "romea_core_common/geodesy/ECEFConverter.hpp"
#include "vh.hpp"
#include "vh_hooks.hpp"

using romea::core::ECEFConverter;
using romea::core::EarthEllipsoid;
using romea::core::GeodeticCoordinates;
typedef long double LD;

static const LD PI_L = 3.14159265358979323846264338327950288L;

struct Ell {const char * name; double a, b; int id;};

static void oracle_forward(const Ell & e, double lat, double lon, double h, LD out[3])
{
  LD a = e.a, b = e.b;
  LD cl = cosl((LD)lat), sl = sinl((LD)lat), co = cosl((LD)lon), so = sinl((LD)lon);
  LD nx = cl * co, ny = cl * so, nz = sl;
  LD s = sqrtl(a * a * (nx * nx + ny * ny) + b * b * nz * nz);
  LD x0 = a * a * nx / s, y0 = a * a * ny / s, z0 = b * b * nz / s;
  out[0] = x0 + h * nx; out[1] = y0 + h * ny; out[2] = z0 + h * nz;
}

static double circ_diff(double a, double b)
{
  LD d = fabsl((LD)a - (LD)b);
  LD d2 = fabsl(d - 2 * PI_L);
  return (double)(d < d2 ? d : d2);
}

static double pick_lat(vh::Rng & r, int mode)
{
  const double LIM = 89.9 * M_PI / 180.0;
  switch (mode) {
    case 0: return r.uni(-LIM, LIM);
    case 1: return r.sign() * (LIM - r.logu(1e-12, 1e-2));           // dense band at +-89.9
    case 2: return r.sign() * r.logu(1e-16, 1e-2);                    // dense band at the equator
    case 3: return r.sign() * (M_PI / 4 + r.uni(-1e-3, 1e-3));
    case 4: return r.sign() * LIM;
    default: return r.coin(0.3) ? 0.0 : r.uni(-LIM, LIM);
  }
}

static double clamp_lon(double l) {return l > M_PI ? M_PI : (l < -M_PI ? -M_PI : l);}

static void one_case(vh::Ctx & c, uint64_t idx)
{
  vh::Rng r(c.seed, idx);
  // ---- ellipsoid
  Ell e;
  int ek = r.range(0, 9);
  if (ek <= 3) {e = {"GRS80", 6378137.0, 6356752.314, 0};} else if (ek == 4) {
    e = {"Clarke1880IGN", 6378249.2, 6356515.0, 1};
  } else if (ek == 5) {e = {"International1924", 6378388.0, 6356911.9461, 2};} else if (ek == 6) {
    e = {"sphere", 6378137.0, 6378137.0, 3};
  } else {
    double a = 6378137.0 * (1.0 + r.uni(-1e-3, 1e-3));
    int fk = (int)r.range(0, 9);
    // flattening: uniform, the two ends, and log-spaced neighbourhoods of both ends (an almost
    // spherical ellipsoid whose axes differ by micrometres .. metres is inside the quantifier)
    double f = fk <= 1 ? (fk ? 0.0 : 1.0 / 290.0) : fk <= 3 ? r.logu(1e-14, 1e-3) : fk == 4 ? 1.0 / 290.0 - r.logu(1e-14, 1e-4) :
      r.uni(0.0, 1.0 / 290.0);
    e = {fk == 2 || fk == 3 ? "near_sphere" : "random", a, a * (1.0 - f), fk == 2 || fk == 3 ? 5 : 4};
  }
  // ---- category / coordinates
  int catk = r.range(0, 9);
  double lat, lon, h;
  const char * cat;
  if (catk <= 2) {
    cat = "generic"; lat = pick_lat(r, 0); lon = r.uni(-M_PI, M_PI);
  } else if (catk == 3) {
    cat = "lat_band"; lat = pick_lat(r, (int)r.range(1, 4)); lon = r.uni(-M_PI, M_PI);
  } else if (catk == 4) {
    cat = "meridian_exact"; lat = pick_lat(r, 5);
    static const double M[] = {0.0, M_PI / 2, -M_PI / 2, M_PI, -M_PI};
    lon = M[r.range(0, 4)];
    int k = (int)r.range(0, 4);           // nextafter neighbours, kept inside [-pi,pi]
    for (int i = 0; i < k; ++i) {lon = std::nextafter(lon, r.coin() ? 4.0 : -4.0);}
    lon = clamp_lon(lon);
  } else if (catk <= 7) {
    cat = "antimeridian_near"; lat = pick_lat(r, r.coin(0.7) ? 0 : (int)r.range(1, 5));
    double off = r.logu(1e-15, 1e-3);
    lon = r.coin() ? (M_PI - off) : (-M_PI + off);
    lon = clamp_lon(lon);
  } else if (catk == 8) {
    cat = "prime_meridian_near"; lat = pick_lat(r, 0);
    lon = r.sign() * r.logu(1e-15, 1e-3);
    if (r.coin(0.3)) {lon += r.sign() * M_PI / 2;}
  } else {
    cat = "ecef_first"; lat = pick_lat(r, r.coin() ? 0 : 5); lon = r.coin() ? M_PI : -M_PI;
  }
  int hk = r.range(0, 5);
  h = hk == 0 ? -11000.0 : hk == 1 ? 100000.0 : hk == 2 ? 0.0 : r.uni(-11000.0, 100000.0);
  c.cat(cat);
  c.cat(std::string("ellipsoid_") + e.name);

  bool trivial = e.id == 0 && std::fabs(lon) < 3.0 && std::fabs(lat) < M_PI / 3;
  c.distinct(vh::hash_doubles({(double)e.id, e.a, e.b, lat, lon, h}), !trivial);

  auto params = [&]() {
      return vh::Params{{"lat", lat}, {"lon", lon}, {"h", h}, {"ellipsoid", (double)e.id},
        {"a", e.a}, {"b", e.b}, {"dist_antimeridian", M_PI - std::fabs(lon)}};
    };
  auto wit = [&]() {
      return vh::J().s("cat", cat).s("ellipsoid", e.name).f("a", e.a).f("b", e.b).f("lat", lat)
             .f("lon", lon).f("h", h).str();
    };
  c.sample(cat, wit);

  ECEFConverter conv(EarthEllipsoid(e.a, e.b));
  auto & lw = vh::loopwatch();

  if (std::strcmp(cat, "ecef_first") == 0) {
    // Cartesian point given first: on / next to the antimeridian half-plane, Y exactly zero,
    // denormal or tiny of either sign.
    LD P[3];
    oracle_forward(e, lat, M_PI, h, P);
    Eigen::Vector3d X((double)P[0], 0.0, (double)P[2]);
    int yk = r.range(0, 5);
    double y = yk == 0 ? 0.0 : yk == 1 ? -0.0 : yk == 2 ? 4.9e-324 * r.sign() :
      yk == 3 ? r.sign() * r.logu(1e-300, 1e-20) : r.sign() * r.logu(1e-20, 1.0);
    X[1] = y;
    if (r.coin(0.25)) {X[0] = -X[0];}           // prime-meridian twin
    lw.reset_case();
    GeodeticCoordinates g = conv.toWGS84(X);
    c.maxi("ecef_loop_iterations", (double)lw.case_max);
    auto p2 = [&]() {
        return vh::Params{{"X", X[0]}, {"Y", X[1]}, {"Z", X[2]}, {"ellipsoid", (double)e.id}};
      };
    auto w2 = [&]() {
        return vh::J().s("cat", cat).raw("X", vh::jvec(X)).f("lat", g.latitude).f("lon", g.longitude)
               .f("h", g.altitude).str();
      };
    if (lw.tripped) {c.violation("nontermination", p2(), w2()); return;}
    bool fin = std::isfinite(g.latitude) && std::isfinite(g.longitude) && std::isfinite(g.altitude);
    if (!c.expect("ecef_first.finite", fin, "nonfinite", p2, w2)) {return;}
    c.expect("ecef_first.range", std::fabs(g.latitude) <= M_PI / 2 && std::fabs(g.longitude) <= M_PI,
      "out_of_range", p2, w2);
    Eigen::Vector3d Xb = conv.toECEF(g);
    c.expect_le("ecef_first.roundtrip_m", (Xb - X).norm(), 1e-3, "ecef_roundtrip", p2, w2);
    return;
  }

  // The checks are run on the point and then, with the same converter in the same thread, on a
  // second point a log-spaced distance (1 mm .. 100 km) away: a conversion must not depend on the
  // calls made before it (trajectory-like call sequences).
  double lat0 = lat, lon0 = lon, h0 = h;
  for (int leg = 0; leg < 2; ++leg) {
  if (leg == 1) {
    double dist = r.logu(1e-3, 1e5), az = r.coin(0.3) ? (r.coin() ? 0.0 : M_PI) : r.uni(0, 2 * M_PI);
    const double LIM = 89.9 * M_PI / 180.0;
    lat = std::max(-LIM, std::min(LIM, lat0 + dist * std::cos(az) / 6.37e6));
    lon = clamp_lon(lon0 + dist * std::sin(az) / (6.37e6 * std::max(std::cos(lat0), 1e-3)));
    h = std::max(-11000.0, std::min(100000.0, h0 + (r.coin(0.3) ? r.sign() * r.logu(1e-3, 1e3) : 0.0)));
    c.cat("second_point_of_pair");
    c.count("pair_second_points");
  }
  // ---- forward against the definition
  GeodeticCoordinates g = romea::core::makeGeodeticCoordinates(lat, lon, h);
  Eigen::Vector3d X = conv.toECEF(g);
  LD P[3];
  oracle_forward(e, lat, lon, h, P);
  LD d = sqrtl(
    ((LD)X[0] - P[0]) * ((LD)X[0] - P[0]) + ((LD)X[1] - P[1]) * ((LD)X[1] - P[1]) +
    ((LD)X[2] - P[2]) * ((LD)X[2] - P[2]));
  bool finX = std::isfinite(X[0]) && std::isfinite(X[1]) && std::isfinite(X[2]);
  if (!c.expect("forward.finite", finX, "nonfinite", params, wit)) {return;}
  c.expect_le("forward.vs_definition_m", d, 1e-3L, "forward_mismatch", params, [&]() {
      return vh::J().raw("case", wit()).raw("got", vh::jvec(X)).f("ox", P[0]).f("oy", P[1]).f("oz", P[2]).str();
    });

  // ---- geodetic -> ECEF -> geodetic
  lw.reset_case();
  GeodeticCoordinates gb = conv.toWGS84(X);
  c.maxi("ecef_loop_iterations", (double)lw.case_max);
  auto witb = [&]() {
      return vh::J().raw("case", wit()).f("lat_back", gb.latitude).f("lon_back", gb.longitude)
             .f("h_back", gb.altitude).str();
    };
  if (lw.tripped) {c.violation("nontermination", params(), witb()); return;}
  bool fin = std::isfinite(gb.latitude) && std::isfinite(gb.longitude) && std::isfinite(gb.altitude);
  if (!c.expect("inverse.finite", fin, "nonfinite", params, witb)) {return;}
  c.expect("inverse.range", std::fabs(gb.latitude) <= M_PI / 2 && std::fabs(gb.longitude) <= M_PI,
    "out_of_range", params, witb);
  c.expect_le("roundtrip.lat_rad", std::fabs(gb.latitude - lat), 1e-9, "roundtrip_lat", params, witb);
  c.expect_le("roundtrip.lon_rad", circ_diff(gb.longitude, lon), 1e-9, "roundtrip_lon", params, witb);
  c.expect_le("roundtrip.alt_m", std::fabs(gb.altitude - h), 1e-3, "roundtrip_alt", params, witb);

  // ---- result stability: a result the caller still holds (by const reference, which extends the
  // lifetime of a returned temporary) must not change when the converter is used again
  {
    const auto & held = conv.toECEF(g);
    const Eigen::Vector3d held_copy = held;
    (void)conv.toECEF(romea::core::makeGeodeticCoordinates(-0.5 * lat, 0.25 * lon, 0.5 * h + 1.0));
    c.expect("results_do_not_alias", (held - held_copy).norm() == 0 && (held - X).norm() == 0, "result_aliasing", params, wit);
  }
  // ---- ECEF -> geodetic -> ECEF (on the library's own forward image)
  Eigen::Vector3d Xb = conv.toECEF(gb);
  c.expect_le("ecef_roundtrip_m", (Xb - X).norm(), 1e-3, "ecef_roundtrip", params, witb);
  }
}

int main(int argc, char ** argv)
{
  return vh::run(argc, argv, "C01", {1500000, 50000000}, one_case, [](vh::Ctx & c) {
      c.count("loop_hook_calls", vh::loopwatch().calls);
    });
}
