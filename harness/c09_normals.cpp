// C09  Estimated surface normals are unit, sensor-facing and orthogonal to the surface.
//
// Oracle per sampled point: brute-force k nearest neighbours (the query point is one of them, as
// in the library), long-double covariance and eigen-decomposition.  Points whose k-th/(k+1)-th
// neighbour distances tie (1e-6 relative) or whose eigen-gap is below 1e-6 are skipped for the
// affected sub-checks and counted.  The output buffers are pre-filled with what callers really
// pass: PointType::Zero() or default-constructed points (homogeneous w = 0 or 1).
#include <numeric>
#include "romea_core_common/pointset/algorithms/NormalAndCurvatureEstimation.hpp"
#include "romea_core_common/pointset/NormalSet.hpp"
#include "romea_core_common/pointset/KdTree.hpp"
#include <set>
#include "vh_points.hpp"

using namespace vhp;
using romea::core::PointSet;
using romea::core::NormalSet;
using romea::core::KdTree;
using romea::core::NormalAndCurvatureEstimation;

struct Cloud
{
  int dim; bool is_float; bool homogeneous; int k; int prefill;   // prefill: 0 = Zero(), 1 = default-constructed
  std::string kind;
  bool planar; VecL true_normal;
  std::vector<VecL> pts;
  LD noise, dist;
};

struct Local {bool tie; std::vector<int> nb; VecL mean; MatL C; VecL ev; MatL V; LD gap, c, lmax;};

// tie_rel: relative gap between the k-th and (k+1)-th squared distances below which the neighbour
// set is not decided by the points (the tree compares distances computed in the point scalar type,
// each good to a few eps)
static Local local_oracle(const std::vector<VecL> & pts, int i, int k, LD tie_rel)
{
  const int d = (int)pts[0].size(), N = (int)pts.size();
  std::vector<std::pair<LD, int>> ds(N);
  for (int j = 0; j < N; ++j) {ds[j] = {(pts[j] - pts[i]).squaredNorm(), j};}
  std::partial_sort(ds.begin(), ds.begin() + std::min(N, k + 1), ds.end());
  Local L;
  L.tie = false;
  if (k < N) {
    LD a = ds[k - 1].first, b = ds[k].first;
    L.tie = (b - a) <= tie_rel * b;
  }
  L.mean = VecL::Zero(d);
  for (int j = 0; j < k; ++j) {L.nb.push_back(ds[j].second); L.mean += pts[ds[j].second];}
  std::sort(L.nb.begin(), L.nb.end());
  L.mean /= (LD)k;
  L.C = MatL::Zero(d, d);
  for (int j = 0; j < k; ++j) {VecL q = pts[ds[j].second] - L.mean; L.C += q * q.transpose();}
  L.C /= (LD)k;
  Eigen::SelfAdjointEigenSolver<MatL> es(L.C);
  L.ev = es.eigenvalues(); L.V = es.eigenvectors();
  L.lmax = L.ev(d - 1);
  L.gap = L.lmax > 0 ? (L.ev(1) - L.ev(0)) / L.lmax : 0;
  L.c = L.lmax > 0 ? 1 + L.mean.squaredNorm() / L.lmax : INFINITY;
  return L;
}

template<class P>
struct Out {NormalSet<P> normals; std::vector<typename P::Scalar> curv, rel; bool has_curv; const char * name;};

template<class P>
static std::vector<Out<P>> run_all(NormalAndCurvatureEstimation<P> & est, const PointSet<P> & pts, int k, int prefill)
{
  using S = typename P::Scalar;
  const size_t N = pts.size();
  (void)k;
  auto mk = [&](const char * name, bool hc) {
      Out<P> o;
      o.normals = prefill ? NormalSet<P>(N) : NormalSet<P>(N, P::Zero());
      o.curv.assign(N, S(-7)); o.rel.assign(N, S(-7)); o.has_curv = hc; o.name = name;
      return o;
    };
  std::vector<Out<P>> outs;
  KdTree<P> tree(pts);
  {auto o = mk("points", false); est.compute(pts, o.normals); outs.push_back(std::move(o));}
  {auto o = mk("points+tree", false); est.compute(pts, tree, o.normals); outs.push_back(std::move(o));}
  {auto o = mk("points+curv", true); est.compute(pts, o.normals, o.curv); outs.push_back(std::move(o));}
  {auto o = mk("points+tree+curv", true); est.compute(pts, tree, o.normals, o.curv); outs.push_back(std::move(o));}
  {auto o = mk("points+curv+rel", true); est.compute(pts, o.normals, o.curv, o.rel); outs.push_back(std::move(o));}
  {auto o = mk("points+tree+curv+rel", true); est.compute(pts, tree, o.normals, o.curv, o.rel); outs.push_back(std::move(o));}
  return outs;
}

template<class P>
static void run_cloud(vh::Ctx & c, vh::Rng & r, const Cloud & cl)
{
  using S = typename P::Scalar;
  const int d = Tr<P>::DIM;
  const LD eps = std::numeric_limits<S>::epsilon();
  // float: 1e-6 (about 8 eps); double: 1e-13 (450 eps) - near ties far above that are decided by the
  // points and an exact k-nearest-neighbour search must respect them
  const LD tie_rel = sizeof(S) == 4 ? 1e-6L : 1e-13L;
  const int N = (int)cl.pts.size();
  PointSet<P> pts(N);
  std::vector<VecL> rp(N);                 // the rounded points the library sees
  for (int i = 0; i < N; ++i) {pts[i] = make_point<P>(cl.pts[i]); rp[i] = cart_of(pts[i]);}
  // rotated copy (rotation about the sensor origin)
  MatL R = random_rotation(r, d, r.uni(0.05, 3.1));
  PointSet<P> ptsR(N);
  std::vector<VecL> rpR(N);
  for (int i = 0; i < N; ++i) {ptsR[i] = make_point<P>(VecL(R * rp[i])); rpR[i] = cart_of(ptsR[i]);}

  // History: in half of the cases ONE estimator object processes the cloud and then the rotated
  // cloud written in place into the SAME PointSet object (a reused scan buffer); otherwise fresh
  // objects.  The outputs must not depend on which.
  const bool reuse = r.coin();
  c.cat(reuse ? "estimator_and_buffer_reused" : "fresh_estimator_per_cloud");
  std::vector<Out<P>> outs, outsR;
  if (reuse) {
    NormalAndCurvatureEstimation<P> est(cl.k);
    PointSet<P> buf = pts;
    outs = run_all<P>(est, buf, cl.k, cl.prefill);
    for (int i = 0; i < N; ++i) {buf[i] = ptsR[i];}
    outsR = run_all<P>(est, buf, cl.k, cl.prefill);
  } else {
    NormalAndCurvatureEstimation<P> est1(cl.k), est2(cl.k);
    outs = run_all<P>(est1, pts, cl.k, cl.prefill);
    outsR = run_all<P>(est2, ptsR, cl.k, cl.prefill);
  }

  auto params = [&]() {
      return vh::Params{{"dim", (double)d}, {"is_float", (double)cl.is_float}, {"homogeneous", (double)cl.homogeneous},
        {"k", (double)cl.k}, {"n", (double)N}, {"prefill_default_constructed", (double)cl.prefill}, {"noise", (double)cl.noise}};
    };
  auto cartn = [&](const P & n) {VecL v(d); for (int j = 0; j < d; ++j) {v(j) = (LD)n(j);} return v;};

  // ---- cheap checks on every point and every overload
  for (auto * set : {&outs, &outsR}) {
    const std::vector<VecL> & q = set == &outs ? rp : rpR;
    for (auto & o : *set) {
      for (int i = 0; i < N; ++i) {
        VecL n = cartn(o.normals[i]);
        auto wit = [&]() {
            return vh::J().s("overload", o.name).s("cloud", cl.kind).f("point_index", i).raw("point", vh::jvec(q[i]))
                   .raw("normal_as_returned", vh::jvec(o.normals[i])).boolean("rotated_copy", set == &outsR).str();
          };
        if (!c.expect("finite", n.allFinite(), "nonfinite", params, wit)) {continue;}
        c.expect_le("unit_length", fabsl(n.norm() - 1), 32 * eps, "not_unit", params, wit);
        c.expect_le("faces_sensor", n.dot(q[i]), 32 * eps * q[i].norm(), "points_away_from_sensor", params, wit);
        if (o.has_curv) {
          LD cv = o.curv[i];
          // curvature in [0, 1/DIM]; rounding of an almost-zero smallest eigenvalue may make it
          // slightly negative (design calibration: -1.3e-7 float / -2.9e-16 double with c ~ 1)
          bool ok = std::isfinite((double)cv);
          if (c.expect("curvature.finite", ok, "curvature_out_of_range", params, wit)) {
            LD cc = 1 + q[i].squaredNorm() * 0;   // refined below for sampled points; here absolute slack
            (void)cc;
            c.expect("curvature.upper", cv <= 1.0L / d + 64 * eps, "curvature_out_of_range", params, wit);
          }
        }
      }
    }
  }

  // ---- expensive oracle on a sample of points
  const int nsample = std::min(N, 40);
  for (int sidx = 0; sidx < nsample; ++sidx) {
    int i = N <= 40 ? sidx : (int)r.range(0, N - 1);
    Local L = local_oracle(rp, i, cl.k, tie_rel);
    if (L.tie) {c.skip("oracle:knn_tie"); continue;}
    if (!(L.gap > 1e-6L)) {c.skip("oracle:eigengap_below_1e-6_outside_quantifier"); continue;}
    LD bound = 16 * eps * L.c / L.gap;
    VecL v0 = L.V.col(0);
    LD pmax = 0; for (int j : L.nb) {pmax = std::max(pmax, rp[j].norm());}
    for (auto & o : outs) {
      VecL n = cartn(o.normals[i]);
      if (!n.allFinite()) {continue;}
      auto wit = [&]() {
          return vh::J().s("overload", o.name).s("cloud", cl.kind).f("point_index", i).raw("point", vh::jvec(rp[i]))
                 .raw("normal", vh::jvec(n)).raw("oracle_least_variance_direction", vh::jvec(v0)).raw("eigenvalues", vh::jvec(L.ev))
                 .f("gap", L.gap).f("c", L.c).str();
        };
      // curvature lower bound with the neighbourhood's conditioning
      if (o.has_curv) {
        c.expect("curvature.lower", (LD)o.curv[i] >= -4 * eps * L.c, "curvature_out_of_range", params, wit);
      }
      if (bound >= 1e-2L) {c.skip("least_variance:vacuous_tolerance"); continue;}
      LD ang = std::min((n - v0).norm(), (n + v0).norm());
      c.expect_le("least_variance_direction.angle", ang, bound + 32 * eps, "not_least_variance_direction", params, wit);
      LD rq = n.dot(L.C * n) / n.squaredNorm();
      c.expect_le("least_variance_direction.rayleigh_excess", (rq - L.ev(0)) / L.lmax, bound, "not_least_variance_direction", params, wit);
      if (cl.planar) {
        // exactly planar (to input rounding) cloud not through the origin
        LD thick = 8 * eps * pmax / sqrtl(L.ev(1));
        LD a2 = std::min((n - cl.true_normal).norm(), (n + cl.true_normal).norm());
        c.expect_le("planar.normal_is_surface_normal", a2, bound + thick + 32 * eps, "planar_normal_wrong", params, wit);
        if (o.has_curv) {
          LD ctol = 8 * eps * L.c + (8 * eps * pmax) * (8 * eps * pmax) / L.ev.sum();
          c.expect_le("planar.curvature_zero", fabsl((LD)o.curv[i]), ctol, "planar_curvature_nonzero", params, wit);
        }
      }
    }
    // rotation equivariance: same neighbourhood in the rotated copy, normal rotated by R
    Local LR = local_oracle(rpR, i, cl.k, tie_rel);
    if (LR.tie || LR.nb != L.nb || !(LR.gap > 1e-6L)) {c.skip("rotation:neighbourhood_changed_by_rounding"); continue;}
    LD bR = 16 * eps * (L.c / L.gap + LR.c / LR.gap) + 8 * eps * pmax / sqrtl(L.ev(1)) * (L.lmax / (L.ev(1) - L.ev(0)));
    if (bR >= 1e-2L) {c.skip("rotation:vacuous_tolerance"); continue;}
    for (size_t oi = 0; oi < outs.size(); ++oi) {
      VecL n = cartn(outs[oi].normals[i]), nR = cartn(outsR[oi].normals[i]);
      if (!n.allFinite() || !nR.allFinite()) {continue;}
      // the sign is fixed by the sensor-facing rule unless the normal is (nearly) tangent to the line of sight
      VecL Rn = R * n;
      bool amb = fabsl(n.dot(rp[i])) <= 1e-6L * rp[i].norm();
      LD diff = amb ? std::min((nR - Rn).norm(), (nR + Rn).norm()) : (nR - Rn).norm();
      if (amb) {c.skip("rotation:orientation_ambiguous_sign_ignored");}
      c.expect_le("rotation_equivariance", diff, bR + 64 * eps, "not_rotation_equivariant", params, [&]() {
          return vh::J().s("overload", outs[oi].name).s("cloud", cl.kind).f("point_index", i).raw("R", vh::jmat(R))
                 .raw("normal", vh::jvec(n)).raw("normal_of_rotated_cloud", vh::jvec(nR)).str();
        });
    }
  }
}

static void gen_cloud(vh::Rng & r, Cloud & cl)
{
  const int d = cl.dim;
  cl.k = (int)r.range(3, 30);
  int nk = r.range(0, 9);
  int N = nk <= 1 ? cl.k + 1 + (int)r.range(0, 5) : nk <= 7 ? (int)r.range(cl.k + 1, 300) : (int)r.range(300, 2000);
  static const char * kinds[] = {"plane", "plane", "room", "sphere_around_sensor", "noisy_plane", "noisy_room", "blob", "regular_room"};
  cl.kind = kinds[r.range(0, 7)];
  cl.planar = cl.kind == "plane";
  cl.noise = 0;
  cl.pts.clear();
  MatL Rw = random_rotation(r, d, r.uni(0, 6.28));
  cl.dist = r.logu(0.5, 50.0);
  LD ext = r.logu(0.5, 20.0);
  if (cl.kind == "plane" || cl.kind == "noisy_plane") {
    if (cl.kind == "noisy_plane") {cl.noise = r.logu(1e-4, 0.05) * ext;}
    VecL nrm = Rw.col(d - 1);
    cl.true_normal = nrm;
    for (int i = 0; i < N; ++i) {
      VecL p = VecL::Zero(d);
      for (int j = 0; j < d - 1; ++j) {p(j) = r.uni(-1, 1) * ext;}
      p(d - 1) = cl.dist + (cl.noise > 0 ? r.normal() * cl.noise : 0);
      cl.pts.push_back(Rw * p);
    }
  } else if (cl.kind == "room" || cl.kind == "noisy_room") {
    if (cl.kind == "noisy_room") {cl.noise = r.logu(1e-4, 0.02) * cl.dist;}
    VecL shift(d); for (int j = 0; j < d; ++j) {shift(j) = r.uni(-0.4, 0.4) * cl.dist;}
    for (int i = 0; i < N; ++i) {
      int wall = (int)r.range(0, 2 * d - 1), axis = wall / 2; LD sg = wall % 2 ? 1 : -1;
      VecL p(d); for (int j = 0; j < d; ++j) {p(j) = r.uni(-1, 1) * cl.dist;}
      p(axis) = sg * cl.dist + (cl.noise > 0 ? r.normal() * cl.noise : 0);
      cl.pts.push_back(Rw * (p + shift));
    }
  } else if (cl.kind == "regular_room") {
    // walls sampled on a regular axis-aligned lattice (what a scanner with constant angular or
    // linear steps produces) with a jitter of 1e-12..1e-8 of the spacing: the neighbour distances
    // come in NEAR ties, far above rounding level, which an exact neighbour search must resolve
    const int m = (int)r.range(4, 12);
    const LD h = cl.dist / m, jit = h * r.logu(1e-12, 1e-8);
    std::vector<VecL> all;
    for (int wall = 0; wall < 2 * d; ++wall) {
      const int axis = wall / 2; const LD sg = wall % 2 ? 1 : -1;
      if (d == 2) {
        for (int a = -m; a <= m; ++a) {VecL p(2); p(axis) = sg * cl.dist; p(1 - axis) = a * h; all.push_back(p);}
      } else {
        for (int a = -m; a <= m; ++a) {
          for (int b = -m; b <= m; ++b) {VecL p(3); p(axis) = sg * cl.dist; p((axis + 1) % 3) = a * h; p((axis + 2) % 3) = b * h; all.push_back(p);}
        }
      }
    }
    // walls share their edges and corners: keep one copy of each lattice point (a neighbourhood of
    // identical points has no least-variance direction and is outside the quantifier)
    {
      std::set<std::vector<long>> seen_pts;
      std::vector<VecL> uniq;
      for (const VecL & p : all) {
        std::vector<long> key(d);
        for (int j = 0; j < d; ++j) {key[j] = std::lround((double)(p(j) / h));}
        if (seen_pts.insert(key).second) {uniq.push_back(p);}
      }
      all.swap(uniq);
    }
    for (int i = (int)all.size(); i > 1; --i) {std::swap(all[i - 1], all[r.range(0, i - 1)]);}
    N = std::max(cl.k + 1, std::min<int>(N, (int)all.size()));
    if ((int)all.size() < N) {N = (int)all.size();}
    VecL shift(d); for (int j = 0; j < d; ++j) {shift(j) = (LD)r.range(-3, 3) * h;}
    for (int i = 0; i < N; ++i) {
      VecL p = all[i] + shift;
      for (int j = 0; j < d; ++j) {p(j) += r.normal() * jit;}
      cl.pts.push_back(p);
    }
    if ((int)cl.pts.size() <= cl.k) {cl.k = std::max(3, (int)cl.pts.size() - 1);}
  } else if (cl.kind == "sphere_around_sensor") {
    LD rad = r.coin(0.7) ? r.uni(0.3, 0.99) : r.logu(1.0, 30.0);
    cl.dist = rad;
    for (int i = 0; i < N; ++i) {cl.pts.push_back(random_unit(r, d) * rad);}
  } else {
    VecL ctr = random_unit(r, d) * cl.dist * 3;
    for (int i = 0; i < N; ++i) {VecL p(d); for (int j = 0; j < d; ++j) {p(j) = r.normal() * ext * 0.3;} cl.pts.push_back(ctr + p);}
  }
}

static void one_case(vh::Ctx & c, uint64_t idx)
{
  vh::Rng r(c.seed, idx);
  Cloud cl;
  cl.dim = r.coin() ? 2 : 3;
  cl.is_float = r.coin();
  cl.homogeneous = r.coin();
  cl.prefill = (int)r.range(0, 1);
  gen_cloud(r, cl);
  // a sample exactly at the sensor origin (zero-encoded return, surface through the sensor): every
  // point of the cloud still gets a unit normal
  if (r.coin(0.15)) {cl.pts[r.range(0, (int)cl.pts.size() - 1)].setZero(); cl.planar = false; c.cat("cloud_with_point_at_origin");}
  // units: every clause of the statement is scale invariant, so the same cloud expressed in
  // another unit (micrometres .. kilometres) is an equally valid input
  if (r.coin(0.4)) {
    LD unit = r.logu(1e-7, 1e3);
    for (auto & p : cl.pts) {p *= unit;}
    cl.dist *= unit; cl.noise *= unit;
    c.cat(unit < 1e-3 ? "cloud_in_small_units" : "cloud_rescaled");
  }
  std::string t = std::string(cl.homogeneous ? "Homogeneous" : "Cartesian") + (cl.dim == 2 ? "2" : "3") + (cl.is_float ? "f" : "d");
  c.cat("type_" + t);
  c.cat("cloud_" + cl.kind);
  c.cat(cl.prefill ? "prefill_default_constructed" : "prefill_zero");
  c.distinct(vh::hash_doubles({(double)cl.dim, (double)cl.is_float, (double)cl.homogeneous, (double)cl.k, (double)cl.pts.size(),
      (double)cl.pts[0](0), (double)cl.pts[1](1), (double)cl.prefill}), !(cl.kind == "plane" && !cl.homogeneous));
  c.sample("cloud_" + cl.kind, [&]() {
      return vh::J().s("type", t).s("cloud", cl.kind).f("k", cl.k).f("points", (int)cl.pts.size()).f("distance", cl.dist)
             .f("noise", cl.noise).boolean("normals_prefilled_default_constructed", cl.prefill)
             .raw("first_point", vh::jvec(cl.pts[0])).str();
    });
  using namespace romea::core;
  if (cl.dim == 2) {
    if (cl.is_float) {
      if (cl.homogeneous) {run_cloud<HomogeneousCoordinates2f>(c, r, cl);} else {run_cloud<Eigen::Vector2f>(c, r, cl);}
    } else {
      if (cl.homogeneous) {run_cloud<HomogeneousCoordinates2d>(c, r, cl);} else {run_cloud<Eigen::Vector2d>(c, r, cl);}
    }
  } else {
    if (cl.is_float) {
      if (cl.homogeneous) {run_cloud<HomogeneousCoordinates3f>(c, r, cl);} else {run_cloud<Eigen::Vector3f>(c, r, cl);}
    } else {
      if (cl.homogeneous) {run_cloud<HomogeneousCoordinates3d>(c, r, cl);} else {run_cloud<Eigen::Vector3d>(c, r, cl);}
    }
  }
}

int main(int argc, char ** argv)
{
  return vh::run(argc, argv, "C09", {2000, 160000}, one_case);
}
