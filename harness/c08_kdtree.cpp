// C08  Kd-tree nearest-neighbour queries agree with exhaustive search.
//
// One case = one generated point set (one of the eight point types) + NQ queries.  For every
// query the real KdTree::findNearestNeighbors / findNearestNeighbor are called with caller-sized
// heap buffers (ASan watches them) and compared with a brute-force scan in long double over the
// Cartesian coordinates (the definition of the Euclidean distance; the homogeneous w = 1 never
// enters the oracle).
//
// Tolerances (DESIGN 2.6, "to rounding" = forward error bound in eps of the point's Scalar):
//  * reported squared distance vs the true squared distance of the *indexed* point:
//    the library evaluates sum_i (q_i - p_i)^2 in Scalar: one rounding in the difference, one in
//    the square, DIM-1 in the sum (the homogeneous term (1-1)^2 is an exact zero)
//    => relative error <= (DIM+2) u = (DIM+2)/2 eps, i.e. 2 eps in 2D and 2.5 eps in 3D.
//    Tolerance = 4 x that bound = 2 (DIM+2) eps relative (8 eps in 2D, 10 eps in 3D), plus an
//    underflow floor of DIM * min-normal.  Observed worst over 4e6 queries x up to 50 results:
//    2.3 eps, i.e. the a-priori bound is nearly attained and the ratio sits just below 0.25.
//  * j-th reported distance vs j-th smallest brute-force distance (ties in any order, values must
//    agree): selection is done on the rounded distances (3 eps) and the branch-and-bound lower
//    bound `mindistsq` is itself accumulated in Scalar (one add + one subtract per level on the
//    path), so a neighbour whose distance is within a few eps of the k-th one may legitimately be
//    exchanged: (DIM+2)/2 eps from the evaluation plus up to 1 eps per tree level for the bound.
//    Tolerance RANK_K = 16 eps relative, same floor (the observed worst equals the evaluation
//    error alone, 2.3 eps; a wrong pruning rule shows up as errors of order 1, not of order eps).
//  * structure (index < n, indices distinct, distances ascending) is exact.
//  Magnitudes: set extents 1e-3..1e3 (tiny class: down to 1e-15 float / 1e-150 double), sets
//  translated by up to 1e9 (unit spacing; in float the points collapse onto multiples of the ulp,
//  the oracle uses the stored values), queries up to 1e18 (float) / 1e150 (double) away: the
//  largest decades for which DIM * distance^2 stays finite in the Scalar (FLT_MAX 3.4e38,
//  DBL_MAX 1.8e308).  All bounds above are relative and hold
//  as long as nothing overflows or underflows: fl(a-b) = (a-b)(1+d) whatever the cancellation,
//  and the 64-bit significand of long double keeps the reference error below 2^-62 relative.
#include <Eigen/Core>
#include <memory>
#include <numeric>
#include <type_traits>
#include "romea_core_common/pointset/KdTree.hpp"
#include "vh.hpp"

using romea::core::KdTree;
using romea::core::PointSet;
using romea::core::PointTraits;
typedef long double LD;

static const int NQ = 40;              // queries per point set
static const LD RANK_K = 16;           // eps multiples, j-th reported vs j-th smallest

template<class P> struct TypeName;
template<> struct TypeName<Eigen::Vector2f> {static const char * n() {return "Vector2f";} enum {id = 0};};
template<> struct TypeName<Eigen::Vector2d> {static const char * n() {return "Vector2d";} enum {id = 1};};
template<> struct TypeName<Eigen::Vector3f> {static const char * n() {return "Vector3f";} enum {id = 2};};
template<> struct TypeName<Eigen::Vector3d> {static const char * n() {return "Vector3d";} enum {id = 3};};
template<> struct TypeName<romea::core::HomogeneousCoordinates2f> {static const char * n() {return "Homogeneous2f";} enum {id = 4};};
template<> struct TypeName<romea::core::HomogeneousCoordinates2d> {static const char * n() {return "Homogeneous2d";} enum {id = 5};};
template<> struct TypeName<romea::core::HomogeneousCoordinates3f> {static const char * n() {return "Homogeneous3f";} enum {id = 6};};
template<> struct TypeName<romea::core::HomogeneousCoordinates3d> {static const char * n() {return "Homogeneous3d";} enum {id = 7};};

static const char * const SET_KIND[] = {"uniform", "clustered", "collinear", "coplanar", "lattice",
  "identical", "duplicates", "multiscale", "special_values", "jittered_lattice"};
// operations that give the caller's point set a new buffer without changing its points, count or order
static const char * const REALLOC_OP[] = {"copy_and_swap", "shrink_to_fit", "reserve_bigger", "swap_old_block_kept",
  "swap_old_block_overwritten", "move_assign_from_copy"};
static const char * const QUERY_KIND[] = {"inside", "on_data_point", "near_data_point", "far_outside",
  "outside", "bbox_corner_face", "midpoint_tie", "extreme_far", "special_point"};
static const char * const CALL_MODE[] = {"lvalue", "temporaries_const_object", "moved_query", "query_is_dataset_element",
  "k_aliases_index_buffer", "lvalue_const_object"};

// point of type P from Cartesian coordinates (rounded to Scalar), homogeneous w = 1
template<class P> static P mk(const double * v)
{
  typedef typename P::Scalar S;
  P p;
  for (int i = 0; i < PointTraits<P>::DIM; ++i) {p[i] = static_cast<S>(v[i]);}
  if (PointTraits<P>::SIZE > PointTraits<P>::DIM) {p[PointTraits<P>::DIM] = S(1);}
  return p;
}

static void unit_dir(vh::Rng & r, int D, double * d)
{
  double nn = 0;
  do {
    nn = 0;
    for (int i = 0; i < D; ++i) {d[i] = r.normal(); nn += d[i] * d[i];}
  } while (nn < 1e-6);
  nn = std::sqrt(nn);
  for (int i = 0; i < D; ++i) {d[i] /= nn;}
}

// brute-force reference for one indexed point set
template<class P> struct Target
{
  static constexpr int D = PointTraits<P>::DIM;
  const PointSet<P> * pts = nullptr;
  int n = 0;
  std::vector<LD> X, all, srt;
  std::vector<char> seen;
  size_t need = 0;
  void bind(const PointSet<P> & p)
  {
    pts = &p; n = (int)p.size();
    X.resize((size_t)n * D); all.resize(n); seen.assign(n, 0);
    for (int i = 0; i < n; ++i) {for (int a = 0; a < D; ++a) {X[(size_t)i * D + a] = (LD)p[i][a];}}
  }
  void brute(const P & Q, size_t k)
  {
    LD ql[3];
    for (int a = 0; a < D; ++a) {ql[a] = (LD)Q[a];}
    for (int i = 0; i < n; ++i) {
      LD s = 0;
      for (int a = 0; a < D; ++a) {LD d = ql[a] - X[(size_t)i * D + a]; s += d * d;}
      all[i] = s;
    }
    srt = all;
    need = std::min((size_t)n, k + 1);
    std::partial_sort(srt.begin(), srt.begin() + need, srt.end());
  }
};

// all oracles of the statement for one k-nearest + one single-nearest result; Q is the VALUE the
// query had when the calls were made
template<class P>
static bool check_results(
  vh::Ctx & c, Target<P> & T, const P & Q, size_t k, const std::vector<size_t> & idx,
  const std::vector<typename P::Scalar> & dist, size_t nn_i, typename P::Scalar nn_d, bool count_stats,
  const std::function<vh::Params()> & params_base, const std::function<void(vh::J &)> & describe)
{
  typedef typename P::Scalar S;
  constexpr int D = PointTraits<P>::DIM;
  const LD eps = std::numeric_limits<S>::epsilon();
  const LD floor_abs = D * (LD)std::numeric_limits<S>::min();
  const LD DIST_K = 2 * (D + 2);       // eps multiples, reported distance vs indexed point (4 x a-priori bound)
  const int n = T.n;
  const PointSet<P> & pts = *T.pts;
  T.brute(Q, k);
  const std::vector<LD> & all = T.all;
  const std::vector<LD> & srt = T.srt;
  const size_t need = T.need;
  if (count_stats) {
    bool ties = false;
    for (size_t j = 1; j < need; ++j) {if (srt[j] == srt[j - 1]) {ties = true;}}
    if (ties) {c.count("queries_with_exact_ties_among_k_plus_1");}
    if (k < (size_t)n && srt[k] == srt[k - 1]) {c.count("queries_with_tie_at_kth_boundary");}
    if (srt[0] == 0) {c.count("queries_at_zero_distance");}
    if (srt[0] >= 0x1p64L) {c.count("queries_with_all_sqdist_above_2pow64");}
    c.maxi("max_min_sqdist", (double)srt[0]);
    c.count("knn_outputs_checked", k);
    c.maxi("max_k", (double)k);
    c.maxi("max_n", (double)n);
  }
  bool ok = true;
  int bad_j = -1;
  auto params = [&]() {
      vh::Params p = params_base();
      p.push_back({"n", (double)n}); p.push_back({"k", (double)k}); p.push_back({"min_sqdist", (double)srt[0]});
      return p;
    };
  auto wit = [&]() {
      vh::J j;
      describe(j);
      j.f("n", n).f("k", (uint64_t)k).raw("Q", vh::jvec(Q));
      size_t show = std::min<size_t>(k, 8);
      j.arr("idx_head", idx.begin(), idx.begin() + show);
      {std::string a = "["; for (size_t i = 0; i < show; ++i) {if (i) {a += ",";} a += vh::jnum((LD)dist[i]);} j.raw("dist_head", a + "]");}
      {std::string a = "["; for (size_t i = 0; i < std::min(show, need); ++i) {if (i) {a += ",";} a += vh::jnum(srt[i]);} j.raw("brute_head", a + "]");}
      if (bad_j >= 0) {
        j.f("j", bad_j).f("reported_index", (uint64_t)idx[bad_j]).f("reported_dist", (LD)dist[bad_j]);
        if (idx[bad_j] < (size_t)n) {
          j.f("true_dist_of_reported_index", all[idx[bad_j]]).raw("reported_point", vh::jvec(pts[idx[bad_j]]));
        }
        j.f("brute_jth_smallest", srt[bad_j]);
        size_t arg = std::min_element(all.begin(), all.end()) - all.begin();
        j.f("brute_nearest_index", (uint64_t)arg).raw("brute_nearest_point", vh::jvec(pts[arg]));
      }
      return j.str();
    };

  // ---- k nearest: structure
  bool in_range = true;
  for (size_t j = 0; j < k; ++j) {if (idx[j] >= (size_t)n) {in_range = false; bad_j = (int)j; break;}}
  if (c.expect("knn.index_in_range", in_range, "index_out_of_range", params, wit)) {
    bool distinct = true;
    for (size_t j = 0; j < k; ++j) {
      if (T.seen[idx[j]]) {distinct = false; bad_j = (int)j; break;}
      T.seen[idx[j]] = 1;
    }
    for (size_t j = 0; j < k; ++j) {T.seen[idx[j]] = 0;}
    ok &= c.expect("knn.indices_distinct", distinct, "duplicate_index", params, wit);
    bad_j = -1;
    bool asc = true;
    for (size_t j = 0; j < k; ++j) {
      if (!(dist[j] >= 0) || (j && !(dist[j] >= dist[j - 1]))) {asc = false; bad_j = (int)j; break;}
    }
    ok &= c.expect("knn.ascending", asc, "not_ascending", params, wit);
    // ---- k nearest: values
    {
      LD we = 0, wt = 1; bad_j = 0;
      for (size_t j = 0; j < k; ++j) {
        LD t = all[idx[j]], tol = DIST_K * eps * t + floor_abs, e = fabsl((LD)dist[j] - t);
        bool fail = !(e <= tol);
        if (fail || e * wt > we * tol) {we = e; wt = tol; bad_j = (int)j;}
        if (fail) {break;}
      }
      ok &= c.expect_le("knn.distance_of_indexed_point", we, wt, "distance_mismatch", params, wit);
    }
    {
      LD we = 0, wt = 1; bad_j = 0;
      for (size_t j = 0; j < k; ++j) {
        LD tol = RANK_K * eps * srt[j] + floor_abs, e = fabsl((LD)dist[j] - srt[j]);
        bool fail = !(e <= tol);
        if (fail || e * wt > we * tol) {we = e; wt = tol; bad_j = (int)j;}
        if (fail) {break;}
      }
      ok &= c.expect_le("knn.jth_distance_vs_bruteforce", we, wt, "not_k_smallest", params, wit);
    }
  } else {
    ok = false;
  }
  // ---- single nearest neighbour
  auto wit1 = [&]() {
      vh::J j;
      describe(j);
      j.f("n", n).raw("Q", vh::jvec(Q)).f("reported_index", (uint64_t)nn_i).f("reported_dist", (LD)nn_d)
      .f("brute_min", srt[0]);
      if (nn_i < (size_t)n) {j.f("true_dist_of_reported_index", all[nn_i]).raw("reported_point", vh::jvec(pts[nn_i]));}
      size_t arg = std::min_element(all.begin(), all.end()) - all.begin();
      j.f("brute_nearest_index", (uint64_t)arg).raw("brute_nearest_point", vh::jvec(pts[arg]));
      return j.str();
    };
  if (c.expect("nn.index_in_range", nn_i < (size_t)n, "index_out_of_range", params, wit1)) {
    LD t = all[nn_i];
    ok &= c.expect_le("nn.distance_of_indexed_point", fabsl((LD)nn_d - t), DIST_K * eps * t + floor_abs,
        "distance_mismatch", params, wit1);
    ok &= c.expect_le("nn.distance_vs_bruteforce", fabsl((LD)nn_d - srt[0]), RANK_K * eps * srt[0] + floor_abs,
        "not_nearest", params, wit1);
  } else {
    ok = false;
  }
  return ok;
}

template<class P>
static void run_set(vh::Ctx & c, vh::Rng & r)
{
  typedef typename P::Scalar S;
  constexpr int D = PointTraits<P>::DIM;
  const LD eps = std::numeric_limits<S>::epsilon();
  const LD floor_abs = D * (LD)std::numeric_limits<S>::min();
  const bool is_float = sizeof(S) == 4;
  const char * tname = TypeName<P>::n();
  const int tid = TypeName<P>::id;

  // ---------------------------------------------------------------- size
  int n;
  const char * nb;
  {
    int nk = (int)r.range(0, 19);
    if (nk == 0) {n = 1; nb = "n_1";} else if (nk <= 2) {n = (int)r.range(2, 9); nb = "n_2_9_below_leaf";} else if (nk == 3) {
      n = (int)r.range(10, 11); nb = "n_10_11_leaf_boundary";
    } else if (nk <= 11) {n = (int)r.range(12, 200); nb = "n_12_200";} else if (nk <= 16) {
      n = (int)r.range(201, 2000); nb = "n_201_2000";
    } else if (nk <= 18) {n = (int)r.range(2001, 5000); nb = "n_2001_5000";} else {
      n = r.coin() ? 5000 : (int)r.range(4000, 5000); nb = "n_2001_5000";
    }
  }
  // ---------------------------------------------------------------- distribution
  int kind = (int)r.range(0, 9);
  double scale = r.coin(0.3) ? 1.0 : r.logu(1e-3, 1e3);
  double centre[3] = {0, 0, 0};
  bool large_offset = false, tiny_scale = false;
  {
    int ck = (int)r.range(0, 5);
    if (ck == 4) {large_offset = true; scale = 1.0;}   // unit spacing, translated by 1e5..1e9 per axis
    if (ck == 5) {   // extents down to where squared nearest-neighbour distances are still normal numbers
      tiny_scale = true; scale = r.logu(is_float ? 1e-15 : 1e-150, 1e-6); ck = 0;
    }
    for (int i = 0; i < D; ++i) {
      centre[i] = ck == 0 ? 0.0 : ck == 1 ? r.uni(-10, 10) * scale : ck == 2 ? r.uni(-1e3, 1e3) * scale :
        ck == 3 ? std::ldexp(std::round(r.uni(-64, 64)), (int)std::floor(std::log2(scale))) :
        r.sign() * std::round(r.logu(1e5, 1e9));
    }
  }
  PointSet<P> pts(n);
  double line_dir[3] = {1, 0, 0};   // remembered for far queries along a collinear set
  bool exact_dups = false;
  {
    double v[3] = {0, 0, 0};
    switch (kind) {
      case 0:   // uniform box
        for (int i = 0; i < n; ++i) {
          for (int a = 0; a < D; ++a) {v[a] = centre[a] + scale * r.uni(-1, 1);}
          pts[i] = mk<P>(v);
        }
        break;
      case 1: {  // clustered
          int nc = (int)r.range(1, 6);
          double cc[6][3], sg[6];
          for (int k = 0; k < nc; ++k) {
            for (int a = 0; a < D; ++a) {cc[k][a] = centre[a] + scale * r.uni(-1, 1);}
            sg[k] = scale * r.logu(1e-5, 1e-1);
          }
          for (int i = 0; i < n; ++i) {
            int k = (int)r.range(0, nc - 1);
            for (int a = 0; a < D; ++a) {v[a] = cc[k][a] + sg[k] * r.normal();}
            pts[i] = mk<P>(v);
          }
        } break;
      case 2: {  // collinear: axis aligned (exact) or oblique (to Scalar rounding)
          if (r.coin()) {
            int ax = (int)r.range(0, D - 1);
            for (int a = 0; a < D; ++a) {line_dir[a] = (a == ax) ? 1.0 : 0.0;}
          } else {
            unit_dir(r, D, line_dir);
          }
          bool regular = r.coin(0.3);
          for (int i = 0; i < n; ++i) {
            double t = regular ? (2.0 * i / std::max(1, n - 1) - 1.0) : r.uni(-1, 1);
            for (int a = 0; a < D; ++a) {v[a] = centre[a] + scale * t * line_dir[a];}
            pts[i] = mk<P>(v);
          }
        } break;
      case 3: {  // coplanar (3D) / degenerate axis (2D): one direction has no extent
          double nrm[3] = {0, 0, 0};
          bool axis = r.coin();
          if (axis) {nrm[r.range(0, D - 1)] = 1.0;} else {unit_dir(r, D, nrm);}
          for (int i = 0; i < n; ++i) {
            double w[3], dot = 0;
            for (int a = 0; a < D; ++a) {w[a] = scale * r.uni(-1, 1); dot += w[a] * nrm[a];}
            for (int a = 0; a < D; ++a) {v[a] = centre[a] + (w[a] - dot * nrm[a]);}
            pts[i] = mk<P>(v);
          }
        } break;
      case 4: {  // integer lattice, many exact ties and duplicates
          int m[3];
          for (int a = 0; a < D; ++a) {m[a] = (int)r.range(1, 7);}
          double step = std::ldexp(1.0, (int)r.range(-3, 3));
          double off[3];
          for (int a = 0; a < D; ++a) {off[a] = step * (double)r.range(-8, 8) + (large_offset ? centre[a] : 0.0);}
          for (int i = 0; i < n; ++i) {
            for (int a = 0; a < D; ++a) {v[a] = off[a] + step * (double)r.range(0, m[a] - 1);}
            pts[i] = mk<P>(v);
          }
          exact_dups = true;
        } break;
      case 9: {  // lattice / regular sampling with a relative jitter of 1e-12..1e-8 of the step: near ties that
                 // differ by far more than the rounding of a double but by much less than a float's epsilon
          int m[3];
          for (int a = 0; a < D; ++a) {m[a] = (int)r.range(1, 24);}
          double step = r.coin() ? std::ldexp(1.0, (int)r.range(-3, 3)) : scale;
          double jit = r.logu(1e-12, 1e-8);
          double off[3];
          for (int a = 0; a < D; ++a) {off[a] = step * (double)r.range(-8, 8) + (large_offset ? centre[a] : 0.0);}
          bool line = r.coin(0.25);    // regularly sampled segment along the first axis
          for (int i = 0; i < n; ++i) {
            for (int a = 0; a < D; ++a) {
              double cell = line ? (a == 0 ? (double)i : 0.0) : (double)r.range(0, m[a] - 1);
              v[a] = off[a] + step * (cell + jit * r.normal());
            }
            pts[i] = mk<P>(v);
          }
        } break;
      case 5: {  // all identical
          for (int a = 0; a < D; ++a) {v[a] = centre[a] + scale * r.uni(-1, 1);}
          for (int i = 0; i < n; ++i) {pts[i] = mk<P>(v);}
          exact_dups = n > 1;
        } break;
      case 6: {  // uniform with exact duplicates
          int distinct = std::max(1, (int)(n / r.range(2, 8)));
          std::vector<P, Eigen::aligned_allocator<P>> base(distinct);
          for (int i = 0; i < distinct; ++i) {
            for (int a = 0; a < D; ++a) {v[a] = centre[a] + scale * r.uni(-1, 1);}
            base[i] = mk<P>(v);
          }
          for (int i = 0; i < n; ++i) {pts[i] = base[r.range(0, distinct - 1)];}
          exact_dups = n > distinct;
        } break;
      case 8: {  // special values random reals never produce: zeros of both signs, small integers, halves,
                 // denormals, the smallest normal; often with equal components
          const double pool[] = {0.0, -0.0, 1.0, -1.0, 2.0, -2.0, 0.5, 3.0, 4.0,
            (double)std::numeric_limits<S>::denorm_min(), -(double)std::numeric_limits<S>::denorm_min(),
            (double)std::numeric_limits<S>::min()};
          for (int i = 0; i < n; ++i) {
            bool eq = r.coin(0.3);
            double first = pool[r.range(0, 11)];
            for (int a = 0; a < D; ++a) {v[a] = eq ? first : pool[r.range(0, 11)];}
            pts[i] = mk<P>(v);
          }
          exact_dups = n > 1;
        } break;
      default: {  // multiscale: nested clusters, sizes shrinking geometrically (deep unbalanced tree)
          double cc[3];
          for (int a = 0; a < D; ++a) {cc[a] = centre[a];}
          double s = scale;
          int levels = (int)r.range(3, 12);
          for (int i = 0; i < n; ++i) {
            int lv = (int)r.range(0, levels);
            double sl = s * std::pow(0.25, lv);
            for (int a = 0; a < D; ++a) {v[a] = cc[a] + sl * r.uni(-1, 1);}
            pts[i] = mk<P>(v);
          }
        } break;
    }
  }
  c.cat(std::string("type_") + tname);
  c.cat(std::string("set_") + SET_KIND[kind]);
  c.cat(nb);
  if (large_offset) {c.cat("set_large_offset");}
  if (tiny_scale) {c.cat("set_tiny_scale");}
  if (exact_dups) {c.count("sets_with_exact_duplicates");}

  // flat long-double copy of the Cartesian coordinates actually stored, bounding box
  double lo[3], hi[3];
  for (int a = 0; a < D; ++a) {lo[a] = hi[a] = (double)pts[0][a];}
  for (int i = 0; i < n; ++i) {
    for (int a = 0; a < D; ++a) {
      double x = (double)pts[i][a];
      lo[a] = std::min(lo[a], x); hi[a] = std::max(hi[a], x);
    }
  }
  double diag = 0, mid[3] = {0, 0, 0};
  for (int a = 0; a < D; ++a) {diag += (hi[a] - lo[a]) * (hi[a] - lo[a]); mid[a] = 0.5 * (lo[a] + hi[a]);}
  diag = std::sqrt(diag);
  const double ext = diag > 0 ? diag : std::max(scale * 1e-3, 1e-6);

  {
    uint64_t h = vh::hash_doubles({(double)tid, (double)n, (double)kind});
    for (int i : {0, n / 2, n - 1}) {for (int a = 0; a < D; ++a) {h = vh::hash_add(h, (double)pts[i][a]);}}
    c.distinct(h, n > 10);
  }
  c.sample(std::string("set_") + SET_KIND[kind], [&]() {
      return vh::J().s("type", tname).f("n", n).s("set", SET_KIND[kind]).f("scale", scale)
             .raw("bbox_lo", vh::jvec(Eigen::Map<Eigen::VectorXd>(lo, D)))
             .raw("bbox_hi", vh::jvec(Eigen::Map<Eigen::VectorXd>(hi, D)))
             .raw("p0", vh::jvec(pts[0])).str();
    });

  // ---------------------------------------------------------------- storage history of the indexed set
  // The index refers to the caller's vector OBJECT.  Giving that vector a new buffer with the same
  // points in the same order (between the build and the queries, or between two queries) must not
  // change any answer: same points => same answers.
  int realloc_op[2] = {-1, -1}, realloc_at[2] = {-1, -1};
  if (r.coin(0.35)) {
    realloc_op[0] = (int)r.range(0, 5);
    realloc_at[0] = r.coin() ? 0 : (int)r.range(1, NQ - 1);
    if (r.coin(0.3)) {
      static const int second[] = {0, 2, 3, 4, 5};
      realloc_op[1] = second[r.range(0, 4)];
      realloc_at[1] = (int)r.range(realloc_at[0], NQ - 1);
    }
    if (realloc_op[0] == 1) {pts.reserve((size_t)n + (size_t)r.range(1, 64) + (size_t)n / 2);}   // room to shrink later
  }
  std::vector<PointSet<P>> kept_blocks;      // swapped-out vectors that keep the old block alive
  auto reallocate_storage = [&](int op, bool before_first_query) {
      const void * before = static_cast<const void *>(pts.data());
      switch (op) {
        case 0: PointSet<P>(pts).swap(pts); break;                       // old block freed at once
        case 1: pts.shrink_to_fit(); break;
        case 2: pts.reserve(pts.capacity() * 2 + 16); break;
        case 3:
        case 4: {
            kept_blocks.emplace_back(pts);
            PointSet<P> & old = kept_blocks.back();
            old.swap(pts);                                             // 'old' now owns the block the index was built on
            if (op == 4) {   // other coordinates in the old block: a stale read gives a wrong answer, not an accidentally right one
              for (int i = 0; i < n; ++i) {
                P o = pts[n - 1 - i];
                for (int a = 0; a < D; ++a) {o[a] = static_cast<S>((double)o[a] + 0.37 * ext);}
                old[i] = o;
              }
            }
          } break;
        default: pts = PointSet<P>(pts); break;
      }
      c.cat(std::string("realloc_") + REALLOC_OP[op]);
      c.cat(before_first_query ? "realloc_between_build_and_first_query" : "realloc_between_two_queries");
      if (static_cast<const void *>(pts.data()) != before) {c.count("reallocations_that_changed_the_buffer_address");}
    };

  // ---------------------------------------------------------------- the index under test
  std::unique_ptr<KdTree<P>> holder(new KdTree<P>(pts));
  // value semantics: KdTree is neither copyable nor movable at present (the adaptor deletes its copy
  // operations and holds a reference); should that change, the copy must answer like the original
  // after the original is gone.
  if constexpr (std::is_copy_constructible<KdTree<P>>::value) {
    std::unique_ptr<KdTree<P>> cp(new KdTree<P>(*holder));
    holder.reset();
    holder = std::move(cp);
    c.cat("tree_copy_constructed_source_destroyed");
  } else if constexpr (std::is_move_constructible<KdTree<P>>::value) {
    std::unique_ptr<KdTree<P>> cp(new KdTree<P>(std::move(*holder)));
    holder.reset();
    holder = std::move(cp);
    c.cat("tree_move_constructed_source_destroyed");
  } else {
    c.count("tree_type_is_not_copyable_nor_movable");
  }
  KdTree<P> & tree = *holder;
  const KdTree<P> & ctree = *holder;
  Target<P> T;
  T.bind(pts);

  // ---------------------------------------------------------------- sibling index of the same type
  // (other object of the same class: shares every static / per-class hidden state there might be)
  std::unique_ptr<PointSet<P>> sib_pts;
  std::unique_ptr<KdTree<P>> sib;
  Target<P> ST;
  int sib_destroy_at = NQ + 1;
  if (r.coin(0.5)) {
    int n2 = (int)r.range(1, 40);
    int sm = (int)r.range(0, 2);
    sib_pts.reset(new PointSet<P>(n2));
    double v[3] = {0, 0, 0};
    for (int i = 0; i < n2; ++i) {
      if (sm == 0) {
        for (int a = 0; a < D; ++a) {v[a] = r.uni(lo[a] - ext, hi[a] + ext);}
        (*sib_pts)[i] = mk<P>(v);
      } else if (sm == 1) {
        (*sib_pts)[i] = pts[r.range(0, n - 1)];                       // same coordinates, other indices
      } else {
        (*sib_pts)[i] = pts[r.range(0, n - 1)];
        for (int a = 0; a < D; ++a) {(*sib_pts)[i][a] += static_cast<S>(3 * ext);}
      }
    }
    sib.reset(new KdTree<P>(*sib_pts));
    ST.bind(*sib_pts);
    sib_destroy_at = (int)r.range(NQ / 4, NQ + 5);     // sometimes destroyed while the main index is still used
    c.cat("sibling_index_same_type");
  }

  const int kmax = std::min(n, 50);
  std::vector<size_t> idx;
  std::vector<S> dist;
  std::unique_ptr<size_t> nn_i(new size_t(std::numeric_limits<size_t>::max()));
  std::unique_ptr<S> nn_d(new S(-1));
  int kprev = 0;

  // ---------------------------------------------------------------- long history before observing
  // findNearestNeighbor re-arms the object's single shared result set on every call: repeat one of
  // the two queries 2^8+j / 2^16+j times, j = -NQ..3, so that the wrap-around of a narrow per-object
  // counter falls either inside the observed queries that follow (j < 0) or just before them.
  int history = 0;
  bool history_knn = false;
  if (n <= 200) {
    int hk = (int)r.range(0, 199);
    history = hk == 0 ? 65536 + (int)r.range(-NQ, 3) : hk <= 6 ? 256 + (int)r.range(-NQ, 3) : 0;
    history_knn = r.coin();
  }
  if (history) {
    c.cat(history > 60000 ? "history_2pow16_plus_calls" : "history_2pow8_plus_calls");
    P hq[4];
    double v[3] = {0, 0, 0};
    for (int j = 0; j < 4; ++j) {
      if (j & 1) {hq[j] = pts[r.range(0, n - 1)];} else {
        for (int a = 0; a < D; ++a) {v[a] = r.uni(lo[a] - ext, hi[a] + ext);}
        hq[j] = mk<P>(v);
      }
    }
    std::unique_ptr<size_t> hi_(new size_t(0));
    std::unique_ptr<S> hd_(new S(0));
    size_t hk3 = std::min<size_t>(n, 3);
    std::vector<size_t> hidx(hk3);
    std::vector<S> hdist(hk3);
    for (int j = 0; j < history; ++j) {
      if (history_knn) {tree.findNearestNeighbors(hq[j & 3], hk3, hidx, hdist);} else {
        tree.findNearestNeighbor(hq[j & 3], *hi_, *hd_);
      }
    }
    c.count("history_calls", (uint64_t)history);
  }

  // results of the first query are kept (same storage, never touched again by the harness) and
  // compared at the end of the case
  std::vector<size_t> kept_idx, snap_idx;
  std::vector<S> kept_dist, snap_dist;
  std::unique_ptr<size_t> kept_nn_i;
  std::unique_ptr<S> kept_nn_d;
  size_t snap_nn_i = 0, k0 = 0;
  S snap_nn_d = 0;
  P Q0 = pts[0], Qprev = pts[0];
  bool first_ok = false;

  auto base_params = [&](int qk, bool reuse, int cm, bool sibling) {
      return vh::Params{{"type", (double)tid}, {"dim", (double)D}, {"is_float", is_float ? 1.0 : 0.0},
        {"set_kind", (double)kind}, {"query_kind", (double)qk}, {"scale", scale},
        {"reused_buffers", reuse ? 1.0 : 0.0}, {"large_offset", large_offset ? 1.0 : 0.0},
        {"tiny_scale", tiny_scale ? 1.0 : 0.0}, {"call_mode", (double)cm}, {"sibling", sibling ? 1.0 : 0.0},
        {"history_calls", (double)history}, {"realloc_op", (double)realloc_op[0]}, {"realloc_op2", (double)realloc_op[1]},
        {"realloc_at", (double)realloc_at[0]}};
    };

  for (int q = 0; q < NQ; ++q) {
    for (int e = 0; e < 2; ++e) {
      if (realloc_op[e] >= 0 && realloc_at[e] == q) {reallocate_storage(realloc_op[e], q == 0);}
    }
    // ------------------------------------------------------------ query point
    int qk;
    {
      int t = (int)r.range(0, 14);
      qk = t <= 2 ? 0 : t == 3 ? 1 : t == 4 ? 2 : t <= 7 ? 3 : t == 8 ? 4 : t == 9 ? 5 : t <= 11 ? 6 : t <= 13 ? 7 : 8;
    }
    double v[3] = {0, 0, 0};
    P Q;
    int64_t data_sel = -1;
    switch (qk) {
      case 0:
        for (int a = 0; a < D; ++a) {
          double w = hi[a] - lo[a];
          v[a] = r.uni(lo[a] - 0.05 * w, hi[a] + 0.05 * w);
        }
        Q = mk<P>(v);
        break;
      case 1:
        data_sel = r.range(0, n - 1);
        Q = pts[data_sel];
        break;
      case 2: {
          Q = pts[r.range(0, n - 1)];
          if (r.coin()) {   // a few ulps away
            for (int a = 0; a < D; ++a) {
              int steps = (int)r.range(0, 3);
              S tgt = r.coin() ? std::numeric_limits<S>::max() : -std::numeric_limits<S>::max();
              for (int s = 0; s < steps; ++s) {Q[a] = std::nextafter(Q[a], tgt);}
            }
          } else {
            double d = ext * r.logu(1e-6, 1e-2);
            for (int a = 0; a < D; ++a) {Q[a] = static_cast<S>((double)Q[a] + d * r.normal());}
          }
        } break;
      case 3:
      case 4:
      case 7: {
          double dir[3] = {0, 0, 0};
          int dk = (int)r.range(0, 3);
          if (dk == 0) {dir[r.range(0, D - 1)] = r.sign();} else if (dk == 1 && kind == 2) {
            double s = r.sign();
            for (int a = 0; a < D; ++a) {dir[a] = s * line_dir[a];}
          } else if (dk == 2) {
            for (int a = 0; a < D; ++a) {dir[a] = r.sign() / std::sqrt((double)D);}   // towards a corner
          } else {
            unit_dir(r, D, dir);
          }
          // far: 1e3..2e3 extents; outside: 0.6..100 extents; extreme: absolute distance log-spaced from
          // 1e3 to the last decade whose square (times DIM) is finite in the Scalar: 1e18 float, 1e150 double
          double far = qk == 3 ? 1e3 * r.uni(1.0, 2.0) * ext : qk == 4 ? r.logu(0.6, 100.0) * ext :
            r.logu(1e3, is_float ? 1e18 : 1e150);
          // start from the centre or from a random place inside the box
          for (int a = 0; a < D; ++a) {
            double from = r.coin() ? mid[a] : r.uni(lo[a], hi[a]);
            v[a] = from + dir[a] * far;
          }
          Q = mk<P>(v);
        } break;
      case 5:
        for (int a = 0; a < D; ++a) {int s = (int)r.range(0, 2); v[a] = s == 0 ? lo[a] : s == 1 ? hi[a] : mid[a];}
        Q = mk<P>(v);
        break;
      case 6: {
          const P & A = pts[r.range(0, n - 1)];
          const P & B = pts[r.range(0, n - 1)];
          Q = A;
          for (int a = 0; a < D; ++a) {Q[a] = (A[a] + B[a]) / S(2);}
        } break;
      default: {   // exact special points
          int sk = (int)r.range(0, 3);
          if (sk == 0) {
            for (int a = 0; a < D; ++a) {v[a] = r.coin() ? 0.0 : -0.0;}                 // the origin, signed zeros
          } else if (sk == 1) {
            const double cs[] = {0.0, 1.0, -1.0, 0.5, std::round(mid[0]), mid[0], lo[0], hi[0]};
            double cv = cs[r.range(0, 7)];
            for (int a = 0; a < D; ++a) {v[a] = cv;}                                   // equal components
          } else if (sk == 2) {
            for (int a = 0; a < D; ++a) {v[a] = std::round(r.uni(lo[a] - 1.0, hi[a] + 1.0));}   // integers
          }
          Q = mk<P>(v);
          if (sk == 3) {Q = Qprev;}                                                    // the same value twice
        } break;
    }
    c.cat(std::string("query_") + QUERY_KIND[qk]);
    c.count("queries");

    // ------------------------------------------------------------ k and the caller-sized buffers
    size_t k;
    bool reuse = q > 1 && r.coin(0.3);
    if (reuse) {
      k = kprev;                      // buffers keep the previous query's results (as NormalAndCurvatureEstimation does)
      c.count("queries_with_reused_buffers");
    } else {
      int kk = (int)r.range(0, 3);
      k = kk == 0 ? 1 : kk == 1 ? (size_t)kmax : (size_t)r.range(1, kmax);
      std::vector<size_t>(k, std::numeric_limits<size_t>::max()).swap(idx);   // capacity == k exactly
      std::vector<S>(k, S(-1)).swap(dist);
    }
    kprev = (int)k;
    if (!reuse || r.coin()) {*nn_i = std::numeric_limits<size_t>::max(); *nn_d = S(-1);}

    // ------------------------------------------------------------ the calls, in every value category / aliasing
    // the signatures admit; the oracle uses the value Q had when the call was made
    int cm = (int)r.range(0, 5);
    if (data_sel >= 0 && r.coin()) {cm = 3;}
    if (cm == 3 && data_sel < 0) {cm = 0;}
    c.cat(std::string("call_") + CALL_MODE[cm]);
    switch (cm) {
      case 1:
        ctree.findNearestNeighbors(P(Q), size_t(k), idx, dist);
        ctree.findNearestNeighbor(P(Q), *nn_i, *nn_d);
        break;
      case 2: {
          P m1 = Q, m2 = Q;
          tree.findNearestNeighbors(std::move(m1), k, idx, dist);
          tree.findNearestNeighbor(std::move(m2), *nn_i, *nn_d);
        } break;
      case 3:   // the query is an element of the indexed set itself, passed by reference
        tree.findNearestNeighbors(pts[data_sel], k, idx, dist);
        tree.findNearestNeighbor(pts[data_sel], *nn_i, *nn_d);
        break;
      case 4: {  // the number of neighbours is read through a reference into the index output buffer
          size_t j0 = (size_t)r.range(0, (int64_t)k - 1);
          idx[j0] = k;
          tree.findNearestNeighbors(Q, idx[j0], idx, dist);
          tree.findNearestNeighbor(Q, *nn_i, *nn_d);
        } break;
      case 5:
        ctree.findNearestNeighbors(Q, k, idx, dist);
        ctree.findNearestNeighbor(Q, *nn_i, *nn_d);
        break;
      default:
        tree.findNearestNeighbors(Q, k, idx, dist);
        tree.findNearestNeighbor(Q, *nn_i, *nn_d);
        break;
    }

    bool ok = check_results<P>(c, T, Q, k, idx, dist, *nn_i, *nn_d, true,
        [&]() {return base_params(qk, reuse, cm, false);},
        [&](vh::J & j) {
          j.s("type", tname).s("set", SET_KIND[kind]).s("query", QUERY_KIND[qk]).s("call", CALL_MODE[cm])
          .f("query_no", q).boolean("reused_buffers", reuse).f("history_calls", history)
          .s("storage_reallocated_by", realloc_op[0] < 0 ? "nothing" : REALLOC_OP[realloc_op[0]]).f("reallocated_before_query_no", realloc_at[0]);
        });
    Qprev = Q;

    if (q == 0) {   // keep the first results in their own storage
      first_ok = ok; Q0 = Q; k0 = k;
      snap_idx = idx; snap_dist = dist; snap_nn_i = *nn_i; snap_nn_d = *nn_d;
      kept_idx.swap(idx); kept_dist.swap(dist);
      kept_nn_i = std::move(nn_i); kept_nn_d = std::move(nn_d);
      nn_i.reset(new size_t(std::numeric_limits<size_t>::max()));
      nn_d.reset(new S(-1));
    }

    // ------------------------------------------------------------ sibling index in between
    if (sib && q >= sib_destroy_at) {sib.reset(); sib_pts.reset(); c.count("sibling_destroyed_mid_case");}
    if (sib && r.coin(0.3)) {
      int n2 = ST.n;
      P Q2 = r.coin() ? Q : (*sib_pts)[r.range(0, n2 - 1)];
      size_t k2 = (size_t)r.range(1, std::min(n2, 50));
      std::vector<size_t> i2(k2, std::numeric_limits<size_t>::max());
      std::vector<S> d2(k2, S(-1));
      std::unique_ptr<size_t> ni2(new size_t(std::numeric_limits<size_t>::max()));
      std::unique_ptr<S> nd2(new S(-1));
      sib->findNearestNeighbors(Q2, k2, i2, d2);
      sib->findNearestNeighbor(Q2, *ni2, *nd2);
      c.count("sibling_queries");
      check_results<P>(c, ST, Q2, k2, i2, d2, *ni2, *nd2, false,
        [&]() {return base_params(qk, false, 0, true);},
        [&](vh::J & j) {j.s("type", tname).s("set", "sibling").f("after_query_no", q);});
    }
  }

  // ---------------------------------------------------------------- result stability
  {
    auto sp = [&]() {
        vh::Params p = base_params(-1, false, 0, false);
        p.push_back({"n", (double)n}); p.push_back({"k", (double)k0});
        return p;
      };
    bool same = kept_idx.size() == snap_idx.size() && kept_dist.size() == snap_dist.size() &&
      (k0 == 0 || (std::memcmp(kept_idx.data(), snap_idx.data(), k0 * sizeof(size_t)) == 0 &&
      std::memcmp(kept_dist.data(), snap_dist.data(), k0 * sizeof(S)) == 0)) &&
      *kept_nn_i == snap_nn_i && std::memcmp(kept_nn_d.get(), &snap_nn_d, sizeof(S)) == 0;
    c.expect("stability.kept_outputs_unchanged", same, "result_changed_later", sp, [&]() {
        return vh::J().s("type", tname).s("set", SET_KIND[kind]).f("n", n).f("k", (uint64_t)k0).raw("Q", vh::jvec(Q0))
               .f("nn_index_then", (uint64_t)snap_nn_i).f("nn_index_now", (uint64_t)*kept_nn_i)
               .f("nn_dist_then", (LD)snap_nn_d).f("nn_dist_now", (LD)*kept_nn_d).str();
      });
    // the same query again at the end of the history: checked by the oracles once more, and its
    // distances must agree with the first answer (both are within RANK_K eps of the same true values)
    std::vector<size_t> i3(k0, std::numeric_limits<size_t>::max());
    std::vector<S> d3(k0, S(-1));
    std::unique_ptr<size_t> ni3(new size_t(std::numeric_limits<size_t>::max()));
    std::unique_ptr<S> nd3(new S(-1));
    ctree.findNearestNeighbors(Q0, k0, i3, d3);
    ctree.findNearestNeighbor(Q0, *ni3, *nd3);
    bool ok3 = check_results<P>(c, T, Q0, k0, i3, d3, *ni3, *nd3, false,
        [&]() {return base_params(-2, false, 5, false);},
        [&](vh::J & j) {j.s("type", tname).s("set", SET_KIND[kind]).s("query", "first query repeated at the end");});
    if (first_ok && ok3) {
      LD we = 0, wt = 1;
      for (size_t j = 0; j <= k0; ++j) {
        LD a = j < k0 ? (LD)snap_dist[j] : (LD)snap_nn_d, b = j < k0 ? (LD)d3[j] : (LD)*nd3;
        LD tol = 2 * RANK_K * eps * std::max(a, b) + floor_abs, e = fabsl(a - b);
        if (!(e <= tol) || e * wt > we * tol) {we = e; wt = tol;}
      }
      c.expect_le("stability.requery_same_distances", we, wt, "result_depends_on_history", sp, [&]() {
          return vh::J().s("type", tname).s("set", SET_KIND[kind]).f("n", n).f("k", (uint64_t)k0).raw("Q", vh::jvec(Q0))
                 .f("first_dist0", (LD)snap_dist[0]).f("again_dist0", (LD)d3[0]).str();
        });
    }
  }
}

static void one_case(vh::Ctx & c, uint64_t idx)
{
  vh::Rng r(c.seed, idx);
  switch (r.range(0, 7)) {
    case 0: run_set<Eigen::Vector2f>(c, r); break;
    case 1: run_set<Eigen::Vector2d>(c, r); break;
    case 2: run_set<Eigen::Vector3f>(c, r); break;
    case 3: run_set<Eigen::Vector3d>(c, r); break;
    case 4: run_set<romea::core::HomogeneousCoordinates2f>(c, r); break;
    case 5: run_set<romea::core::HomogeneousCoordinates2d>(c, r); break;
    case 6: run_set<romea::core::HomogeneousCoordinates3f>(c, r); break;
    default: run_set<romea::core::HomogeneousCoordinates3d>(c, r); break;
  }
}

int main(int argc, char ** argv)
{
  return vh::run(argc, argv, "C08", {12000, 100000}, one_case);
}
