// C08  Kd-tree nearest-neighbour queries agree with exhaustive search.
//
// One case = one generated point set (one of the eight point types) + NQ queries.  For every
// query the real KdTree::findNearestNeighbors / findNearestNeighbor are called with caller-sized
// heap buffers (ASan watches them) and compared with a brute-force scan in long double over the
// Cartesian coordinates (the definition of the Euclidean distance; the homogeneous w = 1 never
// enters the oracle).
//
// Tolerances (DESIGN 2.6, "to rounding" = forward error bound in eps of the point's Scalar):
//  * reported squared distance vs the true squared distance of the *indexed* point:
//    the library evaluates sum_i (q_i - p_i)^2 in Scalar: one rounding in the difference, one in
//    the square, DIM-1 in the sum (the homogeneous term (1-1)^2 is an exact zero)
//    => relative error <= (DIM+2) u = (DIM+2)/2 eps, i.e. 2 eps in 2D and 2.5 eps in 3D.
//    Tolerance = 4 x that bound = 2 (DIM+2) eps relative (8 eps in 2D, 10 eps in 3D), plus an
//    underflow floor of DIM * min-normal.  Observed worst over 4e6 queries x up to 50 results:
//    2.3 eps, i.e. the a-priori bound is nearly attained and the ratio sits just below 0.25.
//  * j-th reported distance vs j-th smallest brute-force distance (ties in any order, values must
//    agree): selection is done on the rounded distances (3 eps) and the branch-and-bound lower
//    bound `mindistsq` is itself accumulated in Scalar (one add + one subtract per level on the
//    path), so a neighbour whose distance is within a few eps of the k-th one may legitimately be
//    exchanged: (DIM+2)/2 eps from the evaluation plus up to 1 eps per tree level for the bound.
//    Tolerance RANK_K = 16 eps relative, same floor (the observed worst equals the evaluation
//    error alone, 2.3 eps; a wrong pruning rule shows up as errors of order 1, not of order eps).
//  * structure (index < n, indices distinct, distances ascending) is exact.
//  Magnitudes: set extents 1e-3..1e3, sets translated by up to 1e9 (unit spacing; in float the
//  points collapse onto multiples of the ulp, the oracle uses the stored values), queries up to
//  1e16 away (squared distances up to ~3e32 < FLT_MAX).  All bounds above are relative and hold
//  as long as nothing overflows or underflows: fl(a-b) = (a-b)(1+d) whatever the cancellation,
//  and the 64-bit significand of long double keeps the reference error below 2^-62 relative.
#include <Eigen/Core>
#include <memory>
#include <numeric>
#include "romea_core_common/pointset/KdTree.hpp"
#include "vh.hpp"

using romea::core::KdTree;
using romea::core::PointSet;
using romea::core::PointTraits;
typedef long double LD;

static const int NQ = 40;              // queries per point set
static const LD RANK_K = 16;           // eps multiples, j-th reported vs j-th smallest

template<class P> struct TypeName;
template<> struct TypeName<Eigen::Vector2f> {static const char * n() {return "Vector2f";} enum {id = 0};};
template<> struct TypeName<Eigen::Vector2d> {static const char * n() {return "Vector2d";} enum {id = 1};};
template<> struct TypeName<Eigen::Vector3f> {static const char * n() {return "Vector3f";} enum {id = 2};};
template<> struct TypeName<Eigen::Vector3d> {static const char * n() {return "Vector3d";} enum {id = 3};};
template<> struct TypeName<romea::core::HomogeneousCoordinates2f> {static const char * n() {return "Homogeneous2f";} enum {id = 4};};
template<> struct TypeName<romea::core::HomogeneousCoordinates2d> {static const char * n() {return "Homogeneous2d";} enum {id = 5};};
template<> struct TypeName<romea::core::HomogeneousCoordinates3f> {static const char * n() {return "Homogeneous3f";} enum {id = 6};};
template<> struct TypeName<romea::core::HomogeneousCoordinates3d> {static const char * n() {return "Homogeneous3d";} enum {id = 7};};

static const char * const SET_KIND[] = {"uniform", "clustered", "collinear", "coplanar", "lattice",
  "identical", "duplicates", "multiscale"};
static const char * const QUERY_KIND[] = {"inside", "on_data_point", "near_data_point", "far_outside",
  "outside", "bbox_corner_face", "midpoint_tie", "extreme_far"};

// point of type P from Cartesian coordinates (rounded to Scalar), homogeneous w = 1
template<class P> static P mk(const double * v)
{
  typedef typename P::Scalar S;
  P p;
  for (int i = 0; i < PointTraits<P>::DIM; ++i) {p[i] = static_cast<S>(v[i]);}
  if (PointTraits<P>::SIZE > PointTraits<P>::DIM) {p[PointTraits<P>::DIM] = S(1);}
  return p;
}

static void unit_dir(vh::Rng & r, int D, double * d)
{
  double nn = 0;
  do {
    nn = 0;
    for (int i = 0; i < D; ++i) {d[i] = r.normal(); nn += d[i] * d[i];}
  } while (nn < 1e-6);
  nn = std::sqrt(nn);
  for (int i = 0; i < D; ++i) {d[i] /= nn;}
}

template<class P>
static void run_set(vh::Ctx & c, vh::Rng & r)
{
  typedef typename P::Scalar S;
  constexpr int D = PointTraits<P>::DIM;
  const LD eps = std::numeric_limits<S>::epsilon();
  const LD floor_abs = D * (LD)std::numeric_limits<S>::min();
  const LD DIST_K = 2 * (D + 2);       // eps multiples, reported distance vs indexed point (4 x a-priori bound)
  const char * tname = TypeName<P>::n();
  const int tid = TypeName<P>::id;

  // ---------------------------------------------------------------- size
  int n;
  const char * nb;
  {
    int nk = (int)r.range(0, 19);
    if (nk == 0) {n = 1; nb = "n_1";} else if (nk <= 2) {n = (int)r.range(2, 9); nb = "n_2_9_below_leaf";} else if (nk == 3) {
      n = (int)r.range(10, 11); nb = "n_10_11_leaf_boundary";
    } else if (nk <= 11) {n = (int)r.range(12, 200); nb = "n_12_200";} else if (nk <= 16) {
      n = (int)r.range(201, 2000); nb = "n_201_2000";
    } else if (nk <= 18) {n = (int)r.range(2001, 5000); nb = "n_2001_5000";} else {
      n = r.coin() ? 5000 : (int)r.range(4000, 5000); nb = "n_2001_5000";
    }
  }
  // ---------------------------------------------------------------- distribution
  int kind = (int)r.range(0, 7);
  double scale = r.coin(0.3) ? 1.0 : r.logu(1e-3, 1e3);
  double centre[3] = {0, 0, 0};
  bool large_offset = false;
  {
    int ck = (int)r.range(0, 4);
    if (ck == 4) {large_offset = true; scale = 1.0;}   // unit spacing, translated by 1e5..1e9 per axis
    for (int i = 0; i < D; ++i) {
      centre[i] = ck == 0 ? 0.0 : ck == 1 ? r.uni(-10, 10) * scale : ck == 2 ? r.uni(-1e3, 1e3) * scale :
        ck == 3 ? std::ldexp(std::round(r.uni(-64, 64)), (int)std::floor(std::log2(scale))) :
        r.sign() * std::round(r.logu(1e5, 1e9));
    }
  }
  PointSet<P> pts(n);
  double line_dir[3] = {1, 0, 0};   // remembered for far queries along a collinear set
  bool exact_dups = false;
  {
    double v[3] = {0, 0, 0};
    switch (kind) {
      case 0:   // uniform box
        for (int i = 0; i < n; ++i) {
          for (int a = 0; a < D; ++a) {v[a] = centre[a] + scale * r.uni(-1, 1);}
          pts[i] = mk<P>(v);
        }
        break;
      case 1: {  // clustered
          int nc = (int)r.range(1, 6);
          double cc[6][3], sg[6];
          for (int k = 0; k < nc; ++k) {
            for (int a = 0; a < D; ++a) {cc[k][a] = centre[a] + scale * r.uni(-1, 1);}
            sg[k] = scale * r.logu(1e-5, 1e-1);
          }
          for (int i = 0; i < n; ++i) {
            int k = (int)r.range(0, nc - 1);
            for (int a = 0; a < D; ++a) {v[a] = cc[k][a] + sg[k] * r.normal();}
            pts[i] = mk<P>(v);
          }
        } break;
      case 2: {  // collinear: axis aligned (exact) or oblique (to Scalar rounding)
          if (r.coin()) {
            int ax = (int)r.range(0, D - 1);
            for (int a = 0; a < D; ++a) {line_dir[a] = (a == ax) ? 1.0 : 0.0;}
          } else {
            unit_dir(r, D, line_dir);
          }
          bool regular = r.coin(0.3);
          for (int i = 0; i < n; ++i) {
            double t = regular ? (2.0 * i / std::max(1, n - 1) - 1.0) : r.uni(-1, 1);
            for (int a = 0; a < D; ++a) {v[a] = centre[a] + scale * t * line_dir[a];}
            pts[i] = mk<P>(v);
          }
        } break;
      case 3: {  // coplanar (3D) / degenerate axis (2D): one direction has no extent
          double nrm[3] = {0, 0, 0};
          bool axis = r.coin();
          if (axis) {nrm[r.range(0, D - 1)] = 1.0;} else {unit_dir(r, D, nrm);}
          for (int i = 0; i < n; ++i) {
            double w[3], dot = 0;
            for (int a = 0; a < D; ++a) {w[a] = scale * r.uni(-1, 1); dot += w[a] * nrm[a];}
            for (int a = 0; a < D; ++a) {v[a] = centre[a] + (w[a] - dot * nrm[a]);}
            pts[i] = mk<P>(v);
          }
        } break;
      case 4: {  // integer lattice, many exact ties and duplicates
          int m[3];
          for (int a = 0; a < D; ++a) {m[a] = (int)r.range(1, 7);}
          double step = std::ldexp(1.0, (int)r.range(-3, 3));
          double off[3];
          for (int a = 0; a < D; ++a) {off[a] = step * (double)r.range(-8, 8) + (large_offset ? centre[a] : 0.0);}
          for (int i = 0; i < n; ++i) {
            for (int a = 0; a < D; ++a) {v[a] = off[a] + step * (double)r.range(0, m[a] - 1);}
            pts[i] = mk<P>(v);
          }
          exact_dups = true;
        } break;
      case 5: {  // all identical
          for (int a = 0; a < D; ++a) {v[a] = centre[a] + scale * r.uni(-1, 1);}
          for (int i = 0; i < n; ++i) {pts[i] = mk<P>(v);}
          exact_dups = n > 1;
        } break;
      case 6: {  // uniform with exact duplicates
          int distinct = std::max(1, (int)(n / r.range(2, 8)));
          std::vector<P, Eigen::aligned_allocator<P>> base(distinct);
          for (int i = 0; i < distinct; ++i) {
            for (int a = 0; a < D; ++a) {v[a] = centre[a] + scale * r.uni(-1, 1);}
            base[i] = mk<P>(v);
          }
          for (int i = 0; i < n; ++i) {pts[i] = base[r.range(0, distinct - 1)];}
          exact_dups = n > distinct;
        } break;
      default: {  // multiscale: nested clusters, sizes shrinking geometrically (deep unbalanced tree)
          double cc[3];
          for (int a = 0; a < D; ++a) {cc[a] = centre[a];}
          double s = scale;
          int levels = (int)r.range(3, 12);
          for (int i = 0; i < n; ++i) {
            int lv = (int)r.range(0, levels);
            double sl = s * std::pow(0.25, lv);
            for (int a = 0; a < D; ++a) {v[a] = cc[a] + sl * r.uni(-1, 1);}
            pts[i] = mk<P>(v);
          }
        } break;
    }
  }
  c.cat(std::string("type_") + tname);
  c.cat(std::string("set_") + SET_KIND[kind]);
  c.cat(nb);
  if (large_offset) {c.cat("set_large_offset");}
  if (exact_dups) {c.count("sets_with_exact_duplicates");}

  // flat long-double copy of the Cartesian coordinates actually stored, bounding box
  std::vector<LD> X((size_t)n * D);
  double lo[3], hi[3];
  for (int a = 0; a < D; ++a) {lo[a] = hi[a] = (double)pts[0][a];}
  for (int i = 0; i < n; ++i) {
    for (int a = 0; a < D; ++a) {
      double x = (double)pts[i][a];
      X[(size_t)i * D + a] = (LD)pts[i][a];
      lo[a] = std::min(lo[a], x); hi[a] = std::max(hi[a], x);
    }
  }
  double diag = 0, mid[3] = {0, 0, 0};
  for (int a = 0; a < D; ++a) {diag += (hi[a] - lo[a]) * (hi[a] - lo[a]); mid[a] = 0.5 * (lo[a] + hi[a]);}
  diag = std::sqrt(diag);
  const double ext = diag > 0 ? diag : std::max(scale * 1e-3, 1e-6);

  {
    uint64_t h = vh::hash_doubles({(double)tid, (double)n, (double)kind});
    for (int i : {0, n / 2, n - 1}) {for (int a = 0; a < D; ++a) {h = vh::hash_add(h, (double)pts[i][a]);}}
    c.distinct(h, n > 10);
  }
  c.sample(std::string("set_") + SET_KIND[kind], [&]() {
      return vh::J().s("type", tname).f("n", n).s("set", SET_KIND[kind]).f("scale", scale)
             .raw("bbox_lo", vh::jvec(Eigen::Map<Eigen::VectorXd>(lo, D)))
             .raw("bbox_hi", vh::jvec(Eigen::Map<Eigen::VectorXd>(hi, D)))
             .raw("p0", vh::jvec(pts[0])).str();
    });

  // ---------------------------------------------------------------- the index under test
  KdTree<P> tree(pts);

  const int kmax = std::min(n, 50);
  std::vector<size_t> idx;
  std::vector<S> dist;
  std::unique_ptr<size_t> nn_i(new size_t(std::numeric_limits<size_t>::max()));
  std::unique_ptr<S> nn_d(new S(-1));
  std::vector<LD> all(n), srt;
  std::vector<char> seen(n, 0);
  int kprev = 0;

  for (int q = 0; q < NQ; ++q) {
    // ------------------------------------------------------------ query point
    int qk;
    {
      int t = (int)r.range(0, 13);
      qk = t <= 2 ? 0 : t == 3 ? 1 : t == 4 ? 2 : t <= 7 ? 3 : t == 8 ? 4 : t == 9 ? 5 : t <= 11 ? 6 : 7;
    }
    double v[3] = {0, 0, 0};
    P Q;
    switch (qk) {
      case 0:
        for (int a = 0; a < D; ++a) {
          double w = hi[a] - lo[a];
          v[a] = r.uni(lo[a] - 0.05 * w, hi[a] + 0.05 * w);
        }
        Q = mk<P>(v);
        break;
      case 1:
        Q = pts[r.range(0, n - 1)];
        break;
      case 2: {
          Q = pts[r.range(0, n - 1)];
          if (r.coin()) {   // a few ulps away
            for (int a = 0; a < D; ++a) {
              int steps = (int)r.range(0, 3);
              S tgt = r.coin() ? std::numeric_limits<S>::max() : -std::numeric_limits<S>::max();
              for (int s = 0; s < steps; ++s) {Q[a] = std::nextafter(Q[a], tgt);}
            }
          } else {
            double d = ext * r.logu(1e-6, 1e-2);
            for (int a = 0; a < D; ++a) {Q[a] = static_cast<S>((double)Q[a] + d * r.normal());}
          }
        } break;
      case 3:
      case 4:
      case 7: {
          double dir[3] = {0, 0, 0};
          int dk = (int)r.range(0, 3);
          if (dk == 0) {dir[r.range(0, D - 1)] = r.sign();} else if (dk == 1 && kind == 2) {
            double s = r.sign();
            for (int a = 0; a < D; ++a) {dir[a] = s * line_dir[a];}
          } else if (dk == 2) {
            for (int a = 0; a < D; ++a) {dir[a] = r.sign() / std::sqrt((double)D);}   // towards a corner
          } else {
            unit_dir(r, D, dir);
          }
          // far: 1e3..2e3 extents; outside: 0.6..100 extents; extreme: absolute distance log-spaced
          // 1e3..1e16 (squared distances up to ~1e32: finite in float and double, far above 2^64)
          double far = qk == 3 ? 1e3 * r.uni(1.0, 2.0) * ext : qk == 4 ? r.logu(0.6, 100.0) * ext :
            r.logu(1e3, 1e16);
          // start from the centre or from a random place inside the box
          for (int a = 0; a < D; ++a) {
            double from = r.coin() ? mid[a] : r.uni(lo[a], hi[a]);
            v[a] = from + dir[a] * far;
          }
          Q = mk<P>(v);
        } break;
      case 5:
        for (int a = 0; a < D; ++a) {int s = (int)r.range(0, 2); v[a] = s == 0 ? lo[a] : s == 1 ? hi[a] : mid[a];}
        Q = mk<P>(v);
        break;
      default: {
          const P & A = pts[r.range(0, n - 1)];
          const P & B = pts[r.range(0, n - 1)];
          Q = A;
          for (int a = 0; a < D; ++a) {Q[a] = (A[a] + B[a]) / S(2);}
        } break;
    }
    c.cat(std::string("query_") + QUERY_KIND[qk]);
    c.count("queries");

    // ------------------------------------------------------------ k and the caller-sized buffers
    size_t k;
    bool reuse = q > 0 && r.coin(0.3);
    if (reuse) {
      k = kprev;                      // buffers keep the previous query's results (as NormalAndCurvatureEstimation does)
      c.count("queries_with_reused_buffers");
    } else {
      int kk = (int)r.range(0, 3);
      k = kk == 0 ? 1 : kk == 1 ? (size_t)kmax : (size_t)r.range(1, kmax);
      std::vector<size_t>(k, std::numeric_limits<size_t>::max()).swap(idx);   // capacity == k exactly
      std::vector<S>(k, S(-1)).swap(dist);
    }
    kprev = (int)k;
    if (!reuse || r.coin()) {*nn_i = std::numeric_limits<size_t>::max(); *nn_d = S(-1);}

    tree.findNearestNeighbors(Q, k, idx, dist);
    tree.findNearestNeighbor(Q, *nn_i, *nn_d);

    // ------------------------------------------------------------ brute force
    LD ql[3];
    for (int a = 0; a < D; ++a) {ql[a] = (LD)Q[a];}
    for (int i = 0; i < n; ++i) {
      LD s = 0;
      for (int a = 0; a < D; ++a) {LD d = ql[a] - X[(size_t)i * D + a]; s += d * d;}
      all[i] = s;
    }
    srt = all;
    size_t need = std::min((size_t)n, k + 1);
    std::partial_sort(srt.begin(), srt.begin() + need, srt.end());
    bool ties = false;
    for (size_t j = 1; j < need; ++j) {if (srt[j] == srt[j - 1]) {ties = true;}}
    if (ties) {c.count("queries_with_exact_ties_among_k_plus_1");}
    if (k < (size_t)n && srt[k] == srt[k - 1]) {c.count("queries_with_tie_at_kth_boundary");}
    if (srt[0] == 0) {c.count("queries_at_zero_distance");}
    if (srt[0] >= 0x1p64L) {c.count("queries_with_all_sqdist_above_2pow64");}
    c.maxi("max_min_sqdist", (double)srt[0]);
    c.count("knn_outputs_checked", k);
    c.maxi("max_k", (double)k);
    c.maxi("max_n", (double)n);

    int bad_j = -1;
    auto params = [&]() {
        return vh::Params{{"type", (double)tid}, {"dim", (double)D}, {"is_float", sizeof(S) == 4 ? 1.0 : 0.0},
          {"n", (double)n}, {"k", (double)k}, {"set_kind", (double)kind}, {"query_kind", (double)qk},
          {"scale", scale}, {"reused_buffers", reuse ? 1.0 : 0.0}, {"large_offset", large_offset ? 1.0 : 0.0},
          {"min_sqdist", (double)srt[0]}};
      };
    auto wit = [&]() {
        vh::J j;
        j.s("type", tname).f("n", n).f("k", (uint64_t)k).s("set", SET_KIND[kind]).s("query", QUERY_KIND[qk])
        .f("query_no", q).raw("Q", vh::jvec(Q)).boolean("reused_buffers", reuse);
        size_t show = std::min<size_t>(k, 8);
        j.arr("idx_head", idx.begin(), idx.begin() + show);
        {std::string a = "["; for (size_t i = 0; i < show; ++i) {if (i) {a += ",";} a += vh::jnum((LD)dist[i]);} j.raw("dist_head", a + "]");}
        {std::string a = "["; for (size_t i = 0; i < std::min(show, need); ++i) {if (i) {a += ",";} a += vh::jnum(srt[i]);} j.raw("brute_head", a + "]");}
        if (bad_j >= 0) {
          j.f("j", bad_j).f("reported_index", (uint64_t)idx[bad_j]).f("reported_dist", (LD)dist[bad_j]);
          if (idx[bad_j] < (size_t)n) {
            j.f("true_dist_of_reported_index", all[idx[bad_j]]).raw("reported_point", vh::jvec(pts[idx[bad_j]]));
          }
          j.f("brute_jth_smallest", srt[bad_j]);
          size_t arg = std::min_element(all.begin(), all.end()) - all.begin();
          j.f("brute_nearest_index", (uint64_t)arg).raw("brute_nearest_point", vh::jvec(pts[arg]));
        }
        return j.str();
      };

    // ---- k nearest: structure
    bool in_range = true;
    for (size_t j = 0; j < k; ++j) {if (idx[j] >= (size_t)n) {in_range = false; bad_j = (int)j; break;}}
    if (!c.expect("knn.index_in_range", in_range, "index_out_of_range", params, wit)) {continue;}
    bool distinct = true;
    for (size_t j = 0; j < k; ++j) {
      if (seen[idx[j]]) {distinct = false; bad_j = (int)j; break;}
      seen[idx[j]] = 1;
    }
    for (size_t j = 0; j < k; ++j) {seen[idx[j]] = 0;}
    c.expect("knn.indices_distinct", distinct, "duplicate_index", params, wit);
    bad_j = -1;
    bool asc = true;
    for (size_t j = 0; j < k; ++j) {
      if (!(dist[j] >= 0) || (j && !(dist[j] >= dist[j - 1]))) {asc = false; bad_j = (int)j; break;}
    }
    c.expect("knn.ascending", asc, "not_ascending", params, wit);
    // ---- k nearest: values
    {
      LD we = 0, wt = 1; bad_j = 0;
      for (size_t j = 0; j < k; ++j) {
        LD t = all[idx[j]], tol = DIST_K * eps * t + floor_abs, e = fabsl((LD)dist[j] - t);
        bool fail = !(e <= tol);
        if (fail || e * wt > we * tol) {we = e; wt = tol; bad_j = (int)j;}
        if (fail) {break;}
      }
      c.expect_le("knn.distance_of_indexed_point", we, wt, "distance_mismatch", params, wit);
    }
    {
      LD we = 0, wt = 1; bad_j = 0;
      for (size_t j = 0; j < k; ++j) {
        LD tol = RANK_K * eps * srt[j] + floor_abs, e = fabsl((LD)dist[j] - srt[j]);
        bool fail = !(e <= tol);
        if (fail || e * wt > we * tol) {we = e; wt = tol; bad_j = (int)j;}
        if (fail) {break;}
      }
      c.expect_le("knn.jth_distance_vs_bruteforce", we, wt, "not_k_smallest", params, wit);
    }
    // ---- single nearest neighbour
    bad_j = -1;
    auto wit1 = [&]() {
        vh::J j;
        j.s("type", tname).f("n", n).s("set", SET_KIND[kind]).s("query", QUERY_KIND[qk]).f("query_no", q)
        .raw("Q", vh::jvec(Q)).f("reported_index", (uint64_t)*nn_i).f("reported_dist", (LD)*nn_d)
        .f("brute_min", srt[0]);
        if (*nn_i < (size_t)n) {j.f("true_dist_of_reported_index", all[*nn_i]).raw("reported_point", vh::jvec(pts[*nn_i]));}
        size_t arg = std::min_element(all.begin(), all.end()) - all.begin();
        j.f("brute_nearest_index", (uint64_t)arg).raw("brute_nearest_point", vh::jvec(pts[arg]));
        return j.str();
      };
    if (!c.expect("nn.index_in_range", *nn_i < (size_t)n, "index_out_of_range", params, wit1)) {continue;}
    {
      LD t = all[*nn_i];
      c.expect_le("nn.distance_of_indexed_point", fabsl((LD)*nn_d - t), DIST_K * eps * t + floor_abs,
        "distance_mismatch", params, wit1);
      c.expect_le("nn.distance_vs_bruteforce", fabsl((LD)*nn_d - srt[0]), RANK_K * eps * srt[0] + floor_abs,
        "not_nearest", params, wit1);
    }
  }
}

static void one_case(vh::Ctx & c, uint64_t idx)
{
  vh::Rng r(c.seed, idx);
  switch (r.range(0, 7)) {
    case 0: run_set<Eigen::Vector2f>(c, r); break;
    case 1: run_set<Eigen::Vector2d>(c, r); break;
    case 2: run_set<Eigen::Vector3f>(c, r); break;
    case 3: run_set<Eigen::Vector3d>(c, r); break;
    case 4: run_set<romea::core::HomogeneousCoordinates2f>(c, r); break;
    case 5: run_set<romea::core::HomogeneousCoordinates2d>(c, r); break;
    case 6: run_set<romea::core::HomogeneousCoordinates3f>(c, r); break;
    default: run_set<romea::core::HomogeneousCoordinates3d>(c, r); break;
  }
}

int main(int argc, char ** argv)
{
  return vh::run(argc, argv, "C08", {12000, 100000}, one_case);
}
