// C10  Angle / rotation / coordinate parametrisations are mutually consistent.
//
// Oracle: the *definition* in long double.
//   * R(roll, pitch, yaw) = Rz(yaw) * Ry(pitch) * Rx(roll), multiplied out from the three elementary
//     matrices; q = qz * qy * qx by Hamilton products of the three elementary half-angle quaternions;
//     R(q) by the textbook formula after normalisation.  None of this uses Eigen or the library.
//   * congruence modulo 2*pi via remainderl against the long-double constant.
//   * round trips compare the library's output with its *input* (no second implementation of the
//     inverse), with the conditioning computed from the input in long double:
//       Euler extraction      1 / cos(pitch)            (atan2 / asin of matrix entries)
//       spherical elevation   min(D / sin(el), sqrt(D)) (acos; D = relative rounding of z / range)
//
// The property text is about round trips, agreement of the three rotation builders with Z-Y-X,
// properness of produced matrices, normaliser congruence/interval and inverse pairs; the azimuth /
// elevation *conventions* of the polar and spherical maps and the sign convention of the 2x2 pair are
// not part of it and are not demanded here.
#include <Eigen/Core>
#include <Eigen/Geometry>
#include "romea_core_common/math/EulerAngles.hpp"
#include "romea_core_common/math/Transformation.hpp"
#include "romea_core_common/transform/SmartRotation3D.hpp"
#include "romea_core_common/coordinates/PolarCoordinates.hpp"
#include "romea_core_common/coordinates/SphericalCoordinates.hpp"
#include <cfenv>
#include "vh.hpp"
#include <memory>

// toSpherical<float> is ill-formed on the pinned tree (`double range` is passed together with a float
// z to a template that deduces one Scalar for both; pending_fixes/C10_spherical_float.diff).  With 1
// the monitor calls the real toSpherical<float>() and therefore needs that repair; with 0 the float
// spherical map is driven through the public component functions SphericalTransform::range/azimut/
// elevation instead (the same arithmetic, compiles on the unrepaired tree).
#ifndef C10_FLOAT_TOSPHERICAL
#define C10_FLOAT_TOSPHERICAL 1
#endif

namespace rc = romea::core;
typedef long double LD;

static const LD PI_L = 3.14159265358979323846264338327950288L;
static const LD TWO_PI_L = 2 * PI_L;
static const LD PITCH_LIM_L = PI_L / 2 - 1e-3L;
static const LD R20_LIM_L = 1 - 1e-6L;

// ---- tolerance constants (units of eps(Scalar)); see DESIGN 2.6 and the calibration in checks/C10.py
// A matrix made from a quaternion whose squared norm is 1 + e is R + e (R - I) (Eigen's toRotationMatrix assumes a unit
// quaternion), so its distance to R is <= 2 sqrt(2) |e| and ||M M^T - I||_F = |e| ||2I - R - R^T||_F <= 4 sqrt(2) |e|;
// |e| <= 16 eps for a product of three rounded half-angle quaternions (observed: 2.8 eps).
static const LD K_BUILD = 16;     // quaternion coefficients, SmartRotation3D::R entries (Frobenius)
static const LD K_BUILD_Q = 48;   // matrix obtained through the quaternion: 2 sqrt(2) * 16, rounded up
static const LD K_PROPER = 96;    // ||M M^T - I||_F and |det - 1|: 4 sqrt(2) * 16, rounded up
static const LD K_EULER = 48;     // extracted angle, times 1/cos(pitch)
static const LD K_ROT = 64;       // R -> angles -> R, Frobenius, times 1/cos(pitch)
static const LD K_NORM = 32;      // normaliser congruence (2 additions of the double 2*pi + 1 rounding)
static const LD K_2D = 32;
static const LD K_COORD = 16;     // well conditioned part of the coordinate round trips
static const LD K_ACOS = 32;      // D = K_ACOS * eps in the acos conditioning term

// ------------------------------------------------------------------------------------------------
// long double reference
// ------------------------------------------------------------------------------------------------
struct M3 {LD m[3][3];};
struct Q4 {LD w, x, y, z;};

static M3 mul(const M3 & a, const M3 & b)
{
  M3 c;
  for (int i = 0; i < 3; ++i) {
    for (int j = 0; j < 3; ++j) {
      c.m[i][j] = a.m[i][0] * b.m[0][j] + a.m[i][1] * b.m[1][j] + a.m[i][2] * b.m[2][j];
    }
  }
  return c;
}

static M3 oracle_R(LD roll, LD pitch, LD yaw)
{
  LD cr = cosl(roll), sr = sinl(roll), cp = cosl(pitch), sp = sinl(pitch), cy = cosl(yaw), sy = sinl(yaw);
  M3 Rx = {{{1, 0, 0}, {0, cr, -sr}, {0, sr, cr}}};
  M3 Ry = {{{cp, 0, sp}, {0, 1, 0}, {-sp, 0, cp}}};
  M3 Rz = {{{cy, -sy, 0}, {sy, cy, 0}, {0, 0, 1}}};
  return mul(Rz, mul(Ry, Rx));
}

static Q4 qmul(const Q4 & a, const Q4 & b)
{
  return Q4{a.w * b.w - a.x * b.x - a.y * b.y - a.z * b.z,
    a.w * b.x + a.x * b.w + a.y * b.z - a.z * b.y,
    a.w * b.y - a.x * b.z + a.y * b.w + a.z * b.x,
    a.w * b.z + a.x * b.y - a.y * b.x + a.z * b.w};
}

static Q4 oracle_q(LD roll, LD pitch, LD yaw)
{
  Q4 qx{cosl(roll / 2), sinl(roll / 2), 0, 0};
  Q4 qy{cosl(pitch / 2), 0, sinl(pitch / 2), 0};
  Q4 qz{cosl(yaw / 2), 0, 0, sinl(yaw / 2)};
  return qmul(qz, qmul(qy, qx));
}

static Q4 qnormalized(Q4 q)
{
  LD n = sqrtl(q.w * q.w + q.x * q.x + q.y * q.y + q.z * q.z);
  return Q4{q.w / n, q.x / n, q.y / n, q.z / n};
}

static M3 R_of_q(Q4 q)
{
  q = qnormalized(q);
  LD w = q.w, x = q.x, y = q.y, z = q.z;
  M3 R = {{{1 - 2 * (y * y + z * z), 2 * (x * y - w * z), 2 * (x * z + w * y)},
    {2 * (x * y + w * z), 1 - 2 * (x * x + z * z), 2 * (y * z - w * x)},
    {2 * (x * z - w * y), 2 * (y * z + w * x), 1 - 2 * (x * x + y * y)}}};
  return R;
}

template<class Mat> static M3 toM3(const Mat & R)
{
  M3 o;
  for (int i = 0; i < 3; ++i) {for (int j = 0; j < 3; ++j) {o.m[i][j] = (LD)R(i, j);}}
  return o;
}

static LD frob(const M3 & a, const M3 & b)
{
  LD s = 0;
  for (int i = 0; i < 3; ++i) {for (int j = 0; j < 3; ++j) {LD d = a.m[i][j] - b.m[i][j]; s += d * d;}}
  return sqrtl(s);
}

static LD orth_defect(const M3 & R)
{
  LD s = 0;
  for (int i = 0; i < 3; ++i) {
    for (int j = 0; j < 3; ++j) {
      LD d = R.m[i][0] * R.m[j][0] + R.m[i][1] * R.m[j][1] + R.m[i][2] * R.m[j][2] - (i == j ? 1 : 0);
      s += d * d;
    }
  }
  return sqrtl(s);
}

static LD det3(const M3 & R)
{
  return R.m[0][0] * (R.m[1][1] * R.m[2][2] - R.m[1][2] * R.m[2][1]) -
         R.m[0][1] * (R.m[1][0] * R.m[2][2] - R.m[1][2] * R.m[2][0]) +
         R.m[0][2] * (R.m[1][0] * R.m[2][1] - R.m[1][1] * R.m[2][0]);
}

static bool finite3(const M3 & R)
{
  for (int i = 0; i < 3; ++i) {for (int j = 0; j < 3; ++j) {if (!std::isfinite((double)R.m[i][j])) {return false;}}}
  return true;
}

static LD cdiff(LD a, LD b) {return fabsl(remainderl(a - b, TWO_PI_L));}

static std::string jm3(const M3 & R)
{
  std::string o = "[";
  for (int i = 0; i < 3; ++i) {
    o += i ? ",[" : "[";
    for (int j = 0; j < 3; ++j) {if (j) {o += ",";} o += vh::jnum(R.m[i][j]);}
    o += "]";
  }
  return o + "]";
}

// ------------------------------------------------------------------------------------------------
// per-Scalar helpers
// ------------------------------------------------------------------------------------------------
template<class S> struct Tr;
template<> struct Tr<double> {static const char * sfx() {return ".d";} static double id() {return 0;}};
template<> struct Tr<float> {static const char * sfx() {return ".f";} static double id() {return 1;}};

template<class S> static LD eps() {return (LD)std::numeric_limits<S>::epsilon();}
template<class S> static S toward0(S v) {return std::nextafter(v, (S)0);}
template<class S> static S step_ulps(S v, int k)
{
  S dir = k > 0 ? (S)100 : (S)-100;
  for (int i = 0; i < std::abs(k); ++i) {v = std::nextafter(v, dir);}
  return v;
}
template<class S> static LD ulp_at(LD x)       // spacing of S at magnitude x (x > 0, normal range)
{
  int e; frexpl(x, &e);
  return ldexpl(1.0L, e - std::numeric_limits<S>::digits);
}

// std::string for a string literal without a heap allocation per use (keyed by the literal's address)
static const std::string & istr(const char * lit)
{
  static std::map<const void *, std::string> m;
  auto it = m.find(lit);
  if (it == m.end()) {it = m.emplace(lit, lit).first;}
  return it->second;
}

// name of an oracle for this Scalar ("<base>.d" / "<base>.f"), built once per call site (S must be in scope)
#define ON(base) ([]() -> const char * {static const std::string n = std::string(base) + Tr<S>::sfx(); return n.c_str();}())

// an angle strictly inside (-lim, lim) as a real number
template<class S> static S inside_open(S v, LD lim)
{
  if (fabsl((LD)v) > lim) {v = std::copysign((S)lim, v);}
  while (fabsl((LD)v) >= lim) {v = toward0(v);}
  return v;
}
template<class S> static S inside_closed(S v, LD lim)
{
  if (fabsl((LD)v) > lim) {v = std::copysign((S)lim, v);}
  while (fabsl((LD)v) > lim) {v = toward0(v);}
  return v;
}

// roll / yaw in (-2pi, 2pi)
template<class S> static S pick_turn_angle(vh::Rng & r, int mode)
{
  S v;
  switch (mode) {
    case 0: v = (S)r.uni(-2 * M_PI, 2 * M_PI); break;
    case 1: {                                                   // multiples of pi/2 +- a few ulps
        v = (S)((double)r.range(-4, 4) * M_PI / 2);
        v = step_ulps(v, (int)r.range(-3, 3));
        break;
      }
    case 2: {                                                   // multiples of pi/2 +- log-spaced offset
        v = (S)((double)r.range(-4, 4) * M_PI / 2 + r.sign() * r.logu(1e-15, 1e-3));
        break;
      }
    case 3: v = (S)(r.sign() * r.logu(1e-300, 1e-3)); break;    // tiny, incl. flush to 0 / denormal for float
    default: v = (S)(r.coin() ? 0.0 : -0.0); break;
  }
  return inside_open(v, TWO_PI_L);
}

template<class S> static S pick_pitch(vh::Rng & r, int mode)
{
  const double L = (double)PITCH_LIM_L;
  S v;
  switch (mode) {
    case 0: v = (S)r.uni(-L, L); break;
    case 1: v = (S)(r.sign() * (L - r.logu(1e-12, 1e-2))); break;      // dense band at the limit
    case 2: v = (S)(r.sign() * L); break;
    case 3: v = (S)(r.sign() * r.logu(1e-300, 1e-3)); break;
    default: v = (S)(r.coin() ? 0.0 : -0.0); break;
  }
  return inside_closed(v, PITCH_LIM_L);
}

// scale applied to a quaternion's coefficients: exactly unit, "almost unit" (1 + delta, |delta| log-uniform 1e-8..1e-2,
// either sign: non-unit by a few ulps up to a percent, where a shortcut for "already normalised" input would sit),
// grossly non-unit (norm 1e-3..1e3), or of extreme norm: log-spaced up to what the library's own algorithm can
// represent -- normalized() only ever forms |q|^2, which stays finite and normal for norms 1e-18..1e18 in float and
// 1e-150..1e150 in double (the statement puts no bound on the norm of a non-unit quaternion).  `steep` raises the
// share of the almost-unit class (steep pitch is where a missing normalisation is amplified by tan(pitch)).
// Returns the class: 0 unit, 1 almost unit, 2 non-unit, 3 extreme norm.
template<class S> static int pick_quaternion_scale(vh::Rng & r, bool steep, S & scale)
{
  int k = (int)r.range(0, 99);
  int p_almost = steep ? 50 : 30;
  if (k < p_almost) {
    scale = (S)(1.0 + r.sign() * r.logu(1e-8, 1e-2));
    return scale == (S)1 ? 0 : 1;
  }
  if (k < p_almost + 15) {scale = (S)1; return 0;}
  if (k < p_almost + 33) {
    const double lim = std::is_same<S, float>::value ? 1e18 : 1e150;
    const bool small = r.coin();
    const bool at_end = r.coin(0.1);                       // the end of the range itself
    const double v = at_end ? lim : r.logu(1e3, lim);
    scale = (S)(small ? 1.0 / v : v);
    return 3;
  }
  scale = (S)r.logu(1e-3, 1e3);
  return 2;
}

// Inputs fixed by the caller instead of drawn: exact special values that random reals never produce
struct Preset
{
  const char * cat;
  LD v[3];          // Euler: roll, pitch, yaw; normaliser / planar angle: v[0]; point: x, y(, z)
  M3 R;             // rotation given as an exact matrix (2x2 block for the planar pair)
  Q4 q;             // the same rotation as a quaternion
};

// bit-for-bit comparison of two results of the same library call
template<class A> static bool same_bits(const A & a, const A & b)
{
  return std::memcmp(a.data(), b.data(), sizeof(typename A::Scalar) * a.size()) == 0;
}
template<class S> static bool same_bits_q(const Eigen::Quaternion<S> & a, const Eigen::Quaternion<S> & b)
{
  return std::memcmp(a.coeffs().data(), b.coeffs().data(), 4 * sizeof(S)) == 0;
}
template<class S> static bool same_bits_s(const S & a, const S & b) {return std::memcmp(&a, &b, sizeof(S)) == 0;}
static volatile double g_sink = 0;     // keeps the interfering sibling calls alive

// ------------------------------------------------------------------------------------------------
// proper rotation monitor for any produced 3x3
// ------------------------------------------------------------------------------------------------
template<class S> static void check_proper3(
  vh::Ctx & c, const M3 & R, const char * who, const std::function<vh::Params()> & params,
  const std::function<std::string()> & wit)
{
  const std::function<std::string()> w = [&]() {return vh::J().s("matrix", who).raw("R", jm3(R)).raw("case", wit()).str();};
  c.expect_le(ON("proper.orthonormal"), orth_defect(R), K_PROPER * eps<S>(), "not_proper_rotation", params, w);
  c.expect_le(ON("proper.det"), fabsl(det3(R) - 1), K_PROPER * eps<S>(), "not_proper_rotation", params, w);
}

// ------------------------------------------------------------------------------------------------
// family: Euler angles given
// ------------------------------------------------------------------------------------------------
template<class S> static void api_semantics_block(
  vh::Ctx & c, vh::Rng & r2, S roll, S pitch, S yaw, const std::function<vh::Params()> & params,
  const std::function<std::string()> & wit);
static void smart_object_block(
  vh::Ctx & c, vh::Rng & r2, double roll, double pitch, double yaw, const std::function<std::string()> & wit);

template<class S> static void euler_case(vh::Ctx & c, vh::Rng & r, const Preset * ps = nullptr)
{
  typedef Eigen::Matrix<S, 3, 1> V3;
  typedef Eigen::Matrix<S, 3, 3> Mat3;
  int sub = (int)r.range(0, 99);
  const char * cat;
  S roll, pitch, yaw;
  bool axis_only = false;
  if (ps) {
    cat = ps->cat; roll = (S)ps->v[0]; pitch = (S)ps->v[1]; yaw = (S)ps->v[2];
  } else if (sub < 40) {
    cat = "euler_generic";
    roll = pick_turn_angle<S>(r, 0); pitch = pick_pitch<S>(r, 0); yaw = pick_turn_angle<S>(r, 0);
  } else if (sub < 62) {
    cat = "euler_pitch_limit";
    roll = pick_turn_angle<S>(r, r.coin(0.7) ? 0 : (int)r.range(1, 4));
    pitch = pick_pitch<S>(r, (int)r.range(1, 2));
    yaw = pick_turn_angle<S>(r, r.coin(0.7) ? 0 : (int)r.range(1, 4));
  } else if (sub < 88) {
    cat = "euler_wrap";
    roll = pick_turn_angle<S>(r, (int)r.range(0, 4));
    yaw = pick_turn_angle<S>(r, (int)r.range(1, 4));
    if (r.coin()) {std::swap(roll, yaw);}
    pitch = pick_pitch<S>(r, (int)r.range(0, 4));
  } else {
    cat = "euler_axis_only"; axis_only = true;
    roll = pitch = yaw = 0;
    int k = (int)r.range(0, 2);
    if (k == 0) {roll = pick_turn_angle<S>(r, (int)r.range(0, 2));} else if (k == 1) {
      pitch = pick_pitch<S>(r, (int)r.range(0, 2));
    } else {yaw = pick_turn_angle<S>(r, (int)r.range(0, 2));}
  }
  int nz = (roll != 0) + (pitch != 0) + (yaw != 0);
  c.cat(istr(cat));
  c.distinct(vh::hash_doubles({1.0, Tr<S>::id(), (double)roll, (double)pitch, (double)yaw}), !axis_only && nz >= 2);

  LD lr = roll, lp = pitch, ly = yaw;
  LD cp = cosl(lp);
  const std::function<vh::Params()> params = [&]() {
      return vh::Params{{"scalar", Tr<S>::id()}, {"roll", (double)roll}, {"pitch", (double)pitch},
        {"yaw", (double)yaw}, {"cos_pitch", (double)cp}};
    };
  const std::function<std::string()> wit = [&]() {
      return vh::J().s("cat", cat).s("scalar", Tr<S>::sfx() + 1).f("roll", (LD)roll).f("pitch", (LD)pitch)
             .f("yaw", (LD)yaw).str();
    };
  c.sample(istr(cat), wit);

  const M3 Ro = oracle_R(lr, lp, ly);
  const V3 a(roll, pitch, yaw);

  // ---- angles -> rotation matrix
  const Mat3 R = rc::eulerAnglesToRotation3D<S>(a);
  const M3 Rl = toM3(R);
  if (!c.expect(ON("finite"), finite3(Rl), "nonfinite", params, wit)) {return;}
  c.expect_le(ON("build.euler_matrix_vs_zyx"), frob(Rl, Ro), K_BUILD_Q * eps<S>(), "builders_disagree", params, [&]() {
      return vh::J().s("builder", "eulerAnglesToRotation3D").raw("got", jm3(Rl)).raw("zyx", jm3(Ro)).raw("case", wit()).str();
    });
  check_proper3<S>(c, Rl, "eulerAnglesToRotation3D", params, wit);

  // ---- angles -> rotation -> angles
  {
    const V3 b = rc::rotation3DToEulerAngles<S>(R);
    bool fin = std::isfinite(b[0]) && std::isfinite(b[1]) && std::isfinite(b[2]);
    if (c.expect(ON("finite"), fin, "nonfinite", params, wit)) {
      LD d = std::max(cdiff(b[0], lr), std::max(cdiff(b[1], lp), cdiff(b[2], ly)));
      c.expect_le(ON("euler.angles_matrix_angles"), d, K_EULER * eps<S>() / cp, "euler_roundtrip", params, [&]() {
          return vh::J().s("via", "matrix").f("roll_back", (LD)b[0]).f("pitch_back", (LD)b[1]).f("yaw_back", (LD)b[2])
                 .raw("case", wit()).str();
        });
    }
  }

  // ---- angles -> quaternion (agreement with Z-Y-X, unit norm)
  const Eigen::Quaternion<S> q = rc::eulerAnglesToQuaternion<S>(a);
  {
    Q4 ql{(LD)q.w(), (LD)q.x(), (LD)q.y(), (LD)q.z()};
    Q4 qo = oracle_q(lr, lp, ly);
    LD dm = sqrtl(powl(ql.w - qo.w, 2) + powl(ql.x - qo.x, 2) + powl(ql.y - qo.y, 2) + powl(ql.z - qo.z, 2));
    LD dp = sqrtl(powl(ql.w + qo.w, 2) + powl(ql.x + qo.x, 2) + powl(ql.y + qo.y, 2) + powl(ql.z + qo.z, 2));
    c.expect_le(ON("build.quaternion_vs_zyx"), std::min(dm, dp), K_BUILD * eps<S>(), "builders_disagree", params, [&]() {
        return vh::J().s("builder", "eulerAnglesToQuaternion").f("w", ql.w).f("x", ql.x).f("y", ql.y).f("z", ql.z)
               .f("ow", qo.w).f("ox", qo.x).f("oy", qo.y).f("oz", qo.z).raw("case", wit()).str();
      });
  }

  // ---- angles -> quaternion (scaled: unit or non-unit) -> angles
  {
    S scale;
    const bool steep = fabsl(lp) >= PITCH_LIM_L - 1e-2L;
    const int sclass = pick_quaternion_scale<S>(r, steep, scale);
    if (sclass == 1) {
      c.cat(istr("quaternion_scale_almost_unit"));
      if (steep) {c.cat(istr("quaternion_scale_almost_unit_steep_pitch"));}
    }
    if (sclass == 3) {c.cat(istr(scale < (S)1 ? "quaternion_scale_extreme_small" : "quaternion_scale_extreme_large"));}
    Eigen::Quaternion<S> qs(q.w() * scale, q.x() * scale, q.y() * scale, q.z() * scale);
    const V3 e = rc::quaternionToEulerAngles<S>(qs);
    bool fin = std::isfinite(e[0]) && std::isfinite(e[1]) && std::isfinite(e[2]);
    if (c.expect(ON("finite"), fin, "nonfinite", params, wit)) {
      LD d = std::max(cdiff(e[0], lr), std::max(cdiff(e[1], lp), cdiff(e[2], ly)));
      c.expect_le(ON("euler.angles_quaternion_angles"), d, K_EULER * eps<S>() / cp, "euler_roundtrip", params, [&]() {
          return vh::J().s("via", "quaternion").f("scale", (LD)scale).f("roll_back", (LD)e[0]).f("pitch_back", (LD)e[1])
                 .f("yaw_back", (LD)e[2]).raw("case", wit()).str();
        });
    }
  }

  // ---- derivative-carrying helper (double only): fresh object, Vector3d constructor, or re-initialised object
  if (std::is_same<S, double>::value) {
    int how = (int)r.range(0, 3);
    rc::SmartRotation3D fresh((double)roll, (double)pitch, (double)yaw);
    rc::SmartRotation3D fromv(Eigen::Vector3d((double)roll, (double)pitch, (double)yaw));
    const double o0 = r.uni(-6, 6), o1 = r.uni(-1.5, 1.5), o2 = r.uni(-6, 6);
    rc::SmartRotation3D reused(o0, o1, o2);
    if (how == 2) {reused.init((double)roll, (double)pitch, (double)yaw);}
    if (how == 3) {reused.init(Eigen::Vector3d((double)roll, (double)pitch, (double)yaw));}
    const Eigen::Matrix3d & Rs = how == 0 ? fresh.R() : how == 1 ? fromv.R() : reused.R();
    const M3 Rsl = toM3(Rs);
    c.count(istr(how >= 2 ? "smart_rotation_reinitialised" : "smart_rotation_fresh"));
    if (c.expect("finite.d", finite3(Rsl), "nonfinite", params, wit)) {
      const std::function<std::string()> w = [&]() {
          return vh::J().s("builder", "SmartRotation3D::R").f("construction", how).raw("got", jm3(Rsl)).raw("zyx", jm3(Ro))
                 .raw("euler_matrix", jm3(Rl)).raw("case", wit()).str();
        };
      c.expect_le("build.smart_vs_zyx.d", frob(Rsl, Ro), K_BUILD * eps<double>(), "builders_disagree", params, w);
      c.expect_le("build.smart_vs_euler_matrix.d", frob(Rsl, Rl), (K_BUILD + K_BUILD_Q) * eps<double>(), "builders_disagree", params, w);
      check_proper3<double>(c, Rsl, "SmartRotation3D::R", params, wit);
    }

    // ---- consecutive near-duplicate inputs to the same (stateful) object: after the target angles the object is
    // re-initialised 1..3 times with previous + delta, |delta| log-uniform in [1e-15, 1e-2] on one, two or all three
    // components (or, now and then, with exactly the same angles); R() must follow every time.
    if (r.coin(0.5)) {
      c.cat(istr("smart_near_duplicate_reinit"));
      rc::SmartRotation3D obj;
      double t[3] = {(double)roll, (double)pitch, (double)yaw};
      const int n = (int)r.range(1, 3);
      for (int step = 0; step <= n; ++step) {
        double d[3] = {0, 0, 0};
        if (step > 0 && !r.coin(0.05)) {
          int mask = (int)r.range(1, 7);
          if (r.coin(0.4)) {mask = 7;}
          for (int k = 0; k < 3; ++k) {if (mask & (1 << k)) {d[k] = r.sign() * r.logu(1e-15, 1e-2);}}
        }
        for (int k = 0; k < 3; ++k) {t[k] += d[k];}
        if (r.coin()) {obj.init(t[0], t[1], t[2]);} else {obj.init(Eigen::Vector3d(t[0], t[1], t[2]));}
        if (step == 0) {continue;}                       // the first initialisation is what the block above checks
        const M3 Rn = toM3(obj.R());
        const M3 Rno = oracle_R((LD)t[0], (LD)t[1], (LD)t[2]);
        const double dmax = std::max(std::fabs(d[0]), std::max(std::fabs(d[1]), std::fabs(d[2])));
        c.count(istr("smart_rotation_near_duplicate_reinits"));
        if (dmax < 1e-5) {c.count(istr("smart_rotation_reinit_delta_below_1e-5"));}
        const std::function<vh::Params()> pn = [&]() {
            return vh::Params{{"scalar", 0.0}, {"roll", t[0]}, {"pitch", t[1]}, {"yaw", t[2]}, {"reinit_step", (double)step},
              {"delta_max", dmax}};
          };
        const std::function<std::string()> wn = [&]() {
            return vh::J().s("builder", "SmartRotation3D::R after init() with previous + delta").f("step", step)
                   .f("roll", (LD)t[0]).f("pitch", (LD)t[1]).f("yaw", (LD)t[2]).f("d_roll", (LD)d[0]).f("d_pitch", (LD)d[1])
                   .f("d_yaw", (LD)d[2]).raw("got", jm3(Rn)).raw("zyx", jm3(Rno)).raw("first_angles", wit()).str();
          };
        if (!c.expect("finite.d", finite3(Rn), "nonfinite", pn, wn)) {break;}
        c.expect_le("build.smart_reinit_near_vs_zyx.d", frob(Rn, Rno), K_BUILD * eps<double>(), "builders_disagree_after_reinit",
          pn, wn);
        check_proper3<double>(c, Rn, "SmartRotation3D::R", pn, wn);
      }
    }
  }

  // ---- call semantics of the stateless functions / object semantics of the stateful helper (own random stream, so
  // that the cases above are the same with and without these blocks)
  vh::Rng r2(c.seed, c.cur, 7);
  if (r2.coin(0.25)) {api_semantics_block<S>(c, r2, roll, pitch, yaw, params, wit);}
  if (std::is_same<S, double>::value && r2.coin(0.4)) {smart_object_block(c, r2, (double)roll, (double)pitch, (double)yaw, wit);}

  // ---- rigid_transformation3 (Transformation.hpp): the statement does not name it and it has no inverse; what the
  // statement says about every produced matrix is checked (proper rotation, affine last row), and agreement with
  // Z-Y-X where the composition order cannot matter (at most one non-zero angle).  For generic angles it composes
  // Rx*Ry*Rz, i.e. not the Z-Y-X rotation of the other builders: recorded in checks/C10.py, not demanded here.
  if (r2.coin(0.15)) {
    c.cat(istr("rigid_transformation3"));
    const V3 tr((S)r2.uni(-10, 10), (S)r2.uni(-10, 10), (S)r2.uni(-10, 10));
    const auto T = rc::rigid_transformation3<S>(tr, a);
    const Eigen::Matrix<S, 4, 4> Tm = T.matrix();
    M3 L;
    bool fin = true;
    for (int i = 0; i < 3; ++i) {for (int j = 0; j < 4; ++j) {fin = fin && std::isfinite(Tm(i, j)); if (j < 3) {L.m[i][j] = (LD)Tm(i, j);}}}
    if (c.expect(ON("finite"), fin, "nonfinite", params, wit)) {
      check_proper3<S>(c, L, "rigid_transformation3 (linear part)", params, wit);
      c.expect(ON("rigid_transformation3.affine_row"), Tm(3, 0) == 0 && Tm(3, 1) == 0 && Tm(3, 2) == 0 && Tm(3, 3) == 1,
        "not_proper_rotation", params, wit);
      if (nz <= 1) {
        c.cat(istr("rigid_transformation3_axis_only"));
        c.expect_le(ON("build.rigid_transformation3_axis_only_vs_zyx"), frob(L, Ro), K_BUILD_Q * eps<S>(), "builders_disagree",
          params, [&]() {return vh::J().s("builder", "rigid_transformation3").raw("got", jm3(L)).raw("zyx", jm3(Ro)).raw("case", wit()).str();});
      }
    }
  }
}

// ------------------------------------------------------------------------------------------------
// family: rotation (matrix or quaternion) given
// ------------------------------------------------------------------------------------------------
static Q4 random_unit_q(vh::Rng & r)
{
  for (;;) {
    Q4 q{r.normal(), r.normal(), r.normal(), r.normal()};
    LD n = sqrtl(q.w * q.w + q.x * q.x + q.y * q.y + q.z * q.z);
    if (n > 1e-3L) {return Q4{q.w / n, q.x / n, q.y / n, q.z / n};}
  }
}

template<class S> static void rotation_case(vh::Ctx & c, vh::Rng & r, bool as_quaternion, const Preset * ps = nullptr)
{
  typedef Eigen::Matrix<S, 3, 1> V3;
  typedef Eigen::Matrix<S, 3, 3> Mat3;
  int sub = (int)r.range(0, 99);
  const char * cat;
  bool axis_only = false;
  Q4 ql;            // the rotation, long double
  if (ps) {
    cat = ps->cat; ql = ps->q; sub = 0;
  } else if (sub < 55) {
    cat = as_quaternion ? "quaternion_generic" : "rotmat_generic";
    ql = random_unit_q(r);
  } else if (sub < 90) {
    // dense band below |R(2,0)| = 1 - 1e-6: log-spaced offsets of R(2,0) from the limit.  A quaternion is
    // given through rounded coefficients, which move R(2,0) by a few eps, hence the minimum offset there.
    cat = as_quaternion ? "quaternion_r20_limit" : "rotmat_r20_limit";
    LD off = r.coin(0.2) ? 0.0L : (LD)r.logu(1e-12, 1e-3);
    if (as_quaternion) {off = std::max(off, 8 * eps<S>());}
    LD pitch = (LD)r.sign() * asinl(R20_LIM_L - off);
    LD roll = (LD)r.uni(-M_PI, M_PI);
    LD yaw = (LD)r.uni(-M_PI, M_PI);
    ql = oracle_q(roll, pitch, yaw);
  } else {
    cat = as_quaternion ? "quaternion_axis_only" : "rotmat_axis_only"; axis_only = true;
    int k = (int)r.range(0, 3);
    LD ang = r.coin(0.3) ? (LD)((double)r.range(-2, 2) * M_PI / 2) : (LD)r.uni(-M_PI, M_PI);
    if (k == 1) {ang = std::max(-PITCH_LIM_L, std::min(PITCH_LIM_L, ang / 2));}
    ql = k == 0 ? oracle_q(ang, 0, 0) : k == 1 ? oracle_q(0, ang, 0) : k == 2 ? oracle_q(0, 0, ang) : Q4{1, 0, 0, 0};
  }

  M3 Rin;                       // what the library is given, exactly, in long double
  Mat3 Rs;                      // matrix input
  Eigen::Quaternion<S> qs;      // quaternion input
  S scale = 1;
  if (as_quaternion) {
    const bool steep = sub >= 55 && sub < 90;              // the R(2,0)-limit band
    const int sclass = pick_quaternion_scale<S>(r, steep, scale);
    if (sclass == 1) {
      c.cat(istr("quaternion_scale_almost_unit"));
      if (steep) {c.cat(istr("quaternion_scale_almost_unit_steep_pitch"));}
    }
    if (sclass == 3) {c.cat(istr(scale < (S)1 ? "quaternion_scale_extreme_small" : "quaternion_scale_extreme_large"));}
    if (r.coin()) {scale = -scale;}                      // q and -q are the same rotation
    for (;;) {
      qs = Eigen::Quaternion<S>((S)(ql.w * scale), (S)(ql.x * scale), (S)(ql.y * scale), (S)(ql.z * scale));
      Rin = R_of_q(Q4{(LD)qs.w(), (LD)qs.x(), (LD)qs.y(), (LD)qs.z()});
      if (fabsl(Rin.m[2][0]) <= R20_LIM_L) {break;}
      ql = random_unit_q(r);       // outside the stated domain (probability ~1e-6): draw another rotation
    }
  } else {
    for (;;) {
      M3 Rl = ps ? ps->R : R_of_q(ql);        // a preset matrix is exact (entries 0, +-1)
      for (int i = 0; i < 3; ++i) {for (int j = 0; j < 3; ++j) {Rs(i, j) = (S)Rl.m[i][j];}}
      if (fabsl(Rl.m[2][0]) <= R20_LIM_L) {break;}
      ql = random_unit_q(r);       // outside the stated domain (probability ~1e-6): draw another rotation
    }
    // rounding to Scalar may lift R(2,0) over the limit by half an ulp: step back (stays a rotation to rounding)
    while (fabsl((LD)Rs(2, 0)) > R20_LIM_L) {Rs(2, 0) = toward0(Rs(2, 0));}
    Rin = toM3(Rs);
  }
  LD r20 = Rin.m[2][0];
  LD cp = sqrtl((1 - r20) * (1 + r20));
  c.cat(istr(cat));
  {
    uint64_t h = vh::hash_doubles({as_quaternion ? 3.0 : 2.0, Tr<S>::id(), (double)scale});
    for (int i = 0; i < 3; ++i) {for (int j = 0; j < 3; ++j) {h = vh::hash_add(h, (double)Rin.m[i][j]);}}
    c.distinct(h, !axis_only);
  }
  const std::function<vh::Params()> params = [&]() {
      return vh::Params{{"scalar", Tr<S>::id()}, {"r20", (double)r20}, {"cos_pitch", (double)cp},
        {"quaternion_input", as_quaternion ? 1.0 : 0.0}, {"scale", (double)scale}};
    };
  const std::function<std::string()> wit = [&]() {
      vh::J j;
      j.s("cat", cat).s("scalar", Tr<S>::sfx() + 1).raw("R_in", jm3(Rin));
      if (as_quaternion) {j.f("qw", (LD)qs.w()).f("qx", (LD)qs.x()).f("qy", (LD)qs.y()).f("qz", (LD)qs.z());}
      return j.str();
    };
  c.sample(istr(cat), wit);

  const V3 ang = as_quaternion ? rc::quaternionToEulerAngles<S>(qs) : rc::rotation3DToEulerAngles<S>(Rs);
  bool fin = std::isfinite(ang[0]) && std::isfinite(ang[1]) && std::isfinite(ang[2]);
  if (!c.expect(ON("finite"), fin, "nonfinite", params, wit)) {return;}
  const std::function<std::string()> witb = [&]() {
      return vh::J().f("roll", (LD)ang[0]).f("pitch", (LD)ang[1]).f("yaw", (LD)ang[2]).raw("case", wit()).str();
    };

  // ---- back to a matrix
  const Mat3 R2 = rc::eulerAnglesToRotation3D<S>(ang);
  const M3 R2l = toM3(R2);
  if (!c.expect(ON("finite"), finite3(R2l), "nonfinite", params, witb)) {return;}
  const LD tol = K_ROT * eps<S>() / cp;
  c.expect_le((as_quaternion ? ON("rotation.quaternion_angles_matrix") : ON("rotation.matrix_angles_matrix")),
    frob(R2l, Rin), tol, "rotation_roundtrip", params, [&]() {
      return vh::J().s("back", "eulerAnglesToRotation3D").raw("R_back", jm3(R2l)).raw("case", witb()).str();
    });
  check_proper3<S>(c, R2l, "eulerAnglesToRotation3D", params, witb);

  // ---- back to a quaternion (same rotation: compare the rotation it denotes)
  {
    const Eigen::Quaternion<S> q2 = rc::eulerAnglesToQuaternion<S>(ang);
    const M3 Rq = R_of_q(Q4{(LD)q2.w(), (LD)q2.x(), (LD)q2.y(), (LD)q2.z()});
    LD n2 = sqrtl(powl(q2.w(), 2) + powl(q2.x(), 2) + powl(q2.y(), 2) + powl(q2.z(), 2));
    bool f2 = finite3(Rq);
    if (c.expect(ON("finite"), f2, "nonfinite", params, witb)) {
      c.expect_le(ON("rotation.rotation_angles_quaternion"), frob(Rq, Rin) + fabsl(n2 - 1), tol, "rotation_roundtrip",
        params, [&]() {
          return vh::J().s("back", "eulerAnglesToQuaternion").f("w", (LD)q2.w()).f("x", (LD)q2.x()).f("y", (LD)q2.y())
                 .f("z", (LD)q2.z()).raw("case", witb()).str();
        });
    }
  }

  // ---- back through the derivative-carrying helper
  if (std::is_same<S, double>::value) {
    rc::SmartRotation3D s((double)ang[0], (double)ang[1], (double)ang[2]);
    const M3 Rsl = toM3(s.R());
    c.count(istr("smart_rotation_fresh"));
    if (c.expect("finite.d", finite3(Rsl), "nonfinite", params, witb)) {
      c.expect_le("rotation.rotation_angles_smart.d", frob(Rsl, Rin), tol, "rotation_roundtrip", params, [&]() {
          return vh::J().s("back", "SmartRotation3D::R").raw("R_back", jm3(Rsl)).raw("case", witb()).str();
        });
      check_proper3<double>(c, Rsl, "SmartRotation3D::R", params, witb);
    }
  }
}

// ------------------------------------------------------------------------------------------------
// family: normalisers
// ------------------------------------------------------------------------------------------------
template<class S> static void normaliser_case(vh::Ctx & c, vh::Rng & r, const Preset * ps = nullptr)
{
  int sub = (int)r.range(0, 99);
  const char * cat;
  S v;
  if (ps) {cat = ps->cat; v = (S)ps->v[0];} else if (sub < 35) {
    cat = "normaliser_random"; v = (S)r.uni(-4 * M_PI, 4 * M_PI);
  } else if (sub < 60) {
    cat = "normaliser_multiple_ulps";                           // k*pi/2, k in [-8, 8], +- 0..3 ulps
    v = step_ulps((S)((double)r.range(-8, 8) * M_PI / 2), (int)r.range(-3, 3));
  } else if (sub < 80) {
    cat = "normaliser_multiple_near";
    v = (S)((double)r.range(-8, 8) * M_PI / 2 + r.sign() * r.logu(1e-16, 1e-3));
  } else {
    cat = "normaliser_tiny";                                    // +-0, denormals, tiny of either sign
    int k = (int)r.range(0, 4);
    v = k == 0 ? (S)0.0 : k == 1 ? (S)-0.0 : k == 2 ? (S)r.sign() * std::numeric_limits<S>::denorm_min() * (S)r.range(1, 5) :
      k == 3 ? (S)(r.sign() * r.logu(1e-30, 1e-14)) : (S)(r.sign() * r.logu(1e-14, 1e-6));
  }
  // the library's documented precondition (an assert): strictly inside (-4pi, 4pi) as represented by 4*M_PI
  if (std::fabs((double)v) > rc::M_4PI) {v = std::copysign((S)rc::M_4PI, v);}
  while (!((double)v > -rc::M_4PI && (double)v < rc::M_4PI)) {v = toward0(v);}
  LD lv = v;
  c.cat(istr(cat));
  bool trivial = std::is_same<S, double>::value && lv > 0.01L && lv < PI_L - 0.01L;    // already inside both intervals
  c.distinct(vh::hash_doubles({4.0, Tr<S>::id(), (double)v}), !trivial);
  const std::function<vh::Params()> params = [&]() {return vh::Params{{"scalar", Tr<S>::id()}, {"angle", (double)v}};};
  const std::function<std::string()> wit = [&]() {return vh::J().s("cat", cat).s("scalar", Tr<S>::sfx() + 1).f("angle", lv).str();};
  c.sample(istr(cat), wit);

  const LD tolc = K_NORM * eps<S>();
  {
    const S w = rc::between0And2Pi<S>(v);
    const std::function<std::string()> ww = [&]() {return vh::J().s("fn", "between0And2Pi").f("result", (LD)w).raw("case", wit()).str();};
    if (c.expect(ON("finite"), std::isfinite(w), "nonfinite", params, ww)) {
      c.expect_le(ON("normaliser.0_2pi.congruent"), cdiff(w, lv), tolc, "normaliser_not_congruent", params, ww);
      // closed interval [0, 2pi]; a float result may be the float nearest to 2pi, which lies above it
      LD slack = std::is_same<S, float>::value ? ulp_at<S>(TWO_PI_L) : 0.0L;
      c.expect(ON("normaliser.0_2pi.interval"), w >= (S)0 && (LD)w <= TWO_PI_L + slack, "normaliser_out_of_interval",
        params, ww);
      if ((LD)w >= TWO_PI_L - 4 * ulp_at<S>(TWO_PI_L)) {c.count(istr("normaliser_result_at_upper_end"));}
    }
  }
  {
    const S w = rc::betweenMinusPiAndPi<S>(v);
    const std::function<std::string()> ww = [&]() {return vh::J().s("fn", "betweenMinusPiAndPi").f("result", (LD)w).raw("case", wit()).str();};
    if (c.expect(ON("finite"), std::isfinite(w), "nonfinite", params, ww)) {
      c.expect_le(ON("normaliser.mpi_pi.congruent"), cdiff(w, lv), tolc, "normaliser_not_congruent", params, ww);
      LD slack = std::is_same<S, float>::value ? ulp_at<S>(PI_L) : 0.0L;
      c.expect(ON("normaliser.mpi_pi.interval"), fabsl((LD)w) <= PI_L + slack, "normaliser_out_of_interval", params, ww);
    }
  }
  // ---- results bound by reference, other inputs (both scalar types) in between, the same input again
  vh::Rng r2(c.seed, c.cur, 7);
  if (r2.coin(0.25)) {
    c.cat(istr("normaliser_call_semantics"));
    const auto & w0 = rc::between0And2Pi<S>(v);
    const auto & w1 = rc::betweenMinusPiAndPi<S>(v);
    const S k0 = w0, k1 = w1;
    const double o = r2.uni(-12, 12);
    g_sink = g_sink + rc::between0And2Pi<float>((float)o) + rc::betweenMinusPiAndPi<double>(o) + rc::between0And2Pi<double>(-o) +
      rc::betweenMinusPiAndPi<float>((float)-o);
    c.expect(ON("api.result_stable"), same_bits_s(w0, k0) && same_bits_s(w1, k1), "result_changed_later", params, wit);
    c.expect(ON("api.same_input_same_result"), same_bits_s(rc::between0And2Pi<S>(S(v)), k0) &&
      same_bits_s(rc::betweenMinusPiAndPi<S>(S(v)), k1), "result_not_reproducible", params, wit);
  }
}

// ------------------------------------------------------------------------------------------------
// family: planar angle <-> 2x2 rotation
// ------------------------------------------------------------------------------------------------
template<class S> static void rot2d_case(vh::Ctx & c, vh::Rng & r, const Preset * ps = nullptr)
{
  typedef Eigen::Matrix<S, 2, 2> Mat2;
  const char * cat = ps ? ps->cat : "rot2d";
  S th = pick_turn_angle<S>(r, (int)r.range(0, 4));
  if (ps) {th = (S)ps->v[0];}
  LD lt = th;
  c.cat(istr(cat));
  c.distinct(vh::hash_doubles({5.0, Tr<S>::id(), (double)th}), th != 0);
  const std::function<vh::Params()> params = [&]() {return vh::Params{{"scalar", Tr<S>::id()}, {"angle", (double)th}};};
  const std::function<std::string()> wit = [&]() {return vh::J().s("cat", cat).s("scalar", Tr<S>::sfx() + 1).f("angle", lt).str();};
  c.sample(istr(cat), wit);

  // angle -> R -> angle
  const Mat2 R = rc::eulerAngleToRotation2D<S>(th);
  LD a = R(0, 0), b = R(0, 1), cc = R(1, 0), d = R(1, 1);
  bool fin = std::isfinite((double)(a + b + cc + d));
  const std::function<std::string()> wr = [&]() {return vh::J().f("r00", a).f("r01", b).f("r10", cc).f("r11", d).raw("case", wit()).str();};
  if (!c.expect(ON("finite"), fin, "nonfinite", params, wr)) {return;}
  LD orth = sqrtl(powl(a * a + b * b - 1, 2) + powl(cc * cc + d * d - 1, 2) + 2 * powl(a * cc + b * d, 2));
  c.expect_le(ON("rot2d.proper"), std::max(orth, fabsl(a * d - b * cc - 1)), K_2D * eps<S>(), "not_proper_rotation", params, wr);
  const S back = rc::rotation2DToEulerAngle<S>(R);
  if (c.expect(ON("finite"), std::isfinite(back), "nonfinite", params, wr)) {
    c.expect_le(ON("rot2d.angle_matrix_angle"), cdiff(back, lt), K_2D * eps<S>(), "rot2d_roundtrip", params, [&]() {
        return vh::J().f("angle_back", (LD)back).raw("R", wr()).str();
      });
  }
  // R -> angle -> R, R given (a rotation rounded to Scalar, independent of the library's builder)
  LD phi = (LD)r.uni(-M_PI, M_PI);
  if (r.coin(0.3)) {phi = (LD)((double)r.range(-2, 2) * M_PI / 2) + (LD)(r.sign() * r.logu(1e-16, 1e-3));}
  Mat2 Rg;
  Rg << (S)cosl(phi), (S)(-sinl(phi)), (S)sinl(phi), (S)cosl(phi);
  if (ps) {Rg << (S)ps->R.m[0][0], (S)ps->R.m[0][1], (S)ps->R.m[1][0], (S)ps->R.m[1][1];}     // exact quarter turn
  const S ag = rc::rotation2DToEulerAngle<S>(Rg);
  const Mat2 Rb = rc::eulerAngleToRotation2D<S>(ag);
  LD df = sqrtl(powl((LD)Rb(0, 0) - (LD)Rg(0, 0), 2) + powl((LD)Rb(0, 1) - (LD)Rg(0, 1), 2) +
      powl((LD)Rb(1, 0) - (LD)Rg(1, 0), 2) + powl((LD)Rb(1, 1) - (LD)Rg(1, 1), 2));
  c.expect_le(ON("rot2d.matrix_angle_matrix"), df, K_2D * eps<S>(), "rot2d_roundtrip", params, [&]() {
      return vh::J().f("phi", phi).f("angle", (LD)ag).f("g00", (LD)Rg(0, 0)).f("g10", (LD)Rg(1, 0)).f("b00", (LD)Rb(0, 0))
             .f("b10", (LD)Rb(1, 0)).raw("case", wit()).str();
    });
}

// ------------------------------------------------------------------------------------------------
// family: polar <-> Cartesian
// ------------------------------------------------------------------------------------------------
template<class S> static S pick_range(vh::Rng & r)
{
  int k = (int)r.range(0, 9);
  double v = k == 0 ? 1.0000001e-6 : k == 1 ? 0.9999999e6 : r.logu(1.0000001e-6, 0.9999999e6);
  return (S)v;
}

template<class S> static void polar_extras(
  vh::Ctx & c, S x, S y, LD nrm, const std::function<vh::Params()> & params, const std::function<std::string()> & wit);
template<class S> static void spherical_extras(
  vh::Ctx & c, S x, S y, S z, LD nrm, LD sin_el, const std::function<vh::Params()> & params,
  const std::function<std::string()> & wit);

template<class S> static void polar_case(vh::Ctx & c, vh::Rng & r, const Preset * ps = nullptr)
{
  int sub = (int)r.range(0, 99);
  const char * cat;
  S rho = pick_range<S>(r);
  LD az;
  if (ps) {
    cat = ps->cat; sub = 0;
    rho = (S)hypotl((LD)(S)ps->v[0], (LD)(S)ps->v[1]); az = atan2l((LD)(S)ps->v[1], (LD)(S)ps->v[0]);
  } else if (sub < 50) {cat = "polar_generic"; az = (LD)r.uni(-M_PI, M_PI);} else {
    cat = "polar_axis";                                          // on / next to the axes and the branch cut
    az = (LD)((double)r.range(-2, 2) * M_PI / 2);
    if (r.coin(0.7)) {az += (LD)(r.sign() * r.logu(1e-17, 1e-3));}
    az = remainderl(az, TWO_PI_L);
  }
  bool homogeneous = r.coin(0.4);
  c.cat(istr(cat));
  c.cat(istr(homogeneous ? "polar_homogeneous" : "polar_cartesian"));
  // ---- Cartesian point first
  S x = (S)((LD)rho * cosl(az)), y = (S)((LD)rho * sinl(az));
  if (ps) {x = (S)ps->v[0]; y = (S)ps->v[1];}
  if (sub >= 50 && r.coin(0.3)) {                                                      // exactly on an axis
    bool zero_x = r.coin();
    S zero = (S)(r.coin() ? 0.0 : -0.0), other = (S)(r.sign() * (double)rho);
    if (zero_x) {x = zero; y = other;} else {y = zero; x = other;}
  }
  LD nrm = hypotl((LD)x, (LD)y);
  c.distinct(vh::hash_doubles({6.0, Tr<S>::id(), (double)x, (double)y, homogeneous ? 1.0 : 0.0}),
    ps || !(std::is_same<S, double>::value && sub < 50 && !homogeneous));
  const std::function<vh::Params()> params = [&]() {
      return vh::Params{{"scalar", Tr<S>::id()}, {"x", (double)x}, {"y", (double)y}, {"norm", (double)nrm},
        {"homogeneous", homogeneous ? 1.0 : 0.0}};
    };
  const std::function<std::string()> wit = [&]() {
      return vh::J().s("cat", cat).s("scalar", Tr<S>::sfx() + 1).boolean("homogeneous", homogeneous).f("x", (LD)x).f("y", (LD)y).str();
    };
  c.sample(istr(cat), wit);
  {
    S rg, azg, xb, yb;
    if (homogeneous) {
      rc::HomogeneousCoordinates2<S> p(x, y);
      rc::PolarCoordinates<S> pol = rc::toHomogeneous(p);        // (sic) the library's name for homogeneous -> polar
      rc::HomogeneousCoordinates2<S> pb = rc::toHomogeneous(pol);
      rg = pol.getRange(); azg = pol.getAzimut(); xb = pb.x(); yb = pb.y();
      c.expect(ON("polar.homogeneous_w"), pb(2) == (S)1, "polar_roundtrip", params, wit);
    } else {
      rc::CartesianCoordinates2<S> p(x, y);
      rc::PolarCoordinates<S> pol = rc::toPolar(p);
      rc::CartesianCoordinates2<S> pb = rc::toCartesian(pol);
      rg = pol.getRange(); azg = pol.getAzimut(); xb = pb.x(); yb = pb.y();
    }
    const std::function<std::string()> w = [&]() {
        return vh::J().f("range", (LD)rg).f("azimut", (LD)azg).f("x_back", (LD)xb).f("y_back", (LD)yb).raw("case", wit()).str();
      };
    bool fin = std::isfinite(rg) && std::isfinite(azg) && std::isfinite(xb) && std::isfinite(yb);
    if (c.expect(ON("finite"), fin, "nonfinite", params, w)) {
      c.expect_le(ON("polar.cartesian_polar_cartesian"), hypotl((LD)xb - (LD)x, (LD)yb - (LD)y), K_COORD * eps<S>() * nrm,
        "polar_roundtrip", params, w);
    }
  }
  // ---- polar point first: (rho, azS) canonical, azS in [-pi, pi]
  {
    S azS = inside_closed((S)az, PI_L);
    rc::PolarCoordinates<S> pol(rho, azS);
    S rb, ab;
    if (homogeneous) {
      rc::PolarCoordinates<S> back = rc::toHomogeneous(rc::toHomogeneous(pol));
      rb = back.getRange(); ab = back.getAzimut();
    } else {
      rc::PolarCoordinates<S> back = rc::toPolar(rc::toCartesian(pol));
      rb = back.getRange(); ab = back.getAzimut();
    }
    const std::function<vh::Params()> p2 = [&]() {
        return vh::Params{{"scalar", Tr<S>::id()}, {"range", (double)rho}, {"azimut", (double)azS},
          {"homogeneous", homogeneous ? 1.0 : 0.0}};
      };
    const std::function<std::string()> w = [&]() {
        return vh::J().s("cat", cat).s("scalar", Tr<S>::sfx() + 1).boolean("homogeneous", homogeneous).f("range", (LD)rho)
               .f("azimut", (LD)azS).f("range_back", (LD)rb).f("azimut_back", (LD)ab).str();
      };
    if (c.expect(ON("finite"), std::isfinite(rb) && std::isfinite(ab), "nonfinite", p2, w)) {
      LD e = std::max(fabsl((LD)rb - (LD)rho) / (LD)rho, cdiff(ab, azS));
      c.expect_le(ON("polar.polar_cartesian_polar"), e, K_COORD * eps<S>(), "polar_roundtrip", p2, w);
    }
  }
  polar_extras<S>(c, x, y, nrm, params, wit);
}

// ------------------------------------------------------------------------------------------------
// family: spherical <-> Cartesian
// ------------------------------------------------------------------------------------------------
template<class S> static rc::SphericalCoordinates<S> lib_to_spherical(const rc::CartesianCoordinates3<S> & p)
{
#if C10_FLOAT_TOSPHERICAL
  return rc::toSpherical(p);     // if this does not compile for float: see the note at the top of this file
#else
  if (std::is_same<S, double>::value) {
    Eigen::Matrix<double, 3, 1> pd = p.template cast<double>();
    rc::SphericalCoordinates<double> s = rc::toSpherical(pd);
    return rc::SphericalCoordinates<S>((S)s.getRange(), (S)s.getAzimut(), (S)s.getElevation());
  }
  return rc::SphericalCoordinates<S>(rc::SphericalTransform::range(p), rc::SphericalTransform::azimut(p),
           rc::SphericalTransform::elevation(p));
#endif
}

template<class S> static rc::SphericalCoordinates<S> lib_to_spherical(const rc::HomogeneousCoordinates3<S> & p)
{
#if C10_FLOAT_TOSPHERICAL
  return rc::toSpherical(p);
#else
  if (std::is_same<S, double>::value) {
    rc::HomogeneousCoordinates3<double> pd((double)p.x(), (double)p.y(), (double)p.z());
    rc::SphericalCoordinates<double> s = rc::toSpherical(pd);
    return rc::SphericalCoordinates<S>((S)s.getRange(), (S)s.getAzimut(), (S)s.getElevation());
  }
  return rc::SphericalCoordinates<S>(rc::SphericalTransform::range(p), rc::SphericalTransform::azimut(p),
           rc::SphericalTransform::elevation(p));
#endif
}

// conditioning of the acos-based elevation: cos(el') = cos(el) (1 + delta), |delta| <= D  =>
// |sin(el') - sin(el)| and |el' - el| (times sin) are bounded by min(2 D / sin(el), sqrt(2 D))
template<class S> static LD acos_term(LD sin_el)
{
  LD D = K_ACOS * eps<S>();
  LD a = sqrtl(2 * D);
  return sin_el > 0 ? std::min(2 * D / sin_el, a) : a;
}

template<class S> static void spherical_case(vh::Ctx & c, vh::Rng & r, const Preset * ps = nullptr)
{
  int sub = (int)r.range(0, 99);
  const char * cat;
  S rho = pick_range<S>(r);
  LD az = (LD)r.uni(-M_PI, M_PI), el;
  if (ps) {
    cat = ps->cat; sub = 0;
    LD px = (S)ps->v[0], py = (S)ps->v[1], pz = (S)ps->v[2], pn = sqrtl(px * px + py * py + pz * pz);
    rho = (S)pn; az = atan2l(py, px); el = acosl(std::max(-1.0L, std::min(1.0L, pz / pn)));
  } else if (sub < 40) {
    cat = "spherical_generic"; el = acosl((LD)r.uni(-1, 1));
  } else if (sub < 75) {
    cat = "spherical_pole";                                   // log-spaced distance to either pole
    el = (LD)r.logu(1e-12, 1e-2);
    if (r.coin()) {el = PI_L - el;}
  } else {
    cat = "spherical_axis";                                   // on / next to the coordinate axes and planes
    int k = (int)r.range(0, 2);
    el = k == 0 ? 0.0L : k == 1 ? PI_L / 2 : PI_L;
    az = (LD)((double)r.range(-2, 2) * M_PI / 2);
    if (r.coin(0.5)) {az += (LD)(r.sign() * r.logu(1e-17, 1e-3));}
    az = remainderl(az, TWO_PI_L);
    if (r.coin(0.5)) {el = std::min(PI_L, std::max(0.0L, el + (LD)(r.sign() * r.logu(1e-17, 1e-3))));}
  }
  bool homogeneous = r.coin(0.4);
  c.cat(istr(cat));
  c.cat(istr(homogeneous ? "spherical_homogeneous" : "spherical_cartesian"));

  // ---- Cartesian point first
  S x = (S)((LD)rho * cosl(az) * sinl(el)), y = (S)((LD)rho * sinl(az) * sinl(el)), z = (S)((LD)rho * cosl(el));
  if (ps) {x = (S)ps->v[0]; y = (S)ps->v[1]; z = (S)ps->v[2];}
  if (sub >= 75 && r.coin(0.4)) {
    int k = (int)r.range(0, 2);
    S zero = (S)(r.coin() ? 0.0 : -0.0);
    if (k == 0) {x = zero; y = (S)(r.coin() ? 0.0 : -0.0);} else if (k == 1) {x = zero;} else {y = zero;}
  }
  LD nrm = sqrtl((LD)x * x + (LD)y * y + (LD)z * z);
  if (!(nrm >= 1e-6L && nrm <= 1e6L)) {z = (S)(z < 0 ? -(double)rho : (double)rho); nrm = sqrtl((LD)x * x + (LD)y * y + (LD)z * z);}
  LD sin_el = hypotl((LD)x, (LD)y) / nrm;
  c.distinct(vh::hash_doubles({7.0, Tr<S>::id(), (double)x, (double)y, (double)z, homogeneous ? 1.0 : 0.0}),
    ps || !(std::is_same<S, double>::value && sub < 40 && !homogeneous && sin_el > 0.3L));
  const std::function<vh::Params()> params = [&]() {
      return vh::Params{{"scalar", Tr<S>::id()}, {"x", (double)x}, {"y", (double)y}, {"z", (double)z}, {"norm", (double)nrm},
        {"sin_elevation", (double)sin_el}, {"homogeneous", homogeneous ? 1.0 : 0.0}};
    };
  const std::function<std::string()> wit = [&]() {
      return vh::J().s("cat", cat).s("scalar", Tr<S>::sfx() + 1).boolean("homogeneous", homogeneous).f("x", (LD)x).f("y", (LD)y)
             .f("z", (LD)z).str();
    };
  c.sample(istr(cat), wit);
  if (sin_el < sqrtl(eps<S>())) {c.count(istr("spherical_inside_acos_plateau"));}
  {
    S rg, azg, elg, xb, yb, zb;
    if (homogeneous) {
      rc::HomogeneousCoordinates3<S> p(x, y, z);
      rc::SphericalCoordinates<S> s = lib_to_spherical<S>(p);
      rc::HomogeneousCoordinates3<S> pb = rc::toHomogeneous(s);
      rg = s.getRange(); azg = s.getAzimut(); elg = s.getElevation(); xb = pb.x(); yb = pb.y(); zb = pb.z();
      c.expect(ON("spherical.homogeneous_w"), pb(3) == (S)1, "spherical_roundtrip", params, wit);
    } else {
      rc::CartesianCoordinates3<S> p(x, y, z);
      rc::SphericalCoordinates<S> s = lib_to_spherical<S>(p);
      rc::CartesianCoordinates3<S> pb = rc::toCartesian(s);
      rg = s.getRange(); azg = s.getAzimut(); elg = s.getElevation(); xb = pb.x(); yb = pb.y(); zb = pb.z();
    }
    const std::function<std::string()> w = [&]() {
        return vh::J().f("range", (LD)rg).f("azimut", (LD)azg).f("elevation", (LD)elg).f("x_back", (LD)xb).f("y_back", (LD)yb)
               .f("z_back", (LD)zb).raw("case", wit()).str();
      };
    bool fin = std::isfinite(rg) && std::isfinite(azg) && std::isfinite(elg) && std::isfinite(xb) && std::isfinite(yb) &&
      std::isfinite(zb);
    if (c.expect(ON("finite"), fin, "nonfinite", params, w)) {
      LD d = sqrtl(powl((LD)xb - x, 2) + powl((LD)yb - y, 2) + powl((LD)zb - z, 2));
      c.expect_le(ON("spherical.cartesian_spherical_cartesian"), d, nrm * (K_COORD * eps<S>() + acos_term<S>(sin_el)),
        "spherical_roundtrip", params, w);
    }
  }
  // ---- spherical point first: canonical (rho, az in [-pi,pi], el in [0,pi])
  {
    S azS = inside_closed((S)az, PI_L);
    S elS = (S)el;
    if (elS < 0) {elS = 0;}
    elS = inside_closed(elS, PI_L);          // a float "pi" above pi would be a point on the other side of the axis
    LD se = fabsl(sinl((LD)elS));
    rc::SphericalCoordinates<S> s(rho, azS, elS);
    S rb, ab, eb;
    if (homogeneous) {
      rc::SphericalCoordinates<S> back = lib_to_spherical<S>(rc::toHomogeneous(s));
      rb = back.getRange(); ab = back.getAzimut(); eb = back.getElevation();
    } else {
      rc::SphericalCoordinates<S> back = lib_to_spherical<S>(rc::toCartesian(s));
      rb = back.getRange(); ab = back.getAzimut(); eb = back.getElevation();
    }
    const std::function<vh::Params()> p2 = [&]() {
        return vh::Params{{"scalar", Tr<S>::id()}, {"range", (double)rho}, {"azimut", (double)azS}, {"elevation", (double)elS},
          {"sin_elevation", (double)se}, {"homogeneous", homogeneous ? 1.0 : 0.0}};
      };
    const std::function<std::string()> w = [&]() {
        return vh::J().s("cat", cat).s("scalar", Tr<S>::sfx() + 1).boolean("homogeneous", homogeneous).f("range", (LD)rho)
               .f("azimut", (LD)azS).f("elevation", (LD)elS).f("range_back", (LD)rb).f("azimut_back", (LD)ab)
               .f("elevation_back", (LD)eb).str();
      };
    if (c.expect(ON("finite"), std::isfinite(rb) && std::isfinite(ab) && std::isfinite(eb), "nonfinite", p2, w)) {
      c.expect_le(ON("spherical.range_back"), fabsl((LD)rb - (LD)rho) / (LD)rho, K_COORD * eps<S>(), "spherical_roundtrip", p2, w);
      // elevation: sin(el) |el' - el| <= min(2D/sin, sqrt(2D)) sin  =>  |el' - el| <= min(2D/sin(el), ~sqrt(2D)) ...
      // near the poles the angle itself moves by up to sqrt(2 D) (acos plateau), away from them by 2D/sin(el)
      c.expect_le(ON("spherical.elevation_back"), fabsl((LD)eb - (LD)elS), K_COORD * eps<S>() + 2 * acos_term<S>(se),
        "spherical_roundtrip", p2, w);
      // azimuth is undefined on the polar axis (sin(el) = 0, or x and y underflow)
      LD xs = fabsl((LD)rho * se);
      if (se < 1e-12L || xs < 1e3L * (LD)std::numeric_limits<S>::min()) {
        {static const std::string sk = std::string(ON("spherical.azimut_back")) + ":polar_axis"; c.skip(sk);}
      } else {
        c.expect_le(ON("spherical.azimut_back"), cdiff(ab, azS), K_COORD * eps<S>(), "spherical_roundtrip", p2, w);
      }
    }
  }
  spherical_extras<S>(c, x, y, z, nrm, sin_el, params, wit);
}

// ------------------------------------------------------------------------------------------------
// call semantics of the stateless conversion functions: results bound the way the signatures allow and kept across
// later calls, the same call with temporaries / moved arguments, results assigned over their own argument, unrelated
// calls (both scalar types, sibling SmartRotation3D objects) in between, the same input a second time
// ------------------------------------------------------------------------------------------------
template<class S> static void sibling_calls(vh::Rng & r2)
{
  const double o0 = r2.uni(-6, 6), o1 = r2.uni(-1.5, 1.5), o2 = r2.uni(-6, 6);
  const Eigen::Matrix<S, 3, 1> o((S)o0, (S)o1, (S)o2);
  const auto Ro = rc::eulerAnglesToRotation3D<S>(o);
  const auto bo = rc::rotation3DToEulerAngles<S>(Ro);
  const auto qo = rc::eulerAnglesToQuaternion<S>(o);
  const auto eo = rc::quaternionToEulerAngles<S>(qo);
  const S n = rc::between0And2Pi<S>((S)o0) + rc::betweenMinusPiAndPi<S>((S)o2);
  const S p = rc::rotation2DToEulerAngle<S>(rc::eulerAngleToRotation2D<S>((S)o2));
  const auto pol = rc::toPolar(rc::CartesianCoordinates2<S>((S)o0, (S)o2));
  const auto car = rc::toCartesian(rc::SphericalCoordinates<S>((S)(1 + std::fabs(o0)), (S)o1, (S)std::fabs(o1)));
  g_sink = g_sink + (double)(bo[0] + eo[1] + n + p + pol.getAzimut() + car.x());
}

template<class S> static void api_semantics_block(
  vh::Ctx & c, vh::Rng & r2, S roll, S pitch, S yaw, const std::function<vh::Params()> & params,
  const std::function<std::string()> & wit)
{
  typedef Eigen::Matrix<S, 3, 1> V3;
  typedef Eigen::Matrix<S, 3, 3> Mat3;
  typedef Eigen::Matrix<S, 2, 2> Mat2;
  typedef Eigen::Quaternion<S> Qt;
  c.cat(istr("api_call_semantics"));
  const V3 a(roll, pitch, yaw);
  const S scale = r2.coin() ? (S)1 : (S)r2.logu(1e-3, 1e3);

  // results bound by (const) reference, snapshots taken at once
  const auto & R = rc::eulerAnglesToRotation3D<S>(a);
  const Mat3 R0 = R;
  const auto & q = rc::eulerAnglesToQuaternion<S>(a);
  const Qt q0 = q;
  const Qt qs(q0.w() * scale, q0.x() * scale, q0.y() * scale, q0.z() * scale);
  const auto & b = rc::rotation3DToEulerAngles<S>(R0);
  const V3 b0 = b;
  const auto & e = rc::quaternionToEulerAngles<S>(qs);
  const V3 e0 = e;
  const auto & n0 = rc::between0And2Pi<S>(roll);
  const S n00 = n0;
  const auto & n1 = rc::betweenMinusPiAndPi<S>(yaw);
  const S n10 = n1;
  const auto & P = rc::eulerAngleToRotation2D<S>(roll);
  const Mat2 P0 = P;
  const auto & pa = rc::rotation2DToEulerAngle<S>(P0);
  const S pa0 = pa;

  // value categories: temporaries and moved-from arguments
  {
    bool rv = same_bits(Mat3(rc::eulerAnglesToRotation3D<S>(V3(roll, pitch, yaw))), R0);
    V3 am = a;
    rv = rv && same_bits_q(Qt(rc::eulerAnglesToQuaternion<S>(std::move(am))), q0);
    rv = rv && same_bits(V3(rc::rotation3DToEulerAngles<S>(Mat3(R0))), b0);
    Qt qm = qs;
    rv = rv && same_bits(V3(rc::quaternionToEulerAngles<S>(std::move(qm))), e0);
    rv = rv && same_bits_s(S(rc::between0And2Pi<S>(S(roll))), n00) && same_bits_s(S(rc::betweenMinusPiAndPi<S>(S(yaw))), n10);
    rv = rv && same_bits(Mat2(rc::eulerAngleToRotation2D<S>(S(roll))), P0);
    rv = rv && same_bits_s(S(rc::rotation2DToEulerAngle<S>(Mat2(P0))), pa0);
    c.expect(ON("api.rvalue_equals_lvalue"), rv, "call_form_dependent", params, wit);
  }
  // results assigned over their own argument
  {
    V3 a2 = a;
    a2 = rc::rotation3DToEulerAngles<S>(rc::eulerAnglesToRotation3D<S>(a2));
    Mat3 Rm = R0;
    Rm = rc::eulerAnglesToRotation3D<S>(rc::rotation3DToEulerAngles<S>(Rm));
    const Mat3 Rexp = rc::eulerAnglesToRotation3D<S>(b0);
    Qt qq = q0;
    qq = rc::eulerAnglesToQuaternion<S>(rc::quaternionToEulerAngles<S>(qq));
    const V3 eq = rc::quaternionToEulerAngles<S>(q0);
    const Qt qexp = rc::eulerAnglesToQuaternion<S>(eq);
    c.expect(ON("api.result_over_argument"), same_bits(a2, b0) && same_bits(Rm, Rexp) && same_bits_q(qq, qexp),
      "aliasing_dependent", params, wit);
  }
  // neighbouring facilities in between: other inputs, the other scalar type, sibling stateful objects
  for (int k = 0; k < 2; ++k) {
    sibling_calls<float>(r2);
    sibling_calls<double>(r2);
    const double o0 = r2.uni(-6, 6), o1 = r2.uni(-1.5, 1.5), o2 = r2.uni(-6, 6);
    rc::SmartRotation3D sib(o0, o1, o2);
    g_sink = g_sink + sib.R()(0, 0);
  }
  // the results kept from the first time (checked before anything is called with the same input again), then the
  // same input a second time
  {
    bool st = same_bits(Mat3(R), R0) && same_bits_q(Qt(q), q0) && same_bits(V3(b), b0) && same_bits(V3(e), e0) &&
      same_bits_s(S(n0), n00) && same_bits_s(S(n1), n10) && same_bits(Mat2(P), P0) && same_bits_s(S(pa), pa0);
    c.expect(ON("api.result_stable"), st, "result_changed_later", params, wit);
    bool rep = same_bits(Mat3(rc::eulerAnglesToRotation3D<S>(a)), R0) && same_bits_q(Qt(rc::eulerAnglesToQuaternion<S>(a)), q0) &&
      same_bits(V3(rc::rotation3DToEulerAngles<S>(R0)), b0) && same_bits(V3(rc::quaternionToEulerAngles<S>(qs)), e0) &&
      same_bits_s(S(rc::between0And2Pi<S>(roll)), n00) && same_bits_s(S(rc::betweenMinusPiAndPi<S>(yaw)), n10) &&
      same_bits(Mat2(rc::eulerAngleToRotation2D<S>(roll)), P0) && same_bits_s(S(rc::rotation2DToEulerAngle<S>(P0)), pa0);
    c.expect(ON("api.same_input_same_result"), rep, "result_not_reproducible", params, wit);
  }
}

// ------------------------------------------------------------------------------------------------
// the stateful helper as an object: value semantics (copy / move / self-assignment, source overwritten or destroyed,
// copy used on), arguments aliasing the object's own state, operator*, R() view stability next to sibling objects
// ------------------------------------------------------------------------------------------------
static void smart_object_block(
  vh::Ctx & c, vh::Rng & r2, double roll, double pitch, double yaw, const std::function<std::string()> & wit)
{
  using rc::SmartRotation3D;
  c.cat(istr("smart_object_semantics"));
  const double tA[3] = {roll, pitch, yaw};
  const double tO[3] = {r2.uni(-6, 6), r2.uni(-1.5, 1.5), r2.uni(-6, 6)};
  const double tB[3] = {r2.uni(-6, 6), r2.uni(-1.5, 1.5), r2.uni(-6, 6)};
  int op = -1;
  const char * stage = "";
  const double * cur = tA;
  const std::function<vh::Params()> pn = [&]() {
      return vh::Params{{"scalar", 0.0}, {"roll", cur[0]}, {"pitch", cur[1]}, {"yaw", cur[2]}, {"operation", (double)op}};
    };
  const std::function<std::string()> wn = [&]() {
      return vh::J().s("stage", stage).f("operation", op).f("roll", (LD)cur[0]).f("pitch", (LD)cur[1]).f("yaw", (LD)cur[2])
             .raw("first_angles", wit()).str();
    };
  auto follows = [&](const SmartRotation3D & o, const double * t, const char * st, const char * oracle, const char * kind) {
      cur = t; stage = st;
      const M3 got = toM3(o.R());
      if (!c.expect("finite.d", finite3(got), "nonfinite", pn, wn)) {return false;}
      return c.expect_le(oracle, frob(got, oracle_R((LD)t[0], (LD)t[1], (LD)t[2])), K_BUILD * eps<double>(), kind, pn, wn);
    };
  auto flag = [&](const char * oracle, bool cond, const double * t, const char * st, const char * kind) {
      cur = t; stage = st;
      return c.expect(oracle, cond, kind, pn, wn);
    };

  // ---- value semantics
  {
    op = (int)r2.range(0, 4);   // 0 copy-construct, 1 copy-assign, 2 move-construct, 3 move-assign, 4 self-assign then copy
    std::unique_ptr<SmartRotation3D> src(new SmartRotation3D(tA[0], tA[1], tA[2]));
    const Eigen::Matrix3d snapA = src->R();
    std::unique_ptr<SmartRotation3D> cp;
    switch (op) {
      case 0: cp.reset(new SmartRotation3D(*src)); break;
      case 1: cp.reset(new SmartRotation3D(tO[0], tO[1], tO[2])); *cp = *src; break;
      case 2: {
          SmartRotation3D tmp(*src);
          cp.reset(new SmartRotation3D(std::move(tmp)));
          tmp.init(tO[0], tO[1], tO[2]);                       // the moved-from object is re-used
          break;
        }
      case 3: {
          cp.reset(new SmartRotation3D(tO[0], tO[1], tO[2]));
          SmartRotation3D tmp(*src);
          *cp = std::move(tmp);
          tmp.init(tB[0], tB[1], tB[2]);
          break;
        }
      default: {
          SmartRotation3D & alias = *src;
          *src = alias;
          cp.reset(new SmartRotation3D(*src));
        }
    }
    follows(*cp, tA, "copy right after the operation", "smart.value_semantics.d", "object_semantics");
    flag("smart.copy_identical.d", same_bits(cp->R(), snapA), tA, "copy right after the operation", "object_semantics");
    const bool destroy = r2.coin();
    Eigen::Matrix3d snapO = Eigen::Matrix3d::Zero();
    if (destroy) {src.reset();} else {
      src->init(tO[0], tO[1], tO[2]);
      follows(*src, tO, "source re-initialised after it was copied", "smart.value_semantics.d", "object_semantics");
      snapO = src->R();
    }
    follows(*cp, tA, "copy after its source was overwritten / destroyed", "smart.value_semantics.d", "object_semantics");
    flag("smart.copy_identical.d", same_bits(cp->R(), snapA), tA, "copy after its source was overwritten / destroyed",
      "object_semantics");
    cp->init(tB[0], tB[1], tB[2]);
    follows(*cp, tB, "copy re-initialised", "smart.value_semantics.d", "object_semantics");
    {
      // the whole state is compared, not only R(): the derivative members (whose values are C12's business) must be
      // those of a fresh object built from the same angles too
      SmartRotation3D fresh(tB[0], tB[1], tB[2]);
      const Eigen::Vector3d T(tO[0], tO[1], tO[2]);
      const bool all = same_bits(cp->R(), fresh.R()) && same_bits(cp->dRdAngleAroundXAxis(), fresh.dRdAngleAroundXAxis()) &&
        same_bits(cp->dRdAngleAroundYAxis(), fresh.dRdAngleAroundYAxis()) &&
        same_bits(cp->dRdAngleAroundZAxis(), fresh.dRdAngleAroundZAxis()) &&
        same_bits(Eigen::Matrix3d(cp->dRTdAngles(T)), Eigen::Matrix3d(fresh.dRTdAngles(T))) &&
        same_bits(Eigen::Vector3d(*cp * T), Eigen::Vector3d(fresh * T));
      flag("smart.copy_identical.d", all, tB, "re-initialised copy against a fresh object", "object_semantics");
      flag("smart.copy_identical.d", same_bits(cp->R(), fresh.R()), tB, "R() after the const observers were called",
        "object_semantics");
    }
    if (!destroy) {
      flag("smart.copy_identical.d", same_bits(src->R(), snapO), tO, "source after its copy was re-initialised", "object_semantics");
    }
  }

  // ---- arguments that alias the object's own state; expected value from the VALUES at call time
  {
    c.cat(istr("smart_argument_aliasing"));
    SmartRotation3D obj(tA[0], tA[1], tA[2]);
    op = 10 + (int)r2.range(0, 3);
    double ex[3];
    if (op == 10) {                                   // the same variable for all three reference parameters
      const double v = tA[r2.range(0, 2)];
      ex[0] = ex[1] = ex[2] = v;
      obj.init(v, v, v);
    } else if (op == 11) {                            // references to entries of its own R()
      const int i0 = (int)r2.range(0, 8), i1 = (int)r2.range(0, 8), i2 = (int)r2.range(0, 8);
      const double & e0 = obj.R()(i0 / 3, i0 % 3);
      const double & e1 = obj.R()(i1 / 3, i1 % 3);
      const double & e2 = obj.R()(i2 / 3, i2 % 3);
      ex[0] = e0; ex[1] = e1; ex[2] = e2;
      obj.init(e0, e1, e2);
    } else if (op == 12) {                            // its own R() straight into the extraction, the result straight into init
      const auto & ang = rc::rotation3DToEulerAngles<double>(obj.R());
      ex[0] = ang[0]; ex[1] = ang[1]; ex[2] = ang[2];
      obj.init(ang);
    } else {                                          // a column of its own R() (temporary made from the getter's reference)
      const int k = (int)r2.range(0, 2);
      ex[0] = obj.R()(0, k); ex[1] = obj.R()(1, k); ex[2] = obj.R()(2, k);
      obj.init(obj.R().col(k));
    }
    follows(obj, ex, "init() with arguments aliasing the object", "smart.argument_aliasing.d", "aliasing_dependent");

    // ---- operator*: lvalue, temporary, a column of its own R()
    {
      Eigen::Vector3d T;
      const int k = (int)r2.range(0, 2);
      if (r2.coin(0.3)) {T = Eigen::Vector3d::Unit(k);} else {
        const double m = r2.logu(1e-3, 1e3);
        const double t0 = r2.uni(-1, 1), t1 = r2.uni(-1, 1), t2 = r2.uni(-1, 1);
        T = m * Eigen::Vector3d(t0, t1, t2);
      }
      const bool own = r2.coin(0.25);
      if (own) {T = obj.R().col(k);}
      const Eigen::Vector3d g1 = obj * T;
      const Eigen::Vector3d g2 = own ? Eigen::Vector3d(obj * obj.R().col(k)) : Eigen::Vector3d(obj * Eigen::Vector3d(T));
      const M3 Re = oracle_R((LD)ex[0], (LD)ex[1], (LD)ex[2]);
      LD d2 = 0, n2 = 0;
      for (int i = 0; i < 3; ++i) {
        LD w = Re.m[i][0] * (LD)T[0] + Re.m[i][1] * (LD)T[1] + Re.m[i][2] * (LD)T[2];
        d2 += ((LD)g1[i] - w) * ((LD)g1[i] - w); n2 += (LD)T[i] * (LD)T[i];
      }
      cur = ex; stage = "operator*";
      c.expect_le("smart.times_vector.d", sqrtl(d2), 2 * K_BUILD * eps<double>() * sqrtl(n2), "builders_disagree", pn, wn);
      flag("smart.times_vector_call_forms.d", same_bits(g1, g2), ex, "operator* with a temporary", "call_form_dependent");
    }

    // ---- the view returned by R() next to sibling objects and unrelated calls
    {
      const Eigen::Matrix3d & view = obj.R();
      const Eigen::Matrix3d snap = view;
      {
        SmartRotation3D s1(tO[0], tO[1], tO[2]);
        SmartRotation3D s2(s1);
        s2.init(tB[0], tB[1], tB[2]);
        std::unique_ptr<SmartRotation3D> s3(new SmartRotation3D(Eigen::Vector3d(tB[0], tB[1], tB[2])));
        g_sink = g_sink + s1.R()(0, 0) + s2.R()(1, 1) + s3->R()(2, 2);
        s3.reset();
        sibling_calls<double>(r2);
        sibling_calls<float>(r2);
      }
      flag("smart.result_stable.d", same_bits(view, snap) && same_bits(obj.R(), snap), ex, "R() view after sibling activity",
        "result_changed_later");
    }
  }
}

// ------------------------------------------------------------------------------------------------
// long histories: one object re-initialised 2^8-4 or 2^16-4 times before it is first observed
// ------------------------------------------------------------------------------------------------
static void smart_long_history_case(vh::Ctx & c, uint64_t idx, bool big)
{
  vh::Rng r(c.seed, idx, 11);
  const char * cat = big ? "smart_long_history_2p16" : "smart_long_history_2p8";
  c.cat(istr("scalar_double"));
  c.cat(istr(cat));
  const int n = (big ? 65536 : 256);
  const int mode = (int)r.range(0, 2);          // 0 near-duplicate random walk, 1 cycle over three unrelated triples, 2 one triple
  double tri[3][3];
  for (int i = 0; i < 3; ++i) {tri[i][0] = r.uni(-6, 6); tri[i][1] = r.uni(-1.5, 1.5); tri[i][2] = r.uni(-6, 6);}
  double t[3] = {tri[0][0], tri[0][1], tri[0][2]};
  c.distinct(vh::hash_doubles({8.0, (double)n, (double)mode, t[0], t[1], t[2]}), true);
  int step = 0;
  const std::function<vh::Params()> pn = [&]() {
      return vh::Params{{"scalar", 0.0}, {"roll", t[0]}, {"pitch", t[1]}, {"yaw", t[2]}, {"reinit_step", (double)step},
        {"history_mode", (double)mode}};
    };
  const std::function<std::string()> wn = [&]() {
      return vh::J().s("cat", cat).f("inits", n).f("mode", mode).f("step", step).f("roll", (LD)t[0]).f("pitch", (LD)t[1])
             .f("yaw", (LD)t[2]).str();
    };
  c.sample(istr(cat), wn);
  rc::SmartRotation3D obj;
  auto observe = [&]() {
      const M3 got = toM3(obj.R());
      if (!c.expect("finite.d", finite3(got), "nonfinite", pn, wn)) {return;}
      c.expect_le("build.smart_long_history_vs_zyx.d", frob(got, oracle_R((LD)t[0], (LD)t[1], (LD)t[2])), K_BUILD * eps<double>(),
        "builders_disagree_after_reinit", pn, wn);
      check_proper3<double>(c, got, "SmartRotation3D::R", pn, wn);
    };
  // n - 3 unobserved initialisations, then every initialisation up to n + 3 is observed (a counter that wraps at 2^8 or
  // 2^16 is hit whatever its off-by-one), the last one being next to its predecessor or unrelated
  for (step = 1; step <= n + 3; ++step) {
    const bool last = step == n + 3;
    if (last && r.coin()) {
      t[0] = r.uni(-6, 6); t[1] = r.uni(-1.5, 1.5); t[2] = r.uni(-6, 6);
    } else if (mode == 0 || last) {
      int mask = (int)r.range(1, 7);
      for (int k = 0; k < 3; ++k) {if (mask & (1 << k)) {t[k] += r.sign() * r.logu(1e-15, 1e-2);}}
    } else if (mode == 1) {
      for (int k = 0; k < 3; ++k) {t[k] = tri[step % 3][k];}
    }
    if (step & 1) {obj.init(t[0], t[1], t[2]);} else {obj.init(Eigen::Vector3d(t[0], t[1], t[2]));}
    if (step >= n - 3) {observe();}
  }
}

// ------------------------------------------------------------------------------------------------
// coordinate maps: scalar overloads, the same object for every reference parameter, value semantics of the coordinate
// objects, getter references kept, temporaries
// ------------------------------------------------------------------------------------------------
template<class S> static void polar_extras(
  vh::Ctx & c, S x, S y, LD nrm, const std::function<vh::Params()> & params, const std::function<std::string()> & wit)
{
  typedef rc::PolarCoordinates<S> PC;
  vh::Rng r2(c.seed, c.cur, 9);
  if (r2.coin(0.35)) {
    c.cat(istr("polar_scalar_overloads"));
    const S rg = rc::PolarTransform::range(x, y), azg = rc::PolarTransform::azimut(x, y);
    const S xb = rc::PolarTransform::x(rg, azg), yb = rc::PolarTransform::y(rg, azg);
    const std::function<std::string()> w = [&]() {
        return vh::J().s("via", "PolarTransform scalar overloads").f("range", (LD)rg).f("azimut", (LD)azg).f("x_back", (LD)xb)
               .f("y_back", (LD)yb).raw("case", wit()).str();
      };
    if (c.expect(ON("finite"), std::isfinite(rg) && std::isfinite(azg) && std::isfinite(xb) && std::isfinite(yb), "nonfinite", params, w)) {
      c.expect_le(ON("polar.scalar_overloads_roundtrip"), hypotl((LD)xb - (LD)x, (LD)yb - (LD)y), K_COORD * eps<S>() * nrm,
        "polar_roundtrip", params, w);
    }
    // the same object for both reference parameters: the polar point (v, v)
    const S v = (S)r2.uni(0.01, 3.1);
    const S xv = rc::PolarTransform::x(v, v), yv = rc::PolarTransform::y(v, v);
    const S rv = rc::PolarTransform::range(xv, yv), av = rc::PolarTransform::azimut(xv, yv);
    const std::function<vh::Params()> p2 = [&]() {
        return vh::Params{{"scalar", Tr<S>::id()}, {"range", (double)v}, {"azimut", (double)v}, {"homogeneous", 0.0}};
      };
    const std::function<std::string()> w2 = [&]() {
        return vh::J().s("via", "PolarTransform::x(v, v), y(v, v)").f("v", (LD)v).f("range_back", (LD)rv).f("azimut_back", (LD)av).str();
      };
    c.expect_le(ON("polar.same_object_arguments"), std::max(fabsl((LD)rv - (LD)v) / (LD)v, cdiff(av, v)), K_COORD * eps<S>(),
      "aliasing_dependent", p2, w2);
  }
  if (r2.coin(0.25)) {
    c.cat(istr("coordinates_object_semantics"));
    const rc::CartesianCoordinates2<S> p(x, y);
    std::unique_ptr<PC> src(new PC(rc::toPolar(p)));
    const S & rref = src->getRange();
    const S & aref = src->getAzimut();
    const S r0 = rref, a0 = aref;
    const auto & c0 = rc::toCartesian(*src);
    const rc::CartesianCoordinates2<S> c00 = c0;
    PC cp(*src);
    PC as((S)1, (S)2);
    as = *src;
    PC mv{PC(*src)};
    PC & alias = *src;
    *src = alias;
    // temporaries against lvalues
    const PC pt = rc::toPolar(rc::CartesianCoordinates2<S>(x, y));
    bool rv = same_bits_s(pt.getRange(), r0) && same_bits_s(pt.getAzimut(), a0) &&
      same_bits(rc::CartesianCoordinates2<S>(rc::toCartesian(PC(r0, a0))), c00);
    c.expect(ON("coordinates.rvalue_equals_lvalue"), rv, "call_form_dependent", params, wit);
    // siblings, then the kept references and results
    sibling_calls<S>(r2);
    {
      PC other((S)r2.uni(0.5, 2), (S)r2.uni(-3, 3));
      g_sink = g_sink + (double)rc::toCartesian(other).x();
    }
    bool st = same_bits_s(rref, r0) && same_bits_s(aref, a0) && same_bits(rc::CartesianCoordinates2<S>(c0), c00);
    c.expect(ON("coordinates.result_stable"), st, "result_changed_later", params, wit);
    // source overwritten, then destroyed; the copies are used on
    *src = PC((S)r2.uni(0.5, 2), (S)r2.uni(-3, 3));
    bool ok = same_bits_s(cp.getRange(), r0) && same_bits_s(cp.getAzimut(), a0) && same_bits_s(as.getRange(), r0) &&
      same_bits_s(as.getAzimut(), a0) && same_bits_s(mv.getRange(), r0) && same_bits_s(mv.getAzimut(), a0);
    src.reset();
    ok = ok && same_bits(rc::CartesianCoordinates2<S>(rc::toCartesian(cp)), c00) &&
      same_bits(rc::CartesianCoordinates2<S>(rc::toCartesian(as)), c00) && same_bits(rc::CartesianCoordinates2<S>(rc::toCartesian(mv)), c00);
    c.expect(ON("coordinates.object_semantics"), ok, "object_semantics", params, wit);
  }
}

template<class S> static void spherical_extras(
  vh::Ctx & c, S x, S y, S z, LD nrm, LD sin_el, const std::function<vh::Params()> & params,
  const std::function<std::string()> & wit)
{
  typedef rc::SphericalCoordinates<S> SC;
  typedef rc::CartesianCoordinates3<S> C3;
  vh::Rng r2(c.seed, c.cur, 9);
  if (r2.coin(0.35)) {
    c.cat(istr("spherical_scalar_overloads"));
    const bool two_step = r2.coin();
    const S rg = rc::SphericalTransform::range(x, y, z), azg = rc::SphericalTransform::azimut(x, y);
    const S elg = two_step ? rc::SphericalTransform::elevation(z, rg) : rc::SphericalTransform::elevation(x, y, z);
    const S xb = rc::SphericalTransform::x(rg, azg, elg), yb = rc::SphericalTransform::y(rg, azg, elg);
    const S zb = rc::SphericalTransform::z(rg, elg);
    const std::function<std::string()> w = [&]() {
        return vh::J().s("via", "SphericalTransform scalar overloads").boolean("elevation_from_z_and_range", two_step)
               .f("range", (LD)rg).f("azimut", (LD)azg).f("elevation", (LD)elg).f("x_back", (LD)xb).f("y_back", (LD)yb)
               .f("z_back", (LD)zb).raw("case", wit()).str();
      };
    bool fin = std::isfinite(rg) && std::isfinite(azg) && std::isfinite(elg) && std::isfinite(xb) && std::isfinite(yb) && std::isfinite(zb);
    if (c.expect(ON("finite"), fin, "nonfinite", params, w)) {
      LD d = sqrtl(powl((LD)xb - x, 2) + powl((LD)yb - y, 2) + powl((LD)zb - z, 2));
      c.expect_le(ON("spherical.scalar_overloads_roundtrip"), d, nrm * (K_COORD * eps<S>() + acos_term<S>(sin_el)),
        "spherical_roundtrip", params, w);
    }
    // the same object for every reference parameter: the spherical point (v, v, v)
    const S v = (S)r2.uni(0.01, 3.1);
    const S xv = rc::SphericalTransform::x(v, v, v), yv = rc::SphericalTransform::y(v, v, v), zv = rc::SphericalTransform::z(v, v);
    const S rv = rc::SphericalTransform::range(xv, yv, zv), av = rc::SphericalTransform::azimut(xv, yv);
    const S ev = rc::SphericalTransform::elevation(xv, yv, zv);
    const LD se = fabsl(sinl((LD)v));
    const std::function<vh::Params()> p2 = [&]() {
        return vh::Params{{"scalar", Tr<S>::id()}, {"range", (double)v}, {"azimut", (double)v}, {"elevation", (double)v},
          {"sin_elevation", (double)se}, {"homogeneous", 0.0}};
      };
    const std::function<std::string()> w2 = [&]() {
        return vh::J().s("via", "SphericalTransform::x(v, v, v), y(v, v, v), z(v, v)").f("v", (LD)v).f("range_back", (LD)rv)
               .f("azimut_back", (LD)av).f("elevation_back", (LD)ev).str();
      };
    LD e = std::max(fabsl((LD)rv - (LD)v) / (LD)v, cdiff(av, v));
    c.expect_le(ON("spherical.same_object_arguments"), e, K_COORD * eps<S>(), "aliasing_dependent", p2, w2);
    c.expect_le(ON("spherical.same_object_arguments_elevation"), fabsl((LD)ev - (LD)v), K_COORD * eps<S>() + 2 * acos_term<S>(se),
      "aliasing_dependent", p2, w2);
  }
  if (r2.coin(0.25)) {
    c.cat(istr("coordinates_object_semantics"));
    const C3 p(x, y, z);
    std::unique_ptr<SC> src(new SC(lib_to_spherical<S>(p)));
    const S & rref = src->getRange();
    const S & aref = src->getAzimut();
    const S & eref = src->getElevation();
    const S r0 = rref, a0 = aref, e0 = eref;
    const auto & c0 = rc::toCartesian(*src);
    const C3 c00 = c0;
    SC cp(*src);
    SC as((S)1, (S)2, (S)1);
    as = *src;
    SC mv{SC(*src)};
    SC & alias = *src;
    *src = alias;
    const SC pt = lib_to_spherical<S>(C3(x, y, z));
    bool rv = same_bits_s(pt.getRange(), r0) && same_bits_s(pt.getAzimut(), a0) && same_bits_s(pt.getElevation(), e0) &&
      same_bits(C3(rc::toCartesian(SC(r0, a0, e0))), c00);
    c.expect(ON("coordinates.rvalue_equals_lvalue"), rv, "call_form_dependent", params, wit);
    sibling_calls<S>(r2);
    {
      SC other((S)r2.uni(0.5, 2), (S)r2.uni(-3, 3), (S)r2.uni(0, 3));
      g_sink = g_sink + (double)rc::toCartesian(other).x();
    }
    bool st = same_bits_s(rref, r0) && same_bits_s(aref, a0) && same_bits_s(eref, e0) && same_bits(C3(c0), c00);
    c.expect(ON("coordinates.result_stable"), st, "result_changed_later", params, wit);
    *src = SC((S)r2.uni(0.5, 2), (S)r2.uni(-3, 3), (S)r2.uni(0, 3));
    bool ok = same_bits_s(cp.getRange(), r0) && same_bits_s(cp.getAzimut(), a0) && same_bits_s(cp.getElevation(), e0) &&
      same_bits_s(as.getElevation(), e0) && same_bits_s(as.getRange(), r0) && same_bits_s(mv.getAzimut(), a0) &&
      same_bits_s(mv.getElevation(), e0);
    src.reset();
    ok = ok && same_bits(C3(rc::toCartesian(cp)), c00) && same_bits(C3(rc::toCartesian(as)), c00) &&
      same_bits(C3(rc::toCartesian(mv)), c00);
    c.expect(ON("coordinates.object_semantics"), ok, "object_semantics", params, wit);
  }
}

// ------------------------------------------------------------------------------------------------
// exact special values that random reals never produce
// ------------------------------------------------------------------------------------------------
static LD snap_q(LD v)
{
  static const LD grid[] = {0.0L, 0.5L, 1.0L};
  for (LD g : grid) {if (fabsl(fabsl(v) - g) < 1e-15L) {return v < 0 ? -g : g;}}
  return v;
}

template<class S> static void special_values_case(vh::Ctx & c, vh::Rng & r)
{
  Preset ps{};
  const int k = (int)r.range(0, 8);
  static const int ci[4] = {1, 0, -1, 0}, si[4] = {0, 1, 0, -1};
  auto quarter_turn = [&]() {
      const int a = (int)r.range(0, 3), b2 = 2 * (int)r.range(0, 1), cc = (int)r.range(0, 3);
      M3 Rx = {{{1, 0, 0}, {0, (LD)ci[cc], (LD)-si[cc]}, {0, (LD)si[cc], (LD)ci[cc]}}};
      M3 Ry = {{{(LD)ci[b2], 0, (LD)si[b2]}, {0, 1, 0}, {(LD)-si[b2], 0, (LD)ci[b2]}}};
      M3 Rz = {{{(LD)ci[a], (LD)-si[a], 0}, {(LD)si[a], (LD)ci[a], 0}, {0, 0, 1}}};
      ps.R = mul(Rz, mul(Ry, Rx));
      for (int i = 0; i < 3; ++i) {for (int j = 0; j < 3; ++j) {if (ps.R.m[i][j] == 0 && r.coin(0.2)) {ps.R.m[i][j] = -0.0L;}}}
      Q4 q = oracle_q(cc * PI_L / 2, b2 * PI_L / 2, a * PI_L / 2);
      ps.q = Q4{snap_q(q.w), snap_q(q.x), snap_q(q.y), snap_q(q.z)};
    };
  auto pow2 = [&]() {return ldexpl(1.0L, (int)r.range(-16, 16));};
  switch (k) {
    case 0: {                                                    // the same value for all three angles
        int m = (int)r.range(0, 4);
        LD v = m == 0 ? (LD)r.uni(-(double)PITCH_LIM_L, (double)PITCH_LIM_L) : m == 1 ? 1.0L : m == 2 ? -1.0L : m == 3 ? 0.5L : 1.5L;
        ps.cat = "euler_equal_components"; ps.v[0] = ps.v[1] = ps.v[2] = v;
        euler_case<S>(c, r, &ps); break;
      }
    case 1: {                                                    // integers
        ps.cat = "euler_integer";
        ps.v[0] = (LD)r.range(-6, 6); ps.v[1] = (LD)r.range(-1, 1); ps.v[2] = (LD)r.range(-6, 6);
        euler_case<S>(c, r, &ps); break;
      }
    case 2: quarter_turn(); ps.cat = "rotmat_exact_quarter_turns"; rotation_case<S>(c, r, false, &ps); break;
    case 3: quarter_turn(); ps.cat = "quaternion_exact_quarter_turns"; rotation_case<S>(c, r, true, &ps); break;
    case 4: ps.cat = "normaliser_integer"; ps.v[0] = (LD)r.range(-12, 12); normaliser_case<S>(c, r, &ps); break;
    case 5: {
        ps.cat = "rot2d_special_values"; ps.v[0] = (LD)r.range(-6, 6);
        const int a = (int)r.range(0, 3);
        ps.R = M3{{{(LD)ci[a], (LD)-si[a], 0}, {(LD)si[a], (LD)ci[a], 0}, {0, 0, 1}}};
        rot2d_case<S>(c, r, &ps); break;
      }
    case 6: {                                                    // equal components, integers, exact ties
        ps.cat = "polar_special_values";
        int m = (int)r.range(0, 3);
        LD s = pow2();
        if (m == 0) {ps.v[0] = s; ps.v[1] = s;} else if (m == 1) {ps.v[0] = s; ps.v[1] = -s;} else if (m == 2) {
          ps.v[0] = -3 * s; ps.v[1] = 4 * s;
        } else {
          LD a = (LD)r.range(-9, 9), b = (LD)r.range(-9, 9);
          if (a == 0 && b == 0) {a = 1;}
          ps.v[0] = a * s; ps.v[1] = b * s;
        }
        polar_case<S>(c, r, &ps); break;
      }
    default: {
        ps.cat = "spherical_special_values";
        int m = (int)r.range(0, 5);
        LD s = pow2();
        LD a, b, d;
        if (m == 0) {a = b = d = 1;} else if (m == 1) {a = 1; b = -1; d = 1;} else if (m == 2) {a = 1; b = 1; d = 0;} else if (m == 3) {
          a = 1; b = 2; d = -2;
        } else if (m == 4) {a = 2; b = 3; d = 6;} else {
          a = (LD)r.range(-9, 9); b = (LD)r.range(-9, 9); d = (LD)r.range(-9, 9);
          if (a == 0 && b == 0 && d == 0) {d = 1;}
        }
        if (r.coin()) {std::swap(a, d);}
        ps.v[0] = a * s; ps.v[1] = b * s; ps.v[2] = d * s;
        spherical_case<S>(c, r, &ps); break;
      }
  }
}

// ------------------------------------------------------------------------------------------------
template<class S> static void dispatch(vh::Ctx & c, vh::Rng & r, int fam)
{
  c.cat(istr(std::is_same<S, float>::value ? "scalar_float" : "scalar_double"));
  if (fam < 26) {euler_case<S>(c, r);} else if (fam < 40) {rotation_case<S>(c, r, false);} else if (fam < 52) {
    rotation_case<S>(c, r, true);
  } else if (fam < 70) {normaliser_case<S>(c, r);} else if (fam < 77) {rot2d_case<S>(c, r);} else if (fam < 86) {
    polar_case<S>(c, r);
  } else {spherical_case<S>(c, r);}
}

static void one_case(vh::Ctx & c, uint64_t idx)
{
  // cases the framework runs with the caller's rounding direction set to a directed mode: only the
  // families whose statement is about ranges and congruences (normalisers, planar rotation, polar
  // coordinates).  The unchanged Euler / quaternion / spherical code takes asin of a ratio that is
  // at most 1 only under round-to-nearest (sqrt(x^2+y^2+z^2) >= |z| needs correct rounding), so under
  // a directed mode it can legitimately return NaN for a pitch or elevation at the limit: outside
  // the statement, stated in `assumptions`.
  if (c.caller_rounding != FE_TONEAREST) {
    vh::Rng r(c.seed, idx);
    int fam = 52 + (int)r.range(0, 33);
    c.cat(istr("directed_rounding_restricted_to_normalisers_rot2d_polar"));
    if (r.coin(0.45)) {dispatch<float>(c, r, fam);} else {dispatch<double>(c, r, fam);}
    return;
  }
  // long histories are rare and expensive: a fixed share of the case indices
  if (idx % 250000 == 4321) {smart_long_history_case(c, idx, true); return;}
  if (idx % 2000 == 321) {smart_long_history_case(c, idx, false); return;}
  {
    vh::Rng rs(c.seed, idx, 5);
    if (rs.coin(0.05)) {
      if (rs.coin(0.45)) {c.cat(istr("scalar_float")); special_values_case<float>(c, rs);} else {
        c.cat(istr("scalar_double")); special_values_case<double>(c, rs);
      }
      return;
    }
  }
  vh::Rng r(c.seed, idx);
  int fam = (int)r.range(0, 99);
  if (r.coin(0.45)) {dispatch<float>(c, r, fam);} else {dispatch<double>(c, r, fam);}
}

int main(int argc, char ** argv)
{
  return vh::run(argc, argv, "C10", {2000000, 60000000}, one_case);
}
