// C10  Angle / rotation / coordinate parametrisations are mutually consistent.
//
// Oracle: the *definition* in long double.
//   * R(roll, pitch, yaw) = Rz(yaw) * Ry(pitch) * Rx(roll), multiplied out from the three elementary
//     matrices; q = qz * qy * qx by Hamilton products of the three elementary half-angle quaternions;
//     R(q) by the textbook formula after normalisation.  None of this uses Eigen or the library.
//   * congruence modulo 2*pi via remainderl against the long-double constant.
//   * round trips compare the library's output with its *input* (no second implementation of the
//     inverse), with the conditioning computed from the input in long double:
//       Euler extraction      1 / cos(pitch)            (atan2 / asin of matrix entries)
//       spherical elevation   min(D / sin(el), sqrt(D)) (acos; D = relative rounding of z / range)
//
// The property text is about round trips, agreement of the three rotation builders with Z-Y-X,
// properness of produced matrices, normaliser congruence/interval and inverse pairs; the azimuth /
// elevation *conventions* of the polar and spherical maps and the sign convention of the 2x2 pair are
// not part of it and are not demanded here.
#include <Eigen/Core>
#include <Eigen/Geometry>
#include "romea_core_common/math/EulerAngles.hpp"
#include "romea_core_common/transform/SmartRotation3D.hpp"
#include "romea_core_common/coordinates/PolarCoordinates.hpp"
#include "romea_core_common/coordinates/SphericalCoordinates.hpp"
#include "vh.hpp"

// toSpherical<float> is ill-formed on the pinned tree (`double range` is passed together with a float
// z to a template that deduces one Scalar for both; pending_fixes/C10_spherical_float.diff).  With 1
// the monitor calls the real toSpherical<float>() and therefore needs that repair; with 0 the float
// spherical map is driven through the public component functions SphericalTransform::range/azimut/
// elevation instead (the same arithmetic, compiles on the unrepaired tree).
#ifndef C10_FLOAT_TOSPHERICAL
#define C10_FLOAT_TOSPHERICAL 1
#endif

namespace rc = romea::core;
typedef long double LD;

static const LD PI_L = 3.14159265358979323846264338327950288L;
static const LD TWO_PI_L = 2 * PI_L;
static const LD PITCH_LIM_L = PI_L / 2 - 1e-3L;
static const LD R20_LIM_L = 1 - 1e-6L;

// ---- tolerance constants (units of eps(Scalar)); see DESIGN 2.6 and the calibration in checks/C10.py
// A matrix made from a quaternion whose squared norm is 1 + e is R + e (R - I) (Eigen's toRotationMatrix assumes a unit
// quaternion), so its distance to R is <= 2 sqrt(2) |e| and ||M M^T - I||_F = |e| ||2I - R - R^T||_F <= 4 sqrt(2) |e|;
// |e| <= 16 eps for a product of three rounded half-angle quaternions (observed: 2.8 eps).
static const LD K_BUILD = 16;     // quaternion coefficients, SmartRotation3D::R entries (Frobenius)
static const LD K_BUILD_Q = 48;   // matrix obtained through the quaternion: 2 sqrt(2) * 16, rounded up
static const LD K_PROPER = 96;    // ||M M^T - I||_F and |det - 1|: 4 sqrt(2) * 16, rounded up
static const LD K_EULER = 48;     // extracted angle, times 1/cos(pitch)
static const LD K_ROT = 64;       // R -> angles -> R, Frobenius, times 1/cos(pitch)
static const LD K_NORM = 32;      // normaliser congruence (2 additions of the double 2*pi + 1 rounding)
static const LD K_2D = 32;
static const LD K_COORD = 16;     // well conditioned part of the coordinate round trips
static const LD K_ACOS = 32;      // D = K_ACOS * eps in the acos conditioning term

// ------------------------------------------------------------------------------------------------
// long double reference
// ------------------------------------------------------------------------------------------------
struct M3 {LD m[3][3];};
struct Q4 {LD w, x, y, z;};

static M3 mul(const M3 & a, const M3 & b)
{
  M3 c;
  for (int i = 0; i < 3; ++i) {
    for (int j = 0; j < 3; ++j) {
      c.m[i][j] = a.m[i][0] * b.m[0][j] + a.m[i][1] * b.m[1][j] + a.m[i][2] * b.m[2][j];
    }
  }
  return c;
}

static M3 oracle_R(LD roll, LD pitch, LD yaw)
{
  LD cr = cosl(roll), sr = sinl(roll), cp = cosl(pitch), sp = sinl(pitch), cy = cosl(yaw), sy = sinl(yaw);
  M3 Rx = {{{1, 0, 0}, {0, cr, -sr}, {0, sr, cr}}};
  M3 Ry = {{{cp, 0, sp}, {0, 1, 0}, {-sp, 0, cp}}};
  M3 Rz = {{{cy, -sy, 0}, {sy, cy, 0}, {0, 0, 1}}};
  return mul(Rz, mul(Ry, Rx));
}

static Q4 qmul(const Q4 & a, const Q4 & b)
{
  return Q4{a.w * b.w - a.x * b.x - a.y * b.y - a.z * b.z,
    a.w * b.x + a.x * b.w + a.y * b.z - a.z * b.y,
    a.w * b.y - a.x * b.z + a.y * b.w + a.z * b.x,
    a.w * b.z + a.x * b.y - a.y * b.x + a.z * b.w};
}

static Q4 oracle_q(LD roll, LD pitch, LD yaw)
{
  Q4 qx{cosl(roll / 2), sinl(roll / 2), 0, 0};
  Q4 qy{cosl(pitch / 2), 0, sinl(pitch / 2), 0};
  Q4 qz{cosl(yaw / 2), 0, 0, sinl(yaw / 2)};
  return qmul(qz, qmul(qy, qx));
}

static Q4 qnormalized(Q4 q)
{
  LD n = sqrtl(q.w * q.w + q.x * q.x + q.y * q.y + q.z * q.z);
  return Q4{q.w / n, q.x / n, q.y / n, q.z / n};
}

static M3 R_of_q(Q4 q)
{
  q = qnormalized(q);
  LD w = q.w, x = q.x, y = q.y, z = q.z;
  M3 R = {{{1 - 2 * (y * y + z * z), 2 * (x * y - w * z), 2 * (x * z + w * y)},
    {2 * (x * y + w * z), 1 - 2 * (x * x + z * z), 2 * (y * z - w * x)},
    {2 * (x * z - w * y), 2 * (y * z + w * x), 1 - 2 * (x * x + y * y)}}};
  return R;
}

template<class Mat> static M3 toM3(const Mat & R)
{
  M3 o;
  for (int i = 0; i < 3; ++i) {for (int j = 0; j < 3; ++j) {o.m[i][j] = (LD)R(i, j);}}
  return o;
}

static LD frob(const M3 & a, const M3 & b)
{
  LD s = 0;
  for (int i = 0; i < 3; ++i) {for (int j = 0; j < 3; ++j) {LD d = a.m[i][j] - b.m[i][j]; s += d * d;}}
  return sqrtl(s);
}

static LD orth_defect(const M3 & R)
{
  LD s = 0;
  for (int i = 0; i < 3; ++i) {
    for (int j = 0; j < 3; ++j) {
      LD d = R.m[i][0] * R.m[j][0] + R.m[i][1] * R.m[j][1] + R.m[i][2] * R.m[j][2] - (i == j ? 1 : 0);
      s += d * d;
    }
  }
  return sqrtl(s);
}

static LD det3(const M3 & R)
{
  return R.m[0][0] * (R.m[1][1] * R.m[2][2] - R.m[1][2] * R.m[2][1]) -
         R.m[0][1] * (R.m[1][0] * R.m[2][2] - R.m[1][2] * R.m[2][0]) +
         R.m[0][2] * (R.m[1][0] * R.m[2][1] - R.m[1][1] * R.m[2][0]);
}

static bool finite3(const M3 & R)
{
  for (int i = 0; i < 3; ++i) {for (int j = 0; j < 3; ++j) {if (!std::isfinite((double)R.m[i][j])) {return false;}}}
  return true;
}

static LD cdiff(LD a, LD b) {return fabsl(remainderl(a - b, TWO_PI_L));}

static std::string jm3(const M3 & R)
{
  std::string o = "[";
  for (int i = 0; i < 3; ++i) {
    o += i ? ",[" : "[";
    for (int j = 0; j < 3; ++j) {if (j) {o += ",";} o += vh::jnum(R.m[i][j]);}
    o += "]";
  }
  return o + "]";
}

// ------------------------------------------------------------------------------------------------
// per-Scalar helpers
// ------------------------------------------------------------------------------------------------
template<class S> struct Tr;
template<> struct Tr<double> {static const char * sfx() {return ".d";} static double id() {return 0;}};
template<> struct Tr<float> {static const char * sfx() {return ".f";} static double id() {return 1;}};

template<class S> static LD eps() {return (LD)std::numeric_limits<S>::epsilon();}
template<class S> static S toward0(S v) {return std::nextafter(v, (S)0);}
template<class S> static S step_ulps(S v, int k)
{
  S dir = k > 0 ? (S)100 : (S)-100;
  for (int i = 0; i < std::abs(k); ++i) {v = std::nextafter(v, dir);}
  return v;
}
template<class S> static LD ulp_at(LD x)       // spacing of S at magnitude x (x > 0, normal range)
{
  int e; frexpl(x, &e);
  return ldexpl(1.0L, e - std::numeric_limits<S>::digits);
}

// std::string for a string literal without a heap allocation per use (keyed by the literal's address)
static const std::string & istr(const char * lit)
{
  static std::map<const void *, std::string> m;
  auto it = m.find(lit);
  if (it == m.end()) {it = m.emplace(lit, lit).first;}
  return it->second;
}

// name of an oracle for this Scalar ("<base>.d" / "<base>.f"), built once per call site (S must be in scope)
#define ON(base) ([]() -> const char * {static const std::string n = std::string(base) + Tr<S>::sfx(); return n.c_str();}())

// an angle strictly inside (-lim, lim) as a real number
template<class S> static S inside_open(S v, LD lim)
{
  if (fabsl((LD)v) > lim) {v = std::copysign((S)lim, v);}
  while (fabsl((LD)v) >= lim) {v = toward0(v);}
  return v;
}
template<class S> static S inside_closed(S v, LD lim)
{
  if (fabsl((LD)v) > lim) {v = std::copysign((S)lim, v);}
  while (fabsl((LD)v) > lim) {v = toward0(v);}
  return v;
}

// roll / yaw in (-2pi, 2pi)
template<class S> static S pick_turn_angle(vh::Rng & r, int mode)
{
  S v;
  switch (mode) {
    case 0: v = (S)r.uni(-2 * M_PI, 2 * M_PI); break;
    case 1: {                                                   // multiples of pi/2 +- a few ulps
        v = (S)((double)r.range(-4, 4) * M_PI / 2);
        v = step_ulps(v, (int)r.range(-3, 3));
        break;
      }
    case 2: {                                                   // multiples of pi/2 +- log-spaced offset
        v = (S)((double)r.range(-4, 4) * M_PI / 2 + r.sign() * r.logu(1e-15, 1e-3));
        break;
      }
    case 3: v = (S)(r.sign() * r.logu(1e-300, 1e-3)); break;    // tiny, incl. flush to 0 / denormal for float
    default: v = (S)(r.coin() ? 0.0 : -0.0); break;
  }
  return inside_open(v, TWO_PI_L);
}

template<class S> static S pick_pitch(vh::Rng & r, int mode)
{
  const double L = (double)PITCH_LIM_L;
  S v;
  switch (mode) {
    case 0: v = (S)r.uni(-L, L); break;
    case 1: v = (S)(r.sign() * (L - r.logu(1e-12, 1e-2))); break;      // dense band at the limit
    case 2: v = (S)(r.sign() * L); break;
    case 3: v = (S)(r.sign() * r.logu(1e-300, 1e-3)); break;
    default: v = (S)(r.coin() ? 0.0 : -0.0); break;
  }
  return inside_closed(v, PITCH_LIM_L);
}

// scale applied to a quaternion's coefficients: exactly unit, "almost unit" (1 + delta, |delta| log-uniform 1e-8..1e-2,
// either sign: non-unit by a few ulps up to a percent, where a shortcut for "already normalised" input would sit),
// grossly non-unit (norm 1e-3..1e3), or of extreme norm: log-spaced up to what the library's own algorithm can
// represent -- normalized() only ever forms |q|^2, which stays finite and normal for norms 1e-18..1e18 in float and
// 1e-150..1e150 in double (the statement puts no bound on the norm of a non-unit quaternion).  `steep` raises the
// share of the almost-unit class (steep pitch is where a missing normalisation is amplified by tan(pitch)).
// Returns the class: 0 unit, 1 almost unit, 2 non-unit, 3 extreme norm.
template<class S> static int pick_quaternion_scale(vh::Rng & r, bool steep, S & scale)
{
  int k = (int)r.range(0, 99);
  int p_almost = steep ? 50 : 30;
  if (k < p_almost) {
    scale = (S)(1.0 + r.sign() * r.logu(1e-8, 1e-2));
    return scale == (S)1 ? 0 : 1;
  }
  if (k < p_almost + 15) {scale = (S)1; return 0;}
  if (k < p_almost + 33) {
    const double lim = std::is_same<S, float>::value ? 1e18 : 1e150;
    const bool small = r.coin();
    const bool at_end = r.coin(0.1);                       // the end of the range itself
    const double v = at_end ? lim : r.logu(1e3, lim);
    scale = (S)(small ? 1.0 / v : v);
    return 3;
  }
  scale = (S)r.logu(1e-3, 1e3);
  return 2;
}

struct CaseInfo
{
  const char * cat = "";
  std::vector<std::pair<std::string, double>> p;     // numeric params (for known-finding matching)
};

// ------------------------------------------------------------------------------------------------
// proper rotation monitor for any produced 3x3
// ------------------------------------------------------------------------------------------------
template<class S> static void check_proper3(
  vh::Ctx & c, const M3 & R, const char * who, const std::function<vh::Params()> & params,
  const std::function<std::string()> & wit)
{
  const std::function<std::string()> w = [&]() {return vh::J().s("matrix", who).raw("R", jm3(R)).raw("case", wit()).str();};
  c.expect_le(ON("proper.orthonormal"), orth_defect(R), K_PROPER * eps<S>(), "not_proper_rotation", params, w);
  c.expect_le(ON("proper.det"), fabsl(det3(R) - 1), K_PROPER * eps<S>(), "not_proper_rotation", params, w);
}

// ------------------------------------------------------------------------------------------------
// family: Euler angles given
// ------------------------------------------------------------------------------------------------
template<class S> static void euler_case(vh::Ctx & c, vh::Rng & r)
{
  typedef Eigen::Matrix<S, 3, 1> V3;
  typedef Eigen::Matrix<S, 3, 3> Mat3;
  int sub = (int)r.range(0, 99);
  const char * cat;
  S roll, pitch, yaw;
  bool axis_only = false;
  if (sub < 40) {
    cat = "euler_generic";
    roll = pick_turn_angle<S>(r, 0); pitch = pick_pitch<S>(r, 0); yaw = pick_turn_angle<S>(r, 0);
  } else if (sub < 62) {
    cat = "euler_pitch_limit";
    roll = pick_turn_angle<S>(r, r.coin(0.7) ? 0 : (int)r.range(1, 4));
    pitch = pick_pitch<S>(r, (int)r.range(1, 2));
    yaw = pick_turn_angle<S>(r, r.coin(0.7) ? 0 : (int)r.range(1, 4));
  } else if (sub < 88) {
    cat = "euler_wrap";
    roll = pick_turn_angle<S>(r, (int)r.range(0, 4));
    yaw = pick_turn_angle<S>(r, (int)r.range(1, 4));
    if (r.coin()) {std::swap(roll, yaw);}
    pitch = pick_pitch<S>(r, (int)r.range(0, 4));
  } else {
    cat = "euler_axis_only"; axis_only = true;
    roll = pitch = yaw = 0;
    int k = (int)r.range(0, 2);
    if (k == 0) {roll = pick_turn_angle<S>(r, (int)r.range(0, 2));} else if (k == 1) {
      pitch = pick_pitch<S>(r, (int)r.range(0, 2));
    } else {yaw = pick_turn_angle<S>(r, (int)r.range(0, 2));}
  }
  int nz = (roll != 0) + (pitch != 0) + (yaw != 0);
  c.cat(istr(cat));
  c.distinct(vh::hash_doubles({1.0, Tr<S>::id(), (double)roll, (double)pitch, (double)yaw}), !axis_only && nz >= 2);

  LD lr = roll, lp = pitch, ly = yaw;
  LD cp = cosl(lp);
  const std::function<vh::Params()> params = [&]() {
      return vh::Params{{"scalar", Tr<S>::id()}, {"roll", (double)roll}, {"pitch", (double)pitch},
        {"yaw", (double)yaw}, {"cos_pitch", (double)cp}};
    };
  const std::function<std::string()> wit = [&]() {
      return vh::J().s("cat", cat).s("scalar", Tr<S>::sfx() + 1).f("roll", (LD)roll).f("pitch", (LD)pitch)
             .f("yaw", (LD)yaw).str();
    };
  c.sample(istr(cat), wit);

  const M3 Ro = oracle_R(lr, lp, ly);
  const V3 a(roll, pitch, yaw);

  // ---- angles -> rotation matrix
  const Mat3 R = rc::eulerAnglesToRotation3D<S>(a);
  const M3 Rl = toM3(R);
  if (!c.expect(ON("finite"), finite3(Rl), "nonfinite", params, wit)) {return;}
  c.expect_le(ON("build.euler_matrix_vs_zyx"), frob(Rl, Ro), K_BUILD_Q * eps<S>(), "builders_disagree", params, [&]() {
      return vh::J().s("builder", "eulerAnglesToRotation3D").raw("got", jm3(Rl)).raw("zyx", jm3(Ro)).raw("case", wit()).str();
    });
  check_proper3<S>(c, Rl, "eulerAnglesToRotation3D", params, wit);

  // ---- angles -> rotation -> angles
  {
    const V3 b = rc::rotation3DToEulerAngles<S>(R);
    bool fin = std::isfinite(b[0]) && std::isfinite(b[1]) && std::isfinite(b[2]);
    if (c.expect(ON("finite"), fin, "nonfinite", params, wit)) {
      LD d = std::max(cdiff(b[0], lr), std::max(cdiff(b[1], lp), cdiff(b[2], ly)));
      c.expect_le(ON("euler.angles_matrix_angles"), d, K_EULER * eps<S>() / cp, "euler_roundtrip", params, [&]() {
          return vh::J().s("via", "matrix").f("roll_back", (LD)b[0]).f("pitch_back", (LD)b[1]).f("yaw_back", (LD)b[2])
                 .raw("case", wit()).str();
        });
    }
  }

  // ---- angles -> quaternion (agreement with Z-Y-X, unit norm)
  const Eigen::Quaternion<S> q = rc::eulerAnglesToQuaternion<S>(a);
  {
    Q4 ql{(LD)q.w(), (LD)q.x(), (LD)q.y(), (LD)q.z()};
    Q4 qo = oracle_q(lr, lp, ly);
    LD dm = sqrtl(powl(ql.w - qo.w, 2) + powl(ql.x - qo.x, 2) + powl(ql.y - qo.y, 2) + powl(ql.z - qo.z, 2));
    LD dp = sqrtl(powl(ql.w + qo.w, 2) + powl(ql.x + qo.x, 2) + powl(ql.y + qo.y, 2) + powl(ql.z + qo.z, 2));
    c.expect_le(ON("build.quaternion_vs_zyx"), std::min(dm, dp), K_BUILD * eps<S>(), "builders_disagree", params, [&]() {
        return vh::J().s("builder", "eulerAnglesToQuaternion").f("w", ql.w).f("x", ql.x).f("y", ql.y).f("z", ql.z)
               .f("ow", qo.w).f("ox", qo.x).f("oy", qo.y).f("oz", qo.z).raw("case", wit()).str();
      });
  }

  // ---- angles -> quaternion (scaled: unit or non-unit) -> angles
  {
    S scale;
    const bool steep = fabsl(lp) >= PITCH_LIM_L - 1e-2L;
    const int sclass = pick_quaternion_scale<S>(r, steep, scale);
    if (sclass == 1) {
      c.cat(istr("quaternion_scale_almost_unit"));
      if (steep) {c.cat(istr("quaternion_scale_almost_unit_steep_pitch"));}
    }
    if (sclass == 3) {c.cat(istr(scale < (S)1 ? "quaternion_scale_extreme_small" : "quaternion_scale_extreme_large"));}
    Eigen::Quaternion<S> qs(q.w() * scale, q.x() * scale, q.y() * scale, q.z() * scale);
    const V3 e = rc::quaternionToEulerAngles<S>(qs);
    bool fin = std::isfinite(e[0]) && std::isfinite(e[1]) && std::isfinite(e[2]);
    if (c.expect(ON("finite"), fin, "nonfinite", params, wit)) {
      LD d = std::max(cdiff(e[0], lr), std::max(cdiff(e[1], lp), cdiff(e[2], ly)));
      c.expect_le(ON("euler.angles_quaternion_angles"), d, K_EULER * eps<S>() / cp, "euler_roundtrip", params, [&]() {
          return vh::J().s("via", "quaternion").f("scale", (LD)scale).f("roll_back", (LD)e[0]).f("pitch_back", (LD)e[1])
                 .f("yaw_back", (LD)e[2]).raw("case", wit()).str();
        });
    }
  }

  // ---- derivative-carrying helper (double only): fresh object, Vector3d constructor, or re-initialised object
  if (std::is_same<S, double>::value) {
    int how = (int)r.range(0, 3);
    rc::SmartRotation3D fresh((double)roll, (double)pitch, (double)yaw);
    rc::SmartRotation3D fromv(Eigen::Vector3d((double)roll, (double)pitch, (double)yaw));
    const double o0 = r.uni(-6, 6), o1 = r.uni(-1.5, 1.5), o2 = r.uni(-6, 6);
    rc::SmartRotation3D reused(o0, o1, o2);
    if (how == 2) {reused.init((double)roll, (double)pitch, (double)yaw);}
    if (how == 3) {reused.init(Eigen::Vector3d((double)roll, (double)pitch, (double)yaw));}
    const Eigen::Matrix3d & Rs = how == 0 ? fresh.R() : how == 1 ? fromv.R() : reused.R();
    const M3 Rsl = toM3(Rs);
    c.count(istr(how >= 2 ? "smart_rotation_reinitialised" : "smart_rotation_fresh"));
    if (c.expect("finite.d", finite3(Rsl), "nonfinite", params, wit)) {
      const std::function<std::string()> w = [&]() {
          return vh::J().s("builder", "SmartRotation3D::R").f("construction", how).raw("got", jm3(Rsl)).raw("zyx", jm3(Ro))
                 .raw("euler_matrix", jm3(Rl)).raw("case", wit()).str();
        };
      c.expect_le("build.smart_vs_zyx.d", frob(Rsl, Ro), K_BUILD * eps<double>(), "builders_disagree", params, w);
      c.expect_le("build.smart_vs_euler_matrix.d", frob(Rsl, Rl), (K_BUILD + K_BUILD_Q) * eps<double>(), "builders_disagree", params, w);
      check_proper3<double>(c, Rsl, "SmartRotation3D::R", params, wit);
    }

    // ---- consecutive near-duplicate inputs to the same (stateful) object: after the target angles the object is
    // re-initialised 1..3 times with previous + delta, |delta| log-uniform in [1e-15, 1e-2] on one, two or all three
    // components (or, now and then, with exactly the same angles); R() must follow every time.
    if (r.coin(0.5)) {
      c.cat(istr("smart_near_duplicate_reinit"));
      rc::SmartRotation3D obj;
      double t[3] = {(double)roll, (double)pitch, (double)yaw};
      const int n = (int)r.range(1, 3);
      for (int step = 0; step <= n; ++step) {
        double d[3] = {0, 0, 0};
        if (step > 0 && !r.coin(0.05)) {
          int mask = (int)r.range(1, 7);
          if (r.coin(0.4)) {mask = 7;}
          for (int k = 0; k < 3; ++k) {if (mask & (1 << k)) {d[k] = r.sign() * r.logu(1e-15, 1e-2);}}
        }
        for (int k = 0; k < 3; ++k) {t[k] += d[k];}
        if (r.coin()) {obj.init(t[0], t[1], t[2]);} else {obj.init(Eigen::Vector3d(t[0], t[1], t[2]));}
        if (step == 0) {continue;}                       // the first initialisation is what the block above checks
        const M3 Rn = toM3(obj.R());
        const M3 Rno = oracle_R((LD)t[0], (LD)t[1], (LD)t[2]);
        const double dmax = std::max(std::fabs(d[0]), std::max(std::fabs(d[1]), std::fabs(d[2])));
        c.count(istr("smart_rotation_near_duplicate_reinits"));
        if (dmax < 1e-5) {c.count(istr("smart_rotation_reinit_delta_below_1e-5"));}
        const std::function<vh::Params()> pn = [&]() {
            return vh::Params{{"scalar", 0.0}, {"roll", t[0]}, {"pitch", t[1]}, {"yaw", t[2]}, {"reinit_step", (double)step},
              {"delta_max", dmax}};
          };
        const std::function<std::string()> wn = [&]() {
            return vh::J().s("builder", "SmartRotation3D::R after init() with previous + delta").f("step", step)
                   .f("roll", (LD)t[0]).f("pitch", (LD)t[1]).f("yaw", (LD)t[2]).f("d_roll", (LD)d[0]).f("d_pitch", (LD)d[1])
                   .f("d_yaw", (LD)d[2]).raw("got", jm3(Rn)).raw("zyx", jm3(Rno)).raw("first_angles", wit()).str();
          };
        if (!c.expect("finite.d", finite3(Rn), "nonfinite", pn, wn)) {break;}
        c.expect_le("build.smart_reinit_near_vs_zyx.d", frob(Rn, Rno), K_BUILD * eps<double>(), "builders_disagree_after_reinit",
          pn, wn);
        check_proper3<double>(c, Rn, "SmartRotation3D::R", pn, wn);
      }
    }
  }
}

// ------------------------------------------------------------------------------------------------
// family: rotation (matrix or quaternion) given
// ------------------------------------------------------------------------------------------------
static Q4 random_unit_q(vh::Rng & r)
{
  for (;;) {
    Q4 q{r.normal(), r.normal(), r.normal(), r.normal()};
    LD n = sqrtl(q.w * q.w + q.x * q.x + q.y * q.y + q.z * q.z);
    if (n > 1e-3L) {return Q4{q.w / n, q.x / n, q.y / n, q.z / n};}
  }
}

template<class S> static void rotation_case(vh::Ctx & c, vh::Rng & r, bool as_quaternion)
{
  typedef Eigen::Matrix<S, 3, 1> V3;
  typedef Eigen::Matrix<S, 3, 3> Mat3;
  int sub = (int)r.range(0, 99);
  const char * cat;
  bool axis_only = false;
  Q4 ql;            // the rotation, long double
  if (sub < 55) {
    cat = as_quaternion ? "quaternion_generic" : "rotmat_generic";
    ql = random_unit_q(r);
  } else if (sub < 90) {
    // dense band below |R(2,0)| = 1 - 1e-6: log-spaced offsets of R(2,0) from the limit.  A quaternion is
    // given through rounded coefficients, which move R(2,0) by a few eps, hence the minimum offset there.
    cat = as_quaternion ? "quaternion_r20_limit" : "rotmat_r20_limit";
    LD off = r.coin(0.2) ? 0.0L : (LD)r.logu(1e-12, 1e-3);
    if (as_quaternion) {off = std::max(off, 8 * eps<S>());}
    LD pitch = (LD)r.sign() * asinl(R20_LIM_L - off);
    LD roll = (LD)r.uni(-M_PI, M_PI);
    LD yaw = (LD)r.uni(-M_PI, M_PI);
    ql = oracle_q(roll, pitch, yaw);
  } else {
    cat = as_quaternion ? "quaternion_axis_only" : "rotmat_axis_only"; axis_only = true;
    int k = (int)r.range(0, 3);
    LD ang = r.coin(0.3) ? (LD)((double)r.range(-2, 2) * M_PI / 2) : (LD)r.uni(-M_PI, M_PI);
    if (k == 1) {ang = std::max(-PITCH_LIM_L, std::min(PITCH_LIM_L, ang / 2));}
    ql = k == 0 ? oracle_q(ang, 0, 0) : k == 1 ? oracle_q(0, ang, 0) : k == 2 ? oracle_q(0, 0, ang) : Q4{1, 0, 0, 0};
  }

  M3 Rin;                       // what the library is given, exactly, in long double
  Mat3 Rs;                      // matrix input
  Eigen::Quaternion<S> qs;      // quaternion input
  S scale = 1;
  if (as_quaternion) {
    const bool steep = sub >= 55 && sub < 90;              // the R(2,0)-limit band
    const int sclass = pick_quaternion_scale<S>(r, steep, scale);
    if (sclass == 1) {
      c.cat(istr("quaternion_scale_almost_unit"));
      if (steep) {c.cat(istr("quaternion_scale_almost_unit_steep_pitch"));}
    }
    if (sclass == 3) {c.cat(istr(scale < (S)1 ? "quaternion_scale_extreme_small" : "quaternion_scale_extreme_large"));}
    if (r.coin()) {scale = -scale;}                      // q and -q are the same rotation
    for (;;) {
      qs = Eigen::Quaternion<S>((S)(ql.w * scale), (S)(ql.x * scale), (S)(ql.y * scale), (S)(ql.z * scale));
      Rin = R_of_q(Q4{(LD)qs.w(), (LD)qs.x(), (LD)qs.y(), (LD)qs.z()});
      if (fabsl(Rin.m[2][0]) <= R20_LIM_L) {break;}
      ql = random_unit_q(r);       // outside the stated domain (probability ~1e-6): draw another rotation
    }
  } else {
    for (;;) {
      M3 Rl = R_of_q(ql);
      for (int i = 0; i < 3; ++i) {for (int j = 0; j < 3; ++j) {Rs(i, j) = (S)Rl.m[i][j];}}
      if (fabsl(Rl.m[2][0]) <= R20_LIM_L) {break;}
      ql = random_unit_q(r);       // outside the stated domain (probability ~1e-6): draw another rotation
    }
    // rounding to Scalar may lift R(2,0) over the limit by half an ulp: step back (stays a rotation to rounding)
    while (fabsl((LD)Rs(2, 0)) > R20_LIM_L) {Rs(2, 0) = toward0(Rs(2, 0));}
    Rin = toM3(Rs);
  }
  LD r20 = Rin.m[2][0];
  LD cp = sqrtl((1 - r20) * (1 + r20));
  c.cat(istr(cat));
  {
    uint64_t h = vh::hash_doubles({as_quaternion ? 3.0 : 2.0, Tr<S>::id(), (double)scale});
    for (int i = 0; i < 3; ++i) {for (int j = 0; j < 3; ++j) {h = vh::hash_add(h, (double)Rin.m[i][j]);}}
    c.distinct(h, !axis_only);
  }
  const std::function<vh::Params()> params = [&]() {
      return vh::Params{{"scalar", Tr<S>::id()}, {"r20", (double)r20}, {"cos_pitch", (double)cp},
        {"quaternion_input", as_quaternion ? 1.0 : 0.0}, {"scale", (double)scale}};
    };
  const std::function<std::string()> wit = [&]() {
      vh::J j;
      j.s("cat", cat).s("scalar", Tr<S>::sfx() + 1).raw("R_in", jm3(Rin));
      if (as_quaternion) {j.f("qw", (LD)qs.w()).f("qx", (LD)qs.x()).f("qy", (LD)qs.y()).f("qz", (LD)qs.z());}
      return j.str();
    };
  c.sample(istr(cat), wit);

  const V3 ang = as_quaternion ? rc::quaternionToEulerAngles<S>(qs) : rc::rotation3DToEulerAngles<S>(Rs);
  bool fin = std::isfinite(ang[0]) && std::isfinite(ang[1]) && std::isfinite(ang[2]);
  if (!c.expect(ON("finite"), fin, "nonfinite", params, wit)) {return;}
  const std::function<std::string()> witb = [&]() {
      return vh::J().f("roll", (LD)ang[0]).f("pitch", (LD)ang[1]).f("yaw", (LD)ang[2]).raw("case", wit()).str();
    };

  // ---- back to a matrix
  const Mat3 R2 = rc::eulerAnglesToRotation3D<S>(ang);
  const M3 R2l = toM3(R2);
  if (!c.expect(ON("finite"), finite3(R2l), "nonfinite", params, witb)) {return;}
  const LD tol = K_ROT * eps<S>() / cp;
  c.expect_le((as_quaternion ? ON("rotation.quaternion_angles_matrix") : ON("rotation.matrix_angles_matrix")),
    frob(R2l, Rin), tol, "rotation_roundtrip", params, [&]() {
      return vh::J().s("back", "eulerAnglesToRotation3D").raw("R_back", jm3(R2l)).raw("case", witb()).str();
    });
  check_proper3<S>(c, R2l, "eulerAnglesToRotation3D", params, witb);

  // ---- back to a quaternion (same rotation: compare the rotation it denotes)
  {
    const Eigen::Quaternion<S> q2 = rc::eulerAnglesToQuaternion<S>(ang);
    const M3 Rq = R_of_q(Q4{(LD)q2.w(), (LD)q2.x(), (LD)q2.y(), (LD)q2.z()});
    LD n2 = sqrtl(powl(q2.w(), 2) + powl(q2.x(), 2) + powl(q2.y(), 2) + powl(q2.z(), 2));
    bool f2 = finite3(Rq);
    if (c.expect(ON("finite"), f2, "nonfinite", params, witb)) {
      c.expect_le(ON("rotation.rotation_angles_quaternion"), frob(Rq, Rin) + fabsl(n2 - 1), tol, "rotation_roundtrip",
        params, [&]() {
          return vh::J().s("back", "eulerAnglesToQuaternion").f("w", (LD)q2.w()).f("x", (LD)q2.x()).f("y", (LD)q2.y())
                 .f("z", (LD)q2.z()).raw("case", witb()).str();
        });
    }
  }

  // ---- back through the derivative-carrying helper
  if (std::is_same<S, double>::value) {
    rc::SmartRotation3D s((double)ang[0], (double)ang[1], (double)ang[2]);
    const M3 Rsl = toM3(s.R());
    c.count(istr("smart_rotation_fresh"));
    if (c.expect("finite.d", finite3(Rsl), "nonfinite", params, witb)) {
      c.expect_le("rotation.rotation_angles_smart.d", frob(Rsl, Rin), tol, "rotation_roundtrip", params, [&]() {
          return vh::J().s("back", "SmartRotation3D::R").raw("R_back", jm3(Rsl)).raw("case", witb()).str();
        });
      check_proper3<double>(c, Rsl, "SmartRotation3D::R", params, witb);
    }
  }
}

// ------------------------------------------------------------------------------------------------
// family: normalisers
// ------------------------------------------------------------------------------------------------
template<class S> static void normaliser_case(vh::Ctx & c, vh::Rng & r)
{
  int sub = (int)r.range(0, 99);
  const char * cat;
  S v;
  if (sub < 35) {
    cat = "normaliser_random"; v = (S)r.uni(-4 * M_PI, 4 * M_PI);
  } else if (sub < 60) {
    cat = "normaliser_multiple_ulps";                           // k*pi/2, k in [-8, 8], +- 0..3 ulps
    v = step_ulps((S)((double)r.range(-8, 8) * M_PI / 2), (int)r.range(-3, 3));
  } else if (sub < 80) {
    cat = "normaliser_multiple_near";
    v = (S)((double)r.range(-8, 8) * M_PI / 2 + r.sign() * r.logu(1e-16, 1e-3));
  } else {
    cat = "normaliser_tiny";                                    // +-0, denormals, tiny of either sign
    int k = (int)r.range(0, 4);
    v = k == 0 ? (S)0.0 : k == 1 ? (S)-0.0 : k == 2 ? (S)r.sign() * std::numeric_limits<S>::denorm_min() * (S)r.range(1, 5) :
      k == 3 ? (S)(r.sign() * r.logu(1e-30, 1e-14)) : (S)(r.sign() * r.logu(1e-14, 1e-6));
  }
  // the library's documented precondition (an assert): strictly inside (-4pi, 4pi) as represented by 4*M_PI
  if (std::fabs((double)v) > rc::M_4PI) {v = std::copysign((S)rc::M_4PI, v);}
  while (!((double)v > -rc::M_4PI && (double)v < rc::M_4PI)) {v = toward0(v);}
  LD lv = v;
  c.cat(istr(cat));
  bool trivial = std::is_same<S, double>::value && lv > 0.01L && lv < PI_L - 0.01L;    // already inside both intervals
  c.distinct(vh::hash_doubles({4.0, Tr<S>::id(), (double)v}), !trivial);
  const std::function<vh::Params()> params = [&]() {return vh::Params{{"scalar", Tr<S>::id()}, {"angle", (double)v}};};
  const std::function<std::string()> wit = [&]() {return vh::J().s("cat", cat).s("scalar", Tr<S>::sfx() + 1).f("angle", lv).str();};
  c.sample(istr(cat), wit);

  const LD tolc = K_NORM * eps<S>();
  {
    const S w = rc::between0And2Pi<S>(v);
    const std::function<std::string()> ww = [&]() {return vh::J().s("fn", "between0And2Pi").f("result", (LD)w).raw("case", wit()).str();};
    if (c.expect(ON("finite"), std::isfinite(w), "nonfinite", params, ww)) {
      c.expect_le(ON("normaliser.0_2pi.congruent"), cdiff(w, lv), tolc, "normaliser_not_congruent", params, ww);
      // closed interval [0, 2pi]; a float result may be the float nearest to 2pi, which lies above it
      LD slack = std::is_same<S, float>::value ? ulp_at<S>(TWO_PI_L) : 0.0L;
      c.expect(ON("normaliser.0_2pi.interval"), w >= (S)0 && (LD)w <= TWO_PI_L + slack, "normaliser_out_of_interval",
        params, ww);
      if ((LD)w >= TWO_PI_L - 4 * ulp_at<S>(TWO_PI_L)) {c.count(istr("normaliser_result_at_upper_end"));}
    }
  }
  {
    const S w = rc::betweenMinusPiAndPi<S>(v);
    const std::function<std::string()> ww = [&]() {return vh::J().s("fn", "betweenMinusPiAndPi").f("result", (LD)w).raw("case", wit()).str();};
    if (c.expect(ON("finite"), std::isfinite(w), "nonfinite", params, ww)) {
      c.expect_le(ON("normaliser.mpi_pi.congruent"), cdiff(w, lv), tolc, "normaliser_not_congruent", params, ww);
      LD slack = std::is_same<S, float>::value ? ulp_at<S>(PI_L) : 0.0L;
      c.expect(ON("normaliser.mpi_pi.interval"), fabsl((LD)w) <= PI_L + slack, "normaliser_out_of_interval", params, ww);
    }
  }
}

// ------------------------------------------------------------------------------------------------
// family: planar angle <-> 2x2 rotation
// ------------------------------------------------------------------------------------------------
template<class S> static void rot2d_case(vh::Ctx & c, vh::Rng & r)
{
  typedef Eigen::Matrix<S, 2, 2> Mat2;
  const char * cat = "rot2d";
  S th = pick_turn_angle<S>(r, (int)r.range(0, 4));
  LD lt = th;
  c.cat(istr(cat));
  c.distinct(vh::hash_doubles({5.0, Tr<S>::id(), (double)th}), th != 0);
  const std::function<vh::Params()> params = [&]() {return vh::Params{{"scalar", Tr<S>::id()}, {"angle", (double)th}};};
  const std::function<std::string()> wit = [&]() {return vh::J().s("cat", cat).s("scalar", Tr<S>::sfx() + 1).f("angle", lt).str();};
  c.sample(istr(cat), wit);

  // angle -> R -> angle
  const Mat2 R = rc::eulerAngleToRotation2D<S>(th);
  LD a = R(0, 0), b = R(0, 1), cc = R(1, 0), d = R(1, 1);
  bool fin = std::isfinite((double)(a + b + cc + d));
  const std::function<std::string()> wr = [&]() {return vh::J().f("r00", a).f("r01", b).f("r10", cc).f("r11", d).raw("case", wit()).str();};
  if (!c.expect(ON("finite"), fin, "nonfinite", params, wr)) {return;}
  LD orth = sqrtl(powl(a * a + b * b - 1, 2) + powl(cc * cc + d * d - 1, 2) + 2 * powl(a * cc + b * d, 2));
  c.expect_le(ON("rot2d.proper"), std::max(orth, fabsl(a * d - b * cc - 1)), K_2D * eps<S>(), "not_proper_rotation", params, wr);
  const S back = rc::rotation2DToEulerAngle<S>(R);
  if (c.expect(ON("finite"), std::isfinite(back), "nonfinite", params, wr)) {
    c.expect_le(ON("rot2d.angle_matrix_angle"), cdiff(back, lt), K_2D * eps<S>(), "rot2d_roundtrip", params, [&]() {
        return vh::J().f("angle_back", (LD)back).raw("R", wr()).str();
      });
  }
  // R -> angle -> R, R given (a rotation rounded to Scalar, independent of the library's builder)
  LD phi = (LD)r.uni(-M_PI, M_PI);
  if (r.coin(0.3)) {phi = (LD)((double)r.range(-2, 2) * M_PI / 2) + (LD)(r.sign() * r.logu(1e-16, 1e-3));}
  Mat2 Rg;
  Rg << (S)cosl(phi), (S)(-sinl(phi)), (S)sinl(phi), (S)cosl(phi);
  const S ag = rc::rotation2DToEulerAngle<S>(Rg);
  const Mat2 Rb = rc::eulerAngleToRotation2D<S>(ag);
  LD df = sqrtl(powl((LD)Rb(0, 0) - (LD)Rg(0, 0), 2) + powl((LD)Rb(0, 1) - (LD)Rg(0, 1), 2) +
      powl((LD)Rb(1, 0) - (LD)Rg(1, 0), 2) + powl((LD)Rb(1, 1) - (LD)Rg(1, 1), 2));
  c.expect_le(ON("rot2d.matrix_angle_matrix"), df, K_2D * eps<S>(), "rot2d_roundtrip", params, [&]() {
      return vh::J().f("phi", phi).f("angle", (LD)ag).f("g00", (LD)Rg(0, 0)).f("g10", (LD)Rg(1, 0)).f("b00", (LD)Rb(0, 0))
             .f("b10", (LD)Rb(1, 0)).raw("case", wit()).str();
    });
}

// ------------------------------------------------------------------------------------------------
// family: polar <-> Cartesian
// ------------------------------------------------------------------------------------------------
template<class S> static S pick_range(vh::Rng & r)
{
  int k = (int)r.range(0, 9);
  double v = k == 0 ? 1.0000001e-6 : k == 1 ? 0.9999999e6 : r.logu(1.0000001e-6, 0.9999999e6);
  return (S)v;
}

template<class S> static void polar_case(vh::Ctx & c, vh::Rng & r)
{
  int sub = (int)r.range(0, 99);
  const char * cat;
  S rho = pick_range<S>(r);
  LD az;
  if (sub < 50) {cat = "polar_generic"; az = (LD)r.uni(-M_PI, M_PI);} else {
    cat = "polar_axis";                                          // on / next to the axes and the branch cut
    az = (LD)((double)r.range(-2, 2) * M_PI / 2);
    if (r.coin(0.7)) {az += (LD)(r.sign() * r.logu(1e-17, 1e-3));}
    az = remainderl(az, TWO_PI_L);
  }
  bool homogeneous = r.coin(0.4);
  c.cat(istr(cat));
  c.cat(istr(homogeneous ? "polar_homogeneous" : "polar_cartesian"));
  // ---- Cartesian point first
  S x = (S)((LD)rho * cosl(az)), y = (S)((LD)rho * sinl(az));
  if (sub >= 50 && r.coin(0.3)) {                                                      // exactly on an axis
    bool zero_x = r.coin();
    S zero = (S)(r.coin() ? 0.0 : -0.0), other = (S)(r.sign() * (double)rho);
    if (zero_x) {x = zero; y = other;} else {y = zero; x = other;}
  }
  LD nrm = hypotl((LD)x, (LD)y);
  c.distinct(vh::hash_doubles({6.0, Tr<S>::id(), (double)x, (double)y, homogeneous ? 1.0 : 0.0}),
    !(std::is_same<S, double>::value && sub < 50 && !homogeneous));
  const std::function<vh::Params()> params = [&]() {
      return vh::Params{{"scalar", Tr<S>::id()}, {"x", (double)x}, {"y", (double)y}, {"norm", (double)nrm},
        {"homogeneous", homogeneous ? 1.0 : 0.0}};
    };
  const std::function<std::string()> wit = [&]() {
      return vh::J().s("cat", cat).s("scalar", Tr<S>::sfx() + 1).boolean("homogeneous", homogeneous).f("x", (LD)x).f("y", (LD)y).str();
    };
  c.sample(istr(cat), wit);
  {
    S rg, azg, xb, yb;
    if (homogeneous) {
      rc::HomogeneousCoordinates2<S> p(x, y);
      rc::PolarCoordinates<S> pol = rc::toHomogeneous(p);        // (sic) the library's name for homogeneous -> polar
      rc::HomogeneousCoordinates2<S> pb = rc::toHomogeneous(pol);
      rg = pol.getRange(); azg = pol.getAzimut(); xb = pb.x(); yb = pb.y();
      c.expect(ON("polar.homogeneous_w"), pb(2) == (S)1, "polar_roundtrip", params, wit);
    } else {
      rc::CartesianCoordinates2<S> p(x, y);
      rc::PolarCoordinates<S> pol = rc::toPolar(p);
      rc::CartesianCoordinates2<S> pb = rc::toCartesian(pol);
      rg = pol.getRange(); azg = pol.getAzimut(); xb = pb.x(); yb = pb.y();
    }
    const std::function<std::string()> w = [&]() {
        return vh::J().f("range", (LD)rg).f("azimut", (LD)azg).f("x_back", (LD)xb).f("y_back", (LD)yb).raw("case", wit()).str();
      };
    bool fin = std::isfinite(rg) && std::isfinite(azg) && std::isfinite(xb) && std::isfinite(yb);
    if (c.expect(ON("finite"), fin, "nonfinite", params, w)) {
      c.expect_le(ON("polar.cartesian_polar_cartesian"), hypotl((LD)xb - (LD)x, (LD)yb - (LD)y), K_COORD * eps<S>() * nrm,
        "polar_roundtrip", params, w);
    }
  }
  // ---- polar point first: (rho, azS) canonical, azS in [-pi, pi]
  {
    S azS = inside_closed((S)az, PI_L);
    rc::PolarCoordinates<S> pol(rho, azS);
    S rb, ab;
    if (homogeneous) {
      rc::PolarCoordinates<S> back = rc::toHomogeneous(rc::toHomogeneous(pol));
      rb = back.getRange(); ab = back.getAzimut();
    } else {
      rc::PolarCoordinates<S> back = rc::toPolar(rc::toCartesian(pol));
      rb = back.getRange(); ab = back.getAzimut();
    }
    const std::function<vh::Params()> p2 = [&]() {
        return vh::Params{{"scalar", Tr<S>::id()}, {"range", (double)rho}, {"azimut", (double)azS},
          {"homogeneous", homogeneous ? 1.0 : 0.0}};
      };
    const std::function<std::string()> w = [&]() {
        return vh::J().s("cat", cat).s("scalar", Tr<S>::sfx() + 1).boolean("homogeneous", homogeneous).f("range", (LD)rho)
               .f("azimut", (LD)azS).f("range_back", (LD)rb).f("azimut_back", (LD)ab).str();
      };
    if (c.expect(ON("finite"), std::isfinite(rb) && std::isfinite(ab), "nonfinite", p2, w)) {
      LD e = std::max(fabsl((LD)rb - (LD)rho) / (LD)rho, cdiff(ab, azS));
      c.expect_le(ON("polar.polar_cartesian_polar"), e, K_COORD * eps<S>(), "polar_roundtrip", p2, w);
    }
  }
}

// ------------------------------------------------------------------------------------------------
// family: spherical <-> Cartesian
// ------------------------------------------------------------------------------------------------
template<class S> static rc::SphericalCoordinates<S> lib_to_spherical(const rc::CartesianCoordinates3<S> & p)
{
#if C10_FLOAT_TOSPHERICAL
  return rc::toSpherical(p);     // if this does not compile for float: see the note at the top of this file
#else
  if (std::is_same<S, double>::value) {
    Eigen::Matrix<double, 3, 1> pd = p.template cast<double>();
    rc::SphericalCoordinates<double> s = rc::toSpherical(pd);
    return rc::SphericalCoordinates<S>((S)s.getRange(), (S)s.getAzimut(), (S)s.getElevation());
  }
  return rc::SphericalCoordinates<S>(rc::SphericalTransform::range(p), rc::SphericalTransform::azimut(p),
           rc::SphericalTransform::elevation(p));
#endif
}

template<class S> static rc::SphericalCoordinates<S> lib_to_spherical(const rc::HomogeneousCoordinates3<S> & p)
{
#if C10_FLOAT_TOSPHERICAL
  return rc::toSpherical(p);
#else
  if (std::is_same<S, double>::value) {
    rc::HomogeneousCoordinates3<double> pd((double)p.x(), (double)p.y(), (double)p.z());
    rc::SphericalCoordinates<double> s = rc::toSpherical(pd);
    return rc::SphericalCoordinates<S>((S)s.getRange(), (S)s.getAzimut(), (S)s.getElevation());
  }
  return rc::SphericalCoordinates<S>(rc::SphericalTransform::range(p), rc::SphericalTransform::azimut(p),
           rc::SphericalTransform::elevation(p));
#endif
}

// conditioning of the acos-based elevation: cos(el') = cos(el) (1 + delta), |delta| <= D  =>
// |sin(el') - sin(el)| and |el' - el| (times sin) are bounded by min(2 D / sin(el), sqrt(2 D))
template<class S> static LD acos_term(LD sin_el)
{
  LD D = K_ACOS * eps<S>();
  LD a = sqrtl(2 * D);
  return sin_el > 0 ? std::min(2 * D / sin_el, a) : a;
}

template<class S> static void spherical_case(vh::Ctx & c, vh::Rng & r)
{
  int sub = (int)r.range(0, 99);
  const char * cat;
  S rho = pick_range<S>(r);
  LD az = (LD)r.uni(-M_PI, M_PI), el;
  if (sub < 40) {
    cat = "spherical_generic"; el = acosl((LD)r.uni(-1, 1));
  } else if (sub < 75) {
    cat = "spherical_pole";                                   // log-spaced distance to either pole
    el = (LD)r.logu(1e-12, 1e-2);
    if (r.coin()) {el = PI_L - el;}
  } else {
    cat = "spherical_axis";                                   // on / next to the coordinate axes and planes
    int k = (int)r.range(0, 2);
    el = k == 0 ? 0.0L : k == 1 ? PI_L / 2 : PI_L;
    az = (LD)((double)r.range(-2, 2) * M_PI / 2);
    if (r.coin(0.5)) {az += (LD)(r.sign() * r.logu(1e-17, 1e-3));}
    az = remainderl(az, TWO_PI_L);
    if (r.coin(0.5)) {el = std::min(PI_L, std::max(0.0L, el + (LD)(r.sign() * r.logu(1e-17, 1e-3))));}
  }
  bool homogeneous = r.coin(0.4);
  c.cat(istr(cat));
  c.cat(istr(homogeneous ? "spherical_homogeneous" : "spherical_cartesian"));

  // ---- Cartesian point first
  S x = (S)((LD)rho * cosl(az) * sinl(el)), y = (S)((LD)rho * sinl(az) * sinl(el)), z = (S)((LD)rho * cosl(el));
  if (sub >= 75 && r.coin(0.4)) {
    int k = (int)r.range(0, 2);
    S zero = (S)(r.coin() ? 0.0 : -0.0);
    if (k == 0) {x = zero; y = (S)(r.coin() ? 0.0 : -0.0);} else if (k == 1) {x = zero;} else {y = zero;}
  }
  LD nrm = sqrtl((LD)x * x + (LD)y * y + (LD)z * z);
  if (!(nrm >= 1e-6L && nrm <= 1e6L)) {z = (S)(z < 0 ? -(double)rho : (double)rho); nrm = sqrtl((LD)x * x + (LD)y * y + (LD)z * z);}
  LD sin_el = hypotl((LD)x, (LD)y) / nrm;
  c.distinct(vh::hash_doubles({7.0, Tr<S>::id(), (double)x, (double)y, (double)z, homogeneous ? 1.0 : 0.0}),
    !(std::is_same<S, double>::value && sub < 40 && !homogeneous && sin_el > 0.3L));
  const std::function<vh::Params()> params = [&]() {
      return vh::Params{{"scalar", Tr<S>::id()}, {"x", (double)x}, {"y", (double)y}, {"z", (double)z}, {"norm", (double)nrm},
        {"sin_elevation", (double)sin_el}, {"homogeneous", homogeneous ? 1.0 : 0.0}};
    };
  const std::function<std::string()> wit = [&]() {
      return vh::J().s("cat", cat).s("scalar", Tr<S>::sfx() + 1).boolean("homogeneous", homogeneous).f("x", (LD)x).f("y", (LD)y)
             .f("z", (LD)z).str();
    };
  c.sample(istr(cat), wit);
  if (sin_el < sqrtl(eps<S>())) {c.count(istr("spherical_inside_acos_plateau"));}
  {
    S rg, azg, elg, xb, yb, zb;
    if (homogeneous) {
      rc::HomogeneousCoordinates3<S> p(x, y, z);
      rc::SphericalCoordinates<S> s = lib_to_spherical<S>(p);
      rc::HomogeneousCoordinates3<S> pb = rc::toHomogeneous(s);
      rg = s.getRange(); azg = s.getAzimut(); elg = s.getElevation(); xb = pb.x(); yb = pb.y(); zb = pb.z();
      c.expect(ON("spherical.homogeneous_w"), pb(3) == (S)1, "spherical_roundtrip", params, wit);
    } else {
      rc::CartesianCoordinates3<S> p(x, y, z);
      rc::SphericalCoordinates<S> s = lib_to_spherical<S>(p);
      rc::CartesianCoordinates3<S> pb = rc::toCartesian(s);
      rg = s.getRange(); azg = s.getAzimut(); elg = s.getElevation(); xb = pb.x(); yb = pb.y(); zb = pb.z();
    }
    const std::function<std::string()> w = [&]() {
        return vh::J().f("range", (LD)rg).f("azimut", (LD)azg).f("elevation", (LD)elg).f("x_back", (LD)xb).f("y_back", (LD)yb)
               .f("z_back", (LD)zb).raw("case", wit()).str();
      };
    bool fin = std::isfinite(rg) && std::isfinite(azg) && std::isfinite(elg) && std::isfinite(xb) && std::isfinite(yb) &&
      std::isfinite(zb);
    if (c.expect(ON("finite"), fin, "nonfinite", params, w)) {
      LD d = sqrtl(powl((LD)xb - x, 2) + powl((LD)yb - y, 2) + powl((LD)zb - z, 2));
      c.expect_le(ON("spherical.cartesian_spherical_cartesian"), d, nrm * (K_COORD * eps<S>() + acos_term<S>(sin_el)),
        "spherical_roundtrip", params, w);
    }
  }
  // ---- spherical point first: canonical (rho, az in [-pi,pi], el in [0,pi])
  {
    S azS = inside_closed((S)az, PI_L);
    S elS = (S)el;
    if (elS < 0) {elS = 0;}
    elS = inside_closed(elS, PI_L);          // a float "pi" above pi would be a point on the other side of the axis
    LD se = fabsl(sinl((LD)elS));
    rc::SphericalCoordinates<S> s(rho, azS, elS);
    S rb, ab, eb;
    if (homogeneous) {
      rc::SphericalCoordinates<S> back = lib_to_spherical<S>(rc::toHomogeneous(s));
      rb = back.getRange(); ab = back.getAzimut(); eb = back.getElevation();
    } else {
      rc::SphericalCoordinates<S> back = lib_to_spherical<S>(rc::toCartesian(s));
      rb = back.getRange(); ab = back.getAzimut(); eb = back.getElevation();
    }
    const std::function<vh::Params()> p2 = [&]() {
        return vh::Params{{"scalar", Tr<S>::id()}, {"range", (double)rho}, {"azimut", (double)azS}, {"elevation", (double)elS},
          {"sin_elevation", (double)se}, {"homogeneous", homogeneous ? 1.0 : 0.0}};
      };
    const std::function<std::string()> w = [&]() {
        return vh::J().s("cat", cat).s("scalar", Tr<S>::sfx() + 1).boolean("homogeneous", homogeneous).f("range", (LD)rho)
               .f("azimut", (LD)azS).f("elevation", (LD)elS).f("range_back", (LD)rb).f("azimut_back", (LD)ab)
               .f("elevation_back", (LD)eb).str();
      };
    if (c.expect(ON("finite"), std::isfinite(rb) && std::isfinite(ab) && std::isfinite(eb), "nonfinite", p2, w)) {
      c.expect_le(ON("spherical.range_back"), fabsl((LD)rb - (LD)rho) / (LD)rho, K_COORD * eps<S>(), "spherical_roundtrip", p2, w);
      // elevation: sin(el) |el' - el| <= min(2D/sin, sqrt(2D)) sin  =>  |el' - el| <= min(2D/sin(el), ~sqrt(2D)) ...
      // near the poles the angle itself moves by up to sqrt(2 D) (acos plateau), away from them by 2D/sin(el)
      c.expect_le(ON("spherical.elevation_back"), fabsl((LD)eb - (LD)elS), K_COORD * eps<S>() + 2 * acos_term<S>(se),
        "spherical_roundtrip", p2, w);
      // azimuth is undefined on the polar axis (sin(el) = 0, or x and y underflow)
      LD xs = fabsl((LD)rho * se);
      if (se < 1e-12L || xs < 1e3L * (LD)std::numeric_limits<S>::min()) {
        {static const std::string sk = std::string(ON("spherical.azimut_back")) + ":polar_axis"; c.skip(sk);}
      } else {
        c.expect_le(ON("spherical.azimut_back"), cdiff(ab, azS), K_COORD * eps<S>(), "spherical_roundtrip", p2, w);
      }
    }
  }
}

// ------------------------------------------------------------------------------------------------
template<class S> static void dispatch(vh::Ctx & c, vh::Rng & r, int fam)
{
  c.cat(istr(std::is_same<S, float>::value ? "scalar_float" : "scalar_double"));
  if (fam < 26) {euler_case<S>(c, r);} else if (fam < 40) {rotation_case<S>(c, r, false);} else if (fam < 52) {
    rotation_case<S>(c, r, true);
  } else if (fam < 70) {normaliser_case<S>(c, r);} else if (fam < 77) {rot2d_case<S>(c, r);} else if (fam < 86) {
    polar_case<S>(c, r);
  } else {spherical_case<S>(c, r);}
}

static void one_case(vh::Ctx & c, uint64_t idx)
{
  vh::Rng r(c.seed, idx);
  int fam = (int)r.range(0, 99);
  if (r.coin(0.45)) {dispatch<float>(c, r, fam);} else {dispatch<double>(c, r, fam);}
}

int main(int argc, char ** argv)
{
  return vh::run(argc, argv, "C10", {2000000, 60000000}, one_case);
}
