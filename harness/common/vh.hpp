// Common runtime-monitoring harness support (header only, stdlib only).
//
// Every monitor program cNN_*.cpp has the shape
//
//     static void one_case(vh::Ctx& c, uint64_t idx) { ... drive the real library, call oracles ... }
//     int main(int argc, char** argv) { return vh::run(argc, argv, "C01", sizes, one_case); }
//
// Cases are a pure function of (seed, case index), so any case can be replayed with --only.
// Output is JSON lines on the --out file; the python driver (vcheck) merges shards, matches
// violations against KNOWN_FINDINGS.txt and writes the evidence file.
#pragma once
#include <algorithm>
#include <cerrno>
#include <cfenv>
#include <iostream>
#include <locale>
#include <cinttypes>
#include <cmath>
#include <csignal>
#include <cstdint>
#include <cstdio>
#include <cstdlib>
#include <cstring>
#include <fcntl.h>
#include <functional>
#include <limits>
#include <map>
#include <set>
#include <sstream>
#include <string>
#include <sys/mman.h>
#include <unistd.h>
#include <unordered_set>
#if defined(__x86_64__) || defined(__i386__)
#include <xmmintrin.h>
#endif
#include <utility>
#include <vector>

namespace vh
{

// ------------------------------------------------------------------------------------------
// PRNG: splitmix64 seeding + xoshiro256**; one independent stream per (seed, case, stream)
// ------------------------------------------------------------------------------------------
inline uint64_t splitmix64(uint64_t & x)
{
  uint64_t z = (x += 0x9e3779b97f4a7c15ULL);
  z = (z ^ (z >> 30)) * 0xbf58476d1ce4e5b9ULL;
  z = (z ^ (z >> 27)) * 0x94d049bb133111ebULL;
  return z ^ (z >> 31);
}

inline uint64_t mix(uint64_t a, uint64_t b)
{
  uint64_t x = a ^ (b + 0x9e3779b97f4a7c15ULL + (a << 6) + (a >> 2));
  return splitmix64(x);
}

struct Rng
{
  uint64_t s[4];
  explicit Rng(uint64_t seed, uint64_t idx = 0, uint64_t stream = 0)
  {
    // hash the seed first: mix(small seed, idx) alone only shifts the index sequence
    uint64_t s0 = seed ^ 0x5851f42d4c957f2dULL;
    uint64_t hs = splitmix64(s0);
    uint64_t x = mix(mix(hs, idx), stream * 0x2545F4914F6CDD1DULL + 1);
    for (auto & v : s) {v = splitmix64(x);}
  }
  static uint64_t rotl(uint64_t x, int k) {return (x << k) | (x >> (64 - k));}
  uint64_t next()
  {
    const uint64_t r = rotl(s[1] * 5, 7) * 9, t = s[1] << 17;
    s[2] ^= s[0]; s[3] ^= s[1]; s[1] ^= s[2]; s[0] ^= s[3]; s[2] ^= t; s[3] = rotl(s[3], 45);
    return r;
  }
  // uniform in [0,1)
  double uni() {return (next() >> 11) * 0x1.0p-53;}
  double uni(double a, double b) {return a + (b - a) * uni();}
  // integer in [lo, hi] inclusive
  int64_t range(int64_t lo, int64_t hi)
  {
    uint64_t span = static_cast<uint64_t>(hi - lo) + 1;
    return lo + static_cast<int64_t>(span == 0 ? next() : next() % span);
  }
  bool coin(double p = 0.5) {return uni() < p;}
  double sign() {return coin() ? 1.0 : -1.0;}
  // log-uniform in [a,b], a,b > 0
  double logu(double a, double b) {return std::exp(uni(std::log(a), std::log(b)));}
  double normal()
  {
    double u1 = 1.0 - uni(), u2 = uni();
    return std::sqrt(-2.0 * std::log(u1)) * std::cos(6.283185307179586476925 * u2);
  }
  template<class T> const T & pick(const std::vector<T> & v) {return v[range(0, v.size() - 1)];}
};

// ------------------------------------------------------------------------------------------
// tiny JSON helpers
// ------------------------------------------------------------------------------------------
inline std::string jstr(const std::string & s)
{
  std::string o = "\"";
  for (unsigned char ch : s) {
    switch (ch) {
      case '"': o += "\\\""; break;
      case '\\': o += "\\\\"; break;
      case '\n': o += "\\n"; break;
      case '\t': o += "\\t"; break;
      case '\r': o += "\\r"; break;
      default:
        if (ch < 0x20) {char b[8]; snprintf(b, sizeof b, "\\u%04x", ch); o += b;} else {o += ch;}
    }
  }
  return o + "\"";
}

inline std::string jnum(long double v)
{
  if (std::isnan(v)) {return "\"nan\"";}
  if (std::isinf(v)) {return v > 0 ? "\"inf\"" : "\"-inf\"";}
  char b[64];
  snprintf(b, sizeof b, "%.17Lg", v);
  return b;
}
inline std::string jnum(double v) {return jnum(static_cast<long double>(v));}
inline std::string jnum(float v) {return jnum(static_cast<long double>(v));}
inline std::string jnum(int64_t v) {return std::to_string(v);}
inline std::string jnum(uint64_t v) {return std::to_string(v);}
inline std::string jnum(int v) {return std::to_string(v);}
inline std::string jnum(unsigned v) {return std::to_string(v);}

// Incrementally built JSON object: J().f("a",1.0).s("k","txt").raw("v","[1,2]").str()
struct J
{
  std::string b = "{";
  bool first = true;
  void key(const char * k) {if (!first) {b += ",";} first = false; b += jstr(k); b += ":";}
  template<class T> J & f(const char * k, T v) {key(k); b += jnum(v); return *this;}
  J & s(const char * k, const std::string & v) {key(k); b += jstr(v); return *this;}
  J & boolean(const char * k, bool v) {key(k); b += v ? "true" : "false"; return *this;}
  J & raw(const char * k, const std::string & v) {key(k); b += v; return *this;}
  template<class It> J & arr(const char * k, It a, It e)
  {
    key(k); b += "[";
    for (It i = a; i != e; ++i) {if (i != a) {b += ",";} b += jnum(*i);}
    b += "]"; return *this;
  }
  std::string str() const {return b + "}";}
};

template<class V> inline std::string jvec(const V & v)
{
  std::string o = "[";
  for (int i = 0; i < v.size(); ++i) {if (i) {o += ",";} o += jnum(static_cast<long double>(v(i)));}
  return o + "]";
}
template<class M> inline std::string jmat(const M & m)
{
  std::string o = "[";
  for (int i = 0; i < m.rows(); ++i) {
    if (i) {o += ",";}
    o += "[";
    for (int j = 0; j < m.cols(); ++j) {
      if (j) {o += ",";} o += jnum(static_cast<long double>(m(i, j)));
    }
    o += "]";
  }
  return o + "]";
}

using Params = std::vector<std::pair<std::string, double>>;

// ------------------------------------------------------------------------------------------
// HyperLogLog (p=16) for distinct counting across shards, plus an exact set while small
// ------------------------------------------------------------------------------------------
struct Distinct
{
  static constexpr int P = 16;
  std::vector<uint8_t> reg = std::vector<uint8_t>(1u << P, 0);
  std::unordered_set<uint64_t> exact;
  bool exact_ok = true;
  static constexpr size_t EXACT_CAP = 100000;
  void add(uint64_t h)
  {
    uint64_t x = h; h = splitmix64(x);
    uint32_t i = h >> (64 - P);
    uint64_t w = (h << P) | (1ULL << (P - 1));
    uint8_t r = static_cast<uint8_t>(__builtin_clzll(w) + 1);
    if (r > reg[i]) {reg[i] = r;}
    if (exact_ok) {exact.insert(h); if (exact.size() > EXACT_CAP) {exact_ok = false; exact.clear();}}
  }
};

// ------------------------------------------------------------------------------------------
// Context
// ------------------------------------------------------------------------------------------
struct Stat {uint64_t n = 0; double worst = 0; std::string worst_case;};

struct Ctx
{
  std::string prop;
  uint64_t seed = 0;
  std::string tier = "quick";
  int shard = 0, nshards = 1;
  int64_t only = -1;
  uint64_t start = 0;
  uint64_t N = 0;
  bool verbose = false;
  FILE * out = nullptr;
  volatile uint64_t * state = nullptr;   // [0]=current case index+1, [1]=cases completed
  uint64_t cur = 0;
  // cases run with the CALLER's rounding direction set to upward / downward / toward zero: every
  // "to rounding" tolerance is widened by tol_scale there (directed rounding doubles the unit
  // roundoff and lets errors accumulate linearly), and the ratios are kept under their own names
  int caller_rounding = FE_TONEAREST;
  long double tol_scale = 1.0L;

  std::map<std::string, uint64_t> cats;
  std::map<std::string, uint64_t> counters;
  std::map<std::string, double> maxima;
  std::map<std::string, Stat> margins;
  std::map<std::string, uint64_t> skips;
  std::map<std::string, uint64_t> viol_count;
  std::map<std::string, std::vector<std::string>> samples;
  Distinct distinct_all, distinct_nt;
  uint64_t evaluations = 0, nontrivial = 0, violations = 0;
  static constexpr uint64_t MAX_VIOL_RECORDS_PER_KIND = 20;

  void cat(const std::string & name) {++cats[name];}
  void count(const std::string & name, uint64_t d = 1) {counters[name] += d;}
  void maxi(const std::string & name, double v) {auto & m = maxima[name]; if (v > m) {m = v;}}
  void skip(const std::string & oracle_reason) {++skips[oracle_reason];}
  void distinct(uint64_t h, bool nontriv)
  {
    distinct_all.add(h);
    if (nontriv) {distinct_nt.add(h); ++nontrivial;}
  }
  // keep up to 3 samples per category
  void sample(const std::string & category, const std::function<std::string()> & mk)
  {
    auto & v = samples[category];
    if (v.size() < 3) {v.push_back(mk());}
  }
  void violation(const std::string & kind, const Params & params, const std::string & witness_json)
  {
    ++violations;
    uint64_t n = ++viol_count[kind];
    if (n > MAX_VIOL_RECORDS_PER_KIND) {return;}
    std::string p = "{";
    for (size_t i = 0; i < params.size(); ++i) {
      if (i) {p += ",";}
      p += jstr(params[i].first) + ":" + jnum(params[i].second);
    }
    if (caller_rounding != FE_TONEAREST) {
      p += std::string(params.empty() ? "" : ",") + "\"caller_rounding_mode\":" + jnum(caller_rounding);
    }
    p += "}";
    fprintf(
      out, "{\"t\":\"viol\",\"kind\":%s,\"case\":%" PRIu64 ",\"params\":%s,\"witness\":%s}\n",
      jstr(kind).c_str(), cur, p.c_str(), witness_json.empty() ? "{}" : witness_json.c_str());
    fflush(out);
    if (verbose) {
      fprintf(stderr, "VIOL kind=%s case=%" PRIu64 " params=%s witness=%s\n", kind.c_str(), cur,
        p.c_str(), witness_json.c_str());
    }
  }
  // records the ratio observed/tol for the oracle; violation if it exceeds 1 or is not finite.
  // returns true when the oracle held.
  bool expect_le(
    const char * oracle, long double observed, long double tol, const char * kind,
    const std::function<Params()> & params, const std::function<std::string()> & witness)
  {
    auto & st = caller_rounding == FE_TONEAREST ? margins[oracle] : margins[std::string(oracle) + "@directed_rounding"];
    ++st.n;
    tol *= tol_scale;
    long double ratio = (tol > 0) ? observed / tol : (observed == 0 ? 0.0L : INFINITY);
    bool ok = std::isfinite(static_cast<double>(observed)) && observed <= tol;
    if (ok) {
      if (ratio > st.worst) {st.worst = static_cast<double>(ratio); st.worst_case = std::to_string(cur);}
      return true;
    }
    J w;
    w.s("oracle", oracle).f("observed", observed).f("tol", tol).raw("detail", witness());
    violation(kind, params(), w.str());
    return false;
  }
  bool expect(
    const char * oracle, bool cond, const char * kind,
    const std::function<Params()> & params, const std::function<std::string()> & witness)
  {
    auto & st = caller_rounding == FE_TONEAREST ? margins[oracle] : margins[std::string(oracle) + "@directed_rounding"];
    ++st.n;
    if (cond) {return true;}
    J w;
    w.s("oracle", oracle).raw("detail", witness());
    violation(kind, params(), w.str());
    return false;
  }
};

inline Ctx *& current_ctx() {static Ctx * c = nullptr; return c;}

inline void crash_handler(int sig)
{
  Ctx * c = current_ctx();
  char b[160];
  int n = snprintf(
    b, sizeof b, "\nWITNESS signal=%d case=%" PRIu64 "\n", sig, c ? c->cur : 0);
  if (n > 0) {ssize_t r = write(2, b, n); (void)r;}
  signal(sig, SIG_DFL);
  raise(sig);
}

struct Sizes {uint64_t quick; uint64_t thorough;};

inline std::string map_json(const std::map<std::string, uint64_t> & m)
{
  J j; for (auto & kv : m) {j.f(kv.first.c_str(), kv.second);} return j.str();
}

using CaseFn = std::function<void (Ctx &, uint64_t)>;
using FinishFn = std::function<void (Ctx &)>;

inline int run(
  int argc, char ** argv, const char * prop, Sizes sizes, const CaseFn & one_case,
  const FinishFn & finish = nullptr)
{
  Ctx c;
  c.prop = prop;
  std::string outpath, statepath;
  int64_t cases = -1;
  double fraction = 1.0;
  bool directed_rounding_cases = true;
  if (const char * e = getenv("VERIF_SEED")) {c.seed = strtoull(e, nullptr, 10);}
  for (int i = 1; i < argc; ++i) {
    std::string a = argv[i];
    auto val = [&]() -> std::string {return (i + 1 < argc) ? argv[++i] : "";};
    if (a == "--seed") {c.seed = strtoull(val().c_str(), nullptr, 10);} else if (a == "--tier") {
      c.tier = val();
    } else if (a == "--shard") {
      std::string v = val(); sscanf(v.c_str(), "%d/%d", &c.shard, &c.nshards);
    } else if (a == "--only") {c.only = strtoll(val().c_str(), nullptr, 10);} else if (a == "--start") {
      c.start = strtoull(val().c_str(), nullptr, 10);
    } else if (a == "--cases") {cases = strtoll(val().c_str(), nullptr, 10);} else if (a == "--fraction") {
      fraction = strtod(val().c_str(), nullptr);
    } else if (a == "--no-directed-rounding") {directed_rounding_cases = false;} else if (a == "--out") {
      outpath = val();
    } else if (a == "--state") {statepath = val();} else if (a == "--verbose") {c.verbose = true;} else {
      fprintf(stderr, "unknown argument %s\n", a.c_str()); return 2;
    }
  }
  c.N = cases >= 0 ? static_cast<uint64_t>(cases) : (c.tier == "thorough" ? sizes.thorough : sizes.quick);
  if (cases < 0 && fraction > 0 && fraction < 1) {
    // a secondary build flavour repeats the first part of the tier's case sequence
    c.N = std::max<uint64_t>(1, static_cast<uint64_t>(static_cast<double>(c.N) * fraction));
  }
  c.out = outpath.empty() ? stdout : fopen(outpath.c_str(), "a");
  if (!c.out) {perror("open out"); return 2;}
  static uint64_t dummy_state[2];
  c.state = dummy_state;
  if (!statepath.empty()) {
    int fd = open(statepath.c_str(), O_RDWR | O_CREAT, 0644);
    if (fd >= 0 && ftruncate(fd, 16) == 0) {
      void * p = mmap(nullptr, 16, PROT_READ | PROT_WRITE, MAP_SHARED, fd, 0);
      if (p != MAP_FAILED) {c.state = static_cast<volatile uint64_t *>(p);}
    }
  }
  current_ctx() = &c;
  for (int s : {SIGABRT, SIGSEGV, SIGFPE, SIGBUS, SIGILL}) {signal(s, crash_handler);}

  uint64_t first = c.start, last = c.N;
  if (c.only >= 0) {first = c.only; last = c.only + 1; c.verbose = true; c.shard = 0; c.nshards = 1;}
  uint64_t done = 0;
  // process-wide state the library has no business changing, captured once and compared after
  // every case (a facility that "borrows" the rounding mode, the flush-to-zero bits, the formatting
  // of the standard streams or the global locale and does not give them back breaks every other
  // facility used afterwards)
  struct ProcessState
  {
    int rounding; unsigned mxcsr_mode; std::ios_base::fmtflags cout_flags, cerr_flags;
    std::streamsize cout_prec, cerr_prec; std::string locale_name;
    static ProcessState now()
    {
      ProcessState p;
      p.rounding = fegetround();
#if defined(__x86_64__) || defined(__i386__)
      p.mxcsr_mode = _mm_getcsr() & 0xFFC0u;      // rounding control, FTZ, DAZ and exception masks (not the sticky flags)
#else
      p.mxcsr_mode = 0;
#endif
      p.cout_flags = std::cout.flags(); p.cerr_flags = std::cerr.flags();
      p.cout_prec = std::cout.precision(); p.cerr_prec = std::cerr.precision();
      p.locale_name = std::locale().name();
      return p;
    }
    bool operator==(const ProcessState & o) const
    {
      // (the formatting state of std::cout / std::cerr is recorded for the witness only: several
      // monitors change it themselves as part of their interference classes)
      return rounding == o.rounding && mxcsr_mode == o.mxcsr_mode && locale_name == o.locale_name;
    }
  };
  const ProcessState state0 = ProcessState::now();
  static const int ERRNO_VALUES[4] = {0, EDOM, ERANGE, EINTR};
  for (uint64_t idx = first; idx < last; ++idx) {
    if (c.only < 0 && static_cast<int>(idx % c.nshards) != c.shard) {continue;}
    c.cur = idx;
    c.state[0] = idx + 1;
    ++c.evaluations;
    // a stale error indicator left by unrelated code of the application: results must not depend on it
    errno = ERRNO_VALUES[(idx / 3) % 4];
    // likewise the sticky floating-point exception flags of the thread (left raised by an earlier
    // log(0) or 0/0 of the application, or all clear)
    static const int FLAG_SETS[4] = {0, FE_DIVBYZERO, FE_INVALID | FE_OVERFLOW, FE_ALL_EXCEPT};
    feclearexcept(FE_ALL_EXCEPT);
    if (FLAG_SETS[(idx / 12) % 4]) {feraiseexcept(FLAG_SETS[(idx / 12) % 4]);}
    // one case in 16 runs with the caller's rounding direction set to a directed mode (interval
    // arithmetic, exact predicates and some DSP code leave it like that): the library is not
    // entitled to assume round-to-nearest around rint/nearbyint/lrint or in its constructors
    static const int DIRECTED[3] = {FE_UPWARD, FE_DOWNWARD, FE_TOWARDZERO};
    static const char * DIRECTED_NAME[3] = {"caller_rounding_upward", "caller_rounding_downward", "caller_rounding_toward_zero"};
    const bool directed = directed_rounding_cases && idx % 16 == 5;
    if (directed) {
      c.caller_rounding = DIRECTED[(idx / 16) % 3]; c.tol_scale = 8.0L; c.cat(DIRECTED_NAME[(idx / 16) % 3]);
      fesetround(c.caller_rounding);
    }
    one_case(c, idx);
    if (directed) {
      const int after = fegetround();
      fesetround(state0.rounding);
      if (after != c.caller_rounding) {
        c.violation("process_state_changed", Params{{"rounding_mode", (double)after}},
          J().s("what", "the caller's rounding direction was not preserved").f("set_by_caller", c.caller_rounding).f("found_afterwards", after).str());
      }
      c.caller_rounding = FE_TONEAREST; c.tol_scale = 1.0L;
    }
    if (!(ProcessState::now() == state0)) {
      const ProcessState n = ProcessState::now();
      c.violation("process_state_changed", Params{{"rounding_mode", (double)n.rounding}, {"mxcsr_mode_bits", (double)n.mxcsr_mode}},
        J().s("what", "rounding mode, MXCSR control bits (rounding control, FTZ, DAZ, exception masks) or the global locale differ from their values at start")
        .f("rounding_before", state0.rounding).f("rounding_after", n.rounding).f("mxcsr_before", state0.mxcsr_mode).f("mxcsr_after", n.mxcsr_mode)
        .f("cout_flags_before", (double)state0.cout_flags).f("cout_flags_after", (double)n.cout_flags)
        .f("cout_precision_after", (double)n.cout_prec).s("locale_after", n.locale_name).str());
      fesetround(state0.rounding);
#if defined(__x86_64__) || defined(__i386__)
      _mm_setcsr((_mm_getcsr() & ~0xFFC0u) | state0.mxcsr_mode);
#endif
      std::locale::global(std::locale::classic());
    }
    c.state[1] = ++done;
  }
  c.state[0] = 0;
  if (finish) {finish(c);}

  // summary record
  J s;
  s.s("t", "summary").s("prop", c.prop).f("seed", c.seed).s("tier", c.tier).f("shard", c.shard)
  .f("nshards", c.nshards).f("first", first).f("last", last).f("evaluations", c.evaluations)
  .f("nontrivial", c.nontrivial).f("violations", c.violations);
  s.raw("categories", map_json(c.cats)).raw("counters", map_json(c.counters))
  .raw("skips", map_json(c.skips)).raw("viol_kinds", map_json(c.viol_count));
  {J m; for (auto & kv : c.maxima) {m.f(kv.first.c_str(), kv.second);} s.raw("maxima", m.str());}
  {
    J m;
    for (auto & kv : c.margins) {
      m.raw(
        kv.first.c_str(),
        J().f("n", kv.second.n).f("worst_ratio", kv.second.worst).s("worst_case", kv.second.worst_case).str());
    }
    s.raw("margins", m.str());
  }
  {
    J m;
    for (auto & kv : c.samples) {
      std::string a = "[";
      for (size_t i = 0; i < kv.second.size(); ++i) {if (i) {a += ",";} a += kv.second[i];}
      m.raw(kv.first.c_str(), a + "]");
    }
    s.raw("samples", m.str());
  }
  auto hex = [](const std::vector<uint8_t> & r) {
      // run-length: registers are small numbers; encode as base-36-ish chars
      std::string o; o.reserve(r.size());
      static const char * A = "0123456789abcdefghijklmnopqrstuvwxyzABCDEFGHIJKLMNOPQRSTUVWXYZ";
      for (uint8_t v : r) {o += A[v > 61 ? 61 : v];}
      return o;
    };
  s.s("hll_all", hex(c.distinct_all.reg)).s("hll_nt", hex(c.distinct_nt.reg));
  s.boolean("exact_ok", c.distinct_all.exact_ok && c.distinct_nt.exact_ok);
  if (c.distinct_all.exact_ok && c.distinct_nt.exact_ok) {
    std::vector<uint64_t> v(c.distinct_nt.exact.begin(), c.distinct_nt.exact.end());
    std::string a = "[";
    for (size_t i = 0; i < v.size(); ++i) {if (i) {a += ",";} a += "\"" + std::to_string(v[i]) + "\"";}
    s.raw("exact_nt", a + "]");
    s.f("exact_all_n", static_cast<uint64_t>(c.distinct_all.exact.size()));
  }
  fprintf(c.out, "%s\n", s.str().c_str());
  fflush(c.out);
  if (c.out != stdout) {fclose(c.out);}
  return 0;
}

// ------------------------------------------------------------------------------------------
// misc numeric helpers
// ------------------------------------------------------------------------------------------
template<class T> inline T epsof() {return std::numeric_limits<T>::epsilon();}
inline uint64_t hash_doubles(std::initializer_list<double> v, double quantum = 0)
{
  uint64_t h = 0x1234567;
  for (double d : v) {
    if (quantum > 0) {d = std::round(d / quantum);}
    uint64_t u; std::memcpy(&u, &d, 8);
    h = mix(h, u);
  }
  return h;
}
inline uint64_t hash_add(uint64_t h, double d) {uint64_t u; std::memcpy(&u, &d, 8); return mix(h, u);}
inline uint64_t hash_addi(uint64_t h, uint64_t u) {return mix(h, u);}

}  // namespace vh
