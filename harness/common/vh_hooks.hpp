// Strong definitions of the library's guarded verification hooks (include in exactly one TU).
#pragma once
#include <atomic>
#include <cstring>

namespace vh
{
struct LoopWatch
{
  unsigned long limit = 10000;
  unsigned long max_iter = 0;
  unsigned long calls = 0;
  unsigned long case_max = 0;   // reset by the harness per call it wants to watch
  bool tripped = false;
  const char * site = "";
  void reset_case() {case_max = 0; tripped = false;}
};
inline LoopWatch & loopwatch() {static LoopWatch w; return w;}
}  // namespace vh

extern "C" int romea_verif_loop_iter_impl(const char * site, unsigned long it)
{
  auto & w = vh::loopwatch();
  ++w.calls;
  if (it > w.max_iter) {w.max_iter = it;}
  if (it > w.case_max) {w.case_max = it;}
  if (it >= w.limit) {w.tripped = true; w.site = site; return 1;}
  return 0;
}
