// Helpers shared by the monitors that work on the eight point types.
#pragma once
#include <Eigen/Dense>
#include <vector>
#include "romea_core_common/pointset/PointSet.hpp"
#include "romea_core_common/pointset/PointTraits.hpp"
#include "vh.hpp"

namespace vhp
{
typedef long double LD;
using MatL = Eigen::Matrix<LD, Eigen::Dynamic, Eigen::Dynamic>;
using VecL = Eigen::Matrix<LD, Eigen::Dynamic, 1>;

template<class P> struct Tr
{
  using S = typename P::Scalar;
  static constexpr int DIM = romea::core::PointTraits<P>::DIM;
  static constexpr int SIZE = romea::core::PointTraits<P>::SIZE;
  static constexpr bool HOMOGENEOUS = SIZE != DIM;
};

// point of type P from Cartesian coordinates (homogeneous points get w = 1)
template<class P, class V> inline P make_point(const V & cart)
{
  P p;
  for (int i = 0; i < Tr<P>::DIM; ++i) {p(i) = static_cast<typename P::Scalar>(cart(i));}
  if (Tr<P>::HOMOGENEOUS) {p(Tr<P>::DIM) = 1;}
  return p;
}

template<class P> inline VecL cart_of(const P & p)
{
  VecL v(Tr<P>::DIM);
  for (int i = 0; i < Tr<P>::DIM; ++i) {v(i) = static_cast<LD>(p(i));}
  return v;
}

// random rotation in long double: 2D angle, 3D axis-angle
inline MatL rotation2(LD a)
{
  MatL R(2, 2);
  R << cosl(a), -sinl(a), sinl(a), cosl(a);
  return R;
}
inline MatL rotation3(const VecL & axis_in, LD a)
{
  VecL k = axis_in / axis_in.norm();
  MatL K(3, 3);
  K << 0, -k(2), k(1), k(2), 0, -k(0), -k(1), k(0), 0;
  MatL R = MatL::Identity(3, 3) + sinl(a) * K + (1 - cosl(a)) * K * K;
  return R;
}
inline VecL random_unit(vh::Rng & r, int dim)
{
  VecL v(dim);
  LD n;
  do {
    for (int i = 0; i < dim; ++i) {v(i) = r.normal();}
    n = v.norm();
  } while (n < 1e-3);
  return v / n;
}
inline MatL random_rotation(vh::Rng & r, int dim, LD angle)
{
  if (dim == 2) {return rotation2(angle);}
  return rotation3(random_unit(r, 3), angle);
}

// Kabsch / Umeyama optimum in long double on Cartesian coordinates.  Returns the (dim+1)x(dim+1)
// matrix; sv gets the singular values of the cross-covariance, `signed_last` the sign applied to
// the last one (+1 / -1).
inline MatL kabsch(
  const std::vector<VecL> & s, const std::vector<VecL> & t, VecL * sv = nullptr,
  int * signed_last = nullptr)
{
  const int d = static_cast<int>(s[0].size());
  const size_t n = s.size();
  VecL sm = VecL::Zero(d), tm = VecL::Zero(d);
  for (size_t i = 0; i < n; ++i) {sm += s[i]; tm += t[i];}
  sm /= static_cast<LD>(n); tm /= static_cast<LD>(n);
  MatL C = MatL::Zero(d, d);
  for (size_t i = 0; i < n; ++i) {C += (s[i] - sm) * (t[i] - tm).transpose();}
  Eigen::JacobiSVD<MatL> svd(C, Eigen::ComputeFullU | Eigen::ComputeFullV);
  MatL U = svd.matrixU(), V = svd.matrixV();
  MatL D = MatL::Identity(d, d);
  int sg = 1;
  if ((V * U.transpose()).determinant() < 0) {D(d - 1, d - 1) = -1; sg = -1;}
  MatL R = V * D * U.transpose();
  MatL H = MatL::Identity(d + 1, d + 1);
  H.block(0, 0, d, d) = R;
  H.block(0, d, d, 1) = tm - R * sm;
  if (sv) {*sv = svd.singularValues();}
  if (signed_last) {*signed_last = sg;}
  return H;
}

inline VecL apply(const MatL & H, const VecL & p)
{
  const int d = static_cast<int>(p.size());
  return H.block(0, 0, d, d) * p + H.block(0, d, d, 1);
}

template<class M> inline MatL to_ld(const M & m)
{
  MatL o(m.rows(), m.cols());
  for (int i = 0; i < m.rows(); ++i) {for (int j = 0; j < m.cols(); ++j) {o(i, j) = static_cast<LD>(m(i, j));}}
  return o;
}

}  // namespace vhp
