// C06  ICP + RANSAC recovers every small displacement of the reference scan.
//
// Ground truth is known by construction.  ICP: test/data/scan2d.txt displaced by (tx, ty, theta)
// inside the envelope |tx|,|ty| <= 0.2, |theta| <= 0.05, identity guess, fresh
// FindRigidTransformationByICP(0.2) (the std the repository's own test uses).  RANSAC: synthetic
// origin-centred correspondence sets with gross outliers, fresh model + Ransac, SVD model.
#include <fenv.h>
#include <fstream>
#include "romea_core_common/transform/estimation/FindRigidTransformationByICP.hpp"
#include "romea_core_common/transform/estimation/RansacRigidTransformationModel.hpp"
#include "vh_points.hpp"

// unmasks the floating-point traps around a library call (sticky flags cleared first so that the
// stale flags every case is entered with cannot fire) and masks them again afterwards
struct TrapScope
{
  bool on;
  TrapScope(vh::Ctx & c, bool enable) : on(enable)
  {
    if (on) {
      c.cat("fp_traps_unmasked_around_library_call");
      feclearexcept(FE_ALL_EXCEPT);
      feenableexcept(FE_DIVBYZERO | FE_INVALID | FE_OVERFLOW);
    }
  }
  void end() {if (on) {fedisableexcept(FE_ALL_EXCEPT); feclearexcept(FE_ALL_EXCEPT); on = false;}}
  ~TrapScope() {end();}
};

using namespace vhp;
using namespace romea::core;

static std::vector<std::pair<double, double>> & scan()
{
  static std::vector<std::pair<double, double>> s;
  if (s.empty()) {
    const char * repo = getenv("VERIF_REPO");
    std::string path = std::string(repo ? repo : "/repo") + "/test/data/scan2d.txt";
    std::ifstream f(path);
    double x, y;
    while (f >> x >> y) {s.emplace_back(x, y);}
    if (s.size() < 100) {fprintf(stderr, "cannot load %s\n", path.c_str()); exit(2);}
  }
  return s;
}

// ------------------------------------------------------------------------------------------ ICP
template<class P>
static void icp_case(vh::Ctx & c, const char * tname, const char * cat, double tx, double ty, double th)
{
  using S = typename P::Scalar;
  const auto & sc = scan();
  PointSet<P> src(sc.size()), tgt(sc.size());
  const double ct = std::cos(th), st = std::sin(th);
  for (size_t i = 0; i < sc.size(); ++i) {
    VecL a(2), b(2);
    a << sc[i].first, sc[i].second;
    b << ct * sc[i].first - st * sc[i].second + tx, st * sc[i].first + ct * sc[i].second + ty;
    src[i] = make_point<P>(a); tgt[i] = make_point<P>(b);
  }
  Eigen::Matrix<S, 3, 3> guess = Eigen::Matrix<S, 3, 3>::Identity();
  FindRigidTransformationByICP<P> icp(S(0.2));
  // one registration in four runs the way a node being debugged runs it: division-by-zero, invalid
  // and overflow exceptions unmasked (feenableexcept), so a pole error or 0/0 inside the library is a
  // SIGFPE and not a silently absorbed inf/NaN
  TrapScope traps(c, c.cur % 4 == 1);
  bool ok = icp.find(src, tgt, guess);
  traps.end();
  Eigen::Matrix<double, 3, 3> T = Eigen::Matrix<double, 3, 3>::Identity();
  T(0, 0) = ct; T(0, 1) = -st; T(1, 0) = st; T(1, 1) = ct; T(0, 2) = tx; T(1, 2) = ty;
  Eigen::Matrix<double, 3, 3> H = icp.getTransformation().template cast<double>();
  double err = (H - T).norm();
  auto params = [&]() {
      return vh::Params{{"tx", tx}, {"ty", ty}, {"theta", th}, {"atx", std::fabs(tx)}, {"aty", std::fabs(ty)},
        {"atheta", std::fabs(th)}, {"err", err}, {"homogeneous", (double)Tr<P>::HOMOGENEOUS},
        {"is_float", (double)(sizeof(S) == 4)}};
    };
  auto wit = [&]() {
      return vh::J().s("part", "icp").s("type", tname).s("category", cat).f("tx", tx).f("ty", ty).f("theta", th)
             .boolean("find_returned", ok).f("frobenius_error", err).raw("estimated", vh::jmat(H)).str();
    };
  c.sample(std::string("icp_") + cat, wit);
  if (getenv("C06_SURVEY")) {
    if (!ok || err > 0.015) {
      fprintf(c.out, "{\"t\":\"survey\",\"ok\":%d,\"err\":%.5f,\"tx\":%.6f,\"ty\":%.6f,\"theta\":%.6f,\"hom\":%d,\"flt\":%d}\n",
        (int)ok, err, tx, ty, th, (int)Tr<P>::HOMOGENEOUS, (int)(sizeof(S) == 4));
    }
    c.count(ok ? (err > 0.015 ? "survey_inaccurate" : "survey_ok") : "survey_not_converged");
    c.maxi("survey_worst_error_when_ok", ok ? err : 0);
    return;
  }
  c.expect("icp.reports_success", ok, "icp_not_converged", params, wit);
  if (ok) {
    c.expect_le("icp.frobenius_error", err, 0.015, "icp_inaccurate", params, wit);
  } else {
    c.maxi("icp_error_when_not_converged", err);
    c.count("icp_not_converged_total");
    // extent of the non-convergence set, for keeping the known-finding region honest
    c.maxi("notconv_max_0.2_minus_tx", 0.2 - tx);
    c.maxi("notconv_max_0.2_minus_ty", 0.2 - ty);
    c.maxi("notconv_max_0.05_minus_theta", 0.05 - th);
  }
}

static void icp_dispatch(vh::Ctx & c, vh::Rng & r, uint64_t idx)
{
  double tx, ty, th;
  const char * cat;
  const double TL = 0.2, RL = 0.05;
  if (idx == 0 || idx == 27) {
    cat = "zero_displacement"; tx = ty = th = 0;
  } else if (idx <= 26) {
    // the 26 face / edge / corner points of the envelope box
    int k = (int)idx; if (k >= 14) {++k;}          // skip the centre (13)
    k -= 1;
    // k in 0..26 except 13
    int a = k % 3 - 1, b = (k / 3) % 3 - 1, d = (k / 9) % 3 - 1;
    cat = "envelope_face_edge_corner"; tx = a * TL; ty = b * TL; th = d * RL;
  } else if (idx <= 30) {
    // fixed witnesses inside the known non-convergence corner (+,+,+)
    static const double W[3][3] = {{0.2, 0.2, 0.05}, {0.19, 0.195, 0.048}, {0.185, 0.19, 0.0475}};
    cat = "known_corner_witness"; tx = W[idx - 28][0]; ty = W[idx - 28][1]; th = W[idx - 28][2];
  } else if (idx == 31) {
    // fixed witness of the second recorded finding: success reported, pose error 0.035 (homogeneous points)
    cat = "known_inaccurate_witness"; tx = -0.19401195609813404; ty = -0.19935039974259092; th = -0.04948168115956874;
  } else if (getenv("C06_SURVEY")) {
    // calibration aid (not used by the registered tiers): boundary / corner heavy sampling of the whole envelope
    cat = "survey";
    auto edge = [&](double L) {return r.sign() * L * (1 - 0.2 * r.uni());};
    tx = r.coin(0.65) ? edge(TL) : r.uni(-TL, TL);
    ty = r.coin(0.65) ? edge(TL) : r.uni(-TL, TL);
    th = r.coin(0.65) ? edge(RL) : r.uni(-RL, RL);
    if (getenv("C06_SURVEY_CORNERS")) {
      tx = r.sign() * TL * (1 - 0.15 * r.uni()); ty = r.sign() * TL * (1 - 0.15 * r.uni()); th = r.sign() * RL * (1 - 0.15 * r.uni());
    }
  } else {
    int m = (int)r.range(0, 9);
    if (m < 4) {
      cat = "uniform_interior"; tx = r.uni(-TL, TL); ty = r.uni(-TL, TL); th = r.uni(-RL, RL);
    } else if (m < 8) {
      cat = "boundary_biased";
      auto edge = [&](double L) {return r.sign() * L * (1 - 0.15 * r.uni() * r.uni());};
      tx = r.coin(0.7) ? edge(TL) : r.uni(-TL, TL);
      ty = r.coin(0.7) ? edge(TL) : r.uni(-TL, TL);
      th = r.coin(0.7) ? edge(RL) : r.uni(-RL, RL);
    } else {
      // around the boundary of the known non-convergence region, to keep its description honest
      cat = "around_known_corner"; tx = r.uni(0.12, TL); ty = r.uni(0.12, TL); th = r.uni(0.03, RL);
    }
  }
  if (const char * pt = getenv("C06_POINT")) {     // calibration aid: replay one displacement
    sscanf(pt, "%lf,%lf,%lf", &tx, &ty, &th); cat = "survey";
  }
  c.cat(std::string("icp_") + cat);
  bool nontrivial = std::hypot(tx, ty) > 0.05 || std::fabs(th) > 0.01;
  // representation: both for the fixed cases, alternating otherwise; float only in the thorough tier
  int rep = idx <= 30 ? 2 : (idx == 31 ? 1 : (int)r.range(0, 1));
  bool use_float = c.tier == "thorough" && idx > 31 && r.coin(0.25);
  if (getenv("C06_SURVEY")) {use_float = std::string(getenv("C06_SURVEY")) == "float";}
  c.distinct(vh::hash_doubles({1.0, tx, ty, th, (double)rep, (double)use_float}), nontrivial);
  if (use_float) {
    c.cat("icp_float");
    if (rep == 0) {icp_case<Eigen::Vector2f>(c, "Cartesian2f", cat, tx, ty, th);} else {
      icp_case<HomogeneousCoordinates2f>(c, "Homogeneous2f", cat, tx, ty, th);
    }
    return;
  }
  if (rep == 0 || rep == 2) {c.cat("icp_Cartesian2d"); icp_case<Eigen::Vector2d>(c, "Cartesian2d", cat, tx, ty, th);}
  if (rep == 1 || rep == 2) {c.cat("icp_Homogeneous2d"); icp_case<HomogeneousCoordinates2d>(c, "Homogeneous2d", cat, tx, ty, th);}
}

// --------------------------------------------------------------------------------------- RANSAC
template<class P>
static void ransac_case(vh::Ctx & c, vh::Rng & r, const char * tname)
{
  using S = typename P::Scalar;
  const int D = Tr<P>::DIM;
  int n = (int)r.range(40, 400);
  double sigma = r.uni(0.02, 0.06);
  int fk = (int)r.range(0, 3);
  double frac = fk == 0 ? 0.0 : fk == 1 ? r.uni(0.0, 0.05) : r.uni(0.05, 0.30);
  if (r.coin(0.1)) {frac = 0.30;}
  int nout = (int)std::floor(frac * n);
  LD ang = r.uni(-0.2, 0.2);
  MatL R = random_rotation(r, D, ang);
  VecL t = random_unit(r, D) * (LD)(r.coin(0.1) ? 0.5 : r.uni(0, 0.5));
  PointSet<P> Sx(n), Tg(n);
  std::vector<Correspondence> C(n);
  const bool coherent = nout > 0 && r.coin(0.35);
  const VecL common_dir = random_unit(r, D);
  const LD common_len = sigma * r.uni(10.0, 50.0) * 1.001;
  std::vector<int> order(n);
  for (int i = 0; i < n; ++i) {order[i] = i;}
  for (int i = n; i > 1; --i) {std::swap(order[i - 1], order[r.range(0, i - 1)]);}     // outliers anywhere in the list
  for (int i = 0; i < n; ++i) {
    VecL s(D);
    for (int k = 0; k < D; ++k) {s(k) = r.uni(-10, 10);}
    VecL q = R * s + t;
    for (int k = 0; k < D; ++k) {q(k) += 0.3 * sigma * r.normal() / std::sqrt((double)D);}
    if (order[i] < nout) {
      // gross outliers: independent directions, or (coherent mode) one common displacement, i.e. a
      // second mutually consistent rigid motion competing with the true one
      q += (coherent ? common_dir * common_len : VecL(random_unit(r, D) * (LD)(sigma * r.uni(10.0, 30.0) * 1.001)));
    }
    Sx[i] = make_point<P>(s); Tg[i] = make_point<P>(q);
    C[i] = Correspondence(i, i);
  }
  // pairing layout: a correspondence is a pair of indexes and nothing requires them to be equal.
  // 0: index aligned (what ICP hands over); 1: the target cloud is stored in its own order, so
  // pair i is (i, perm[i]); 2: as 1 and the list of pairs itself is in arbitrary order
  // (drawn from a separate stream so that the point sets of a case do not depend on the layout)
  vh::Rng rl(c.seed, c.cur, 7);
  const int layout = (int)rl.range(0, 3);
  if (layout == 3) {
    // 3: the two clouds hold more points than there are pairs (unmatched points anywhere in the
    // same 20 m box) and the pairs name arbitrary positions in them, in arbitrary list order
    const int N = n + (int)rl.range(1, 2 * n);
    std::vector<int> si(N), ti(N);
    for (int i = 0; i < N; ++i) {si[i] = i; ti[i] = i;}
    for (int i = N; i > 1; --i) {std::swap(si[i - 1], si[rl.range(0, i - 1)]); std::swap(ti[i - 1], ti[rl.range(0, i - 1)]);}
    PointSet<P> Sb(N), Tb(N);
    for (int i = 0; i < N; ++i) {
      VecL u(D), v(D);
      for (int k = 0; k < D; ++k) {u(k) = rl.uni(-10, 10); v(k) = rl.uni(-10, 10);}
      Sb[i] = make_point<P>(u); Tb[i] = make_point<P>(v);
    }
    for (int i = 0; i < n; ++i) {Sb[si[i]] = Sx[i]; Tb[ti[i]] = Tg[i]; C[i] = Correspondence(si[i], ti[i]);}
    for (int i = n; i > 1; --i) {std::swap(C[i - 1], C[rl.range(0, i - 1)]);}
    Sx = Sb; Tg = Tb;
  } else if (layout >= 1) {
    std::vector<int> perm(n);
    for (int i = 0; i < n; ++i) {perm[i] = i;}
    for (int i = n; i > 1; --i) {std::swap(perm[i - 1], perm[rl.range(0, i - 1)]);}
    PointSet<P> Tp(n);
    for (int i = 0; i < n; ++i) {Tp[perm[i]] = Tg[i]; C[i] = Correspondence(i, perm[i]);}
    Tg = Tp;
    if (layout == 2) {
      for (int i = n; i > 1; --i) {std::swap(C[i - 1], C[rl.range(0, i - 1)]);}
    }
  }
  RansacRigidTransformationModel<P> model;
  Ransac ransac(&model, sigma);
  model.loadPointSets(&Sx, &Tg);
  model.loadCorrespondences(&C, n);
  model.loadTargetNormalSet(nullptr);
  TrapScope traps(c, c.cur % 4 == 1);
  bool ok = ransac.estimateModel();
  traps.end();
  MatL Ttrue = MatL::Identity(D + 1, D + 1);
  Ttrue.block(0, 0, D, D) = R; Ttrue.block(0, D, D, 1) = t;
  MatL H = to_ld(model.getTransformation());
  double err = (double)(H - Ttrue).norm();
  double rmse = model.getRootMeanSquareError();
  auto params = [&]() {
      return vh::Params{{"dim", (double)D}, {"n", (double)n}, {"sigma", sigma}, {"outlier_fraction", (double)nout / n},
        {"is_float", (double)(sizeof(S) == 4)}, {"homogeneous", (double)Tr<P>::HOMOGENEOUS}};
    };
  auto wit = [&]() {
      return vh::J().s("part", "ransac").s("type", tname).f("pairs", n).f("sigma", sigma).f("outliers", nout).f("pairing_layout", layout).boolean("outliers_share_one_displacement", coherent)
             .f("angle", ang).raw("t", vh::jvec(t)).boolean("estimateModel_returned", ok).f("frobenius_error", err)
             .f("consensus_rmse", rmse).str();
    };
  c.cat(std::string("ransac_") + tname);
  if (coherent) {c.cat("ransac_coherent_outlier_group");}
  c.cat(layout == 0 ? "ransac_pairs_index_aligned" : (layout == 1 ? "ransac_pairs_permuted_target" : (layout == 2 ? "ransac_pairs_permuted_and_shuffled_list" : "ransac_pairs_inside_larger_clouds")));
  if (layout >= 1 && nout == 0) {c.cat("ransac_permuted_pairs_no_outliers");}
  c.cat(nout == 0 ? "ransac_no_outliers" : ((double)nout / n < 0.05 ? "ransac_outliers_lt_5pct" : "ransac_outliers_5_to_30pct"));
  c.distinct(vh::hash_doubles({2.0, (double)D, (double)n, sigma, (double)nout, (double)ang, (double)t(0)}), (double)nout / n >= 0.05);
  c.sample(std::string("ransac_") + (D == 2 ? "2D" : "3D"), wit);
  if (!c.expect("ransac.estimation_succeeds", ok, "ransac_failed", params, wit)) {return;}
  c.expect_le("ransac.frobenius_error", err, 0.015, "ransac_inaccurate", params, wit);
  c.expect("ransac.consensus_error_below_noise_level", rmse < sigma, "ransac_rmse_above_sigma", params, wit);
}

static void one_case(vh::Ctx & c, uint64_t idx)
{
  vh::Rng r(c.seed, idx);
  uint64_t z = idx * 0x9E3779B97F4A7C15ULL + 12345;
  bool is_icp = idx <= 31 || (vh::splitmix64(z) % 8 == 0) || getenv("C06_SURVEY");
  if (is_icp) {icp_dispatch(c, r, idx); return;}
  switch (r.range(0, 7)) {
    case 0: ransac_case<Eigen::Vector2d>(c, r, "Cartesian2d"); break;
    case 1: ransac_case<Eigen::Vector3d>(c, r, "Cartesian3d"); break;
    case 2: ransac_case<HomogeneousCoordinates2d>(c, r, "Homogeneous2d"); break;
    case 3: ransac_case<HomogeneousCoordinates3d>(c, r, "Homogeneous3d"); break;
    case 4: ransac_case<Eigen::Vector2f>(c, r, "Cartesian2f"); break;
    case 5: ransac_case<Eigen::Vector3f>(c, r, "Cartesian3f"); break;
    case 6: ransac_case<HomogeneousCoordinates2f>(c, r, "Homogeneous2f"); break;
    default: ransac_case<HomogeneousCoordinates3f>(c, r, "Homogeneous3f"); break;
  }
}

int main(int argc, char ** argv)
{
  return vh::run(argc, argv, "C06", {80000, 400000}, one_case);
}
