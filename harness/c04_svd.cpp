// C04  Rigid registration from correspondences (closed form, SVD) returns the proper rigid motion.
//
// Oracle: Kabsch/Umeyama with determinant correction in long double on exactly the inputs the
// library received; residual optimality checked directly; known ground truth for exact data.
#include <numeric>
#include "romea_core_common/transform/estimation/FindRigidTransformationBySVD.hpp"
#include "vh_points.hpp"

using namespace vhp;
using romea::core::Correspondence;
using romea::core::PointSet;
using romea::core::PreconditionedPointSet;
using romea::core::FindRigidTransformationBySVD;

struct CaseData
{
  int dim; bool is_float; int n;          // n correspondences
  std::string shape, corr_kind;
  LD spread, offset_norm, angle, tnorm, noise, scale; bool reuse_preconditioned_sets = false;
  std::vector<VecL> src_full, tgt_full;   // as generated (long double), before rounding
  std::vector<Correspondence> corr, corr_perm;
  MatL Rtrue; VecL ttrue;
};

struct Variant {const char * name; MatL H;};

template<class P>
static std::vector<Variant> run_library(const CaseData & cd, std::vector<VecL> & s_used, std::vector<VecL> & t_used)
{
  using S = typename P::Scalar;
  PointSet<P> src(cd.src_full.size()), tgt(cd.tgt_full.size());
  for (size_t i = 0; i < src.size(); ++i) {src[i] = make_point<P>(cd.src_full[i]);}
  for (size_t i = 0; i < tgt.size(); ++i) {tgt[i] = make_point<P>(cd.tgt_full[i]);}
  // compact, aligned copies in correspondence order
  PointSet<P> srcA(cd.corr.size()), tgtA(cd.corr.size());
  s_used.clear(); t_used.clear();
  for (size_t k = 0; k < cd.corr.size(); ++k) {
    srcA[k] = src[cd.corr[k].sourcePointIndex];
    tgtA[k] = tgt[cd.corr[k].targetPointIndex];
    s_used.push_back(cart_of(srcA[k]));
    t_used.push_back(cart_of(tgtA[k]));
  }
  FindRigidTransformationBySVD<P> est;
  std::vector<Variant> out;
  out.push_back({"indexed", to_ld(est.find(src, tgt, cd.corr))});
  out.push_back({"indexed_permuted", to_ld(est.find(src, tgt, cd.corr_perm))});
  out.push_back({"aligned", to_ld(est.find(srcA, tgtA))});
  S sc = static_cast<S>(cd.scale);
  // history on the helper objects: in half of the cases the preconditioned sets are re-used objects
  // that held another preconditioning (scale + translation from a PointSetPreconditioner) before
  PreconditionedPointSet<P> psrc, ptgt, psrcA, ptgtA;
  if (cd.reuse_preconditioned_sets) {
    romea::core::PointSetPreconditioner<P> pcs(src), pct(tgt);
    psrc.compute(src, pcs); ptgt.compute(tgt, pct); psrcA.compute(srcA, pcs); ptgtA.compute(tgtA, S(0.5) * sc, pct.getTranslation());
  }
  psrc.compute(src, sc); ptgt.compute(tgt, sc); psrcA.compute(srcA, sc); ptgtA.compute(tgtA, sc);
  out.push_back({"precond_indexed", to_ld(est.find(psrc, ptgt, cd.corr))});
  out.push_back({"precond_aligned", to_ld(est.find(psrcA, ptgtA))});
  return out;
}

static void gen_case(vh::Rng & r, CaseData & cd)
{
  const int d = cd.dim;
  int nk = r.range(0, 9);
  cd.n = nk == 0 ? 3 : nk == 1 ? (int)r.range(3, 6) : nk <= 6 ? (int)r.range(4, 60) : (int)r.range(60, 500);
  cd.spread = r.logu(0.1, 100.0);
  static const char * shapes3[] = {"generic", "coplanar_axis", "coplanar_rotated", "nearly_coplanar",
    "clustered", "two_cluster", "generic"};
  static const char * shapes2[] = {"generic", "clustered", "two_cluster", "elongated", "generic"};
  cd.shape = d == 3 ? shapes3[r.range(0, 6)] : shapes2[r.range(0, 4)];
  if (d == 3 && cd.n == 3) {cd.shape = "three_points";}
  std::vector<VecL> base;
  for (int attempt = 0; attempt < 20; ++attempt) {
    base.assign(cd.n, VecL::Zero(d));
    MatL Rp = random_rotation(r, d, r.uni(0, 6.28));
    LD thick = cd.shape == "nearly_coplanar" ? r.logu(1e-12, 1e-3) : 0;
    int nclus = cd.shape == "clustered" ? (int)r.range(3, 6) : 2;
    std::vector<VecL> centres;
    for (int k = 0; k < nclus; ++k) {
      VecL c(d); for (int i = 0; i < d; ++i) {c(i) = r.normal() * cd.spread;} centres.push_back(c);
    }
    for (int i = 0; i < cd.n; ++i) {
      VecL p(d);
      for (int k = 0; k < d; ++k) {p(k) = r.normal() * cd.spread;}
      if (cd.shape == "coplanar_axis") {
        // exactly representable plane: z == 0 and dyadic in-plane coordinates
        for (int k = 0; k < d; ++k) {p(k) = std::ldexp(std::round(std::ldexp((double)p(k), 6)), -6);}
        p(d - 1) = 0;
      } else if (cd.shape == "coplanar_rotated") {
        p(d - 1) = 0; p = Rp * p;
      } else if (cd.shape == "nearly_coplanar") {
        p(d - 1) = r.normal() * thick * cd.spread; p = Rp * p;
      } else if (cd.shape == "clustered" || cd.shape == "two_cluster") {
        p = centres[i % nclus] + p * (LD)(cd.shape == "clustered" ? 0.01 : 0.05);
      } else if (cd.shape == "elongated") {
        p(1) *= r.logu(2e-3, 1.0); p = Rp * p;
      }
      base[i] = p;
    }
    // collinearity exclusion on the centred source (second singular value >= 1e-3 of the first)
    VecL m = VecL::Zero(d); for (auto & p : base) {m += p;} m /= (LD)cd.n;
    MatL A(cd.n, d); for (int i = 0; i < cd.n; ++i) {A.row(i) = (base[i] - m).transpose();}
    Eigen::JacobiSVD<MatL> svd(A);
    if (svd.singularValues()(1) >= (LD)2e-3 * svd.singularValues()(0)) {
      for (auto & p : base) {p -= m;}
      break;
    }
    cd.shape = "generic";
  }
  // offset, motion, noise
  int ok = r.range(0, 4);
  cd.offset_norm = ok == 0 ? 0 : ok == 1 ? r.logu(0.01, 1.0) * cd.spread : ok == 2 ? r.logu(1.0, 100.0) * cd.spread : r.logu(100.0, 1e5) * cd.spread;
  VecL off = random_unit(r, d) * cd.offset_norm;
  int ak = r.range(0, 9);
  const LD PI_L = 3.14159265358979323846264338327950288L;
  cd.angle = ak == 0 ? 0 : ak == 1 ? PI_L : ak == 2 ? PI_L - r.logu(1e-9, 1e-2) : ak == 3 ? r.logu(1e-9, 1e-2) :
    r.uni(0, (double)PI_L);
  if (d == 2 && r.coin()) {cd.angle = -cd.angle;}
  cd.Rtrue = random_rotation(r, d, cd.angle);
  int tk = r.range(0, 4);
  cd.tnorm = tk == 0 ? 0 : r.logu(1e-3, 100.0) * cd.spread;
  if (tk == 1) {cd.tnorm = r.logu(1e-3, 100.0);}
  cd.ttrue = random_unit(r, d) * cd.tnorm;
  int nz = r.range(0, 19);
  cd.noise = nz < 12 ? 0 : nz < 17 ? r.logu(1e-6, 1e-2) * cd.spread : r.logu(0.05, 0.5) * cd.spread;
  cd.scale = r.coin(0.2) ? 1.0 : r.logu(1e-3, 1e3);
  cd.reuse_preconditioned_sets = r.coin();
  // correspondences: identity / permuted / subset with distractors
  int ck = r.range(0, 3);
  const bool far_rest = ck == 3;          // subset whose points form a tight cluster far from the other points
  if (ck == 3) {ck = 2;}
  cd.corr_kind = ck == 0 ? "identity" : ck == 1 ? "permuted" : (far_rest ? "subset_far_from_rest" : "subset");
  size_t extra_s = ck == 2 ? r.range(1, 20) : 0, extra_t = ck == 2 ? r.range(1, 20) : 0;
  size_t ns = cd.n + extra_s, nt = cd.n + extra_t;
  std::vector<size_t> ps(ns), pt(nt);
  std::iota(ps.begin(), ps.end(), 0); std::iota(pt.begin(), pt.end(), 0);
  auto shuffle = [&](std::vector<size_t> & v) {
      for (size_t i = v.size(); i > 1; --i) {std::swap(v[i - 1], v[r.range(0, i - 1)]);}
    };
  if (ck >= 1) {shuffle(pt);}
  if (ck == 2) {shuffle(ps);}
  cd.src_full.assign(ns, VecL::Zero(d)); cd.tgt_full.assign(nt, VecL::Zero(d));
  const LD rest_scale = far_rest ? (LD)r.logu(1e2, 1e6) : 3.0L;   // where the un-corresponded points lie
  for (size_t i = 0; i < ns; ++i) {
    VecL p(d); for (int k = 0; k < d; ++k) {p(k) = r.normal() * cd.spread * rest_scale;}
    cd.src_full[i] = p + off;
  }
  for (size_t i = 0; i < nt; ++i) {
    VecL p(d); for (int k = 0; k < d; ++k) {p(k) = r.normal() * cd.spread * rest_scale;}
    cd.tgt_full[i] = p - off;
  }
  cd.corr.clear();
  for (int i = 0; i < cd.n; ++i) {
    VecL s = base[i] + off;
    VecL nzv = VecL::Zero(d);
    if (cd.noise > 0) {for (int k = 0; k < d; ++k) {nzv(k) = r.normal() * cd.noise;}}
    cd.src_full[ps[i]] = s;
    cd.tgt_full[pt[i]] = cd.Rtrue * s + cd.ttrue + nzv;
    cd.corr.emplace_back(ps[i], pt[i]);
  }
  if (ck >= 1) {   // list order independent of index order
    for (size_t i = cd.corr.size(); i > 1; --i) {std::swap(cd.corr[i - 1], cd.corr[r.range(0, i - 1)]);}
  }
  cd.corr_perm = cd.corr;
  for (size_t i = cd.corr_perm.size(); i > 1; --i) {std::swap(cd.corr_perm[i - 1], cd.corr_perm[r.range(0, i - 1)]);}
}

template<class S, int DIM>
static void run_case(vh::Ctx & c, CaseData & cd)
{
  using PC = Eigen::Matrix<S, DIM, 1>;
  using PH = typename std::conditional<DIM == 2, romea::core::HomogeneousCoordinates2<S>,
      romea::core::HomogeneousCoordinates3<S>>::type;
  const int d = DIM;
  const LD eps = std::numeric_limits<S>::epsilon();

  std::vector<VecL> s_used, t_used, s2, t2;
  std::vector<Variant> vc = run_library<PC>(cd, s_used, t_used);
  std::vector<Variant> vhm = run_library<PH>(cd, s2, t2);
  for (auto & v : vhm) {vc.push_back({v.name, v.H});}

  // ---- oracle on exactly the (rounded) inputs
  VecL sv; int sg = 1;
  MatL Hs = kabsch(s_used, t_used, &sv, &sg);
  VecL sm = VecL::Zero(d), tm = VecL::Zero(d);
  for (size_t i = 0; i < s_used.size(); ++i) {sm += s_used[i]; tm += t_used[i];}
  sm /= (LD)s_used.size(); tm /= (LD)t_used.size();
  LD spread = 0;
  MatL A(s_used.size(), d);
  for (size_t i = 0; i < s_used.size(); ++i) {A.row(i) = (s_used[i] - sm).transpose(); spread += (s_used[i] - sm).squaredNorm();}
  spread = sqrtl(spread / s_used.size());
  LD spread_t = 0;
  for (size_t i = 0; i < t_used.size(); ++i) {spread_t += (t_used[i] - tm).squaredNorm();}
  spread_t = sqrtl(spread_t / t_used.size());
  Eigen::JacobiSVD<MatL> psvd(A);
  LD amp = d == 3 ? psvd.singularValues()(0) / psvd.singularValues()(1) : 1.0L;
  LD off = std::max(sm.norm(), tm.norm());
  LD mag = off + spread + cd.ttrue.norm();
  // conditioning of the centred quantities: coordinates of magnitude `mag` are rounded at eps*mag,
  // i.e. eps*mag/spread relative to the extent that determines the rotation (linear, not quadratic:
  // the library centres the data before forming the cross-covariance)
  LD ratio = mag / spread;
  LD res_star = 0;
  for (size_t i = 0; i < s_used.size(); ++i) {res_star += (apply(Hs, s_used[i]) - t_used[i]).squaredNorm();}
  LD denom = sv(d - 2) + sg * sv(d - 1);
  LD cond = denom > 0 ? sv(0) / denom : INFINITY;

  auto params = [&]() {
      return vh::Params{{"dim", (double)d}, {"is_float", (double)cd.is_float}, {"n", (double)cd.n},
        {"noise_rel", (double)(cd.noise / cd.spread)}, {"angle", (double)cd.angle},
        {"offset_over_spread", (double)(off / spread)}, {"scale", (double)cd.scale}, {"amp", (double)amp},
        {"thin_ratio", (double)(psvd.singularValues()(d - 1) / psvd.singularValues()(0))}};
    };

  const bool exact = cd.noise == 0;
  // rounding constant: means and covariances are sequential sums over n points, whose error grows
  // like sqrt(n) eps (worst case n eps); 64 eps was exceeded by 2 % for n = 353 float points 1750
  // extents from the origin (thorough seed 0), hence the n-dependence
  const LD Kn = 16 * (4 + sqrtl((LD)s_used.size()));
  LD rel_round = Kn * eps * amp;            // mapping error relative to mag
  // error of the rotation matrix itself: the rotation about the long axis of a thin 3D cloud is fixed
  // by the small singular values of the cross-covariance (squares of the extents), hence amp^2
  LD rel_rot = Kn * eps * amp * amp * ratio;
  if (exact && rel_round >= 1e-2L) {c.skip("exact:vacuous_tolerance"); }
  LD tol_exact = std::max(cd.is_float ? 0.0L : 1e-9L, rel_round) * mag;
  LD rel_cmp = Kn * eps * std::max<LD>(cond, amp);
  bool cmp_ok = std::isfinite((double)rel_cmp) && rel_cmp < 1e-2L;
  if (!exact && !cmp_ok) {c.skip("noisy:vacuous_tolerance_or_degenerate_optimum");}
  LD tol_cmp = rel_cmp * mag;

  for (size_t k = 0; k < vc.size(); ++k) {
    const MatL & H = vc[k].H;
    std::string vname = std::string(k >= vc.size() / 2 ? "hom_" : "cart_") + vc[k].name;
    auto wit = [&]() {
        return vh::J().s("variant", vname).s("shape", cd.shape).s("corr", cd.corr_kind).f("n", cd.n)
               .f("spread", cd.spread).f("noise", cd.noise).f("angle", cd.angle).f("scale", cd.scale)
               .raw("H", vh::jmat(H)).raw("H_oracle", vh::jmat(Hs)).str();
      };
    MatL R = H.block(0, 0, d, d);
    bool fin = H.allFinite();
    if (!c.expect("finite", fin, "nonfinite", params, wit)) {continue;}
    // structure: last row (0..0 1)
    LD lastrow = 0;
    for (int j = 0; j < d; ++j) {lastrow = std::max(lastrow, fabsl(H(d, j)));}
    lastrow = std::max(lastrow, fabsl(H(d, d) - 1));
    c.expect_le("homogeneous_last_row", lastrow, 0.0L, "bad_last_row", params, wit);
    // proper rotation (design calibration: within 22 eps; bound 64 eps)
    LD ortho = (R.transpose() * R - MatL::Identity(d, d)).cwiseAbs().maxCoeff();
    LD det = R.determinant();
    c.expect_le("orthonormal", ortho, 64 * eps, "not_orthonormal", params, wit);
    c.expect("det_positive", det > 0, "improper_rotation", params, wit);
    c.expect_le("det_is_one", fabsl(fabsl(det) - 1), 64 * eps, "not_orthonormal", params, wit);
    if (exact) {
      if (rel_round < 1e-2L) {
        LD worst = 0;
        for (size_t i = 0; i < s_used.size(); ++i) {
          worst = std::max(worst, (apply(H, s_used[i]) - t_used[i]).norm());
        }
        c.expect_le("exact.maps_source_onto_target", worst, tol_exact, "mapping_error", params, wit);
        // the motion itself, measured on the cloud: H vs the true (R, t)
        MatL Ht = MatL::Identity(d + 1, d + 1);
        Ht.block(0, 0, d, d) = cd.Rtrue; Ht.block(0, d, d, 1) = cd.ttrue;
        LD w2 = 0;
        for (size_t i = 0; i < s_used.size(); ++i) {w2 = std::max(w2, (apply(H, s_used[i]) - apply(Ht, s_used[i])).norm());}
        c.expect_le("exact.recovers_motion_on_cloud", w2, 2 * tol_exact, "motion_error", params, wit);
        // and as a matrix: rotation to 1e-9 (stated; rounding-limited for float and for clouds far
        // from the origin), translation to the same relative to the magnitudes involved
        if (rel_rot < 1e-2L) {
          LD tol_rot = std::max(cd.is_float ? 0.0L : 1e-9L, rel_rot);
          c.expect_le("exact.recovers_rotation_matrix", (R - cd.Rtrue).norm(), tol_rot, "motion_error", params, wit);
          c.expect_le("exact.recovers_translation", (H.block(0, d, d, 1) - cd.ttrue).norm(), tol_rot * (off + spread) + 2 * tol_exact,
            "motion_error", params, wit);
        } else {
          c.skip("exact_rotation:vacuous_tolerance");
        }
      }
    } else {
      LD res = 0, worst = 0;
      for (size_t i = 0; i < s_used.size(); ++i) {
        res += (apply(H, s_used[i]) - t_used[i]).squaredNorm();
        worst = std::max(worst, (apply(H, s_used[i]) - apply(Hs, s_used[i])).norm());
      }
      if (cmp_ok) {
        c.expect_le("noisy.agrees_with_kabsch_on_cloud", worst, tol_cmp, "not_optimal", params, wit);
        if (rel_cmp * ratio < 1e-2L) {
          c.expect_le("noisy.rotation_matrix_agrees_with_kabsch", (R - Hs.block(0, 0, d, d)).norm(), rel_cmp * ratio, "not_optimal", params, wit);
        }
      }
      // Residual optimality, valid even when the minimiser is ill-determined: the computed rotation
      // maximises tr(R (C+E)) for a rounding perturbation E of the cross-covariance C, hence its
      // residual exceeds the optimum by at most 4 d |E|; the eps-level non-orthonormality of the
      // returned matrix adds a first-order term 2 sqrt(res* n) |delta| (Cauchy-Schwarz).
      if (rel_round < 1e-2L) {
        LD n = (LD)s_used.size();
        LD tol_res = rel_round * (4 * d * n * spread * spread_t * ratio + 2 * sqrtl(res_star * n) * mag) + 1e-12L * res_star;
        c.expect_le("noisy.residual_excess", res - res_star, tol_res, "not_optimal_residual", params, wit);
      } else {
        c.skip("noisy_residual:vacuous_tolerance");
      }
    }
  }
  // ---- metamorphic: the rotation matrices of all ten variants agree (order of the list, overload,
  // preconditioning, representation), also for clouds far from the origin where on-cloud
  // differences are masked by the magnitude of the coordinates
  {
    LD rtol = exact ? std::max(cd.is_float ? 0.0L : 1e-9L, rel_rot) : rel_cmp * ratio;
    bool ok_r = exact ? rel_rot < 1e-2L : (cmp_ok && rel_cmp * ratio < 1e-2L);
    for (size_t k = 1; ok_r && k < vc.size(); ++k) {
      if (!vc[k].H.allFinite() || !vc[0].H.allFinite()) {continue;}
      LD dr = (vc[k].H.block(0, 0, d, d) - vc[0].H.block(0, 0, d, d)).norm();
      c.expect_le("variants_agree.rotation_matrix", dr, 2 * rtol, "variant_disagreement", params, [&]() {
          return vh::J().s("variant", vc[k].name).f("k", (int)k).raw("H0", vh::jmat(vc[0].H)).raw("Hk", vh::jmat(vc[k].H)).str();
        });
    }
  }
  if (!exact && cmp_ok) {
    for (size_t k = 1; k < vc.size(); ++k) {
      LD worst = 0;
      for (size_t i = 0; i < s_used.size(); ++i) {
        worst = std::max(worst, (apply(vc[k].H, s_used[i]) - apply(vc[0].H, s_used[i])).norm());
      }
      c.expect_le("variants_agree", worst, 2 * tol_cmp, "variant_disagreement", params, [&]() {
          return vh::J().s("variant", vc[k].name).f("k", (int)k).raw("H0", vh::jmat(vc[0].H)).raw("Hk", vh::jmat(vc[k].H)).str();
        });
    }
  }
}

static void one_case(vh::Ctx & c, uint64_t idx)
{
  vh::Rng r(c.seed, idx);
  CaseData cd;
  cd.dim = r.coin() ? 2 : 3;
  cd.is_float = r.coin();
  gen_case(r, cd);
  std::string cat = std::string(cd.dim == 2 ? "2" : "3") + (cd.is_float ? "f" : "d");
  c.cat("types_" + cat + "_cart+hom");
  c.cat("shape_" + cd.shape);
  c.cat("corr_" + cd.corr_kind);
  c.cat(cd.reuse_preconditioned_sets ? "preconditioned_sets_reused" : "preconditioned_sets_fresh");
  c.cat(cd.noise == 0 ? "data_exact" : (cd.noise < 0.02 * cd.spread ? "data_small_noise" : "data_heavy_noise"));
  if (cd.angle == 0) {c.cat("angle_zero");}
  if (fabsl(cd.angle) > 3.14159) {c.cat("angle_pi");}
  uint64_t h = vh::hash_doubles({(double)cd.dim, (double)cd.is_float, (double)cd.n, (double)cd.spread, (double)cd.angle,
        (double)cd.tnorm, (double)cd.noise, (double)cd.scale, (double)cd.src_full[0](0)});
  bool trivial = cd.shape == "generic" && cd.noise == 0 && cd.corr_kind == "identity" && cd.offset_norm == 0;
  c.distinct(h, !trivial);
  c.sample("shape_" + cd.shape, [&]() {
      return vh::J().f("dim", cd.dim).boolean("float", cd.is_float).f("n", cd.n).s("shape", cd.shape)
             .s("corr", cd.corr_kind).f("spread", cd.spread).f("offset", cd.offset_norm).f("angle", cd.angle)
             .f("t", cd.tnorm).f("noise", cd.noise).f("precond_scale", cd.scale)
             .raw("first_source_point", vh::jvec(cd.src_full[cd.corr[0].sourcePointIndex])).str();
    });
  if (cd.dim == 2) {
    if (cd.is_float) {run_case<float, 2>(c, cd);} else {run_case<double, 2>(c, cd);}
  } else {
    if (cd.is_float) {run_case<float, 3>(c, cd);} else {run_case<double, 3>(c, cd);}
  }
}

int main(int argc, char ** argv)
{
  return vh::run(argc, argv, "C04", {16000, 800000}, one_case);
}
