// C07  Linear least-squares solver returns the minimiser of the current problem only.
//
// A case is a HISTORY: 2..12 problems of varying data size solved with one LeastSquares object.
// Oracle per problem: Householder QR in long double on exactly the (rounded) J, Y, W the library
// received; normal-equation residual bound G (DESIGN C07); a fresh solver given the problem alone
// is the reference for the history clause.  Rows of the solver's buffers beyond the current data
// size are poisoned with 1e30 before each solve.
#include <memory>
#include <Eigen/Dense>
#include "romea_core_common/regression/leastsquares/LeastSquares.hpp"
#include "vh.hpp"

typedef long double LD;
using MatL = Eigen::Matrix<LD, Eigen::Dynamic, Eigen::Dynamic>;
using VecL = Eigen::Matrix<LD, Eigen::Dynamic, 1>;
using romea::core::LeastSquares;

static MatL random_orthonormal(vh::Rng & r, int rows, int cols)
{
  MatL A(rows, cols);
  for (int i = 0; i < rows; ++i) {for (int j = 0; j < cols; ++j) {A(i, j) = r.normal();}}
  Eigen::HouseholderQR<MatL> qr(A);
  MatL Q = qr.householderQ() * MatL::Identity(rows, cols);
  return Q;
}

struct Problem
{
  int n, m;
  std::string method;     // cholesky | svd | weighted
  bool precond; bool precond_diag; bool precond_graded = false; bool nearly_orthogonal_columns = false;
  LD kappaJ, scale, resid_rel;
  MatL J; VecL Y, W; MatL A; VecL b;     // already rounded to the scalar type
};

template<class S>
static void fill(LeastSquares<S> & ls, const Problem & p, bool poison)
{
  ls.setDataSize(p.n);
  auto & J = ls.getJ(); auto & Y = ls.getY(); auto & W = ls.getW();
  for (int i = 0; i < p.n; ++i) {
    for (int j = 0; j < p.m; ++j) {J(i, j) = static_cast<S>(p.J(i, j));}
    Y(i) = static_cast<S>(p.Y(i));
    W(i) = static_cast<S>(p.W(i));
  }
  if (poison) {
    for (int i = p.n; i < J.rows(); ++i) {for (int j = 0; j < J.cols(); ++j) {J(i, j) = static_cast<S>(1e30);}}
    for (int i = p.n; i < Y.rows(); ++i) {Y(i) = static_cast<S>(1e30);}
    for (int i = p.n; i < W.rows(); ++i) {W(i) = static_cast<S>(1e30);}
  }
  if (p.precond) {
    typename LeastSquares<S>::Matrix A = p.A.template cast<S>();
    typename LeastSquares<S>::Vector b = p.b.template cast<S>();
    ls.setPreconditionner(A, b);
  } else {
    typename LeastSquares<S>::Matrix A = LeastSquares<S>::Matrix::Identity(p.m, p.m);
    ls.setPreconditionner(A);
  }
}

template<class S>
static VecL solve(LeastSquares<S> & ls, const std::string & method)
{
  typename LeastSquares<S>::Vector x;
  if (method == "cholesky") {x = ls.estimateUsingCholeskyDecomposition();} else if (method == "svd") {
    x = ls.estimateUsingSVD();
  } else {x = ls.weightedEstimate();}
  return x.template cast<LD>();
}

template<class S>
static void gen_problem(vh::Rng & r, int m, Problem & p, bool is_float)
{
  p.m = m;
  int nk = r.range(0, 9);
  p.n = nk == 0 ? m : nk <= 3 ? (int)r.range(m, m + 8) : nk <= 7 ? (int)r.range(m, 80) : (int)r.range(80, 500);
  static const char * methods[] = {"cholesky", "svd", "weighted", "svd"};
  p.method = methods[r.range(0, 3)];
  p.precond = r.coin(0.35);
  p.precond_diag = r.coin();
  // condition number of J: cond(JtJ) = kappaJ^2 < 1e6; float problems are only decisive below ~5e3
  LD kmax = is_float ? (r.coin(0.8) ? 60.0L : 999.0L) : 999.0L;
  p.kappaJ = m == 1 ? 1.0L : (r.coin(0.2) ? 1.0L : (LD)r.logu(1.0, (double)kmax));
  p.scale = r.coin(0.2) ? 1.0L : (LD)r.logu(1e-6, 1e6);
  MatL U = random_orthonormal(r, p.n, m), V = random_orthonormal(r, m, m);
  VecL sv(m);
  for (int i = 0; i < m; ++i) {sv(i) = i == 0 ? 1.0L : (i == m - 1 ? 1 / p.kappaJ : (LD)r.logu((double)(1 / p.kappaJ), 1.0));}
  p.nearly_orthogonal_columns = m >= 2 && r.coin(0.12);
  if (p.nearly_orthogonal_columns) {
    // regressors of graded scale that are orthogonal up to a small coupling (a line fit on a nearly
    // centred abscissa): the normal matrix is diagonal to 1e-14..1e-3 of its LARGEST entry, which is
    // far from negligible against its small diagonal entries
    const LD coupling = (LD)r.logu(1e-14, 1e-3);
    V = MatL::Identity(m, m);
    for (int i = 0; i < m; ++i) {for (int j = 0; j < m; ++j) {if (i != j) {V(i, j) = coupling * r.normal();}}}
    for (int i = m; i > 1; --i) {std::swap(sv(i - 1), sv(r.range(0, i - 1)));}      // any column may be the large one
  }
  MatL J = U * (sv * p.scale).asDiagonal() * V.transpose();
  VecL x0(m);
  LD xs = r.logu(1e-3, 1e3);
  for (int i = 0; i < m; ++i) {x0(i) = r.normal() * xs;}
  VecL Y = J * x0;
  int rk = r.range(0, 3);
  p.resid_rel = rk == 0 ? 0 : rk == 1 ? (LD)r.logu(1e-8, 1e-3) : (LD)r.logu(1e-2, 10.0);
  if (p.resid_rel > 0 && p.n > m) {
    VecL e(p.n); for (int i = 0; i < p.n; ++i) {e(i) = r.normal();}
    e *= p.resid_rel * Y.norm() / std::max<LD>(e.norm(), 1e-300L);
    Y += e;
  }
  p.W = VecL::Ones(p.n);
  if (p.method == "weighted") {for (int i = 0; i < p.n; ++i) {p.W(i) = r.coin(0.1) ? 1.0 : r.logu(0.1, 10.0);}}
  // round to the scalar type (this is what the library receives)
  p.J = J.template cast<S>().template cast<LD>();
  p.Y = Y.template cast<S>().template cast<LD>();
  p.W = p.W.template cast<S>().template cast<LD>();
  if (p.precond) {
    p.precond_graded = !p.precond_diag && r.coin(0.4);
    if (p.precond_graded) {
      // badly scaled diagonal with small (possibly tiny relative to the largest entry) off-diagonal
      // couplings: an affine map is still an affine map
      p.A = MatL::Zero(m, m);
      for (int i = 0; i < m; ++i) {p.A(i, i) = r.logu(1e-6, 1e12);}
      for (int i = 0; i < m; ++i) {
        for (int j = 0; j < m; ++j) {
          if (i != j && r.coin(0.4)) {p.A(i, j) = r.sign() * std::min(std::fabs((double)p.A(i, i)), std::fabs((double)p.A(j, j))) * r.logu(1e-3, 1.0);}
        }
      }
    } else if (p.precond_diag) {
      p.A = MatL::Zero(m, m); for (int i = 0; i < m; ++i) {p.A(i, i) = r.logu(1e-3, 1e3);}
    } else {
      MatL Ua = random_orthonormal(r, m, m), Va = random_orthonormal(r, m, m);
      VecL sa(m); for (int i = 0; i < m; ++i) {sa(i) = r.logu(0.1, 10.0);}
      p.A = Ua * (sa * (LD)r.logu(1e-2, 1e2)).asDiagonal() * Va.transpose();
    }
    p.b = VecL(m); LD bs = r.coin(0.2) ? 0 : r.logu(1e-3, 1e3);
    for (int i = 0; i < m; ++i) {p.b(i) = r.normal() * bs;}
    p.A = p.A.template cast<S>().template cast<LD>();
    p.b = p.b.template cast<S>().template cast<LD>();
  } else {
    p.A = MatL::Identity(m, m); p.b = VecL::Zero(m);
  }
}

template<class S>
static void run_history(vh::Ctx & c, vh::Rng & r, int m, bool is_float)
{
  const LD eps = std::numeric_limits<S>::epsilon();
  const int nprob = (int)r.range(2, 12);
  // construction routes, value semantics and estimate-size changes are drawn from a separate stream
  // so that the sequence of problems of a case does not depend on them
  vh::Rng rv(c.seed, c.cur, 11);
  std::unique_ptr<LeastSquares<S>> reused_p;
  const int route = (int)rv.range(0, 3);
  if (route == 0) {
    // default construction, sizes configured afterwards (setEstimateSize)
    reused_p = std::make_unique<LeastSquares<S>>(); reused_p->setEstimateSize(m); c.cat("constructed_default_then_setEstimateSize");
  } else if (route == 1) {
    // constructed for another estimate size, re-configured before the first problem
    reused_p = std::make_unique<LeastSquares<S>>((size_t)(1 + (m % 8)), (size_t)rv.range(1, 40)); reused_p->setEstimateSize(m);
    c.cat("constructed_for_another_estimate_size_then_setEstimateSize");
  } else {reused_p = std::make_unique<LeastSquares<S>>(m); c.cat("constructed_with_estimate_size");}
  bool use_ctor2 = r.coin(0.3);
  int prev_n = -1; bool shrunk = false, grown = false;
  typename LeastSquares<S>::Matrix * kept_J = nullptr; typename LeastSquares<S>::Vector * kept_Y = nullptr, * kept_W = nullptr;
  int kept_n = -1; bool prev_precond = false;
  uint64_t h = vh::hash_doubles({(double)m, (double)is_float, (double)nprob});
  std::string trace;
  for (int k = 0; k < nprob; ++k) {
    LeastSquares<S> & reused = *reused_p;
    if (k > 0 && rv.coin(0.12)) {
      // the estimate size changes inside the history ("problems of varying sizes" on one object)
      int m2 = (int)rv.range(1, 8);
      if (m2 != m) {
        m = m2; reused.setEstimateSize(m); kept_J = nullptr; kept_n = -1; prev_n = -1;
        c.cat(std::string("estimate_size_changed_in_history"));
        trace += ",[m=" + std::to_string(m) + "]";
      }
    }
    Problem p;
    gen_problem<S>(r, m, p, is_float);
    if (k > 0 && kept_n >= m && r.coin(0.25)) {
      // same size as the previous problem (fresh content)
      Problem q; gen_problem<S>(r, m, q, is_float);
      if (q.n >= kept_n) {q.n = kept_n; q.J = q.J.topRows(q.n).eval(); q.Y = q.Y.head(q.n).eval(); q.W = q.W.head(q.n).eval(); p = q;}
    } else if (k > 1 && prev_n > m && r.coin(0.15)) {
      // back to exactly the largest size seen so far (the buffer capacity)
      Problem q;
      for (int tries = 0; tries < 6; ++tries) {gen_problem<S>(r, m, q, is_float); if (q.n >= prev_n) {break;}}
      if (q.n >= prev_n) {q.n = prev_n; q.J = q.J.topRows(q.n).eval(); q.Y = q.Y.head(q.n).eval(); q.W = q.W.head(q.n).eval(); p = q; c.cat("problem_at_exact_buffer_capacity");}
    } else if (k > 0 && r.coin(0.4)) {p.n = std::max(m, std::min(p.n, prev_n / 2)); p.J = p.J.topRows(p.n).eval(); p.Y = p.Y.head(p.n).eval(); p.W = p.W.head(p.n).eval();}
    if (prev_n >= 0 && p.n < prev_n) {shrunk = true;}
    if (prev_n >= 0 && p.n > prev_n) {grown = true;}
    prev_n = std::max(prev_n, p.n);
    h = vh::hash_add(h, (double)p.n); h = vh::hash_add(h, (double)p.J(0, 0));
    trace += (k ? "," : "") + p.method + ":" + std::to_string(p.n) + (p.precond ? "p" : "");
    c.cat("method_" + p.method);
    if (p.nearly_orthogonal_columns) {c.cat("regressors_orthogonal_up_to_a_small_coupling");}
    if (p.precond) {c.cat(p.precond_graded ? "precond_graded_nearly_diagonal" : p.precond_diag ? "precond_diagonal" : "precond_general");}

    // ---- oracle (weighted problem if the method is the weighted one)
    MatL Jw = p.J; VecL Yw = p.Y;
    if (p.method == "weighted") {Jw = p.W.asDiagonal() * p.J; Yw = p.W.cwiseProduct(p.Y);}
    Eigen::JacobiSVD<MatL> svd(Jw);
    LD smax = svd.singularValues()(0), smin = svd.singularValues()(m - 1);
    LD cond = (smax / smin) * (smax / smin);
    MatL JtJ = Jw.transpose() * Jw; VecL JtY = Jw.transpose() * Yw;
    VecL xref = Jw.householderQr().solve(Yw);
    auto params = [&]() {
        return vh::Params{{"is_float", (double)is_float}, {"m", (double)m}, {"n", (double)p.n}, {"cond_JtJ", (double)cond},
          {"scale", (double)p.scale}, {"resid_rel", (double)p.resid_rel}, {"step", (double)k},
          {"sigma_min_JtJ", (double)(smin * smin)}, {"sigma_max_JtJ", (double)(smax * smax)}};
      };
    if (!(cond < 1e6L)) {c.skip("problem:cond_ge_1e6_outside_quantifier"); continue;}
    // a conditioning-aware tolerance of up to 10 % still separates rounding from a dropped or
    // un-inverted component (errors of tens of percent); beyond that the case cannot discriminate
    bool vacuous = 16 * eps * cond >= 1e-1L;

    // ---- the reused object, buffers poisoned beyond the current size
    // API-usage variant: the caller keeps the references returned by getJ()/getY()/getW() across
    // solves and writes the next same-sized problem through them, calling nothing else in between
    if (kept_J && p.n == kept_n && !p.precond && !prev_precond) {
      for (int i = 0; i < p.n; ++i) {
        for (int j = 0; j < p.m; ++j) {(*kept_J)(i, j) = static_cast<S>(p.J(i, j));}
        (*kept_Y)(i) = static_cast<S>(p.Y(i)); (*kept_W)(i) = static_cast<S>(p.W(i));
      }
      c.cat("problem_written_through_kept_references");
    } else {
      fill(reused, p, true);
      // (references taken here, not before the next solve: a non-const getJ() is itself an API event)
      kept_J = &reused.getJ(); kept_Y = &reused.getY(); kept_W = &reused.getW();
    }
    kept_n = p.n; prev_precond = p.precond;
    VecL x = solve(reused, p.method);
    auto wit = [&]() {
        return vh::J().s("history", trace).s("method", p.method).f("n", p.n).f("m", m).f("cond_JtJ", cond)
               .f("scale", p.scale).boolean("precond", p.precond).raw("x", vh::jvec(x)).raw("x_qr_reference", vh::jvec(VecL(p.A * xref + p.b))).str();
      };
    if (!c.expect("finite", x.allFinite(), "nonfinite", params, wit)) {continue;}
    if (vacuous) {c.skip(is_float ? "float:vacuous_16eps_cond_ge_1e-1" : "double:vacuous"); continue;}
    c.count("problems_checked");

    auto Gof = [&](const VecL & xx) {
        return 16 * eps * (cond * JtY.norm() + sqrtl((LD)p.n) * Jw.norm() * Yw.norm() + JtJ.norm() * xx.norm());
      };
    LD G = Gof(xref);
    LD xtol = G / (smin * smin);
    LD An = p.A.norm();
    LD ptol = An * xtol + 8 * eps * (An * xref.norm() + p.b.norm());
    if (!p.precond) {
      const char * o = p.method == "cholesky" ? "normal_equations.cholesky" : p.method == "svd" ? "normal_equations.svd" : "normal_equations.weighted";
      c.expect_le(o, (JtJ * x - JtY).norm(), Gof(x), "normal_equations_residual", params, wit);
      c.expect_le("agrees_with_qr", (x - xref).norm(), xtol, "wrong_minimiser", params, wit);
    } else {
      c.expect_le("affine_preconditioner_applied", (x - (p.A * xref + p.b)).norm(), ptol, "preconditioner_misapplied", params, wit);
      // component-wise: row i of A x + b carries the rounding of its own entries only
      VecL xe = p.A * xref + p.b;
      LD worst = 0;
      for (int i = 0; i < m; ++i) {
        LD ti = p.A.row(i).norm() * xtol + 8 * eps * (p.A.row(i).cwiseAbs().dot(xref.cwiseAbs()) + fabsl(p.b(i)));
        if (ti > 0) {worst = std::max(worst, fabsl(x(i) - xe(i)) / ti);}
      }
      c.expect_le("affine_preconditioner_applied.componentwise", worst, 1.0L, "preconditioner_misapplied", params, wit);
    }
    // ---- Cholesky and SVD paths agree (the un-weighted solves leave J, Y untouched)
    if (p.method != "weighted") {
      VecL x2 = solve(reused, p.method == "svd" ? "cholesky" : "svd");
      c.expect_le("cholesky_svd_agree", (x2 - x).norm(), 2 * ptol, "cholesky_svd_disagree", params, [&]() {
          return vh::J().raw("first", wit()).raw("x_other_path", vh::jvec(x2)).str();
        });
    }
    // ---- history: a fresh solver given this problem alone
    VecL xf;
    if (use_ctor2) {LeastSquares<S> fresh(m, p.n); fill(fresh, p, false); xf = solve(fresh, p.method);} else {
      LeastSquares<S> fresh(m); fill(fresh, p, false); xf = solve(fresh, p.method);
    }
    c.expect_le("history_independent", (xf - x).norm(), 2 * ptol, "depends_on_history", params, [&]() {
        return vh::J().raw("reused", wit()).raw("x_fresh", vh::jvec(xf)).str();
      });
    // ---- value semantics: the history continues on a copy / assigned / moved-to object while the
    // source is given an unrelated problem (or destroyed); a copy shares nothing with its source
    if (rv.coin(0.15)) {
      const int how = (int)rv.range(0, 3);
      std::unique_ptr<LeastSquares<S>> next;
      if (how == 0) {next = std::make_unique<LeastSquares<S>>(reused); c.cat("history_continues_on_copy_constructed");} else if (how == 1) {
        next = std::make_unique<LeastSquares<S>>((size_t)(1 + (m % 8)), (size_t)rv.range(1, 600)); *next = reused; c.cat("history_continues_on_copy_assigned");
      } else if (how == 2) {next = std::make_unique<LeastSquares<S>>(std::move(reused)); c.cat("history_continues_on_move_constructed");} else {
        next = std::make_unique<LeastSquares<S>>(m); *next = std::move(reused); c.cat("history_continues_on_move_assigned");
      }
      if (how <= 1) {
        // the copy must reproduce the last answer bit for bit (un-weighted solves leave J and Y untouched)
        if (p.method != "weighted") {
          VecL xc = solve(*next, p.method);
          c.expect("copy_reproduces_last_answer", (xc - x).norm() == 0, "copy_differs_from_source", params, [&]() {
              return vh::J().raw("source", wit()).raw("x_copy", vh::jvec(xc)).str();
            });
        }
        if (rv.coin()) {
          Problem q; gen_problem<S>(rv, m, q, is_float); fill(reused, q, true); (void)solve(reused, q.method);
        }
      }
      reused_p = std::move(next);      // the source is destroyed here
      kept_J = nullptr; kept_n = -1;
      trace += how <= 1 ? ",[copy]" : ",[move]";
    }
  }
  c.distinct(h, shrunk && grown);
  if (shrunk) {c.cat("history_with_shrink");}
  if (grown) {c.cat("history_with_growth");}
  c.sample(is_float ? "float_history" : "double_history", [&]() {
      return vh::J().f("estimate_size", m).boolean("float", is_float).s("method:datasize[p=preconditioned] sequence", trace).str();
    });
}

static void one_case(vh::Ctx & c, uint64_t idx)
{
  vh::Rng r(c.seed, idx);
  bool is_float = r.coin();
  int m = (int)r.range(1, 8);
  c.cat(is_float ? "float" : "double");
  c.cat("estimate_size_" + std::to_string(m));
  if (is_float) {run_history<float>(c, r, m, true);} else {run_history<double>(c, r, m, false);}
}

int main(int argc, char ** argv)
{
  return vh::run(argc, argv, "C07", {16000, 600000}, one_case);
}
