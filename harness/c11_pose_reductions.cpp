// C11  Pose / twist reductions, SE(3) action on a pose, uncertainty ellipse.
//
// Three families of cases, one per case index:
//   reduce    3D pose / twist / pose+twist -> planar counterpart, Pose3D -> Position3D, the
//             (0,1,5) selection between 6x6 and 3x3 covariances and the embed/reduce round trip
//   se3       operator*(Affine3d, Pose3D): position and attitude only (its covariance is C12's)
//   ellipse   uncertaintyEllipse(Position2D | Pose2D, sigma)
//
// Oracles are the definitions, evaluated in long double:
//   * selection: the reduced entries are the *bit patterns* of the selected entries;
//   * PSD: lambda_min (cyclic Jacobi in long double) of the produced matrix >= -16 eps trace(C);
//   * group action: p' = R p + T, R' = R * Rz(yaw) Ry(pitch) Rx(roll); the returned attitude is
//     turned back into a matrix and compared with R' (never angle by angle);
//   * ellipse: major >= minor >= 0 and Rot(theta) diag(major^2, minor^2) Rot(theta)^T / sigma^2 = Cxy.
// On top of that every family re-runs its calls under the usage patterns a caller is entitled to
// (copies / moved-from sources / temporaries / aliased arguments / other transform types / after
// stream output and sibling objects / after 2^8+k and 2^16+k earlier calls) and requires the same bits,
// binds the references returned by the Ellipse accessors and re-reads them at the end of the case.
// Nothing here is derived from the library's output: covariances are built from a chosen spectrum
// and orthogonal factor, rigid transforms from quaternions / Euler angles / signed permutations.
#include <Eigen/Core>
#include <Eigen/Geometry>
#include "romea_core_common/geometry/Pose2D.hpp"
#include "romea_core_common/geometry/Pose3D.hpp"
#include "romea_core_common/geometry/PoseAndTwist2D.hpp"
#include "romea_core_common/geometry/PoseAndTwist3D.hpp"
#include "romea_core_common/geometry/Position2D.hpp"
#include "romea_core_common/geometry/Position3D.hpp"
#include "romea_core_common/geometry/Twist2D.hpp"
#include "romea_core_common/geometry/Twist3D.hpp"
#include "romea_core_common/math/Matrix.hpp"
#include "vh.hpp"

namespace rc = romea::core;
typedef long double LD;

static const LD PI_L = 3.14159265358979323846264338327950288L;
static const LD EPS = 2.220446049250313080847263336181640625e-16L;   // 2^-52
static const LD EPSF = 1.1920928955078125e-7L;                        // 2^-23
static const double GIMBAL_MARGIN = 1e-3;                             // rad, from the quantifier

// ------------------------------------------------------------------------------------------
// small helpers
// ------------------------------------------------------------------------------------------
static bool biteq(double a, double b)
{
  uint64_t x, y; std::memcpy(&x, &a, 8); std::memcpy(&y, &b, 8); return x == y;
}
static bool biteqf(float a, float b)
{
  uint32_t x, y; std::memcpy(&x, &a, 4); std::memcpy(&y, &b, 4); return x == y;
}

// eigenvalues of a symmetric n x n matrix (n <= 6), cyclic Jacobi in long double
static void jacobi_eig(int n, LD A[6][6], LD ev[6])
{
  for (int sweep = 0; sweep < 30; ++sweep) {
    LD off = 0, dia = 0;
    for (int i = 0; i < n; ++i) {
      dia += A[i][i] * A[i][i];
      for (int j = i + 1; j < n; ++j) {off += A[i][j] * A[i][j];}
    }
    if (off <= 1e-42L * dia || off == 0) {break;}
    for (int p = 0; p < n; ++p) {
      for (int q = p + 1; q < n; ++q) {
        if (A[p][q] == 0) {continue;}
        LD theta = (A[q][q] - A[p][p]) / (2 * A[p][q]);
        LD t = (theta >= 0 ? 1 : -1) / (fabsl(theta) + sqrtl(theta * theta + 1));
        LD c = 1 / sqrtl(t * t + 1), s = t * c;
        for (int k = 0; k < n; ++k) {
          LD akp = A[k][p], akq = A[k][q];
          A[k][p] = c * akp - s * akq; A[k][q] = s * akp + c * akq;
        }
        for (int k = 0; k < n; ++k) {
          LD apk = A[p][k], aqk = A[q][k];
          A[p][k] = c * apk - s * aqk; A[q][k] = s * apk + c * aqk;
        }
      }
    }
  }
  for (int i = 0; i < n; ++i) {ev[i] = A[i][i];}
}

template<class M> static LD lambda_min(const M & m)
{
  const int n = static_cast<int>(m.rows());
  LD A[6][6], ev[6];
  for (int i = 0; i < n; ++i) {for (int j = 0; j < n; ++j) {A[i][j] = static_cast<LD>(m(i, j));}}
  jacobi_eig(n, A, ev);
  LD mn = ev[0];
  for (int i = 1; i < n; ++i) {if (ev[i] < mn) {mn = ev[i];}}
  return mn;
}

template<class M> static bool exactly_symmetric(const M & m)
{
  for (int i = 0; i < m.rows(); ++i) {
    for (int j = i + 1; j < m.cols(); ++j) {if (!(m(i, j) == m(j, i))) {return false;}}
  }
  return true;
}

template<class M> static bool all_finite(const M & m)
{
  for (int i = 0; i < m.rows(); ++i) {
    for (int j = 0; j < m.cols(); ++j) {if (!std::isfinite(m(i, j))) {return false;}}
  }
  return true;
}

// ------------------------------------------------------------------------------------------
// covariance generator: C = Q diag(lambda) Q^T in long double, rounded once, mirrored
// ------------------------------------------------------------------------------------------
enum CovKind {COV_SPD = 0, COV_RANKDEF, COV_DIAGONAL, COV_ILLCOND, COV_ZERO, COV_DYADIC, COV_GIVENS,
  COV_ISOTROPIC, COV_NKINDS};
static const char * COV_NAME[] = {"spd", "rankdef", "diagonal", "illcond", "zero", "dyadic", "givens",
  "isotropic"};

struct CovMeta
{
  int kind = 0;
  int rank = 0;
  double lmax = 0;     // largest eigenvalue of the intended matrix (0 for zero)
  double cond = 1;     // ratio of the largest to the smallest non-zero intended eigenvalue
  double angle = 0;    // plane rotation angle for the givens kind
  double max_cond = 0.99e8;
};

static void haar_orth(vh::Rng & r, int n, LD Q[6][6])
{
  for (int j = 0; j < n; ++j) {
    for (;; ) {
      LD v[6];
      for (int i = 0; i < n; ++i) {v[i] = r.normal();}
      for (int pass = 0; pass < 2; ++pass) {
        for (int k = 0; k < j; ++k) {
          LD d = 0;
          for (int i = 0; i < n; ++i) {d += v[i] * Q[i][k];}
          for (int i = 0; i < n; ++i) {v[i] -= d * Q[i][k];}
        }
      }
      LD nn = 0;
      for (int i = 0; i < n; ++i) {nn += v[i] * v[i];}
      nn = sqrtl(nn);
      if (nn < 1e-3L) {continue;}
      for (int i = 0; i < n; ++i) {Q[i][j] = v[i] / nn;}
      break;
    }
  }
}

static int pick_cov_kind(vh::Rng & r)
{
  // weights: spd 22, rankdef 18, diagonal 10, illcond 15, zero 3, dyadic 10, givens 15, isotropic 7
  static const int W[COV_NKINDS] = {22, 18, 10, 15, 3, 10, 15, 7};
  int x = static_cast<int>(r.range(0, 99));
  for (int k = 0; k < COV_NKINDS; ++k) {if (x < W[k]) {return k;} x -= W[k];}
  return COV_SPD;
}

// fills the n x n double matrix C (exactly symmetric)
// `extreme`: lambda_max log-uniform over 1e-290..1e290 instead of 1e-8..1e8 (the selection is a copy and
// the ellipse's SVD rescales, so the unchanged code stays finite over the whole range; probe)
template<class M> static CovMeta gen_cov(
  vh::Rng & r, int n, int kind, M & C, double max_cond = 0.99e8, bool extreme = false)
{
  CovMeta m;
  m.kind = kind;
  m.max_cond = max_cond;
  C.setZero();
  if (kind == COV_ZERO) {m.rank = 0; return m;}
  if (kind == COV_DYADIC) {
    // C = 2^k L L^T with small integer L (n x cols): every entry exact, PSD exactly.  Redrawn until
    // L has full column rank and the non-zero eigenvalues span less than max_cond (the quantifier).
    for (int attempt = 0; attempt < 50; ++attempt) {
      int cols = r.coin(0.4) ? static_cast<int>(r.range(1, n - 1 > 1 ? n - 1 : 1)) : n;
      double L[6][6] = {};
      for (int i = 0; i < n; ++i) {for (int j = 0; j < cols; ++j) {L[i][j] = static_cast<double>(r.range(-4, 4));}}
      double s = std::ldexp(1.0, static_cast<int>(extreme ? r.range(-960, 950) : r.range(-12, 12)));
      LD A[6][6], ev[6];
      for (int i = 0; i < n; ++i) {
        for (int j = 0; j < n; ++j) {
          double a = 0;
          for (int k = 0; k < cols; ++k) {a += L[i][k] * L[j][k];}
          C(i, j) = s * a;
          A[i][j] = C(i, j);
        }
      }
      jacobi_eig(n, A, ev);
      std::sort(ev, ev + n, [](LD x, LD y) {return x > y;});
      if (!(ev[0] > 0) || !(ev[cols - 1] * static_cast<LD>(max_cond) > ev[0])) {continue;}
      m.rank = cols;
      m.lmax = static_cast<double>(ev[0]);
      m.cond = static_cast<double>(ev[0] / ev[cols - 1]);
      return m;
    }
    C.setZero();
    C(0, 0) = 1;              // not reached in practice
    m.rank = 1; m.lmax = 1; m.cond = 1;
    return m;
  }
  LD lam[6];
  double lmax = extreme ? r.logu(1e-290, 1e290) : (r.coin(0.1) ? 1.0 : r.logu(1e-8, 1e8));
  double cond = 1;
  int rank = n;
  switch (kind) {
    case COV_SPD: cond = r.logu(1.0, 1e4); break;
    case COV_ILLCOND: cond = r.logu(1e4, max_cond); break;
    case COV_RANKDEF: cond = r.logu(1.0, max_cond); rank = static_cast<int>(r.range(1, n - 1)); break;
    case COV_DIAGONAL: cond = r.logu(1.0, max_cond); rank = r.coin(0.3) ? static_cast<int>(r.range(1, n)) : n; break;
    case COV_GIVENS: cond = r.logu(1.0, max_cond); rank = r.coin(0.25) ? static_cast<int>(r.range(1, n)) : n; break;
    case COV_ISOTROPIC: cond = 1; break;
    default: break;
  }
  if (cond > max_cond) {cond = max_cond;}
  for (int i = 0; i < n; ++i) {
    if (i >= rank) {lam[i] = 0;} else if (i == 0) {lam[i] = lmax;} else if (i == rank - 1) {
      lam[i] = static_cast<LD>(lmax) / cond;
    } else {lam[i] = static_cast<LD>(lmax) / r.logu(1.0, cond);}
  }
  if (rank == 1) {cond = 1;}
  if (kind == COV_ISOTROPIC) {for (int i = 0; i < n; ++i) {lam[i] = lmax;}}
  // shuffle the spectrum so that the dominant direction is not always the first column
  for (int i = n - 1; i > 0; --i) {int j = static_cast<int>(r.range(0, i)); std::swap(lam[i], lam[j]);}
  LD Q[6][6] = {};
  if (kind == COV_DIAGONAL || kind == COV_ISOTROPIC) {
    for (int i = 0; i < n; ++i) {Q[i][i] = 1;}
  } else if (kind == COV_GIVENS) {
    for (int i = 0; i < n; ++i) {Q[i][i] = 1;}
    int p = 0, q = 1;
    if (n > 2) {
      p = static_cast<int>(r.range(0, n - 2)); q = static_cast<int>(r.range(p + 1, n - 1));
      if (r.coin(0.5)) {p = 0; q = 1;}          // the xy plane matters most
    }
    double a;
    int ak = static_cast<int>(r.range(0, 3));
    if (ak == 0) {a = r.uni(-M_PI, M_PI);} else if (ak == 1) {
      a = static_cast<double>(r.range(-4, 4)) * M_PI / 4 + r.sign() * r.logu(1e-12, 1e-3);
    } else if (ak == 2) {a = static_cast<double>(r.range(-4, 4)) * M_PI / 4;} else {
      a = r.sign() * r.logu(1e-9, 1e-1);
    }
    m.angle = a;
    LD c = cosl(static_cast<LD>(a)), s = sinl(static_cast<LD>(a));
    Q[p][p] = c; Q[p][q] = -s; Q[q][p] = s; Q[q][q] = c;
  } else {
    haar_orth(r, n, Q);
  }
  for (int i = 0; i < n; ++i) {
    for (int j = i; j < n; ++j) {
      LD a = 0;
      for (int k = 0; k < n; ++k) {a += Q[i][k] * lam[k] * Q[j][k];}
      C(i, j) = static_cast<double>(a);
      C(j, i) = C(i, j);
    }
  }
  m.rank = rank; m.lmax = lmax; m.cond = cond;
  return m;
}

template<class M> static LD trace_of(const M & m)
{
  LD t = 0;
  for (int i = 0; i < m.rows(); ++i) {t += static_cast<LD>(m(i, i));}
  return t;
}

// ------------------------------------------------------------------------------------------
// vectors with components in [-1e4, 1e4]
// ------------------------------------------------------------------------------------------
static double pick_component(vh::Rng & r, int mode)
{
  switch (mode) {
    case 0: return r.uni(-1e4, 1e4);
    case 1: return r.sign() * r.logu(1e-6, 1e4);
    case 2: return r.coin(0.5) ? 0.0 : r.sign() * 1e4;
    case 3: return r.sign() * r.logu(1e-300, 1e-6);
    case 5: {
        // values random reals never produce: signed zeros, denormals, the smallest normal, integers
        static const double S[] = {0.0, -0.0, 4.9406564584124654e-324, -4.9406564584124654e-324,
          2.2250738585072014e-308, -2.2250738585072014e-308, 1.0, -1.0, 2.0, 1e-310, -3e-320, 10000.0};
        return S[r.range(0, 11)];
      }
    case 6: return static_cast<double>(r.range(-100, 100));
    default: return r.uni(-10.0, 10.0);
  }
}
static Eigen::Vector3d pick_vec3(vh::Rng & r)
{
  int mode = static_cast<int>(r.range(0, 8));
  if (mode == 7) {return Eigen::Vector3d::Zero();}
  Eigen::Vector3d v;
  if (mode == 8) {                     // equal components
    v.setConstant(pick_component(r, static_cast<int>(r.range(0, 6))));
    return v;
  }
  for (int i = 0; i < 3; ++i) {v[i] = pick_component(r, r.coin(0.8) ? mode : static_cast<int>(r.range(0, 6)));}
  return v;
}

// distance of a pitch angle from gimbal lock, as |cos pitch| (>= sin(margin) means far enough)
static LD abs_cos(double pitch) {return fabsl(cosl(static_cast<LD>(pitch)));}
static const LD COS_LIMIT = sinl(static_cast<LD>(GIMBAL_MARGIN));

static const char * ATT_NAME[] = {"att_principal", "att_near_lock", "att_zero", "att_wide", "att_huge",
  "att_planar"};
static Eigen::Vector3d pick_attitude(vh::Rng & r, int & kind)
{
  static const int W[6] = {30, 25, 5, 15, 10, 15};
  int x = static_cast<int>(r.range(0, 99));
  kind = 0;
  for (int k = 0; k < 6; ++k) {if (x < W[k]) {kind = k; break;} x -= W[k];}
  for (int attempt = 0; attempt < 100; ++attempt) {
    Eigen::Vector3d a;
    switch (kind) {
      case 0: a << r.uni(-M_PI, M_PI), r.uni(-M_PI / 2 + GIMBAL_MARGIN, M_PI / 2 - GIMBAL_MARGIN), r.uni(-M_PI, M_PI); break;
      case 1: a << r.uni(-M_PI, M_PI), r.sign() * (M_PI / 2 - r.logu(GIMBAL_MARGIN, 1e-1)), r.uni(-M_PI, M_PI); break;
      case 2: a << 0, 0, 0; break;
      case 3: a << r.uni(-2 * M_PI, 2 * M_PI), r.uni(-2 * M_PI, 2 * M_PI), r.uni(-2 * M_PI, 2 * M_PI); break;
      case 4: a << r.uni(-1e4, 1e4), r.uni(-1e4, 1e4), r.uni(-1e4, 1e4); break;
      default: a << 0, 0, (r.coin(0.2) ? static_cast<double>(r.range(-4, 4)) * M_PI / 2 : r.uni(-2 * M_PI, 2 * M_PI)); break;
    }
    if (abs_cos(a[1]) >= COS_LIMIT) {return a;}
  }
  kind = 2;
  return Eigen::Vector3d::Zero();
}

// Rz(yaw) Ry(pitch) Rx(roll) in long double
struct M3 {LD m[3][3];};
static M3 euler_R(LD roll, LD pitch, LD yaw)
{
  LD cx = cosl(roll), sx = sinl(roll), cy = cosl(pitch), sy = sinl(pitch), cz = cosl(yaw), sz = sinl(yaw);
  M3 R;
  R.m[0][0] = cz * cy; R.m[0][1] = cz * sy * sx - sz * cx; R.m[0][2] = cz * sy * cx + sz * sx;
  R.m[1][0] = sz * cy; R.m[1][1] = sz * sy * sx + cz * cx; R.m[1][2] = sz * sy * cx - cz * sx;
  R.m[2][0] = -sy;     R.m[2][1] = cy * sx;                R.m[2][2] = cy * cx;
  return R;
}
static M3 euler_R(const Eigen::Vector3d & a) {return euler_R(a[0], a[1], a[2]);}
static M3 mul(const M3 & a, const M3 & b)
{
  M3 c;
  for (int i = 0; i < 3; ++i) {
    for (int j = 0; j < 3; ++j) {
      LD s = 0;
      for (int k = 0; k < 3; ++k) {s += a.m[i][k] * b.m[k][j];}
      c.m[i][j] = s;
    }
  }
  return c;
}
static M3 transpose(const M3 & a)
{
  M3 c;
  for (int i = 0; i < 3; ++i) {for (int j = 0; j < 3; ++j) {c.m[i][j] = a.m[j][i];}}
  return c;
}
static M3 from_eigen(const Eigen::Matrix3d & e)
{
  M3 c;
  for (int i = 0; i < 3; ++i) {for (int j = 0; j < 3; ++j) {c.m[i][j] = e(i, j);}}
  return c;
}
static Eigen::Matrix3d to_eigen(const M3 & a)
{
  Eigen::Matrix3d e;
  for (int i = 0; i < 3; ++i) {for (int j = 0; j < 3; ++j) {e(i, j) = static_cast<double>(a.m[i][j]);}}
  return e;
}
static LD max_abs_diff(const M3 & a, const M3 & b)
{
  LD d = 0;
  for (int i = 0; i < 3; ++i) {for (int j = 0; j < 3; ++j) {d = std::max(d, fabsl(a.m[i][j] - b.m[i][j]));}}
  return d;
}
// cos(pitch) of the attitude encoded by the rotation matrix
static LD cos_pitch_of(const M3 & R) {return hypotl(R.m[0][0], R.m[1][0]);}
static LD norm3(const Eigen::Vector3d & v)
{
  return sqrtl(static_cast<LD>(v[0]) * v[0] + static_cast<LD>(v[1]) * v[1] + static_cast<LD>(v[2]) * v[2]);
}

// ------------------------------------------------------------------------------------------
// rigid transforms
// ------------------------------------------------------------------------------------------
static const char * XF_NAME[] = {"xf_quaternion", "xf_euler", "xf_signed_permutation", "xf_translation_only",
  "xf_small_angle", "xf_to_near_lock", "xf_half_turn"};
enum {XF_QUAT = 0, XF_EULER, XF_PERM, XF_TRANS, XF_SMALL, XF_NEARLOCK, XF_HALFTURN, XF_NKINDS};

// translations are not bounded by the statement ("every rigid transform"): 10% have components
// log-spaced up to 1e300 (R p + T and the product of two such transforms stay finite up to ~1e307)
static Eigen::Vector3d pick_translation(vh::Rng & r, bool & huge)
{
  huge = r.coin(0.1);
  if (!huge) {return pick_vec3(r);}
  Eigen::Vector3d v;
  for (int i = 0; i < 3; ++i) {v[i] = r.coin(0.2) ? 0.0 : r.sign() * r.logu(1e4, 1e300);}
  return v;
}
// inverse of a rigid transform: (R^T, -R^T T), the translation evaluated in long double
static Eigen::Affine3d inverse_of(const Eigen::Affine3d & A)
{
  Eigen::Affine3d I = Eigen::Affine3d::Identity();
  Eigen::Matrix3d Rt = A.linear().transpose();
  I.linear() = Rt;
  for (int i = 0; i < 3; ++i) {
    LD t = 0;
    for (int k = 0; k < 3; ++k) {t += static_cast<LD>(Rt(i, k)) * static_cast<LD>(A.translation()[k]);}
    I.translation()[i] = static_cast<double>(-t);
  }
  return I;
}

// `current` is the attitude (as a matrix) of the pose the transform will be applied to; it is only
// used by the kind that steers the result towards gimbal lock.
static Eigen::Affine3d gen_transform(vh::Rng & r, int kind, const M3 & current, bool & huge)
{
  Eigen::Matrix3d R = Eigen::Matrix3d::Identity();
  switch (kind) {
    case XF_QUAT: {
        Eigen::Quaterniond q(r.normal(), r.normal(), r.normal(), r.normal());
        if (q.norm() < 1e-3) {q = Eigen::Quaterniond(1, 0, 0, 0);}
        R = q.normalized().toRotationMatrix();
        break;
      }
    case XF_EULER: {
        R = to_eigen(euler_R(r.uni(-M_PI, M_PI), r.uni(-M_PI / 2, M_PI / 2), r.uni(-M_PI, M_PI)));
        break;
      }
    case XF_PERM: {
        // one of the 24 proper signed permutations (exact)
        int perm[3] = {0, 1, 2};
        for (int i = 2; i > 0; --i) {int j = static_cast<int>(r.range(0, i)); std::swap(perm[i], perm[j]);}
        R.setZero();
        for (int i = 0; i < 3; ++i) {R(i, perm[i]) = r.sign();}
        if (R.determinant() < 0) {R.row(2) = -R.row(2);}
        break;
      }
    case XF_TRANS: break;
    case XF_SMALL: {
        Eigen::Vector3d ax(r.normal(), r.normal(), r.normal());
        if (ax.norm() < 1e-3) {ax = Eigen::Vector3d::UnitZ();}
        R = Eigen::AngleAxisd(r.sign() * r.logu(1e-9, 1e-2), ax.normalized()).toRotationMatrix();
        break;
      }
    case XF_NEARLOCK: {
        // R * current = attitude with pitch within [1e-3, 3e-2] of +-pi/2
        LD pitch = r.sign() * (PI_L / 2 - static_cast<LD>(r.logu(GIMBAL_MARGIN * 1.001, 3e-2)));
        M3 target = euler_R(r.uni(-M_PI, M_PI), pitch, r.uni(-M_PI, M_PI));
        R = to_eigen(mul(target, transpose(current)));
        break;
      }
    default: {
        int ax = static_cast<int>(r.range(0, 2));
        R = Eigen::AngleAxisd(M_PI, Eigen::Vector3d::Unit(ax)).toRotationMatrix();
        break;
      }
  }
  Eigen::Affine3d A = Eigen::Affine3d::Identity();
  A.linear() = R;
  A.translation() = pick_translation(r, huge);
  return A;
}

// ------------------------------------------------------------------------------------------
// family 1: reductions
// ------------------------------------------------------------------------------------------
static bool se2_selection_bitwise(const Eigen::Matrix3d & c3, const Eigen::Matrix6d & c6)
{
  static const int S[3] = {0, 1, 5};
  for (int i = 0; i < 3; ++i) {
    for (int j = 0; j < 3; ++j) {if (!biteq(c3(i, j), c6(S[i], S[j]))) {return false;}}
  }
  return true;
}

static void poison(vh::Rng & r, rc::Pose2D & p)
{
  p.yaw = r.uni(-1e30, 1e30); p.position << r.uni(-1e30, 1e30), r.uni(-1e30, 1e30);
  for (int i = 0; i < 9; ++i) {p.covariance(i) = r.uni(-1e30, 1e30);}
}
static void poison(vh::Rng & r, rc::Twist2D & t)
{
  t.angularSpeed = r.uni(-1e30, 1e30); t.linearSpeeds << r.uni(-1e30, 1e30), r.uni(-1e30, 1e30);
  for (int i = 0; i < 9; ++i) {t.covariance(i) = r.uni(-1e30, 1e30);}
}
static bool same_bits(const rc::Pose2D & a, const rc::Pose2D & b)
{
  bool ok = biteq(a.yaw, b.yaw) && biteq(a.position[0], b.position[0]) && biteq(a.position[1], b.position[1]);
  for (int i = 0; i < 9; ++i) {ok = ok && biteq(a.covariance(i), b.covariance(i));}
  return ok;
}
static bool same_bits(const rc::Twist2D & a, const rc::Twist2D & b)
{
  bool ok = biteq(a.angularSpeed, b.angularSpeed) && biteq(a.linearSpeeds[0], b.linearSpeeds[0]) &&
    biteq(a.linearSpeeds[1], b.linearSpeeds[1]);
  for (int i = 0; i < 9; ++i) {ok = ok && biteq(a.covariance(i), b.covariance(i));}
  return ok;
}

static void poison(vh::Rng & r, rc::Pose3D & p)
{
  for (int i = 0; i < 3; ++i) {p.position[i] = r.uni(-1e30, 1e30); p.orientation[i] = r.uni(-1e30, 1e30);}
  for (int i = 0; i < 36; ++i) {p.covariance(i) = r.uni(-1e30, 1e30);}
}
static void poison(vh::Rng & r, rc::Twist3D & t)
{
  for (int i = 0; i < 3; ++i) {t.linearSpeeds[i] = r.uni(-1e30, 1e30); t.angularSpeeds[i] = r.uni(-1e30, 1e30);}
  for (int i = 0; i < 36; ++i) {t.covariance(i) = r.uni(-1e30, 1e30);}
}
static void poison(vh::Rng & r, rc::PoseAndTwist3D & p) {poison(r, p.pose); poison(r, p.twist);}
static bool same_bits(const rc::Pose3D & a, const rc::Pose3D & b)
{
  bool ok = true;
  for (int i = 0; i < 3; ++i) {ok = ok && biteq(a.position[i], b.position[i]) && biteq(a.orientation[i], b.orientation[i]);}
  for (int i = 0; i < 36; ++i) {ok = ok && biteq(a.covariance(i), b.covariance(i));}
  return ok;
}
static bool same_bits(const rc::Twist3D & a, const rc::Twist3D & b)
{
  bool ok = true;
  for (int i = 0; i < 3; ++i) {
    ok = ok && biteq(a.linearSpeeds[i], b.linearSpeeds[i]) && biteq(a.angularSpeeds[i], b.angularSpeeds[i]);
  }
  for (int i = 0; i < 36; ++i) {ok = ok && biteq(a.covariance(i), b.covariance(i));}
  return ok;
}
static bool same_bits(const rc::PoseAndTwist3D & a, const rc::PoseAndTwist3D & b)
{
  return same_bits(a.pose, b.pose) && same_bits(a.twist, b.twist);
}
static bool same_bits(const rc::PoseAndTwist2D & a, const rc::PoseAndTwist2D & b)
{
  return same_bits(a.pose, b.pose) && same_bits(a.twist, b.twist);
}
static bool same_bits(const rc::Position3D & a, const rc::Position3D & b)
{
  bool ok = true;
  for (int i = 0; i < 3; ++i) {ok = ok && biteq(a.position[i], b.position[i]);}
  for (int i = 0; i < 9; ++i) {ok = ok && biteq(a.covariance(i), b.covariance(i));}
  return ok;
}
template<class M> static bool same_matrix_bits(const M & a, const M & b)
{
  bool ok = true;
  for (int i = 0; i < a.size(); ++i) {ok = ok && biteq(a(i), b(i));}
  return ok;
}
// zero off-diagonal entries of a PSD matrix may carry either sign: flip them to -0.0
template<class M> static void negative_zeros(M & C)
{
  for (int i = 0; i < C.rows(); ++i) {
    for (int j = 0; j < C.cols(); ++j) {if (i != j && C(i, j) == 0) {C(i, j) = -0.0;}}
  }
}
// how many times a call is repeated before it is observed (0: no repetition): 2^8+k in `p8` of the
// cases, 2^16+k in `p16` of them (8- and 16-bit call counters, index wrap-around)
static int history_length(vh::Rng & r, double p8, double p16)
{
  double u = r.uni();
  if (u < p16) {return 65536 + static_cast<int>(r.range(0, 7));}
  if (u < p16 + p8) {return 256 + static_cast<int>(r.range(0, 7));}
  return 0;
}

static void case_reduce(vh::Ctx & c, vh::Rng & r)
{
  rc::PoseAndTwist3D pt3;
  rc::Pose3D & p3 = pt3.pose;
  rc::Twist3D & t3 = pt3.twist;
  int attk;
  p3.position = pick_vec3(r);
  p3.orientation = pick_attitude(r, attk);
  t3.linearSpeeds = pick_vec3(r);
  t3.angularSpeeds = pick_vec3(r);
  int ck = pick_cov_kind(r), ckt = r.coin(0.5) ? ck : pick_cov_kind(r);
  const bool extreme = r.coin(0.1);          // covariance scale 1e-290..1e290
  const bool negzero = r.coin(0.1);          // zero covariances entries stored as -0.0
  CovMeta mp = gen_cov(r, 6, ck, p3.covariance, 0.99e8, extreme);
  CovMeta mt = gen_cov(r, 6, ckt, t3.covariance, 0.99e8, extreme);
  (void)mt;
  Eigen::Matrix3d c3;                        // planar covariance for the embedding
  int ck3 = pick_cov_kind(r);
  CovMeta m3 = gen_cov(r, 3, ck3, c3, 0.99e8, extreme);
  if (negzero) {negative_zeros(p3.covariance); negative_zeros(t3.covariance); negative_zeros(c3);}
  const rc::PoseAndTwist3D pt3_saved(pt3);   // the inputs as they were at call time

  const std::string cat = std::string("reduce_cov_") + COV_NAME[ck];
  c.cat("reduce");
  c.cat(cat);
  c.cat(std::string("embed_cov_") + COV_NAME[ck3]);
  if (extreme) {c.cat("reduce_extreme_scale");}
  if (negzero) {c.cat("reduce_negative_zero_cov");}
  bool trivial = (ck == COV_DIAGONAL || ck == COV_ZERO || ck == COV_ISOTROPIC) &&
    (ckt == COV_DIAGONAL || ckt == COV_ZERO || ckt == COV_ISOTROPIC);
  uint64_t h = vh::hash_doubles({1.0, p3.position[0], p3.position[1], p3.position[2], p3.orientation[0],
        p3.orientation[1], p3.orientation[2], t3.linearSpeeds[0], t3.angularSpeeds[2], p3.covariance(0, 0),
        p3.covariance(0, 5), p3.covariance(1, 5), p3.covariance(5, 5), t3.covariance(0, 5), t3.covariance(5, 5),
        c3(0, 2), c3(2, 2)});
  c.distinct(h, !trivial);

  auto params = [&]() {
      return vh::Params{{"family", 1}, {"cov_kind", (double)ck}, {"twist_cov_kind", (double)ckt},
        {"embed_cov_kind", (double)ck3}, {"rank", (double)mp.rank}, {"cond", mp.cond}, {"lmax", mp.lmax},
        {"att_kind", (double)attk}};
    };
  auto wit = [&]() {
      return vh::J().s("family", "reduce").s("pose_cov_kind", COV_NAME[ck]).s("twist_cov_kind", COV_NAME[ckt])
             .s("embed_cov_kind", COV_NAME[ck3]).raw("position", vh::jvec(p3.position))
             .raw("orientation", vh::jvec(p3.orientation)).raw("linear", vh::jvec(t3.linearSpeeds))
             .raw("angular", vh::jvec(t3.angularSpeeds)).raw("pose_cov", vh::jmat(p3.covariance))
             .raw("twist_cov", vh::jmat(t3.covariance)).raw("planar_cov", vh::jmat(c3)).str();
    };
  c.sample(cat, wit);

  // ---- pose 3D -> 2D
  rc::Pose2D p2 = rc::toPose2D(p3);
  c.expect("reduce.pose2d.mean",
    biteq(p2.position[0], p3.position[0]) && biteq(p2.position[1], p3.position[1]) &&
    biteq(p2.yaw, p3.orientation[2]), "reduce_mean", params, [&]() {
      return vh::J().raw("case", wit()).s("what", "toPose2D").raw("got_position", vh::jvec(p2.position))
             .f("got_yaw", p2.yaw).str();
    });
  c.expect("reduce.pose2d.cov", se2_selection_bitwise(p2.covariance, p3.covariance), "reduce_cov", params, [&]() {
      return vh::J().raw("case", wit()).s("what", "toPose2D").raw("got", vh::jmat(p2.covariance)).str();
    });

  // ---- twist 3D -> 2D
  rc::Twist2D t2 = rc::toTwist2D(t3);
  c.expect("reduce.twist2d.mean",
    biteq(t2.linearSpeeds[0], t3.linearSpeeds[0]) && biteq(t2.linearSpeeds[1], t3.linearSpeeds[1]) &&
    biteq(t2.angularSpeed, t3.angularSpeeds[2]), "reduce_mean", params, [&]() {
      return vh::J().raw("case", wit()).s("what", "toTwist2D").raw("got_linear", vh::jvec(t2.linearSpeeds))
             .f("got_angular", t2.angularSpeed).str();
    });
  c.expect("reduce.twist2d.cov", se2_selection_bitwise(t2.covariance, t3.covariance), "reduce_cov", params, [&]() {
      return vh::J().raw("case", wit()).s("what", "toTwist2D").raw("got", vh::jmat(t2.covariance)).str();
    });

  // ---- pose and twist together; the out-parameter overloads must overwrite whatever the
  //      destination held before (history: a destination full of unrelated values)
  rc::PoseAndTwist2D pt2 = rc::toPoseAndTwist2D(pt3);
  rc::PoseAndTwist2D pt2b;
  poison(r, pt2b.pose); poison(r, pt2b.twist);
  rc::toPoseAndTwist2D(pt3, pt2b);
  rc::Pose2D p2b; poison(r, p2b); rc::toPose2D(p3, p2b);
  rc::Twist2D t2b; poison(r, t2b); rc::toTwist2D(t3, t2b);
  auto mean_cov_ok = [&](const rc::Pose2D & a, const rc::Twist2D & b) {
      return biteq(a.position[0], p3.position[0]) && biteq(a.position[1], p3.position[1]) &&
             biteq(a.yaw, p3.orientation[2]) && se2_selection_bitwise(a.covariance, p3.covariance) &&
             biteq(b.linearSpeeds[0], t3.linearSpeeds[0]) && biteq(b.linearSpeeds[1], t3.linearSpeeds[1]) &&
             biteq(b.angularSpeed, t3.angularSpeeds[2]) && se2_selection_bitwise(b.covariance, t3.covariance);
    };
  c.expect("reduce.poseandtwist2d", mean_cov_ok(pt2.pose, pt2.twist), "reduce_pose_and_twist", params, [&]() {
      return vh::J().raw("case", wit()).s("what", "toPoseAndTwist2D (by value)")
             .raw("got_position", vh::jvec(pt2.pose.position)).f("got_yaw", pt2.pose.yaw)
             .raw("got_linear", vh::jvec(pt2.twist.linearSpeeds)).f("got_angular", pt2.twist.angularSpeed)
             .raw("got_pose_cov", vh::jmat(pt2.pose.covariance)).raw("got_twist_cov", vh::jmat(pt2.twist.covariance)).str();
    });
  c.expect("reduce.outparam_overwrites",
    mean_cov_ok(pt2b.pose, pt2b.twist) && same_bits(p2b, p2) && same_bits(t2b, t2) &&
    same_bits(pt2b.pose, pt2.pose) && same_bits(pt2b.twist, pt2.twist), "reduce_outparam_stale", params, [&]() {
      return vh::J().raw("case", wit()).s("what", "out-parameter overloads on a pre-filled destination")
             .raw("got_position", vh::jvec(pt2b.pose.position)).f("got_yaw", pt2b.pose.yaw)
             .raw("got_linear", vh::jvec(pt2b.twist.linearSpeeds)).f("got_angular", pt2b.twist.angularSpeed)
             .raw("got_pose_cov", vh::jmat(pt2b.pose.covariance)).raw("got_twist_cov", vh::jmat(pt2b.twist.covariance)).str();
    });

  // ---- pose -> position 3D (by value and on a pre-filled destination)
  rc::Position3D q3 = rc::toPosition3D(p3);
  rc::Position3D q3b;
  for (int i = 0; i < 3; ++i) {q3b.position[i] = r.uni(-1e30, 1e30);}
  for (int i = 0; i < 9; ++i) {q3b.covariance(i) = r.uni(-1e30, 1e30);}
  rc::toPosition3D(p3, q3b);
  {
    bool ok = true;
    for (int i = 0; i < 3; ++i) {
      ok = ok && biteq(q3.position[i], p3.position[i]) && biteq(q3b.position[i], p3.position[i]);
      for (int j = 0; j < 3; ++j) {
        ok = ok && biteq(q3.covariance(i, j), p3.covariance(i, j)) && biteq(q3b.covariance(i, j), p3.covariance(i, j));
      }
    }
    c.expect("reduce.position3d", ok, "reduce_position", params, [&]() {
        return vh::J().raw("case", wit()).s("what", "toPosition3D").raw("got_position", vh::jvec(q3.position))
               .raw("got_cov", vh::jmat(q3.covariance)).raw("got_position_outparam", vh::jvec(q3b.position))
               .raw("got_cov_outparam", vh::jmat(q3b.covariance)).str();
      });
  }

  // ---- symmetry and positive semi-definiteness of what came out
  const LD trp = trace_of(p3.covariance), trt = trace_of(t3.covariance);
  c.expect("cov.symmetric_reduced",
    exactly_symmetric(p2.covariance) && exactly_symmetric(t2.covariance) && exactly_symmetric(q3.covariance),
    "cov_asymmetric", params, [&]() {
      return vh::J().raw("case", wit()).raw("pose2d_cov", vh::jmat(p2.covariance))
             .raw("twist2d_cov", vh::jmat(t2.covariance)).raw("position3d_cov", vh::jmat(q3.covariance)).str();
    });
  if (all_finite(p2.covariance) && all_finite(t2.covariance) && all_finite(q3.covariance)) {
    LD l1 = lambda_min(p2.covariance), l2 = lambda_min(t2.covariance), l3 = lambda_min(q3.covariance);
    c.expect_le("cov.psd_pose2d", std::max<LD>(0, -l1), 16 * EPS * trp, "cov_not_psd", params, [&]() {
        return vh::J().raw("case", wit()).s("what", "toPose2D covariance").f("lambda_min", l1)
               .raw("got", vh::jmat(p2.covariance)).str();
      });
    c.expect_le("cov.psd_twist2d", std::max<LD>(0, -l2), 16 * EPS * trt, "cov_not_psd", params, [&]() {
        return vh::J().raw("case", wit()).s("what", "toTwist2D covariance").f("lambda_min", l2)
               .raw("got", vh::jmat(t2.covariance)).str();
      });
    c.expect_le("cov.psd_position3d", std::max<LD>(0, -l3), 16 * EPS * trp, "cov_not_psd", params, [&]() {
        return vh::J().raw("case", wit()).s("what", "toPosition3D covariance").f("lambda_min", l3)
               .raw("got", vh::jmat(q3.covariance)).str();
      });
  } else {
    c.violation("nonfinite", params(), wit());
  }

  // ---- planar covariance -> 6x6 -> planar
  Eigen::Matrix6d e6 = rc::toSe3Covariance(c3);
  Eigen::Matrix3d back = rc::toSe2Covariance(e6);
  auto pe = [&]() {
      return vh::Params{{"family", 1}, {"embed_cov_kind", (double)ck3}, {"rank", (double)m3.rank},
        {"cond", m3.cond}, {"lmax", m3.lmax}};
    };
  auto we = [&]() {
      return vh::J().s("family", "embed").s("cov_kind", COV_NAME[ck3]).raw("planar_cov", vh::jmat(c3))
             .raw("embedded", vh::jmat(e6)).raw("reduced_again", vh::jmat(back)).str();
    };
  {
    bool ok = true;
    for (int i = 0; i < 9; ++i) {ok = ok && biteq(back(i), c3(i));}
    c.expect("embed.roundtrip", ok, "embed_reduce_not_identity", pe, we);
  }
  c.expect("cov.symmetric_embedded", exactly_symmetric(e6) && exactly_symmetric(back), "cov_asymmetric", pe, we);
  if (all_finite(e6)) {
    LD l6 = lambda_min(e6);
    c.expect_le("cov.psd_embedded", std::max<LD>(0, -l6), 16 * EPS * trace_of(c3), "cov_not_psd", pe, [&]() {
        return vh::J().raw("case", we()).f("lambda_min", l6).str();
      });
  } else {
    c.violation("nonfinite", pe(), we());
  }

  // ---- the same selection on float and long double matrices (the selectors are templates)
  if (r.coin(0.5)) {
    Eigen::Matrix6f f6 = p3.covariance.cast<float>();
    Eigen::Matrix3f f3 = rc::toSe2Covariance(f6);
    static const int S[3] = {0, 1, 5};
    bool ok = true;
    for (int i = 0; i < 3; ++i) {for (int j = 0; j < 3; ++j) {ok = ok && biteqf(f3(i, j), f6(S[i], S[j]));}}
    Eigen::Matrix3f g3 = c3.cast<float>();
    Eigen::Matrix3f gb = rc::toSe2Covariance(rc::toSe3Covariance(g3));
    for (int i = 0; i < 9; ++i) {ok = ok && biteqf(gb(i), g3(i));}
    c.expect("reduce.float_selection", ok, "reduce_cov_float", params, [&]() {
        return vh::J().raw("case", wit()).raw("got_se2f", vh::jmat(f3)).raw("roundtrip_f", vh::jmat(gb)).str();
      });
  } else {
    typedef Eigen::Matrix<LD, 6, 6> M6L;
    typedef Eigen::Matrix<LD, 3, 3> M3L;
    auto same = [](LD x, LD y) {return x == y && std::signbit(x) == std::signbit(y);};
    M6L l6 = p3.covariance.cast<LD>();
    M3L l3 = rc::toSe2Covariance(l6);
    static const int S[3] = {0, 1, 5};
    bool ok = true;
    for (int i = 0; i < 3; ++i) {for (int j = 0; j < 3; ++j) {ok = ok && same(l3(i, j), l6(S[i], S[j]));}}
    M3L k3 = c3.cast<LD>();
    M3L kb = rc::toSe2Covariance(rc::toSe3Covariance(k3));
    for (int i = 0; i < 9; ++i) {ok = ok && same(kb(i), k3(i));}
    c.expect("reduce.long_double_selection", ok, "reduce_cov_long_double", params, [&]() {
        return vh::J().raw("case", wit()).raw("got_se2l", vh::jmat(l3)).raw("roundtrip_l", vh::jmat(kb)).str();
      });
  }

  // ---- API discipline: the reductions are pure functions of the VALUES of their arguments
  const bool api = r.coin(0.15);
  if (api) {
    c.cat("reduce_api");
    // (a) value semantics of the argument types: every kind of copy reduces like the original,
    //     also after the object it was copied from has been overwritten
    {
      rc::PoseAndTwist3D src(pt3);
      rc::PoseAndTwist3D cc(src);
      rc::PoseAndTwist3D ca; poison(r, ca); ca = src;
      rc::PoseAndTwist3D tmp1(src); rc::PoseAndTwist3D mc(std::move(tmp1));
      rc::PoseAndTwist3D tmp2(src); rc::PoseAndTwist3D ma; poison(r, ma); ma = std::move(tmp2);
      rc::PoseAndTwist3D & alias = cc; cc = alias;
      poison(r, src); poison(r, tmp1); poison(r, tmp2);
      bool ok = same_bits(rc::toPoseAndTwist2D(cc), pt2) && same_bits(rc::toPoseAndTwist2D(ca), pt2) &&
        same_bits(rc::toPoseAndTwist2D(mc), pt2) && same_bits(rc::toPoseAndTwist2D(ma), pt2) &&
        same_bits(rc::toPose2D(cc.pose), p2) && same_bits(rc::toTwist2D(ma.twist), t2) &&
        same_bits(rc::toPosition3D(mc.pose), q3);
      // using (and then overwriting) a copy leaves its source alone
      rc::PoseAndTwist3D keep(pt3); rc::PoseAndTwist3D user(keep);
      rc::PoseAndTwist2D out; rc::toPoseAndTwist2D(user, out); poison(r, user);
      ok = ok && same_bits(keep, pt3_saved) && same_bits(out, pt2);
      // results are values too
      rc::PoseAndTwist2D rcopy(pt2); rc::PoseAndTwist2D rassign; rassign = rcopy; poison(r, rcopy.pose); poison(r, rcopy.twist);
      rc::Position3D qcopy(q3); rc::Position3D qassign; qassign = qcopy; qcopy.covariance.setConstant(1e30);
      ok = ok && same_bits(rassign, pt2) && same_bits(qassign, q3);
      c.expect("reduce.api.copy_semantics", ok, "copy_semantics", params, [&]() {
          return vh::J().raw("case", wit()).s("what", "copied / moved / self-assigned PoseAndTwist3D reduces differently").str();
        });
    }
    // (b) value categories: temporaries and moved-from-able arguments
    {
      rc::PoseAndTwist3D m1(pt3), m2(pt3), m3c(pt3);
      rc::PoseAndTwist2D o1; rc::Pose2D o2; rc::Twist2D o3; rc::Position3D o4;
      rc::toPoseAndTwist2D(rc::PoseAndTwist3D(pt3), o1);
      rc::toPose2D(rc::Pose3D(p3), o2);
      rc::toTwist2D(rc::Twist3D(t3), o3);
      rc::toPosition3D(rc::Pose3D(p3), o4);
      bool ok = same_bits(rc::toPoseAndTwist2D(rc::PoseAndTwist3D(pt3)), pt2) && same_bits(rc::toPose2D(rc::Pose3D(p3)), p2) &&
        same_bits(rc::toTwist2D(std::move(m1.twist)), t2) && same_bits(rc::toPosition3D(std::move(m2.pose)), q3) &&
        same_bits(rc::toPoseAndTwist2D(std::move(m3c)), pt2) && same_bits(o1, pt2) && same_bits(o2, p2) &&
        same_bits(o3, t2) && same_bits(o4, q3) &&
        same_matrix_bits(rc::toSe2Covariance(Eigen::Matrix6d(p3.covariance)), p2.covariance) &&
        same_matrix_bits(rc::toSe3Covariance(Eigen::Matrix3d(c3)), e6) &&
        same_matrix_bits(rc::toSe2Covariance(rc::toSe3Covariance(Eigen::Matrix3d(c3))), c3);
      c.expect("reduce.api.rvalue_arguments", ok, "value_category", params, [&]() {
          return vh::J().raw("case", wit()).s("what", "temporary / std::move argument reduces differently").str();
        });
    }
    // (c) neighbouring facilities between two observations: stream formatting of every geometry
    //     type, sibling objects going through the same functions
    {
      std::ostringstream os;
      os.precision(static_cast<int>(r.range(1, 17)));
      if (r.coin()) {os << std::scientific;}
      os << pt2 << p2 << t2;
      if (r.coin(0.15)) {os << pt3 << p3 << t3;}          // 6x6 printing is slow, keep it rare
      rc::PoseAndTwist3D other; poison(r, other);
      rc::PoseAndTwist2D other2 = rc::toPoseAndTwist2D(other);
      rc::toPoseAndTwist2D(other, other2);
      rc::Position3D other3 = rc::toPosition3D(other.pose);
      (void)other3;
      bool ok = same_bits(rc::toPoseAndTwist2D(pt3), pt2) && same_bits(rc::toPose2D(p3), p2) &&
        same_bits(rc::toTwist2D(t3), t2) && same_bits(rc::toPosition3D(p3), q3) &&
        same_matrix_bits(rc::toSe3Covariance(c3), e6) && same_matrix_bits(rc::toSe2Covariance(e6), back) && os.good();
      c.expect("reduce.api.stable_after_neighbour_calls", ok, "result_unstable", params, [&]() {
          return vh::J().raw("case", wit()).s("what", "same call, different result after stream output / sibling objects").str();
        });
    }
  }
  // (d) long histories: the same destinations filled over and over, alternately from two sources
  if (int N = history_length(r, 0.005, 0.00005)) {
    c.cat(N > 60000 ? "reduce_history_2^16" : "reduce_history_2^8");
    c.cat(N > 60000 ? "history_2^16" : "history_2^8");
    rc::PoseAndTwist3D other(pt3);
    other.pose.position += Eigen::Vector3d(1, -2, 3); other.pose.orientation[2] += 0.5; other.twist.angularSpeeds[2] -= 1;
    other.pose.covariance(0, 5) += 1; other.pose.covariance(5, 0) += 1; other.twist.covariance(5, 5) += 2;
    rc::PoseAndTwist2D d; rc::Pose2D dp; rc::Twist2D dt; rc::Position3D dq; Eigen::Matrix3d d3; Eigen::Matrix6d d6;
    for (int i = 0; i <= N; ++i) {
      const rc::PoseAndTwist3D & src = (i == N || (i & 1)) ? pt3 : other;
      rc::toPoseAndTwist2D(src, d); rc::toPose2D(src.pose, dp); rc::toTwist2D(src.twist, dt);
      rc::toPosition3D(src.pose, dq);
      d3 = rc::toSe2Covariance(src.pose.covariance);
      d6 = rc::toSe3Covariance(d3);
    }
    bool ok = same_bits(d, pt2) && same_bits(dp, p2) && same_bits(dt, t2) && same_bits(dq, q3) &&
      same_matrix_bits(d3, p2.covariance) && same_bits(rc::toPoseAndTwist2D(pt3), pt2);
    auto ph = [&]() {auto q = params(); q.push_back({"calls", (double)N}); return q;};
    c.expect("reduce.api.long_history", ok, "history_dependent", ph, [&]() {
        return vh::J().raw("case", wit()).f("calls", N).s("what", "result differs after many earlier calls").str();
      });
  }
  // (e) at the end of the case: the inputs were not touched, the results obtained first still hold
  c.expect("reduce.api.inputs_untouched", same_bits(pt3, pt3_saved), "input_modified", params, [&]() {
      return vh::J().raw("case", wit()).raw("pose_cov_before", vh::jmat(pt3_saved.pose.covariance))
             .raw("position_before", vh::jvec(pt3_saved.pose.position)).str();
    });
  c.expect("reduce.api.results_kept", mean_cov_ok(pt2.pose, pt2.twist) && mean_cov_ok(pt2b.pose, pt2b.twist) &&
    same_bits(p2b, p2) && same_bits(t2b, t2) && same_bits(q3b, q3), "result_unstable", params, [&]() {
      return vh::J().raw("case", wit()).s("what", "results held by value changed by the end of the case").str();
    });
}

// ------------------------------------------------------------------------------------------
// family 2: SE(3) action on position and attitude
// ------------------------------------------------------------------------------------------
static bool pose_finite(const rc::Pose3D & p)
{
  return all_finite(p.position) && all_finite(p.orientation);
}

static void case_se3(vh::Ctx & c, vh::Rng & r)
{
  rc::Pose3D pose;
  int attk;
  pose.position = pick_vec3(r);
  pose.orientation = pick_attitude(r, attk);
  gen_cov(r, 6, pick_cov_kind(r), pose.covariance);      // present, but not what C11 looks at
  const M3 Rp = euler_R(pose.orientation);

  // transforms A (applied last) and B, re-drawn while an image comes closer than 1e-3 rad to
  // gimbal lock (the quantifier excludes such poses; the oracle decides, not the library)
  int ka = 0, kb = 0, special = 0;
  Eigen::Affine3d A, B;
  M3 RB, RA, R_B_pose, R_A_pose, R_AB_pose;
  bool found = false, hugeA = false, hugeB = false;
  for (int attempt = 0; attempt < 16 && !found; ++attempt) {
    static const int W[XF_NKINDS] = {30, 15, 10, 8, 10, 20, 7};
    auto pk = [&]() {
        int x = static_cast<int>(r.range(0, 99));
        for (int k = 0; k < XF_NKINDS; ++k) {if (x < W[k]) {return k;} x -= W[k];}
        return 0;
      };
    kb = pk();
    B = gen_transform(r, kb, Rp, hugeB);
    RB = from_eigen(B.linear());
    R_B_pose = mul(RB, Rp);
    ka = pk();
    A = gen_transform(r, ka, r.coin(0.5) ? R_B_pose : Rp, hugeA);
    // exact relations random draws never produce: the same transform twice, a transform and its
    // inverse, an image exactly at (or one rounding from) the origin
    special = static_cast<int>(r.range(0, 24));
    if (special == 1) {A = B; ka = kb; hugeA = hugeB;} else if (special == 2) {A = inverse_of(B); hugeA = hugeB;} else if (special == 3) {
      for (int i = 0; i < 3; ++i) {
        LD t = 0;
        for (int k = 0; k < 3; ++k) {t += static_cast<LD>(A.linear()(i, k)) * static_cast<LD>(pose.position[k]);}
        A.translation()[i] = static_cast<double>(-t);
      }
      hugeA = false;
    }
    RA = from_eigen(A.linear());
    R_A_pose = mul(RA, Rp);
    R_AB_pose = mul(RA, R_B_pose);
    found = cos_pitch_of(R_B_pose) >= COS_LIMIT && cos_pitch_of(R_A_pose) >= COS_LIMIT &&
      cos_pitch_of(R_AB_pose) >= COS_LIMIT;
  }
  c.cat("se3");
  if (!found) {c.skip("se3:image_within_1e-3_of_gimbal_lock"); return;}
  c.cat(XF_NAME[ka]);
  c.cat(XF_NAME[kb]);
  c.cat(ATT_NAME[attk]);
  if (hugeA || hugeB) {c.cat("se3_huge_translation");}
  if (special == 1) {c.cat("se3_same_transform_twice");}
  if (special == 2) {c.cat("se3_transform_and_inverse");}
  if (special == 3) {c.cat("se3_image_at_origin");}
  const rc::Pose3D pose_saved(pose);
  const Eigen::Affine3d A_saved(A), B_saved(B);

  const LD cp_in = cos_pitch_of(Rp), cp_A = cos_pitch_of(R_A_pose), cp_B = cos_pitch_of(R_B_pose),
    cp_AB = cos_pitch_of(R_AB_pose);
  if (cp_A < 1e-2L || cp_B < 1e-2L || cp_AB < 1e-2L) {c.cat("se3_image_near_lock");}
  const LD np = norm3(pose.position), nTa = norm3(A.translation()), nTb = norm3(B.translation());

  bool trivial = (ka == XF_TRANS && attk == 2);
  c.distinct(vh::hash_doubles({2.0, pose.position[0], pose.position[1], pose.position[2], pose.orientation[0],
        pose.orientation[1], pose.orientation[2], A.linear()(0, 0), A.linear()(1, 0), A.linear()(2, 1),
        A.translation()[0], A.translation()[2], B.linear()(0, 1), B.translation()[1]}), !trivial);

  auto params = [&]() {
      return vh::Params{{"family", 2}, {"xf_kind", (double)ka}, {"xf2_kind", (double)kb}, {"att_kind", (double)attk},
        {"cos_pitch_in", (double)cp_in}, {"cos_pitch_out", (double)cp_A}, {"cos_pitch_mid", (double)cp_B},
        {"cos_pitch_composed", (double)cp_AB}, {"position_norm", (double)np}, {"translation_norm", (double)nTa}};
    };
  auto wit = [&]() {
      return vh::J().s("family", "se3").s("A_kind", XF_NAME[ka]).s("B_kind", XF_NAME[kb]).s("attitude_kind", ATT_NAME[attk])
             .raw("position", vh::jvec(pose.position)).raw("orientation", vh::jvec(pose.orientation))
             .raw("A_linear", vh::jmat(A.linear())).raw("A_translation", vh::jvec(A.translation()))
             .raw("B_linear", vh::jmat(B.linear())).raw("B_translation", vh::jvec(B.translation())).str();
    };
  c.sample(XF_NAME[ka], wit);

  auto pos_err = [&](const Eigen::Vector3d & got, const LD exp[3]) {
      LD d = 0;
      for (int i = 0; i < 3; ++i) {d += (got[i] - exp[i]) * (got[i] - exp[i]);}
      return sqrtl(d);
    };
  auto apply = [&](const M3 & R, const Eigen::Vector3d & T, const LD p[3], LD out[3]) {
      for (int i = 0; i < 3; ++i) {
        out[i] = R.m[i][0] * p[0] + R.m[i][1] * p[1] + R.m[i][2] * p[2] + static_cast<LD>(T[i]);
      }
    };
  auto wpose = [&](const char * what, const rc::Pose3D & got) {
      return vh::J().raw("case", wit()).s("what", what).raw("got_position", vh::jvec(got.position))
             .raw("got_orientation", vh::jvec(got.orientation)).str();
    };
  const LD p0[3] = {pose.position[0], pose.position[1], pose.position[2]};
  // Tolerances ("to rounding", DESIGN 2.6): position K eps (|p| + |T|) (rotations have norm 1);
  // attitude K eps / cos(pitch of the image), 1/cos pitch being the conditioning of the Euler
  // extraction (asin and the two atan2 of entries that shrink with cos pitch).  K = 256: the library
  // takes Affine3d::rotation(), i.e. the polar factor U V^T of the linear part from a two-sided
  // Jacobi SVD; U and V are products of ~10 plane rotations each and are orthonormal only to
  // ~10 eps, which is inherited by R p and by every entry of R R_pose (observed up to 13 eps).
  const LD K_P = 256, K_R = 256;
  // below the normal range the rounding unit is absolute (4.9e-324), not relative: each of the three
  // products of a row of R p rounds to a multiple of denorm_min (<= 1.5 units per component, 2.6 on
  // the norm, twice that for two successive transforms); 32 units keeps the same 6x head-room
  const LD TINY = 32 * static_cast<LD>(std::numeric_limits<double>::denorm_min());

  // ---- identity is neutral
  {
    rc::Pose3D id = Eigen::Affine3d::Identity() * pose;
    if (!c.expect("se3.identity_finite", pose_finite(id), "nonfinite", params,
      [&]() {return wpose("Identity * pose", id);})) {return;}
    c.expect_le("se3.identity_position", pos_err(id.position, p0), K_P * EPS * np + TINY, "se3_identity", params,
      [&]() {return wpose("Identity * pose", id);});
    c.expect_le("se3.identity_attitude", max_abs_diff(euler_R(id.orientation), Rp), K_R * EPS / cp_in,
      "se3_identity", params, [&]() {return wpose("Identity * pose", id);});
  }

  // ---- A * pose against the definition
  rc::Pose3D ap = A * pose;
  if (!c.expect("se3.finite", pose_finite(ap), "nonfinite", params, [&]() {return wpose("A * pose", ap);})) {return;}
  {
    LD e[3];
    apply(RA, A.translation(), p0, e);
    c.expect_le("se3.position", pos_err(ap.position, e), K_P * EPS * (np + nTa) + TINY, "se3_position", params, [&]() {
        return vh::J().raw("got", wpose("A * pose", ap)).f("ex", e[0]).f("ey", e[1]).f("ez", e[2]).str();
      });
    c.expect_le("se3.attitude", max_abs_diff(euler_R(ap.orientation), R_A_pose), K_R * EPS / cp_A, "se3_attitude",
      params, [&]() {return wpose("A * pose", ap);});
  }

  // ---- successive transforms compose: (A*B) * pose == A * (B * pose)
  rc::Pose3D bp = B * pose;
  if (!c.expect("se3.finite", pose_finite(bp), "nonfinite", params, [&]() {return wpose("B * pose", bp);})) {return;}
  rc::Pose3D abp = A * bp;
  rc::Pose3D ab_p = (A * B) * pose;
  if (!c.expect("se3.finite", pose_finite(abp) && pose_finite(ab_p), "nonfinite", params,
    [&]() {return wpose("A * (B * pose)", abp);})) {return;}
  {
    LD d = 0;
    for (int i = 0; i < 3; ++i) {
      LD x = static_cast<LD>(abp.position[i]) - static_cast<LD>(ab_p.position[i]); d += x * x;
    }
    auto w = [&]() {
        return vh::J().raw("case", wit()).raw("A_Bpose_position", vh::jvec(abp.position))
               .raw("A_Bpose_orientation", vh::jvec(abp.orientation)).raw("AB_pose_position", vh::jvec(ab_p.position))
               .raw("AB_pose_orientation", vh::jvec(ab_p.orientation)).raw("Bpose_position", vh::jvec(bp.position))
               .raw("Bpose_orientation", vh::jvec(bp.orientation)).str();
      };
    c.expect_le("se3.compose_position", sqrtl(d), 2 * K_P * EPS * (np + nTa + nTb) + TINY, "se3_compose", params, w);
    c.expect_le("se3.compose_attitude", max_abs_diff(euler_R(abp.orientation), euler_R(ab_p.orientation)),
      K_R * EPS * (1 / cp_B + 2 / cp_AB), "se3_compose", params, w);
    // and both against the definition, so that a common deviation does not cancel
    LD e1[3], e2[3];
    apply(RB, B.translation(), p0, e1);
    apply(RA, A.translation(), e1, e2);
    c.expect_le("se3.compose_position_vs_definition", pos_err(abp.position, e2), 2 * K_P * EPS * (np + nTa + nTb) + TINY,
      "se3_position", params, w);
    c.expect_le("se3.compose_attitude_vs_definition", max_abs_diff(euler_R(abp.orientation), R_AB_pose),
      K_R * EPS * (1 / cp_B + 1 / cp_AB), "se3_attitude", params, w);
  }

  // ---- API discipline: A * pose is a pure function of the VALUES of A and pose (position and
  //      attitude are what C11 looks at; `ap` above has been checked against the definition)
  auto same_pose = [](const rc::Pose3D & x, const rc::Pose3D & y) {
      bool ok = true;
      for (int i = 0; i < 3; ++i) {ok = ok && biteq(x.position[i], y.position[i]) && biteq(x.orientation[i], y.orientation[i]);}
      return ok;
    };
  // (each product costs two 3x3 SVDs: the sub-blocks are drawn independently, 5% each)
  {
    // (a) copies of the arguments, sources overwritten afterwards
    if (r.coin(0.05)) {
      c.cat("se3_api"); c.cat("se3_api_copies");
      rc::Pose3D src(pose);
      rc::Pose3D cc(src);
      rc::Pose3D ca; poison(r, ca); ca = src;
      rc::Pose3D tmp1(src); rc::Pose3D mc(std::move(tmp1));
      rc::Pose3D tmp2(src); rc::Pose3D ma; poison(r, ma); ma = std::move(tmp2);
      rc::Pose3D & alias = cc; cc = alias;
      Eigen::Affine3d Asrc(A); Eigen::Affine3d Ac(Asrc); Asrc = B;
      poison(r, src); poison(r, tmp1); poison(r, tmp2);
      rc::Pose3D keep(pose); rc::Pose3D user(keep); rc::Pose3D got = Ac * user; poison(r, user);
      rc::Pose3D rcopy(ap); rc::Pose3D rassign; rassign = rcopy; poison(r, rcopy);
      bool ok = same_pose(Ac * cc, ap) && same_pose(A * ca, ap) && same_pose(A * mc, ap) && same_pose(Ac * ma, ap) &&
        same_pose(got, ap) && same_bits(keep, pose_saved) && same_pose(rassign, ap);
      c.expect("se3.api.copy_semantics", ok, "copy_semantics", params, [&]() {return wpose("A * copy-of-pose", Ac * cc);});
    }
    // (b) temporaries, std::move, the result assigned over its own argument
    if (r.coin(0.05)) {
      c.cat("se3_api"); c.cat("se3_api_rvalues");
      rc::Pose3D m1(pose); Eigen::Affine3d Am(A);
      rc::Pose3D self(pose); self = A * self;
      rc::Pose3D t1 = Eigen::Affine3d(A) * rc::Pose3D(pose);
      rc::Pose3D t2 = std::move(Am) * std::move(m1);
      bool ok = same_pose(self, ap) && same_pose(t1, ap) && same_pose(t2, ap);
      c.expect("se3.api.rvalue_and_self_assignment", ok, "value_category", params, [&]() {return wpose("pose = A * pose", self);});
    }
    // (c) the other Eigen transform types holding the same rigid motion (they convert to Affine3d)
    if (r.coin(0.05)) {
      c.cat("se3_api"); c.cat("se3_api_transform_types");
      Eigen::Isometry3d iso = Eigen::Isometry3d::Identity();
      iso.linear() = A.linear(); iso.translation() = A.translation();
      Eigen::AffineCompact3d ac = Eigen::AffineCompact3d::Identity();
      ac.linear() = A.linear(); ac.translation() = A.translation();
      rc::Pose3D ri = iso * pose, rk = ac * pose;
      c.expect("se3.api.transform_types", same_pose(ri, ap) && same_pose(rk, ap), "overload_mismatch", params,
        [&]() {return wpose("Isometry3d * pose", ri);});
    }
    // (d) neighbouring facilities between two observations
    if (r.coin(0.05)) {
      c.cat("se3_api"); c.cat("se3_api_neighbours");
      std::ostringstream os;
      os.precision(static_cast<int>(r.range(1, 17)));
      if (r.coin()) {os << std::scientific;}
      os << rc::toPose2D(ap);
      if (r.coin(0.15)) {os << pose << ap;}
      rc::Pose3D other; poison(r, other);
      other.orientation << r.uni(-3.0, 3.0), r.uni(-1.0, 1.0), r.uni(-3.0, 3.0);
      for (int i = 0; i < 3; ++i) {other.position[i] = r.uni(-1e4, 1e4);}
      rc::Pose3D o1 = B * other;
      (void)o1;
      rc::Pose3D again = A * pose;
      c.expect("se3.api.stable_after_neighbour_calls", same_pose(again, ap) && os.good(), "result_unstable", params,
        [&]() {return wpose("A * pose, second evaluation", again);});
    }
  }
  // (e) long histories: the same product evaluated 2^8+k / 2^16+k times, alternating with another
  if (int N = history_length(r, 0.0015, 0.00001)) {
    c.cat(N > 60000 ? "se3_history_2^16" : "se3_history_2^8");
    c.cat(N > 60000 ? "history_2^16" : "history_2^8");
    rc::Pose3D last;
    for (int i = 0; i <= N; ++i) {last = ((i == N || (i & 1)) ? A : B) * pose;}
    auto ph = [&]() {auto q = params(); q.push_back({"calls", (double)N}); return q;};
    c.expect("se3.api.long_history", same_pose(last, ap), "history_dependent", ph,
      [&]() {return wpose("A * pose after many earlier calls", last);});
    if (N < 1000) {
      // the nearest thing to a mutator: pose <- A^-1 * (A * pose), N/2 times; the drift stays
      // within the accumulated rounding budget of the N products
      const Eigen::Affine3d Ai = inverse_of(A);
      rc::Pose3D x(pose);
      bool fin = true;
      for (int i = 0; i < N / 2 && fin; ++i) {x = Ai * (A * x); fin = pose_finite(x);}
      if (c.expect("se3.finite", fin, "nonfinite", ph, [&]() {return wpose("ping-pong chain", x);})) {
        const LD steps = N / 2;
        c.expect_le("se3.history_position_drift", pos_err(x.position, p0), steps * (4 * K_P * EPS * (np + nTa) + TINY),
          "se3_history_drift", ph, [&]() {return wpose("(A^-1 A)^k * pose", x);});
        c.expect_le("se3.history_attitude_drift", max_abs_diff(euler_R(x.orientation), Rp),
          steps * K_R * EPS * (1 / cp_in + 1 / cp_A), "se3_history_drift", ph, [&]() {return wpose("(A^-1 A)^k * pose", x);});
      }
    }
  }
  // (f) at the end of the case: arguments untouched
  c.expect("se3.api.inputs_untouched",
    same_bits(pose, pose_saved) && same_matrix_bits(A.matrix(), A_saved.matrix()) &&
    same_matrix_bits(B.matrix(), B_saved.matrix()), "input_modified", params, [&]() {return wpose("inputs changed", pose);});
}

// ------------------------------------------------------------------------------------------
// family 3: uncertainty ellipse
// ------------------------------------------------------------------------------------------
static void case_ellipse(vh::Ctx & c, vh::Rng & r)
{
  const bool from_pose = r.coin(0.5);
  int ck = pick_cov_kind(r);
  Eigen::Matrix2d C;
  // through a pose the xy block is extended to a 3x3 PSD matrix by a congruence that can
  // multiply the condition number by up to 6.9: keep the product below 1e8
  const bool extreme = r.coin(0.1);           // covariance scale 1e-290..1e290
  CovMeta m = gen_cov(r, 2, ck, C, from_pose ? 1e7 : 0.99e8, extreme);
  const bool ties = !extreme && r.coin(0.06);
  if (ties) {
    // exact ties: [[a, b], [b, a]] with dyadic a and b in {0, +-a/2, +-a, +-a(1 - 2^-20)}: principal axes
    // exactly at +-45 degrees, equal diagonal, exactly singular or exactly isotropic
    double a = static_cast<double>(r.range(1, 16)) * std::ldexp(1.0, static_cast<int>(r.range(-20, 20)));
    static const double F[] = {0.0, 0.5, -0.5, 1.0, -1.0, 1.0 - 0x1p-20, -(1.0 - 0x1p-20)};
    double f = F[r.range(0, 6)];
    C << a, a * f, a * f, a;
    m.rank = std::fabs(f) == 1.0 ? 1 : 2;
    m.lmax = a * (1 + std::fabs(f));
    m.cond = m.rank == 1 ? 1.0 : (1 + std::fabs(f)) / (1 - std::fabs(f));
    m.angle = f == 0 ? 0 : (f > 0 ? M_PI / 4 : -M_PI / 4);
  }
  const bool negzero = r.coin(0.1);
  if (negzero) {negative_zeros(C);}
  Eigen::Vector2d centre(pick_component(r, (int)r.range(0, 6)), pick_component(r, (int)r.range(0, 6)));
  // sigma in (0, 10]: log-uniform down to 1e-200 (sqrt(lambda) * sigma stays a normal number for the
  // covariance scales generated with it); with the extreme covariance scales sigma stays in [1e-3, 10]
  double sigma;
  int sk = static_cast<int>(r.range(0, 6));
  if (sk == 0) {sigma = 1.0;} else if (sk == 1) {sigma = 10.0;} else if (sk == 2) {sigma = r.uni(0.0, 10.0);} else if (sk == 3) {
    sigma = r.logu(1e-12, 10.0);
  } else if (sk == 4) {sigma = static_cast<double>(r.range(1, 10));} else if (sk == 5) {sigma = r.logu(1e-200, 1e-12);} else {
    sigma = r.logu(1e-3, 10.0);
  }
  if (extreme && sigma < 1e-3) {sigma = r.logu(1e-3, 10.0);}
  if (!(sigma > 0)) {sigma = 1.0;}
  if (sigma > 10.0) {sigma = 10.0;}

  const std::string cat = std::string("ellipse_cov_") + COV_NAME[ck];
  c.cat("ellipse");
  c.cat(cat);
  c.cat(from_pose ? "ellipse_of_pose" : "ellipse_of_position");
  if (extreme) {c.cat("ellipse_extreme_scale");}
  if (ties) {c.cat("ellipse_exact_ties");}
  if (negzero) {c.cat("ellipse_negative_zero_cov");}
  if (sigma < 1e-12) {c.cat("ellipse_tiny_sigma");}
  bool trivial = (ck == COV_DIAGONAL || ck == COV_ISOTROPIC || ck == COV_ZERO) && sigma == 1.0;
  c.distinct(vh::hash_doubles({3.0, C(0, 0), C(0, 1), C(1, 1), sigma, centre[0], centre[1], from_pose ? 1.0 : 0.0}),
    !trivial);

  rc::Pose2D pose;
  rc::Position2D pos;
  if (from_pose) {
    pose.position = centre;
    pose.yaw = r.uni(-M_PI, M_PI);
    // C3 = M diag(C, v) M^T with M = [I 0; w^T 1], |w| <= 0.71 (cond(M)^2 <= 4) and v inside the
    // spectrum of C (or within a factor 2 of it): the 3x3 covariance stays PSD with condition < 1e8
    Eigen::Vector2d w(r.uni(-0.5, 0.5), r.uni(-0.5, 0.5));
    if (r.coin(0.2)) {w.setZero();}
    Eigen::Vector2d b = C * w;
    double top = std::max(C(0, 0), C(1, 1));      // lmax/2 <= top <= lmax
    double v = top > 0 ? top * r.uni(0.5, 1.0) : (r.coin() ? 0.0 : 1.0);
    pose.covariance.setZero();
    pose.covariance.block<2, 2>(0, 0) = C;
    pose.covariance(0, 2) = b[0]; pose.covariance(2, 0) = b[0];
    pose.covariance(1, 2) = b[1]; pose.covariance(2, 1) = b[1];
    pose.covariance(2, 2) = w.dot(b) + v;
  } else {
    pos.position = centre;
    pos.covariance = C;
  }
  // descriptors from the definition: closed-form eigenvalues of the 2x2 matrix in long double
  const LD a = C(0, 0), bb = C(0, 1), d = C(1, 1);
  const LD half_tr = (a + d) / 2, disc = hypotl((a - d) / 2, bb);
  const LD l_hi = half_tr + disc, l_lo = half_tr - disc;
  const LD scale = std::max<LD>(l_hi, 0);

  auto params = [&]() {
      return vh::Params{{"family", 3}, {"cov_kind", (double)ck}, {"sigma", sigma}, {"rank", (double)m.rank},
        {"cond", m.cond}, {"lmax", (double)l_hi}, {"lmin", (double)l_lo}, {"angle", m.angle},
        {"from_pose", from_pose ? 1.0 : 0.0}};
    };
  const rc::Pose2D pose_saved(pose);
  const rc::Position2D pos_saved(pos);
  const double sigma_saved = sigma;
  rc::Ellipse e = from_pose ? rc::uncertaintyEllipse(pose, sigma) : rc::uncertaintyEllipse(pos, sigma);
  // the accessors return references: bound as such and looked at again at the end of the case
  const double & ref_major = e.getMajorRadius();
  const double & ref_minor = e.getMinorRadius();
  const double & ref_theta = e.getOrientation();
  const Eigen::Vector2d & ref_centre = e.getCenterPosition();
  const double major = e.getMajorRadius(), minor = e.getMinorRadius(), theta = e.getOrientation();
  const Eigen::Vector2d got_centre = e.getCenterPosition();
  auto wit = [&]() {
      return vh::J().s("family", "ellipse").s("cov_kind", COV_NAME[ck]).boolean("from_pose", from_pose)
             .raw("xy_cov", vh::jmat(C)).raw("pose_cov", from_pose ? vh::jmat(pose.covariance) : std::string("null"))
             .f("sigma", sigma).raw("centre", vh::jvec(centre)).f("major", major).f("minor", minor)
             .f("orientation", theta).raw("got_centre", vh::jvec(e.getCenterPosition())).str();
    };
  c.sample(cat, wit);

  if (!c.expect("ellipse.finite", std::isfinite(major) && std::isfinite(minor) && std::isfinite(theta),
    "nonfinite", params, wit)) {return;}
  c.expect("ellipse.centre", biteq(e.getCenterPosition()[0], centre[0]) && biteq(e.getCenterPosition()[1], centre[1]),
    "ellipse_centre", params, wit);
  c.expect("ellipse.order", major >= minor && minor >= 0, "ellipse_radii_order", params, wit);
  {
    LD ct = cosl(static_cast<LD>(theta)), st = sinl(static_cast<LD>(theta));
    LD s2 = static_cast<LD>(sigma) * sigma;
    LD A2 = static_cast<LD>(major) * major / s2, B2 = static_cast<LD>(minor) * minor / s2;
    LD r00 = ct * ct * A2 + st * st * B2, r01 = ct * st * (A2 - B2), r11 = st * st * A2 + ct * ct * B2;
    LD err = std::max(std::max(fabsl(r00 - a), fabsl(r11 - d)), fabsl(r01 - bb));
    c.expect_le("ellipse.reconstruct", err, 64 * EPS * scale, "ellipse_reconstruct", params, [&]() {
        return vh::J().raw("case", wit()).f("r00", r00).f("r01", r01).f("r11", r11).str();
      });
  }

  // ---- API discipline: the ellipse is a pure function of the VALUES (centre, xy covariance, sigma)
  auto eq = [&](const rc::Ellipse & x) {
      return biteq(x.getMajorRadius(), major) && biteq(x.getMinorRadius(), minor) && biteq(x.getOrientation(), theta) &&
             biteq(x.getCenterPosition()[0], got_centre[0]) && biteq(x.getCenterPosition()[1], got_centre[1]);
    };
  auto make = [&]() {return from_pose ? rc::uncertaintyEllipse(pose, sigma) : rc::uncertaintyEllipse(pos, sigma);};
  auto wapi = [&](const char * what, const rc::Ellipse & x) {
      return vh::J().raw("case", wit()).s("what", what).f("got_major", x.getMajorRadius()).f("got_minor", x.getMinorRadius())
             .f("got_orientation", x.getOrientation()).raw("got_centre2", vh::jvec(x.getCenterPosition())).str();
    };
  // the explicit constructors: the accessors give back what was given
  {
    const double ex = pick_component(r, (int)r.range(0, 6)), ey = pick_component(r, (int)r.range(0, 6)),
      et = r.uni(-M_PI, M_PI), ea = r.logu(1e-6, 1e6), eb = ea * r.uni(0.0, 1.0);
    rc::Ellipse x1(ex, ey, et, ea, eb);
    rc::Ellipse x2(Eigen::Vector2d(ex, ey), et, ea, eb);
    const rc::Ellipse & cx1 = x1;
    bool ok = biteq(cx1.getCenterPosition()[0], ex) && biteq(cx1.getCenterPosition()[1], ey) && biteq(cx1.getOrientation(), et) &&
      biteq(cx1.getMajorRadius(), ea) && biteq(cx1.getMinorRadius(), eb) && biteq(x2.getCenterPosition()[0], ex) &&
      biteq(x2.getCenterPosition()[1], ey) && biteq(x2.getOrientation(), et) && biteq(x2.getMajorRadius(), ea) &&
      biteq(x2.getMinorRadius(), eb);
    c.expect("ellipse.accessors", ok, "ellipse_accessor", params, [&]() {return wapi("Ellipse(x, y, theta, a, b)", x1);});
  }
  if (r.coin(0.15)) {
    c.cat("ellipse_api");
    // sibling ellipse, used below as "something else of the same class"
    Eigen::Matrix2d C2; gen_cov(r, 2, pick_cov_kind(r), C2);
    rc::Position2D other; other.position << r.uni(-1e4, 1e4), r.uni(-1e4, 1e4); other.covariance = C2;
    // (a) copies; the source is overwritten and destroyed afterwards
    {
      rc::Ellipse * src = new rc::Ellipse(e);
      rc::Ellipse cc(*src);
      rc::Ellipse ca(0, 0, 0, 0, 0); ca = *src;
      rc::Ellipse * tmp1 = new rc::Ellipse(*src); rc::Ellipse mc(std::move(*tmp1));
      rc::Ellipse * tmp2 = new rc::Ellipse(*src); rc::Ellipse ma(1, 1, 1, 1, 1); ma = std::move(*tmp2);
      rc::Ellipse & alias = cc; cc = alias;
      *src = rc::uncertaintyEllipse(other, 2.0); *tmp1 = *src; *tmp2 = *src;
      delete src; delete tmp1; delete tmp2;
      c.expect("ellipse.api.copy_semantics", eq(cc) && eq(ca) && eq(mc) && eq(ma) && eq(e), "copy_semantics", params,
        [&]() {return wapi("copied / moved / self-assigned Ellipse", ca);});
    }
    // (b) temporaries; sigma aliasing a member of the argument; references from the ellipse's own
    //     accessors passed straight back into a constructor that is assigned over it
    {
      rc::Ellipse t1 = from_pose ? rc::uncertaintyEllipse(rc::Pose2D(pose), double(sigma)) :
        rc::uncertaintyEllipse(rc::Position2D(pos), double(sigma));
      bool ok = eq(t1);
      if (from_pose) {
        rc::Pose2D pa(pose); pa.yaw = sigma;
        ok = ok && eq(rc::uncertaintyEllipse(pa, pa.yaw));
      } else {
        rc::Position2D pa(pos); pa.position[0] = sigma;
        rc::Ellipse al = rc::uncertaintyEllipse(pa, pa.position[0]);
        ok = ok && biteq(al.getMajorRadius(), major) && biteq(al.getMinorRadius(), minor) && biteq(al.getOrientation(), theta) &&
          biteq(al.getCenterPosition()[0], sigma) && biteq(al.getCenterPosition()[1], centre[1]);
      }
      rc::Ellipse g(e);
      g = rc::Ellipse(g.getCenterPosition(), C, sigma);
      ok = ok && eq(g);
      rc::Ellipse h(e);
      h = rc::Ellipse(h.getCenterPosition(), h.getOrientation(), h.getMajorRadius(), h.getMinorRadius());
      ok = ok && eq(h);
      c.expect("ellipse.api.aliasing_and_rvalues", ok, "aliased_argument", params,
        [&]() {return wapi("temporary / aliased arguments", t1);});
    }
    // (c) neighbouring facilities, then the same call again
    {
      std::ostringstream os;
      os.precision(static_cast<int>(r.range(1, 17)));
      if (r.coin()) {os << std::scientific;}
      os << pos << pose;
      rc::Ellipse sib = rc::uncertaintyEllipse(other, r.uni(0.1, 10.0));
      rc::Ellipse sib2(1.0, 2.0, 0.5, 3.0, 1.0);
      (void)sib.getMajorRadius(); (void)sib2.getCenterPosition();
      rc::Ellipse again = make();
      c.expect("ellipse.api.stable_after_neighbour_calls", eq(again) && os.good(), "result_unstable", params,
        [&]() {return wapi("same call, second evaluation", again);});
    }
  }
  // (d) long histories
  if (int N = history_length(r, 0.005, 0.00003)) {
    c.cat(N > 60000 ? "ellipse_history_2^16" : "ellipse_history_2^8");
    c.cat(N > 60000 ? "history_2^16" : "history_2^8");
    rc::Position2D other; other.position << 1, 2; other.covariance << 2, 1, 1, 3;
    rc::Ellipse last(0, 0, 0, 0, 0);
    for (int i = 0; i <= N; ++i) {
      if (i == N || (i & 1)) {last = make();} else {last = rc::uncertaintyEllipse(other, 3.0);}
    }
    auto ph = [&]() {auto q = params(); q.push_back({"calls", (double)N}); return q;};
    c.expect("ellipse.api.long_history", eq(last), "history_dependent", ph,
      [&]() {return wapi("after many earlier constructions", last);});
  }
  // (e) at the end of the case: what the bound references show, and the arguments
  c.expect("ellipse.api.references_stable",
    biteq(ref_major, major) && biteq(ref_minor, minor) && biteq(ref_theta, theta) && biteq(ref_centre[0], got_centre[0]) &&
    biteq(ref_centre[1], got_centre[1]) && &ref_major == &e.getMajorRadius() && &ref_centre == &e.getCenterPosition(),
    "result_unstable", params, [&]() {return wapi("references obtained first, read last", e);});
  c.expect("ellipse.api.inputs_untouched",
    same_matrix_bits(pose.covariance, pose_saved.covariance) && biteq(pose.yaw, pose_saved.yaw) &&
    biteq(pose.position[0], pose_saved.position[0]) && biteq(pose.position[1], pose_saved.position[1]) &&
    same_matrix_bits(pos.covariance, pos_saved.covariance) && biteq(pos.position[0], pos_saved.position[0]) &&
    biteq(pos.position[1], pos_saved.position[1]) && biteq(sigma, sigma_saved), "input_modified", params, wit);
}

// ------------------------------------------------------------------------------------------
static void one_case(vh::Ctx & c, uint64_t idx)
{
  vh::Rng r(c.seed, idx);
  int fam = static_cast<int>(r.range(0, 9));
  if (fam <= 2) {case_reduce(c, r);} else if (fam <= 6) {case_se3(c, r);} else {case_ellipse(c, r);}
}

int main(int argc, char ** argv)
{
  (void)EPSF;
  return vh::run(argc, argv, "C11", {1000000, 30000000}, one_case);
}
