// C02  Local tangent-plane (ENU) frame is a rigid, correctly oriented isometry; anchor history.
//
// A case is a HISTORY of operations on one ENUConverter, executed in lock step with a small
// sequential model {anchored, anchor}.  The oracle is independent of the code under test:
//   * forward map geodetic -> ECEF: the long-double *definition* (foot point on the ellipsoid
//     x²/a²+y²/a²+z²/b² = 1 with outward normal n(lat,lon), plus h n), as in C01;
//   * east / north: the normalised long-double *numerical* derivatives d F/d lon, d F/d lat of that
//     forward map (4th-order central differences), up = east x north; no closed-form rotation
//     matrix is written down anywhere in the oracle, so a swapped / mirrored / mis-signed frame in
//     the library cannot be mirrored here;
//   * every anchored conversion is compared with (a) the model frame, (b) its own inverse
//     conversions (1 mm, as stated), (c) a FRESH converter anchored at the model's anchor
//     ("re-anchoring fully replaces the old frame": nothing of the history may survive).
// Conversions that assert(isAnchored_) are issued only when the model is anchored.
//
// Very long histories on one object (state whose width is 2^8 or 2^16 operations): two case
// indices in every 8191 carry, inside an ordinary history, a run of 66000..70000 setAnchor calls
// (alternating between 2-3 anchors, isAnchored() compared with the model after every call, frame
// and one conversion checked every 4096 calls and around the 2^8-th / 2^16-th anchoring since the
// converter was last un-anchored) resp. a run of 66000..70000 fully checked conversions, each
// followed by one pass over every per-operation oracle.
#include <Eigen/Core>
#include <Eigen/Geometry>
#include <memory>
#include <sstream>
#include <valgrind/valgrind.h>
#include "romea_core_common/geodesy/ENUConverter.hpp"
#include "vh.hpp"
#include "vh_hooks.hpp"

using romea::core::ENUConverter;
using romea::core::GeodeticCoordinates;
using romea::core::WGS84Coordinates;
typedef long double LD;

static const LD PI_L = 3.14159265358979323846264338327950288L;
static const double EPS = std::numeric_limits<double>::epsilon();
// GRS80 as the library defines it (EarthEllipsoid::GRS80); plain data, not an algorithm
static const LD ELL_A = 6378137.0L, ELL_B = 6356752.314L;
static const double LAT_LIM = 85.0 * M_PI / 180.0;
static const double H_MIN = -500.0, H_MAX = 9000.0;
static const double HORIZ_MAX = 100000.0, VERT_MAX = 10000.0;
static const double EARTH_MAG = 6.4e6;     // magnitude of ECEF coordinates (for rounding bounds)
// The statement fixes nothing about the height of a frame auto-anchored on an altitude-less point
// (the converter re-uses the altitude of the anchor it had before reset()); DESIGN C02: noted, not
// alarmed on.  Set to true to demand that reset() also forgets that altitude.
static const bool STRICT_RESET_ALTITUDE = false;

// ------------------------------------------------------------------------------------------
// long double oracle
// ------------------------------------------------------------------------------------------
struct V3 {LD x, y, z;};
static V3 operator+(V3 a, V3 b) {return {a.x + b.x, a.y + b.y, a.z + b.z};}
static V3 operator-(V3 a, V3 b) {return {a.x - b.x, a.y - b.y, a.z - b.z};}
static V3 operator*(LD s, V3 a) {return {s * a.x, s * a.y, s * a.z};}
static LD dot(V3 a, V3 b) {return a.x * b.x + a.y * b.y + a.z * b.z;}
static V3 cross(V3 a, V3 b) {return {a.y * b.z - a.z * b.y, a.z * b.x - a.x * b.z, a.x * b.y - a.y * b.x};}
static LD norm(V3 a) {return sqrtl(dot(a, a));}
static V3 unit(V3 a) {return (1 / norm(a)) * a;}
static V3 toV3(const Eigen::Vector3d & v) {return {(LD)v[0], (LD)v[1], (LD)v[2]};}
static Eigen::Vector3d toE(V3 v) {return Eigen::Vector3d((double)v.x, (double)v.y, (double)v.z);}

static V3 normal_of(LD lat, LD lon) {return {cosl(lat) * cosl(lon), cosl(lat) * sinl(lon), sinl(lat)};}

// definition of the geodetic -> ECEF map: foot point with outward normal n, plus h n
static V3 F(LD lat, LD lon, LD h)
{
  V3 n = normal_of(lat, lon);
  LD s = sqrtl(ELL_A * ELL_A * (n.x * n.x + n.y * n.y) + ELL_B * ELL_B * n.z * n.z);
  V3 p0 = {ELL_A * ELL_A * n.x / s, ELL_A * ELL_A * n.y / s, ELL_B * ELL_B * n.z / s};
  return p0 + h * n;
}

struct Frame {V3 X0, e, n, u;};

static Frame make_frame(double lat, double lon, double alt)
{
  const LD d = 3e-4L;
  Frame f;
  f.X0 = F(lat, lon, alt);
  V3 dlon = (8.0L * (F(lat, lon + d, alt) - F(lat, lon - d, alt))) - (F(lat, lon + 2 * d, alt) - F(lat, lon - 2 * d, alt));
  V3 dlat = (8.0L * (F(lat + d, lon, alt) - F(lat - d, lon, alt))) - (F(lat + 2 * d, lon, alt) - F(lat - 2 * d, lon, alt));
  f.e = unit(dlon);
  f.n = unit(dlat);
  f.u = cross(f.e, f.n);
  return f;
}
static V3 to_local(const Frame & f, V3 X) {V3 d = X - f.X0; return {dot(f.e, d), dot(f.n, d), dot(f.u, d)};}
static V3 to_ecef(const Frame & f, V3 p) {return f.X0 + p.x * f.e + p.y * f.n + p.z * f.u;}

// ------------------------------------------------------------------------------------------
// generators
// ------------------------------------------------------------------------------------------
struct Anchor {double lat, lon, alt;};

static double clampd(double v, double lo, double hi) {return v < lo ? lo : (v > hi ? hi : v);}
static double wrap_lon(double l)
{
  if (l > M_PI) {l -= 2 * M_PI;}
  if (l < -M_PI) {l += 2 * M_PI;}
  return clampd(l, -M_PI, M_PI);
}

static const double DENORM = 4.9406564584124654e-324;

// exact special values random reals never produce: the all-zero anchor (equal to a value-initialised
// GeodeticCoordinates), signed zeros, denormals, equal components, whole degrees, whole metres
static Anchor special_anchor(vh::Rng & r)
{
  static const double Z[] = {0.0, -0.0, DENORM, -DENORM, 1e-310, -1e-310};
  Anchor a;
  switch (r.range(0, 4)) {
    case 0: a = {0.0, 0.0, 0.0}; break;
    case 1: a = {Z[r.range(0, 5)], Z[r.range(0, 5)], r.coin() ? Z[r.range(0, 5)] : (double)r.range(-500, 9000)}; break;
    case 2: {double v = r.uni(-LAT_LIM, LAT_LIM); a = {v, v, r.coin() ? v : 0.0}; break;}        // equal components
    case 3: a = {(double)r.range(-85, 85) * (M_PI / 180.0), (double)r.range(-180, 180) * (M_PI / 180.0), (double)r.range(-500, 9000)}; break;
    default: a = {(double)r.range(-1, 1), (double)r.range(-3, 3), (double)r.range(-500, 9000)};    // whole radians
  }
  a.lat = clampd(a.lat, -LAT_LIM, LAT_LIM); a.lon = clampd(a.lon, -M_PI, M_PI);
  return a;
}

static Anchor draw_anchor(vh::Rng & r)
{
  Anchor a;
  if (r.coin(0.08)) {return special_anchor(r);}
  switch (r.range(0, 7)) {
    case 3: a.lat = r.sign() * LAT_LIM; break;
    case 4: a.lat = r.sign() * (LAT_LIM - r.logu(1e-12, 1e-2)); break;
    case 5: a.lat = r.sign() * r.logu(1e-16, 1e-2); break;
    case 6: a.lat = 0.0; break;
    case 7: a.lat = r.sign() * (M_PI / 4 + r.uni(-1e-3, 1e-3)); break;
    default: a.lat = r.uni(-LAT_LIM, LAT_LIM);
  }
  switch (r.range(0, 9)) {
    case 4: a.lon = r.sign() * M_PI; break;
    case 5: a.lon = r.sign() * (M_PI - r.logu(1e-15, 1e-3)); break;
    case 6: {static const double M[] = {0.0, M_PI / 2, -M_PI / 2}; a.lon = M[r.range(0, 2)]; break;}
    case 7: a.lon = r.sign() * r.logu(1e-15, 1e-3); break;
    case 8: {
        double s = r.sign(); a.lon = s * M_PI;
        for (int i = (int)r.range(1, 4); i > 0; --i) {a.lon = std::nextafter(a.lon, 0.0);}
        break;
      }
    default: a.lon = r.uni(-M_PI, M_PI);
  }
  a.lon = clampd(a.lon, -M_PI, M_PI);
  switch (r.range(0, 5)) {
    case 0: a.alt = H_MIN; break;
    case 1: a.alt = H_MAX; break;
    case 2: a.alt = 0.0; break;
    default: a.alt = r.uni(H_MIN, H_MAX);
  }
  return a;
}

// an anchor 1e-6 m .. 1 km away from a previous one (a stale frame must still be noticed)
static Anchor near_anchor(vh::Rng & r, const Anchor & p)
{
  Anchor a = p;
  int k = (int)r.range(0, 3);
  if (k == 0 || k == 3) {a.lat = clampd(p.lat + r.sign() * r.logu(1.6e-13, 1.6e-4), -LAT_LIM, LAT_LIM);}
  if (k == 1 || k == 3) {a.lon = wrap_lon(p.lon + r.sign() * r.logu(1.6e-13, 1.6e-4) / std::cos(p.lat));}
  if (k == 2 || k == 3) {a.alt = clampd(p.alt + r.sign() * r.logu(1e-6, 1e3), H_MIN, H_MAX);}
  return a;
}

static Eigen::Vector3d special_local(vh::Rng & r)
{
  static const double Z[] = {0.0, -0.0, DENORM, -DENORM, 1e-310, -1e-310};
  switch (r.range(0, 3)) {
    case 0: return Eigen::Vector3d(Z[r.range(0, 5)], Z[r.range(0, 5)], Z[r.range(0, 5)]);                  // signed zeros, denormals
    case 1: {double d = r.sign() * (r.coin() ? (double)r.range(0, 10000) : r.logu(1e-6, 1e4)); return Eigen::Vector3d(d, d, d);}  // equal components
    case 2: return Eigen::Vector3d((double)r.range(-70000, 70000), (double)r.range(-70000, 70000), (double)r.range(-10000, 10000));  // whole metres
    default: {                                                                                               // exact powers of two
        return Eigen::Vector3d(r.sign() * std::ldexp(1.0, (int)r.range(-30, 16)), r.sign() * std::ldexp(1.0, (int)r.range(-30, 15)),
                 r.sign() * std::ldexp(1.0, (int)r.range(-30, 13)));
      }
  }
}

static Eigen::Vector3d draw_local(vh::Rng & r)
{
  switch (r.range(0, 10)) {
    case 10: return special_local(r);
    case 0: return Eigen::Vector3d::Zero();
    case 1: {
        int ax = (int)r.range(0, 2);
        double lim = ax == 2 ? VERT_MAX : HORIZ_MAX;
        double d = r.sign() * (r.coin(0.3) ? lim : r.logu(1e-3, lim));
        Eigen::Vector3d p = Eigen::Vector3d::Zero(); p[ax] = d; return p;
      }
    case 2: return Eigen::Vector3d(r.sign() * r.logu(1e-9, 1e-3), r.sign() * r.logu(1e-9, 1e-3), r.sign() * r.logu(1e-9, 1e-3));
    case 3: {
        double az = r.uni(0, 2 * M_PI), rho = HORIZ_MAX * (1 - 1e-12);
        return Eigen::Vector3d(rho * std::cos(az), rho * std::sin(az), r.coin() ? r.sign() * VERT_MAX : r.uni(-VERT_MAX, VERT_MAX));
      }
    default: {
        double az = r.uni(0, 2 * M_PI), rho = r.coin() ? r.uni(0, HORIZ_MAX * (1 - 1e-12)) : r.logu(1e-2, HORIZ_MAX * (1 - 1e-12));
        double u = r.coin() ? r.uni(-VERT_MAX, VERT_MAX) : r.sign() * r.logu(1e-3, VERT_MAX);
        return Eigen::Vector3d(rho * std::cos(az), rho * std::sin(az), u);
      }
  }
}

// ------------------------------------------------------------------------------------------
// one history
// ------------------------------------------------------------------------------------------
enum Op
{
  OP_CTOR_DEFAULT, OP_CTOR_ANCHOR, OP_COPY, OP_SET_ANCHOR, OP_SET_ANCHOR_ALIAS, OP_RESET, OP_ENU_GEO, OP_ENU_WGS,
  OP_ENU_ECEF, OP_ECEF, OP_WGS84, OP_IS_ANCHORED, OP_TRANSFORM, OP_PAIR, OP_ABOVE, OP_ORIGIN,
  OP_LONG_SET_RUN, OP_LONG_CONV_RUN, OP_RUN_ANCHOR, OP_VALUE_SEM, OP_FAR, OP_REPEAT, OP_LONG_RESET_RUN, OP_N
};
static const char * OP_NAME[] = {"ENUConverter()", "ENUConverter(anchor)", "copy", "setAnchor", "setAnchor(getAnchor())", "reset",
  "toENU(geodetic)", "toENU(wgs84)", "toENU(ecef)", "toECEF", "toWGS84", "isAnchored", "getEnuToEcefTransform",
  "pair_distance", "above_anchor", "anchor_to_origin",
  "setAnchor_run[calls_done,calls_total,anchors]", "conversion_run[calls_done,calls_total,-]", "run_anchor",
  "value_semantics[variant]", "far_point", "repeat_after_neighbours[kind]", "reset_anchor_cycle_run[cycles_done,cycles_total,anchors]"};

struct OpRec {int code; double a[3]; bool anchored_after;};

// A result bound exactly as the signature returns it (a value stays a value, a reference stays a
// reference into the object) together with the values it had when the call returned.
struct Triple {double v[3];};
static Triple triple(const Eigen::Vector3d & x) {return {{x[0], x[1], x[2]}};}
static Triple triple(const GeodeticCoordinates & g) {return {{g.latitude, g.longitude, g.altitude}};}
static bool same_bits(const Triple & a, const Triple & b) {return std::memcmp(a.v, b.v, sizeof a.v) == 0;}
struct KeptBase
{
  const char * api = ""; Triple at_call; uint64_t op_index = 0;
  virtual ~KeptBase() {}
  virtual Triple now() const = 0;
};
template<class R> struct Kept : KeptBase
{
  R r;
  template<class Fn> explicit Kept(Fn && f) : r(f()) {at_call = triple(r);}
  Triple now() const override {return triple(r);}
};

struct Runner
{
  vh::Ctx & c;
  vh::Rng & r;
  std::unique_ptr<ENUConverter> conv;
  // model
  bool anchored = false;
  Anchor anc {0, 0, 0};
  Frame fr;
  // bookkeeping
  std::vector<OpRec> trace;
  std::vector<Anchor> pool;
  uint64_t hash = 0xC02;
  int n_resets = 0, n_anchorings = 0, n_reanchor = 0, n_conv = 0, op_index = 0, cur_op = 0;
  double dist_prev_anchor = -1;     // metres between the current and the previous anchor (-1: none)
  Eigen::Vector3d cur_p = Eigen::Vector3d::Zero();
  bool dead = false;                // stop the history after a state divergence (would assert)
  // long histories: operations on this object since it was last un-anchored / constructed
  uint64_t idx = 0, n_ops = 0, sets_since_unanchored = 0, conv_on_object = 0;
  bool long_mode = false;           // inside a long run only the latest operation is kept in the trace
  size_t long_marker = 0;
  uint64_t long_done = 0;
  // result stability: results of the object under test, kept as returned, re-read later
  std::vector<std::unique_ptr<KeptBase>> kept;
  // frame as first read after the last state change; conversions must not alter it
  uint64_t epoch = 1, snap_epoch = 0, kept_next = 0;
  Eigen::Matrix4d snap_T;

  Runner(vh::Ctx & c_, vh::Rng & r_, uint64_t idx_) : c(c_), r(r_), idx(idx_) {}

  vh::Params params() const
  {
    return vh::Params{{"anchor_lat", anc.lat}, {"anchor_lon", anc.lon}, {"anchor_alt", anc.alt},
      {"op", (double)cur_op}, {"op_index", (double)op_index}, {"n_resets", (double)n_resets},
      {"n_anchorings", (double)n_anchorings}, {"dist_prev_anchor", dist_prev_anchor},
      {"e", cur_p[0]}, {"n", cur_p[1]}, {"u", cur_p[2]},
      {"dist_antimeridian", M_PI - std::fabs(anc.lon)},
      {"sets_since_unanchored", (double)sets_since_unanchored}, {"conversions_on_object", (double)conv_on_object}};
  }
  std::string witness() const
  {
    std::string h = "[";
    for (size_t i = 0; i < trace.size(); ++i) {
      if (i) {h += ",";}
      char b[200];
      snprintf(b, sizeof b, "%s(%.17g,%.17g,%.17g)->%s", OP_NAME[trace[i].code], trace[i].a[0], trace[i].a[1],
        trace[i].a[2], trace[i].anchored_after ? "anchored" : "unanchored");
      h += vh::jstr(b);
    }
    h += "]";
    return vh::J().raw("history", h).boolean("model_anchored", anchored).f("anchor_lat", anc.lat)
           .f("anchor_lon", anc.lon).f("anchor_alt", anc.alt).raw("point", vh::jvec(cur_p)).str();
  }
  std::function<vh::Params()> P() {return [this]() {return params();};}
  std::function<std::string()> W() {return [this]() {return witness();};}
  std::function<std::string()> W(const Eigen::Vector3d & got)
  {
    return [this, got]() {return vh::J().raw("case", witness()).raw("got", vh::jvec(got)).str();};
  }

  void rec(int code, double a0 = 0, double a1 = 0, double a2 = 0)
  {
    cur_op = code;
    ++n_ops;
    if (long_mode) {trace.resize(long_marker + 1); trace[long_marker].a[0] = (double)long_done;}
    if ((code >= OP_ENU_GEO && code <= OP_WGS84) || (code >= OP_PAIR && code <= OP_ORIGIN) || code == OP_FAR || code == OP_REPEAT) {++conv_on_object;}
    trace.push_back({code, {a0, a1, a2}, false});
    hash = vh::hash_addi(hash, (uint64_t)code);
    hash = vh::hash_add(vh::hash_add(vh::hash_add(hash, a0), a1), a2);
    c.count(std::string("op_") + OP_NAME[code]);
  }

  // ---- model transitions
  void model_anchor(const Anchor & a)
  {
    if (n_anchorings > 0) {
      V3 prev = F(anc.lat, anc.lon, anc.alt);
      dist_prev_anchor = (double)norm(F(a.lat, a.lon, a.alt) - prev);
      if (anchored) {++n_reanchor; c.cat("reanchor_without_reset");}
      if (dist_prev_anchor < 1.0 && dist_prev_anchor > 0) {c.cat("reanchor_within_1m");}
    }
    anchored = true; anc = a; fr = make_frame(a.lat, a.lon, a.alt); ++n_anchorings; ++sets_since_unanchored; ++epoch;
    pool.push_back(a);
    if (std::fabs(a.lon) == M_PI) {c.cat("anchor_lon_exact_pi");}
    if (M_PI - std::fabs(a.lon) < 1e-3) {c.cat("anchor_antimeridian_near");}
    if (std::fabs(a.lat) >= LAT_LIM - 1e-2) {c.cat("anchor_lat_limit");}
    if (a.lat < 0) {c.cat("anchor_south");}
    if (a.lon < 0) {c.cat("anchor_west");}
  }

  Anchor next_anchor()
  {
    if (!pool.empty()) {
      int k = (int)r.range(0, 9);
      if (k <= 2) {return near_anchor(r, pool[r.range(0, pool.size() - 1)]);}
      if (k == 3) {return pool[r.range(0, pool.size() - 1)];}               // back to an earlier anchor
    }
    return draw_anchor(r);
  }

  // ---- checks shared by ops
  void check_state()
  {
    bool got = conv->isAnchored();
    if (!c.expect("state.is_anchored", got == anchored, "state_flag", P(), W())) {dead = true;}
    if (!trace.empty()) {trace.back().anchored_after = got;}
    if (dead) {return;}
    check_kept();
    if (anchored) {
      // between two state changes the frame and the anchor must stay bit-identical whatever is converted
      const Eigen::Matrix4d & M = conv->getEnuToEcefTransform().matrix();
      const GeodeticCoordinates & ga = conv->getAnchor();
      if (snap_epoch != epoch) {snap_T = M; snap_epoch = epoch;} else {
        c.expect("stability.frame_untouched_by_conversions",
          std::memcmp(M.data(), snap_T.data(), sizeof(double) * 16) == 0 && ga.latitude == anc.lat && ga.longitude == anc.lon &&
          ga.altitude == anc.alt, "result_unstable", P(), [&]() {
            return vh::J().raw("case", witness()).raw("T_now", vh::jmat(M)).raw("T_first_read", vh::jmat(snap_T)).str();
          });
      }
    }
  }

  // ---- result stability ------------------------------------------------------------------------
  // calls f() (a call on the object under test), keeps the result bound exactly as returned
  template<class Fn> KeptBase & hold(const char * api, Fn && f)
  {
    using R = decltype(f());
    auto h = std::make_unique<Kept<R>>(f);
    h->api = api; h->op_index = (uint64_t)op_index;
    KeptBase & ref = *h;
    if (kept.size() < 6) {kept.push_back(std::move(h));} else {kept[kept_next++ % 6] = std::move(h);}
    return ref;
  }
  static Eigen::Vector3d vec(const Triple & t) {return Eigen::Vector3d(t.v[0], t.v[1], t.v[2]);}
  void check_kept()
  {
    const KeptBase * bad = nullptr;
    for (auto & h : kept) {if (!same_bits(h->now(), h->at_call)) {bad = h.get(); break;}}
    c.expect("stability.result_kept", bad == nullptr, "result_unstable", P(), [&]() {
        return vh::J().raw("case", witness()).s("api", bad->api).f("returned_by_op_index", bad->op_index)
               .raw("at_call", vh::jvec(vec(bad->at_call))).raw("now", vh::jvec(vec(bad->now()))).str();
      });
  }
  // the object under test is about to be destroyed / replaced: last look at what it returned
  void retire_kept() {if (!kept.empty()) {check_kept(); kept.clear();}}

  void check_frame()
  {
    // oracle self-check (numerical derivatives are orthogonal, up is the ellipsoid normal)
    V3 nn = normal_of(anc.lat, anc.lon);
    c.expect_le("oracle.selfcheck", std::max(fabsl(dot(fr.e, fr.n)), norm(fr.u - nn)), 1e-12L, "harness_oracle_inconsistent", P(), W());

    const GeodeticCoordinates & ga = conv->getAnchor();
    c.expect("anchor.get_anchor", ga.latitude == anc.lat && ga.longitude == anc.lon && ga.altitude == anc.alt,
      "anchor_mismatch", P(), [&]() {
        return vh::J().raw("case", witness()).f("lat", ga.latitude).f("lon", ga.longitude).f("alt", ga.altitude).str();
      });
    const Eigen::Affine3d & T = conv->getEnuToEcefTransform();
    auto WT = [&]() {return vh::J().raw("case", witness()).raw("T", vh::jmat(T.matrix())).str();};
    const Eigen::Matrix4d & M = T.matrix();
    c.expect("transform.affine_last_row", M(3, 0) == 0 && M(3, 1) == 0 && M(3, 2) == 0 && M(3, 3) == 1,
      "not_proper_rotation", P(), WT);
    V3 col[3];
    for (int j = 0; j < 3; ++j) {col[j] = {(LD)M(0, j), (LD)M(1, j), (LD)M(2, j)};}
    LD orth = 0;
    for (int i = 0; i < 3; ++i) {
      for (int j = 0; j < 3; ++j) {orth = std::max(orth, fabsl(dot(col[i], col[j]) - (i == j ? 1.0L : 0.0L)));}
    }
    LD det = dot(col[0], cross(col[1], col[2]));
    c.expect_le("transform.orthonormal", orth, 16 * EPS, "not_proper_rotation", P(), WT);
    c.expect_le("transform.det_plus_one", fabsl(det - 1), 16 * EPS, "not_proper_rotation", P(), WT);
    c.expect_le("axes.first_is_east_rad", norm(col[0] - fr.e), 1e-9L, "axes_orientation", P(), WT);
    c.expect_le("axes.second_is_north_rad", norm(col[1] - fr.n), 1e-9L, "axes_orientation", P(), WT);
    c.expect_le("axes.third_is_up_rad", norm(col[2] - fr.u), 1e-9L, "axes_orientation", P(), WT);
    V3 t = {(LD)M(0, 3), (LD)M(1, 3), (LD)M(2, 3)};
    c.expect_le("transform.translation_is_anchor_ecef_m", norm(t - fr.X0), 1e-3L, "anchor_not_origin", P(), WT);
  }

  // the same conversion on a converter that has no history
  void check_fresh(const Eigen::Vector3d & got, const Eigen::Vector3d & fresh)
  {
    LD mag = std::max(norm(toV3(got)), norm(toV3(fresh)));
    c.expect_le("fresh.same_as_new_converter_m", (got - fresh).norm(), 1e-9L + 1e-15L * mag, "stale_frame", P(), [&]() {
        return vh::J().raw("case", witness()).raw("got", vh::jvec(got)).raw("fresh", vh::jvec(fresh)).str();
      });
  }
  ENUConverter fresh_conv() const {return ENUConverter(romea::core::makeGeodeticCoordinates(anc.lat, anc.lon, anc.alt));}

  GeodeticCoordinates lib_toWGS84(const ENUConverter & cv, const Eigen::Vector3d & p, bool overload3, bool keep)
  {
    auto & lw = vh::loopwatch();
    lw.reset_case();
    GeodeticCoordinates g;
    if (keep) {
      KeptBase & h = overload3 ? hold("toWGS84(x,y,z)", [&]()->decltype(auto) {return cv.toWGS84(p[0], p[1], p[2]);}) :
        hold("toWGS84", [&]()->decltype(auto) {return cv.toWGS84(p);});
      g.latitude = h.at_call.v[0]; g.longitude = h.at_call.v[1]; g.altitude = h.at_call.v[2];
    } else {g = overload3 ? cv.toWGS84(p[0], p[1], p[2]) : cv.toWGS84(p);}
    c.maxi("ecef_loop_iterations", (double)lw.case_max);
    if (lw.tripped) {c.violation("nontermination", params(), witness());}
    return g;
  }

  // a geodetic point inside the quantifier's box around the anchor, built from offsets (no inverse
  // oracle needed); verified with the oracle frame and shrunk if it falls outside
  GeodeticCoordinates draw_geodetic_near(bool keep_alt, V3 & local_out)
  {
    Eigen::Vector3d p = draw_local(r);
    double scale = 0.98;
    for (int it = 0; it < 8; ++it) {
      double dn = p[1] * scale, de = p[0] * scale, du = keep_alt ? 0.0 : clampd(p[2], -9000.0, 9000.0) * scale;
      double lat = anc.lat + dn / 6.36e6;
      double lon = wrap_lon(anc.lon + de / (6.38e6 * std::cos(anc.lat)));
      double alt = anc.alt + du;
      lat = clampd(lat, -M_PI / 2, M_PI / 2);
      V3 l = to_local(fr, F(lat, lon, alt));
      if (sqrtl(l.x * l.x + l.y * l.y) <= HORIZ_MAX && fabsl(l.z) <= VERT_MAX) {
        local_out = l;
        return romea::core::makeGeodeticCoordinates(lat, lon, alt);
      }
      scale *= 0.5;
    }
    local_out = {0, 0, 0};
    return romea::core::makeGeodeticCoordinates(anc.lat, anc.lon, anc.alt);
  }

  LD geodetic_gap_m(const GeodeticCoordinates & a, const GeodeticCoordinates & b)
  {
    return norm(F(a.latitude, a.longitude, a.altitude) - F(b.latitude, b.longitude, b.altitude));
  }

  // ---- operations --------------------------------------------------------------------------
  static GeodeticCoordinates geo(const Anchor & a) {return romea::core::makeGeodeticCoordinates(a.lat, a.lon, a.alt);}

  void op_ctor_default()
  {
    rec(OP_CTOR_DEFAULT);
    retire_kept();
    conv = std::make_unique<ENUConverter>();
    anchored = false; sets_since_unanchored = 0; conv_on_object = 0; ++epoch;
  }
  void op_ctor_anchor()
  {
    Anchor a = next_anchor();
    rec(OP_CTOR_ANCHOR, a.lat, a.lon, a.alt);
    retire_kept();
    conv = std::make_unique<ENUConverter>(geo(a));
    anchored = false;                 // a new object: not a re-anchoring of the old one
    sets_since_unanchored = 0; conv_on_object = 0;
    model_anchor(a);
    check_frame();
  }
  void op_copy()
  {
    rec(OP_COPY);
    retire_kept();
    conv = std::make_unique<ENUConverter>(*conv);
    ++epoch;
    if (anchored) {check_frame();}
  }
  void op_set_anchor()
  {
    Anchor a = next_anchor();
    rec(OP_SET_ANCHOR, a.lat, a.lon, a.alt);
    switch (r.range(0, 3)) {
      case 0: {GeodeticCoordinates lv = geo(a); conv->setAnchor(lv); c.cat("lvalue_arguments"); break;}
      case 1: {GeodeticCoordinates lv = geo(a); conv->setAnchor(std::move(lv)); c.cat("rvalue_arguments"); break;}
      case 2: {
          // the argument is a reference into a sibling converter, which then dies
          auto sib = std::make_unique<ENUConverter>(geo(a));
          conv->setAnchor(sib->getAnchor());
          sib->reset(); sib.reset();
          c.cat("argument_aliasing");
          break;
        }
      default: conv->setAnchor(geo(a));
    }
    model_anchor(a);
    check_frame();
  }
  void op_set_anchor_alias()
  {
    rec(OP_SET_ANCHOR_ALIAS, anc.lat, anc.lon, anc.alt);
    c.cat("argument_aliasing");
    conv->setAnchor(conv->getAnchor());
    model_anchor(anc);
    check_frame();
  }
  void op_reset()
  {
    rec(OP_RESET);
    conv->reset();
    anchored = false; ++n_resets; sets_since_unanchored = 0; ++epoch;
  }

  void op_enu_geodetic()
  {
    ++n_conv;
    if (!anchored) {
      const bool own = r.coin(0.2);
      Anchor a;
      if (own) {
        // aliasing: the converter's own (stale or value-initialised) anchor, by reference, is the point
        // to convert; the expected anchor is its VALUE at call time
        const GeodeticCoordinates & g0 = conv->getAnchor();
        a = {g0.latitude, g0.longitude, g0.altitude};
      } else {a = next_anchor();}
      rec(OP_ENU_GEO, a.lat, a.lon, a.alt);
      c.cat("auto_anchor_geodetic");
      if (n_resets > 0) {c.cat("auto_anchor_after_reset");}
      if (own) {c.cat("argument_aliasing"); c.cat("auto_anchor_on_own_anchor_reference");}
      KeptBase & h = own ? hold("toENU(geodetic)", [&]()->decltype(auto) {return conv->toENU(conv->getAnchor());}) :
        hold("toENU(geodetic)", [&]()->decltype(auto) {return conv->toENU(geo(a));});
      Eigen::Vector3d got = vec(h.at_call);
      model_anchor(a);
      cur_p.setZero();
      c.expect_le("origin.auto_anchor_point_m", got.norm(), 1e-3, "anchor_not_origin", P(), W(got));
      check_state();
      if (!dead) {check_frame();}
      return;
    }
    V3 l;
    GeodeticCoordinates g = draw_geodetic_near(false, l);
    rec(OP_ENU_GEO, g.latitude, g.longitude, g.altitude);
    cur_p = toE(l);
    const bool rv = r.coin(0.3);
    GeodeticCoordinates gm = g;
    if (rv) {c.cat("rvalue_arguments");}
    KeptBase & h = rv ? hold("toENU(geodetic)", [&]()->decltype(auto) {return conv->toENU(std::move(gm));}) :
      hold("toENU(geodetic)", [&]()->decltype(auto) {return conv->toENU(g);});
    Eigen::Vector3d got = vec(h.at_call);
    c.expect_le("model.toENU_geodetic_m", norm(toV3(got) - l), 2e-3L, "model_mismatch", P(), W(got));
    ENUConverter f = fresh_conv();
    check_fresh(got, f.toENU(g));
    GeodeticCoordinates back = lib_toWGS84(*conv, got, false, false);
    c.expect_le("inverse.geodetic_enu_geodetic_m", geodetic_gap_m(back, g), 1e-3L, "not_inverse", P(), W(got));
    Eigen::Vector3d viaEcef = conv->toENU(toE(F(g.latitude, g.longitude, g.altitude)));
    c.expect_le("inverse.geodetic_vs_ecef_path_m", (viaEcef - got).norm(), 1e-3, "not_inverse", P(), W(got));
  }

  void op_enu_wgs84()
  {
    ++n_conv;
    if (!anchored) {
      Anchor a = next_anchor();
      rec(OP_ENU_WGS, a.lat, a.lon, 0);
      c.cat("auto_anchor_wgs84");
      if (n_resets > 0) {c.cat("auto_anchor_after_reset");}
      KeptBase & h = hold("toENU(wgs84)", [&]()->decltype(auto) {return conv->toENU(romea::core::makeWGS84Coordinates(a.lat, a.lon));});
      Eigen::Vector3d got = vec(h.at_call);
      // the statement fixes nothing about the height of a frame anchored on an altitude-less point:
      // the model adopts the altitude the converter reports (noted, not alarmed on)
      a.alt = conv->getAnchor().altitude;
      c.count("wgs84_auto_anchor_altitude_adopted");
      if (a.alt != 0.0) {c.count("wgs84_auto_anchor_kept_previous_altitude");}
      if (STRICT_RESET_ALTITUDE) {
        // strict reading (off, see DESIGN C02): a reset converter must behave like a new one, whose
        // altitude-less auto-anchor sits at altitude 0
        c.expect("fresh.reset_forgets_anchor_altitude", a.alt == 0.0, "stale_frame", P(), W(got));
      }
      if (!std::isfinite(a.alt) || a.alt < H_MIN || a.alt > H_MAX) {
        // outside the quantifier: nothing more can be checked on this history
        c.skip("history:wgs84_auto_anchor_altitude_outside_domain");
        c.expect("state.is_anchored", conv->isAnchored(), "state_flag", P(), W());
        dead = true;
        return;
      }
      model_anchor(a);
      cur_p.setZero();
      c.expect_le("origin.auto_anchor_point_m", got.norm(), 1e-3, "anchor_not_origin", P(), W(got));
      check_state();
      if (!dead) {check_frame();}
      return;
    }
    V3 l;
    GeodeticCoordinates g = draw_geodetic_near(true, l);
    rec(OP_ENU_WGS, g.latitude, g.longitude, 0);
    cur_p = toE(l);
    WGS84Coordinates w = romea::core::makeWGS84Coordinates(g.latitude, g.longitude);
    const int how = (int)r.range(0, 3);
    WGS84Coordinates wm = w;
    if (how == 1) {c.cat("rvalue_arguments");}
    KeptBase & h = how == 1 ? hold("toENU(wgs84)", [&]()->decltype(auto) {return conv->toENU(std::move(wm));}) :
      how == 2 ? hold("toENU(wgs84)", [&]()->decltype(auto) {                 // base sub-object of a geodetic point
          return conv->toENU(static_cast<const WGS84Coordinates &>(g));
        }) :
      hold("toENU(wgs84)", [&]()->decltype(auto) {return conv->toENU(w);});
    Eigen::Vector3d got = vec(h.at_call);
    c.expect_le("model.toENU_wgs84_m", norm(toV3(got) - l), 2e-3L, "model_mismatch", P(), W(got));
    ENUConverter f = fresh_conv();
    check_fresh(got, f.toENU(w));
  }

  void op_enu_ecef()
  {
    ++n_conv;
    Eigen::Vector3d p = draw_local(r);
    rec(OP_ENU_ECEF, p[0], p[1], p[2]);
    cur_p = p;
    Eigen::Vector3d X = toE(to_ecef(fr, toV3(p)));
    V3 expect = to_local(fr, toV3(X));
    const ENUConverter & cc = *conv;
    const int how = (int)r.range(0, 5);
    Eigen::Vector3d got;
    if (how == 0) {
      // result assigned to the very object passed as argument
      Eigen::Vector3d v = X; v = cc.toENU(v); got = v;
      c.cat("argument_aliasing");
    } else {
      Eigen::Vector3d xm = X;
      if (how == 1) {c.cat("rvalue_arguments");}
      KeptBase & h = how == 1 ? hold("toENU(ecef)", [&]()->decltype(auto) {return cc.toENU(std::move(xm));}) :
        hold("toENU(ecef)", [&]()->decltype(auto) {return cc.toENU(X);});
      got = vec(h.at_call);
    }
    c.expect_le("model.toENU_ecef_m", norm(toV3(got) - expect), 1e-3L, "model_mismatch", P(), W(got));
    ENUConverter f = fresh_conv();
    check_fresh(got, static_cast<const ENUConverter &>(f).toENU(X));
    Eigen::Vector3d back = conv->toECEF(got);
    c.expect_le("inverse.ecef_enu_ecef_m", (back - X).norm(), 1e-3, "not_inverse", P(), W(got));
  }

  void op_ecef()
  {
    ++n_conv;
    Eigen::Vector3d p = draw_local(r);
    bool ov = r.coin(0.3);
    rec(OP_ECEF, p[0], p[1], p[2]);
    cur_p = p;
    if (ov) {c.cat("scalar_overloads");}
    const int how = ov ? 3 : (int)r.range(0, 5);
    Eigen::Vector3d got;
    if (how == 0) {
      Eigen::Vector3d v = p; v = conv->toECEF(v); got = v;
      c.cat("argument_aliasing");
    } else {
      Eigen::Vector3d pm = p;
      if (how == 1) {c.cat("rvalue_arguments");}
      KeptBase & h = ov ? hold("toECEF(x,y,z)", [&]()->decltype(auto) {return conv->toECEF(p[0], p[1], p[2]);}) :
        how == 1 ? hold("toECEF", [&]()->decltype(auto) {return conv->toECEF(std::move(pm));}) :
        hold("toECEF", [&]()->decltype(auto) {return conv->toECEF(p);});
      got = vec(h.at_call);
    }
    c.expect_le("model.toECEF_m", norm(toV3(got) - to_ecef(fr, toV3(p))), 1e-3L, "model_mismatch", P(), W(got));
    ENUConverter f = fresh_conv();
    check_fresh(got, f.toECEF(p));
    Eigen::Vector3d back = static_cast<const ENUConverter &>(*conv).toENU(got);
    c.expect_le("inverse.enu_ecef_enu_m", (back - p).norm(), 1e-3, "not_inverse", P(), W(got));
  }

  void op_wgs84()
  {
    ++n_conv;
    Eigen::Vector3d p = draw_local(r);
    bool ov = r.coin(0.3);
    rec(OP_WGS84, p[0], p[1], p[2]);
    cur_p = p;
    if (ov) {c.cat("scalar_overloads");}
    GeodeticCoordinates g = lib_toWGS84(*conv, p, ov, true);
    Eigen::Vector3d gv(g.latitude, g.longitude, g.altitude);
    bool fin = std::isfinite(g.latitude) && std::isfinite(g.longitude) && std::isfinite(g.altitude);
    if (!c.expect("toWGS84.finite_in_range", fin && std::fabs(g.latitude) <= M_PI / 2 && std::fabs(g.longitude) <= M_PI,
      "model_mismatch", P(), W(gv))) {return;}
    V3 Xo = to_ecef(fr, toV3(p));
    c.expect_le("model.toWGS84_m", norm(F(g.latitude, g.longitude, g.altitude) - Xo), 2e-3L, "model_mismatch", P(), W(gv));
    ENUConverter f = fresh_conv();
    GeodeticCoordinates gf = lib_toWGS84(f, p, false, false);
    LD gap = geodetic_gap_m(g, gf);
    c.expect_le("fresh.same_as_new_converter_m", gap, 1e-9L, "stale_frame", P(), W(gv));
    Eigen::Vector3d back = conv->toENU(g);
    c.expect_le("inverse.enu_geodetic_enu_m", (back - p).norm(), 1e-3, "not_inverse", P(), W(back));
  }

  void op_pair()
  {
    ++n_conv;
    Eigen::Vector3d p1 = draw_local(r), p2;
    const int pk = (int)r.range(0, 9);
    if (pk == 0) {p2 = p1; c.cat("pair_same_point_twice");} else if (pk <= 4) {p2 = draw_local(r);} else {
      // a neighbour 1 mm .. 1 km away, kept inside the box
      Eigen::Vector3d d(r.normal(), r.normal(), r.normal());
      p2 = p1 + d * (r.logu(1e-3, 1e3) / std::max(d.norm(), 1e-9));
      double rho = std::hypot(p2[0], p2[1]);
      if (rho > HORIZ_MAX * (1 - 1e-12)) {p2[0] *= HORIZ_MAX * (1 - 1e-9) / rho; p2[1] *= HORIZ_MAX * (1 - 1e-9) / rho;}
      p2[2] = clampd(p2[2], -VERT_MAX, VERT_MAX);
    }
    rec(OP_PAIR, p1[0] - p2[0], p1[1] - p2[1], p1[2] - p2[2]);
    hash = vh::hash_add(vh::hash_add(vh::hash_add(hash, p1[0]), p1[1]), p1[2]);
    cur_p = p1;
    // ENU -> ECEF
    Eigen::Vector3d X1 = conv->toECEF(p1), X2 = conv->toECEF(p2);
    LD d_enu = norm(toV3(p1) - toV3(p2)), d_ecef = norm(toV3(X1) - toV3(X2));
    auto WP = [&]() {
        return vh::J().raw("case", witness()).raw("p1", vh::jvec(p1)).raw("p2", vh::jvec(p2)).f("d_enu", d_enu)
               .f("d_ecef", d_ecef).str();
      };
    c.expect_le("distance.enu_to_ecef", fabsl(d_enu - d_ecef), 1e-12L * d_enu + 32 * EPS * EARTH_MAG, "distance_not_preserved", P(), WP);
    // ECEF -> ENU
    Eigen::Vector3d Xa = toE(to_ecef(fr, toV3(p1))), Xb = toE(to_ecef(fr, toV3(p2)));
    const ENUConverter & cc = *conv;
    Eigen::Vector3d q1 = cc.toENU(Xa), q2 = cc.toENU(Xb);
    LD da = norm(toV3(Xa) - toV3(Xb)), dq = norm(toV3(q1) - toV3(q2));
    c.expect_le("distance.ecef_to_enu", fabsl(da - dq), 1e-12L * da + 32 * EPS * EARTH_MAG, "distance_not_preserved", P(), [&]() {
        return vh::J().raw("case", witness()).raw("X1", vh::jvec(Xa)).raw("X2", vh::jvec(Xb)).f("d_ecef", da)
               .f("d_enu", dq).str();
      });
  }

  void op_above()
  {
    ++n_conv;
    double h = r.coin(0.2) ? r.sign() * VERT_MAX : (r.coin() ? r.uni(-VERT_MAX, VERT_MAX) : r.sign() * r.logu(1e-3, VERT_MAX));
    if (r.coin(0.1)) {h = (double)r.range(-10000, 10000);}            // whole metres, 0 included
    rec(OP_ABOVE, h);
    cur_p = Eigen::Vector3d(0, 0, h);
    // altitude anc.alt + h is rounded: the expected third coordinate is the rounded difference
    double alt = anc.alt + h;
    LD hh = (LD)alt - (LD)anc.alt;
    KeptBase & k = hold("toENU(geodetic)", [&]()->decltype(auto) {return conv->toENU(romea::core::makeGeodeticCoordinates(anc.lat, anc.lon, alt));});
    Eigen::Vector3d got = vec(k.at_call);
    LD err = sqrtl((LD)got[0] * got[0] + (LD)got[1] * got[1] + ((LD)got[2] - hh) * ((LD)got[2] - hh));
    c.expect_le("above.point_h_above_anchor_m", err, 1e-3L, "up_not_vertical", P(), W(got));
  }

  void op_origin()
  {
    ++n_conv;
    int k = (int)r.range(0, 5);
    rec(OP_ORIGIN, k);
    cur_p.setZero();
    Eigen::Vector3d got;
    const ENUConverter & cc = *conv;
    if (k == 0) {got = conv->toENU(geo(anc));} else if (k == 1) {
      got = conv->toENU(romea::core::makeWGS84Coordinates(anc.lat, anc.lon));
    } else if (k == 2) {
      got = cc.toENU(toE(fr.X0));
    } else if (k == 3) {got = conv->toENU(conv->getAnchor()); c.cat("argument_aliasing");} else if (k == 4) {
      // the translation read from the converter's own transform, handed straight back
      got = cc.toENU(cc.getEnuToEcefTransform().translation());
      c.cat("argument_aliasing");
    } else {
      // altitude-less overload on the base sub-object of the converter's own anchor
      got = conv->toENU(static_cast<const WGS84Coordinates &>(conv->getAnchor()));
      c.cat("argument_aliasing");
    }
    c.expect_le("origin.anchor_maps_to_zero_m", got.norm(), 1e-3, "anchor_not_origin", P(), W(got));
    if (k == 0) {
      GeodeticCoordinates g = lib_toWGS84(*conv, Eigen::Vector3d::Zero(), false, true);
      c.expect_le("origin.zero_maps_to_anchor_m", geodetic_gap_m(g, geo(anc)), 1e-3L, "anchor_not_origin", P(), W(got));
    }
  }

  // copy / move construction and assignment, self-assignment; the source is overwritten and destroyed,
  // the history goes on with the copy; and: a copy that is used and destroyed leaves the source alone
  void op_value_semantics()
  {
    const int k = (int)r.range(0, 5);
    rec(OP_VALUE_SEM, k);
    c.cat("value_semantics");
    static const char * VN[] = {"value_copy_construct", "value_copy_assign", "value_move_construct", "value_move_assign",
      "value_self_assign", "value_source_unaffected_by_copy"};
    c.cat(VN[k]);
    retire_kept();
    const bool was = conv->isAnchored();
    const Eigen::Matrix4d before = conv->getEnuToEcefTransform().matrix();
    const GeodeticCoordinates ga = conv->getAnchor();
    auto other_state = [&](ENUConverter & t) {
        int m = (int)r.range(0, 2);
        if (m >= 1) {t.setAnchor(geo(draw_anchor(r)));}
        if (m == 2) {t.reset();}
      };
    auto spoil = [&](ENUConverter & src) {
        if (r.coin()) {src.reset();} else {src.setAnchor(geo(draw_anchor(r)));}
        if (r.coin()) {src.toENU(geo(draw_anchor(r)));}
      };
    switch (k) {
      case 0: {auto nu = std::make_unique<ENUConverter>(*conv); spoil(*conv); conv = std::move(nu); break;}
      case 1: {auto nu = std::make_unique<ENUConverter>(); other_state(*nu); *nu = *conv; spoil(*conv); conv = std::move(nu); break;}
      case 2: {auto nu = std::make_unique<ENUConverter>(std::move(*conv)); conv = std::move(nu); break;}
      case 3: {auto nu = std::make_unique<ENUConverter>(); other_state(*nu); *nu = std::move(*conv); conv = std::move(nu); break;}
      case 4: {ENUConverter & self = *conv; *conv = self; break;}
      default: {
          ENUConverter b(*conv);
          if (was) {
            Eigen::Vector3d p = draw_local(r);
            Eigen::Vector3d x1 = b.toECEF(p), x2 = conv->toECEF(p);
            c.expect("value.copy_converts_like_source", same_bits(triple(x1), triple(x2)), "value_semantics", P(), W(x1));
          }
          spoil(b);
        }
    }
    if (k <= 3) {++epoch;}      // a new object; for k = 4, 5 the frame snapshot must still match bit for bit
    const Eigen::Matrix4d & M = conv->getEnuToEcefTransform().matrix();
    const GeodeticCoordinates & gb = conv->getAnchor();
    bool same = conv->isAnchored() == was;
    if (was) {
      same = same && std::memcmp(M.data(), before.data(), sizeof(double) * 16) == 0 && gb.latitude == ga.latitude &&
        gb.longitude == ga.longitude && gb.altitude == ga.altitude;
    }
    c.expect("value.copy_equals_source", same, "value_semantics", P(), [&]() {
        return vh::J().raw("case", witness()).f("variant", k).raw("T_source", vh::jmat(before)).raw("T_now", vh::jmat(M)).str();
      });
    if (anchored && conv->isAnchored()) {check_frame();}
  }

  // beyond the quantifier's 100 km box (outside the statement's accuracy promise): the frame transform is
  // still a rigid map, so the two affine conversions must stay finite and exact to rounding RELATIVE to
  // the magnitude, up to 1e300 m (the unchanged code stays finite up to about 5e307)
  void op_far()
  {
    ++n_conv;
    double m = r.coin() ? r.logu(1e5, 1e9) : r.logu(1e9, 1e300);
    Eigen::Vector3d d(r.normal(), r.normal(), r.normal());
    Eigen::Vector3d p = d * (m / std::max(d.norm(), 1e-9));
    if (r.coin(0.2)) {int ax = (int)r.range(0, 2); p.setZero(); p[ax] = r.sign() * m;}
    rec(OP_FAR, p[0], p[1], p[2]);
    c.cat("far_points");
    cur_p = p;
    const LD mag = norm(toV3(p)) + EARTH_MAG;
    const ENUConverter & cc = *conv;
    Eigen::Vector3d X = cc.toECEF(p);
    bool fin = std::isfinite(X[0]) && std::isfinite(X[1]) && std::isfinite(X[2]);
    if (!c.expect("far.finite", fin, "far_point_mismatch", P(), W(X))) {return;}
    c.expect_le("far.toECEF_vs_model_rel", norm(toV3(X) - to_ecef(fr, toV3(p))), 1e-12L * mag, "far_point_mismatch", P(), W(X));
    Eigen::Vector3d back = cc.toENU(X);
    c.expect_le("far.enu_ecef_enu_rel", norm(toV3(back) - toV3(p)), 64 * EPS * mag, "far_point_mismatch", P(), W(back));
    Eigen::Vector3d Xf = toE(to_ecef(fr, toV3(p)));
    Eigen::Vector3d q = cc.toENU(Xf);
    c.expect_le("far.toENU_vs_model_rel", norm(toV3(q) - to_local(fr, toV3(Xf))), 1e-12L * mag, "far_point_mismatch", P(), W(q));
  }

  // the same conversion before and after neighbouring facilities have been used (sibling converters,
  // the ECEF converter with another ellipsoid, stream formatting of coordinates): bit-identical
  Triple observe(int k, const GeodeticCoordinates & g, const Eigen::Vector3d & X, const Eigen::Vector3d & p)
  {
    const ENUConverter & cc = *conv;
    switch (k) {
      case 0: return triple(conv->toENU(g));
      case 1: return triple(cc.toENU(X));
      case 2: return triple(cc.toECEF(p));
      default: return triple(lib_toWGS84(cc, p, false, false));
    }
  }
  void op_repeat()
  {
    ++n_conv;
    const int k = (int)r.range(0, 3);
    Eigen::Vector3d p = draw_local(r);
    V3 l;
    GeodeticCoordinates g = draw_geodetic_near(false, l);
    Eigen::Vector3d X = toE(to_ecef(fr, toV3(p)));
    rec(OP_REPEAT, k, p[0], p[1]);
    c.cat("neighbour_interference");
    cur_p = p;
    const Triple a = observe(k, g, X, p);
    {
      ENUConverter sib(geo(draw_anchor(r)));
      sib.toECEF(p); static_cast<const ENUConverter &>(sib).toENU(X); sib.toWGS84(p); sib.toENU(sib.getAnchor());
      sib.reset(); sib.toENU(romea::core::makeWGS84Coordinates(g.latitude, g.longitude));
      ENUConverter sib2; sib2 = sib; sib2.setAnchor(g);
      static_cast<const ENUConverter &>(sib2).toENU(X); sib2.toECEF(p); sib2.toWGS84(p); sib2.toENU(g);
      romea::core::ECEFConverter e1, e2(romea::core::EarthEllipsoid(6378249.2, 6356515.0));
      e1.toWGS84(e1.toECEF(g)); e2.toWGS84(e2.toECEF(g));
      std::ostringstream os; os << g << static_cast<const WGS84Coordinates &>(g) << 1.0 / 3.0;
    }
    const Triple b = observe(k, g, X, p);
    c.expect("interference.same_result_after_neighbours", same_bits(a, b), "interference", P(), [&]() {
        return vh::J().raw("case", witness()).f("kind", k).raw("first", vh::jvec(vec(a))).raw("second", vh::jvec(vec(b))).str();
      });
  }

  // ---- driver --------------------------------------------------------------------------------
  void step(int op)
  {
    cur_p.setZero();
    switch (op) {
      case OP_CTOR_DEFAULT: op_ctor_default(); break;
      case OP_CTOR_ANCHOR: op_ctor_anchor(); break;
      case OP_COPY: op_copy(); break;
      case OP_SET_ANCHOR: op_set_anchor(); break;
      case OP_SET_ANCHOR_ALIAS: op_set_anchor_alias(); break;
      case OP_RESET: op_reset(); break;
      case OP_ENU_GEO: op_enu_geodetic(); break;
      case OP_ENU_WGS: op_enu_wgs84(); break;
      case OP_ENU_ECEF: op_enu_ecef(); break;
      case OP_ECEF: op_ecef(); break;
      case OP_WGS84: op_wgs84(); break;
      case OP_IS_ANCHORED: rec(OP_IS_ANCHORED); break;
      case OP_TRANSFORM: rec(OP_TRANSFORM); if (anchored) {check_frame();} break;
      case OP_PAIR: op_pair(); break;
      case OP_ABOVE: op_above(); break;
      case OP_ORIGIN: op_origin(); break;
      case OP_VALUE_SEM: op_value_semantics(); break;
      case OP_FAR: op_far(); break;
      case OP_REPEAT: op_repeat(); break;
    }
    if (!dead) {check_state();}
    ++op_index;
  }

  // ---- very long runs on one object -----------------------------------------------------------
  void all_oracles_once()
  {
    static const int C[] = {OP_ENU_GEO, OP_ENU_WGS, OP_ENU_ECEF, OP_ECEF, OP_WGS84, OP_PAIR, OP_ABOVE, OP_ORIGIN, OP_TRANSFORM, OP_FAR, OP_REPEAT,
      OP_VALUE_SEM};
    for (int op : C) {if (!dead && anchored) {step(op);}}
  }
  static int long_length(vh::Rng & r)
  {
    // valgrind (memcheck flavour) is ~50x slower and its verdicts are not used: only the 2^8 boundary there
    return RUNNING_ON_VALGRIND ? (int)r.range(300, 600) : (int)r.range(66000, 70000);
  }

  void long_setanchor_run()
  {
    const int total = long_length(r), k = (int)r.range(2, 3);
    Anchor K[3]; Frame Fk[3]; GeodeticCoordinates G[3];
    for (int j = 0; j < k; ++j) {
      K[j] = next_anchor(); pool.push_back(K[j]);
      Fk[j] = make_frame(K[j].lat, K[j].lon, K[j].alt);
      G[j] = romea::core::makeGeodeticCoordinates(K[j].lat, K[j].lon, K[j].alt);
      rec(OP_RUN_ANCHOR, K[j].lat, K[j].lon, K[j].alt);       // puts the run's anchors into the trace and the hash
      trace.back().anchored_after = anchored;
    }
    rec(OP_LONG_SET_RUN, 0, total, k);
    long_marker = trace.size() - 1; long_mode = true;
    for (int i = 0; i < total && !dead; ++i) {
      const int j = i % k;
      cur_op = OP_SET_ANCHOR;
      conv->setAnchor(G[j]);
      if (anchored) {++n_reanchor;}
      anchored = true; anc = K[j]; fr = Fk[j]; ++n_anchorings; ++sets_since_unanchored; ++n_ops; ++epoch;
      long_done = (uint64_t)i + 1;
      trace.resize(long_marker + 1); trace[long_marker].a[0] = (double)long_done;
      const bool got = conv->isAnchored();
      trace[long_marker].anchored_after = got;
      if (!c.expect("state.is_anchored", got, "state_flag", P(), W())) {dead = true; break;}
      const uint64_t s = sets_since_unanchored;
      if ((i + 1) % 4096 == 0 || (s >= 255 && s <= 257) || (s >= 65535 && s <= 65537)) {
        check_frame();
        step(OP_ENU_ECEF);
      }
    }
    long_mode = false;
    c.count(std::string("op_") + OP_NAME[OP_SET_ANCHOR], long_done);
    c.count("long_run_setAnchor_calls", long_done);
    c.maxi("longest_setAnchor_run_without_reset", (double)sets_since_unanchored);
    if (!dead) {check_frame();}
    all_oracles_once();
  }

  // cycles of reset() + anchoring (setAnchor / toENU(geodetic) / toENU(wgs84)): 2 x 33000..35000 mutator calls
  void long_reset_cycle_run()
  {
    const int total = RUNNING_ON_VALGRIND ? (int)r.range(150, 300) : (int)r.range(33000, 35000), k = (int)r.range(2, 3);
    const double alt = draw_anchor(r).alt;          // one altitude for the run (the wgs84 overload keeps the previous one)
    Anchor K[3]; Frame Fk[3]; GeodeticCoordinates G[3];
    for (int j = 0; j < k; ++j) {
      K[j] = next_anchor(); K[j].alt = alt; pool.push_back(K[j]);
      Fk[j] = make_frame(K[j].lat, K[j].lon, K[j].alt);
      G[j] = geo(K[j]);
      rec(OP_RUN_ANCHOR, K[j].lat, K[j].lon, K[j].alt);
      trace.back().anchored_after = anchored;
    }
    rec(OP_LONG_RESET_RUN, 0, total, k);
    long_marker = trace.size() - 1; long_mode = true;
    for (int i = 0; i < total && !dead; ++i) {
      const int j = i % k, how = i == 0 ? 0 : (i / k) % 3;
      trace.resize(long_marker + 1);
      cur_op = OP_RESET; cur_p.setZero();
      conv->reset();
      anchored = false; ++n_resets; sets_since_unanchored = 0; ++epoch; ++n_ops;
      if (!c.expect("state.is_anchored", !conv->isAnchored(), "state_flag", P(), W())) {dead = true; break;}
      Eigen::Vector3d got = Eigen::Vector3d::Zero();
      if (how == 0) {cur_op = OP_SET_ANCHOR; conv->setAnchor(G[j]);} else if (how == 1) {
        cur_op = OP_ENU_GEO; got = conv->toENU(G[j]);
      } else {cur_op = OP_ENU_WGS; got = conv->toENU(static_cast<const WGS84Coordinates &>(G[j]));}
      anchored = true; anc = K[j]; fr = Fk[j]; ++n_anchorings; ++sets_since_unanchored; ++epoch; ++n_ops;
      if (how) {++n_conv; ++conv_on_object;}
      long_done = (uint64_t)i + 1;
      trace[long_marker].a[0] = (double)long_done;
      const bool flag = conv->isAnchored();
      trace[long_marker].anchored_after = flag;
      if (!c.expect("state.is_anchored", flag, "state_flag", P(), W())) {dead = true; break;}
      if (how == 2 && conv->getAnchor().altitude != anc.alt) {
        // a converter that forgets the altitude on reset(): the model adopts what it reports
        anc.alt = conv->getAnchor().altitude;
        if (!std::isfinite(anc.alt) || anc.alt < H_MIN || anc.alt > H_MAX) {dead = true; break;}
        fr = make_frame(anc.lat, anc.lon, anc.alt);
      }
      if (how) {c.expect_le("origin.auto_anchor_point_m", got.norm(), 1e-3, "anchor_not_origin", P(), W(got));}
      const int n1 = i + 1;
      if (n1 % 2048 == 0 || (n1 >= 127 && n1 <= 129) || (n1 >= 255 && n1 <= 257) || (n1 >= 32767 && n1 <= 32769)) {
        check_frame();
        step(OP_ENU_ECEF);
      }
    }
    long_mode = false;
    c.count("long_run_reset_cycles", long_done);
    if (!dead && anchored) {check_frame();}
    all_oracles_once();
  }

  void long_conversion_run()
  {
    if (!anchored) {step(OP_SET_ANCHOR);}
    const int total = long_length(r);
    static const int C[] = {OP_ENU_GEO, OP_ENU_WGS, OP_ENU_ECEF, OP_ENU_ECEF, OP_ECEF, OP_ECEF, OP_WGS84, OP_PAIR, OP_ABOVE, OP_ORIGIN};
    rec(OP_LONG_CONV_RUN, 0, total, 0);
    long_marker = trace.size() - 1; long_mode = true;
    for (int i = 0; i < total && !dead; ++i) {
      long_done = (uint64_t)i;
      step(C[r.range(0, sizeof C / sizeof C[0] - 1)]);
      long_done = (uint64_t)i + 1;
    }
    long_mode = false;
    trace[long_marker].a[0] = (double)long_done;
    trace[long_marker].anchored_after = conv->isAnchored();
    c.count("long_run_conversion_calls", long_done);
    c.maxi("most_conversions_on_one_object", (double)conv_on_object);
    if (!dead && anchored) {check_frame();}
    all_oracles_once();
  }

  int pick_op()
  {
    if (!anchored) {
      // un-anchored: only the operations that are defined there
      static const int U[] = {OP_ENU_GEO, OP_ENU_GEO, OP_ENU_GEO, OP_ENU_WGS, OP_ENU_WGS, OP_SET_ANCHOR, OP_SET_ANCHOR,
        OP_CTOR_ANCHOR, OP_CTOR_DEFAULT, OP_RESET, OP_IS_ANCHORED, OP_TRANSFORM, OP_COPY, OP_VALUE_SEM};
      return U[r.range(0, sizeof U / sizeof U[0] - 1)];
    }
    static const int A[] = {OP_ENU_GEO, OP_ENU_GEO, OP_ENU_GEO, OP_ENU_WGS, OP_ENU_WGS, OP_ENU_ECEF, OP_ENU_ECEF, OP_ENU_ECEF,
      OP_ECEF, OP_ECEF, OP_ECEF, OP_WGS84, OP_WGS84, OP_WGS84, OP_PAIR, OP_PAIR, OP_ABOVE, OP_ABOVE, OP_ORIGIN, OP_ORIGIN,
      OP_SET_ANCHOR, OP_SET_ANCHOR, OP_RESET, OP_RESET, OP_SET_ANCHOR_ALIAS, OP_CTOR_ANCHOR, OP_CTOR_DEFAULT,
      OP_IS_ANCHORED, OP_TRANSFORM, OP_COPY, OP_VALUE_SEM, OP_VALUE_SEM, OP_FAR, OP_REPEAT, OP_REPEAT};
    return A[r.range(0, sizeof A / sizeof A[0] - 1)];
  }

  void run()
  {
    int len = (int)r.range(5, 40);
    int tmpl = (int)r.range(0, 9);
    std::vector<int> script;
    const char * cat = "history_random";
    auto conv3 = [&]() {
        static const int C[] = {OP_ENU_GEO, OP_ENU_WGS, OP_ENU_ECEF, OP_ECEF, OP_WGS84, OP_PAIR, OP_ABOVE, OP_ORIGIN};
        for (int i = (int)r.range(1, 4); i > 0; --i) {script.push_back(C[r.range(0, 7)]);}
      };
    switch (tmpl) {
      case 0:       // anchored ctor, use, reset, auto-anchor on a geodetic point, use
        cat = "history_reset_auto_geodetic";
        script.push_back(OP_CTOR_ANCHOR); conv3(); script.push_back(OP_RESET); script.push_back(OP_ENU_GEO); conv3(); break;
      case 1:       // ... auto-anchor on an altitude-less point
        cat = "history_reset_auto_wgs84";
        script.push_back(OP_CTOR_ANCHOR); conv3(); script.push_back(OP_RESET); script.push_back(OP_ENU_WGS); conv3(); break;
      case 2:       // re-anchor without reset
        cat = "history_reanchor_no_reset";
        script.push_back(r.coin() ? OP_CTOR_ANCHOR : OP_CTOR_DEFAULT);
        if (script[0] == OP_CTOR_DEFAULT) {script.push_back(OP_SET_ANCHOR);}
        conv3(); script.push_back(OP_SET_ANCHOR); conv3(); break;
      case 3:       // default ctor, auto-anchor
        cat = "history_default_auto";
        script.push_back(OP_CTOR_DEFAULT); script.push_back(r.coin() ? OP_ENU_GEO : OP_ENU_WGS); conv3();
        script.push_back(OP_RESET); script.push_back(OP_SET_ANCHOR); conv3(); break;
      default:
        script.push_back(r.coin() ? OP_CTOR_ANCHOR : OP_CTOR_DEFAULT);
    }
    // two indices in every 8191 (a prime, so they spread over the shards) carry a very long run
    const int long_kind = idx % 8191 == 17 ? 1 : (idx % 8191 == 4113 ? 2 : (idx % 8191 == 6000 ? 3 : 0));
    const int long_at = long_kind ? (int)r.range(1, 5) : -1;
    if (long_kind == 1) {cat = "history_long_setanchor_run";}
    if (long_kind == 2) {cat = "history_long_conversion_run";}
    if (long_kind == 3) {cat = "history_long_reset_cycle_run";}
    c.cat(cat);
    size_t si = 0;
    for (int i = 0; i < len && !dead; ++i) {
      if (i == long_at) {
        if (long_kind == 1) {long_setanchor_run();} else if (long_kind == 2) {long_conversion_run();} else {long_reset_cycle_run();}
        if (dead) {break;}
      }
      int op = si < script.size() ? script[si++] : pick_op();
      // scripted conversions need an anchored model; fall back to a legal op otherwise
      bool needs_anchor = op == OP_ENU_ECEF || op == OP_ECEF || op == OP_WGS84 || op == OP_PAIR || op == OP_ABOVE ||
        op == OP_ORIGIN || op == OP_SET_ANCHOR_ALIAS || op == OP_FAR || op == OP_REPEAT;
      if (needs_anchor && !anchored) {op = pick_op();}
      if (op == OP_COPY && !conv) {op = OP_CTOR_DEFAULT;}
      step(op);
    }
    bool nontrivial = (n_resets + n_reanchor) >= 1 && n_conv >= 3;
    if (n_resets > 0) {c.cat("has_reset");}
    if (n_reanchor > 0) {c.cat("has_reanchor");}
    c.maxi("history_length", (double)n_ops);
    c.maxi("anchorings_in_one_history", (double)n_anchorings);
    c.count("operations", n_ops);
    c.count("conversions", (uint64_t)n_conv);
    retire_kept();                   // end of the case: every kept result still reads as it did when returned
    c.distinct(hash, nontrivial);
    c.sample(cat, [&]() {return witness();});
  }
};

static void one_case(vh::Ctx & c, uint64_t idx)
{
  vh::Rng r(c.seed, idx);
  Runner run(c, r, idx);
  run.run();
}

int main(int argc, char ** argv)
{
  return vh::run(argc, argv, "C02", {100000, 1000000}, one_case, [](vh::Ctx & c) {
      c.count("loop_hook_calls", vh::loopwatch().calls);
    });
}
