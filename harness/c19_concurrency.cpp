// C19  Shared variables, statistics and check-ups are safe under concurrent use.
//
// Deciders: (1) ThreadSanitizer (tsan flavour: every report with a romea::core frame is a
// violation, collected from the TSan log by vcheck); (2) value-level monitors, in both flavours:
// every value a reader obtains must be one a sequential execution of the same calls produces.
// The sequential reference is the library's own code run single-threaded on the same operation
// sequence before the threads start (table look-up, so the monitors add no synchronisation to
// the objects under test).  Guarded yield hooks widen the windows between critical sections.
#include <atomic>
#include <chrono>
#include <map>
#include <mutex>
#include <optional>
#include <sched.h>
#include <thread>
#include <time.h>
#include <unordered_map>
#include "romea_core_common/concurrency/SharedVariable.hpp"
#include "romea_core_common/concurrency/SharedOptionalVariable.hpp"
#include "romea_core_common/monitoring/OnlineAverage.hpp"
#include "romea_core_common/monitoring/OnlineVariance.hpp"
#include "romea_core_common/monitoring/RateMonitoring.hpp"
#include "romea_core_common/diagnostic/CheckupEqualTo.hpp"
#include "romea_core_common/diagnostic/CheckupGreaterThan.hpp"
#include "romea_core_common/diagnostic/CheckupLowerThan.hpp"
#include "romea_core_common/diagnostic/CheckupRate.hpp"
#include "romea_core_common/diagnostic/CheckupReliability.hpp"
#include "vh.hpp"

using namespace romea::core;

// ------------------------------------------------------------------------------ yield hook
static std::atomic<uint32_t> g_yield_permille{0};
static std::atomic<uint64_t> g_hook_hits[3];
static std::atomic<uint64_t> g_seed_salt{1};

static inline uint64_t tl_rand()
{
  thread_local uint64_t s = 0;
  if (s == 0) {
    uint64_t x = g_seed_salt.fetch_add(0x9E3779B97F4A7C15ULL) ^ (uint64_t)(uintptr_t)&s; s = vh::splitmix64(x) | 1;
  }
  s ^= s << 13; s ^= s >> 7; s ^= s << 17;
  return s;
}

static inline void maybe_yield()
{
  uint32_t pm = g_yield_permille.load(std::memory_order_relaxed);
  if (pm == 0) {return;}
  uint64_t v = tl_rand();
  if (v % 1000 < pm) {
    if (v & 4096) {sched_yield();} else {
      timespec ts{0, (long)(1000 + (v >> 20) % 40000)}; nanosleep(&ts, nullptr);
    }
  }
}

extern "C" void romea_verif_yield_impl(const char * site)
{
  int k = site[7] == ':' ? 0 : (site[13] == 'e' ? 1 : 2);   // Checkup::setDiagnostic_ / CheckupRate::evaluate / ::heartBeatCallback
  g_hook_hits[k].fetch_add(1, std::memory_order_relaxed);
  maybe_yield();
}

// ------------------------------------------------------------------------------ helpers
struct StartGate
{
  std::atomic<int> ready{0}; std::atomic<bool> go{false};
  void arrive_and_wait() {ready.fetch_add(1); while (!go.load(std::memory_order_acquire)) {sched_yield();}}
  void open(int n) {while (ready.load() < n) {sched_yield();} go.store(true, std::memory_order_release);}
};

struct ReaderLog
{
  uint64_t reads = 0, changes = 0, distinct = 0;
  std::string violation;      // first violation text, empty if none
  std::string kind;
};

struct Triple
{
  int status; std::string message, value;
  bool operator<(const Triple & o) const {return std::tie(status, message, value) < std::tie(o.status, o.message, o.value);}
  bool operator==(const Triple & o) const {return status == o.status && message == o.message && value == o.value;}
};

static Triple triple_of(const DiagnosticReport & r)
{
  Triple t;
  t.status = r.diagnostics.empty() ? -1 : (int)r.diagnostics.front().status;
  t.message = r.diagnostics.empty() ? "<no diagnostic>" : r.diagnostics.front().message;
  t.value = r.info.empty() ? "<no info>" : r.info.begin()->second;
  if (r.diagnostics.size() != 1 || r.info.size() != 1) {t.message += " <diagnostics=" + std::to_string(r.diagnostics.size()) + " info=" + std::to_string(r.info.size()) + ">";}
  return t;
}
static std::string show(const Triple & t)
{
  return vh::J().f("status", t.status).s("message", t.message).s("value", t.value).str();
}

struct Scenario
{
  std::string name; int readers, producers, consumers; uint64_t ops; int yield_permille;
  bool initial_value = false;
};

struct Outcome
{
  std::vector<ReaderLog> logs;
  uint64_t writer_ops = 0, aux_ops = 0;
  std::map<std::string, uint64_t> op_counts;
};

// ------------------------------------------------------------------------------ S1 SharedVariable
struct Record64 {uint64_t counter, inv, pad[5], checksum;};
static Record64 make_record(uint64_t k)
{
  Record64 r; r.counter = k; r.inv = ~k; for (int i = 0; i < 5; ++i) {r.pad[i] = k * (i + 3);}
  r.checksum = k * 0x9E3779B97F4A7C15ULL ^ r.pad[4]; return r;
}
static bool record_ok(const Record64 & r)
{
  Record64 e = make_record(r.counter);
  return std::memcmp(&e, &r, sizeof r) == 0;
}

static Outcome run_shared_variable(const Scenario & sc)
{
  Outcome out; out.logs.resize(sc.readers);
  SharedVariable<Record64> var(make_record(0));
  std::atomic<bool> done{false};
  StartGate gate;
  std::vector<std::thread> th;
  for (int i = 0; i < sc.readers; ++i) {
    th.emplace_back([&, i]() {
        ReaderLog & L = out.logs[i];
        gate.arrive_and_wait();
        uint64_t last = 0;
        while (!done.load(std::memory_order_acquire)) {
          Record64 r = (L.reads & 1) ? var.load() : static_cast<Record64>(var);
          ++L.reads;
          if (!record_ok(r)) {if (L.violation.empty()) {L.kind = "torn_shared_variable"; L.violation = vh::J().f("counter", r.counter).f("inv", r.inv).f("checksum", r.checksum).str();}}
          if (r.counter < last) {if (L.violation.empty()) {L.kind = "shared_variable_went_backwards"; L.violation = vh::J().f("previous", last).f("now", r.counter).str();}}
          if (r.counter != last) {++L.changes;}
          last = r.counter;
          maybe_yield();
        }
      });
  }
  th.emplace_back([&]() {
      gate.arrive_and_wait();
      for (uint64_t k = 1; k <= sc.ops; ++k) {
        if (k & 1) {var.store(make_record(k));} else {var = make_record(k);}
        maybe_yield();
      }
      out.writer_ops = sc.ops;
      done.store(true, std::memory_order_release);
    });
  gate.open(sc.readers + 1);
  for (auto & t : th) {t.join();}
  out.op_counts["SharedVariable::store"] = sc.ops;
  for (auto & L : out.logs) {out.op_counts["SharedVariable::load"] += L.reads;}
  return out;
}

// ------------------------------------------------------------------------------ S2 SharedOptionalVariable
static Outcome run_shared_optional(const Scenario & sc)
{
  Outcome out; out.logs.resize(sc.consumers);
  // construction route: empty slot, or a slot created holding a value (id 0 of "producer 0").  With an
  // initial value the producers only start once a consumer has polled, so that a consume() completes
  // before the first store(): no sequential order loses the initial value then
  const bool with_initial = sc.initial_value;
  const uint64_t INITIAL_ID = (uint64_t)0xABCDEF;
  SharedOptionalVariable<uint64_t> var_empty;
  SharedOptionalVariable<uint64_t> var_init(INITIAL_ID);
  SharedOptionalVariable<uint64_t> & var = with_initial ? var_init : var_empty;
  std::atomic<int> polls_completed{0};
  std::atomic<int> producers_done{0};
  std::atomic<uint64_t> completed_seq{0};      // single-producer runs: seq of the last store() that has RETURNED
  StartGate gate;
  std::vector<std::vector<uint64_t>> consumed(sc.consumers);
  std::vector<std::thread> th;
  const uint64_t per = sc.ops / sc.producers;
  for (int p = 0; p < sc.producers; ++p) {
    th.emplace_back([&, p]() {
        gate.arrive_and_wait();
        while (with_initial && polls_completed.load(std::memory_order_acquire) == 0) {std::this_thread::yield();}
        for (uint64_t k = 1; k <= per; ++k) {
          var.store(((uint64_t)(p + 1) << 40) | k);
          if (sc.producers == 1) {completed_seq.store(k, std::memory_order_release);}
          maybe_yield();
        }
        producers_done.fetch_add(1);
      });
  }
  for (int i = 0; i < sc.consumers; ++i) {
    th.emplace_back([&, i]() {
        gate.arrive_and_wait();
        ReaderLog & L = out.logs[i];
        int idle_after_done = 0;
        while (true) {
          // real-time order (one producer, one consumer): a store that had returned before this
          // consume() started, and whose value nobody else can have taken, cannot be missed
          const uint64_t done_before = (sc.producers == 1 && sc.consumers == 1) ? completed_seq.load(std::memory_order_acquire) : 0;
          std::optional<uint64_t> v = var.consume();
          polls_completed.fetch_add(1, std::memory_order_release);
          ++L.reads;
          if (!v && done_before > 0) {
            uint64_t last_recv = (consumed[i].empty() || consumed[i].back() == INITIAL_ID) ? 0 : (consumed[i].back() & ((1ULL << 40) - 1));
            if (done_before > last_recv && L.violation.empty()) {
              L.kind = "optional_stored_value_not_delivered";
              L.violation = vh::J().f("store_completed_seq", done_before).f("last_received_seq", last_recv).str();
            }
          }
          if (v) {consumed[i].push_back(*v); ++L.changes; idle_after_done = 0;} else if (producers_done.load() == sc.producers) {
            if (++idle_after_done > 3) {break;}
          }
          maybe_yield();
        }
      });
  }
  gate.open(sc.producers + sc.consumers);
  for (auto & t : th) {t.join();}
  if (with_initial) {
    int delivered = 0;
    for (int i = 0; i < sc.consumers; ++i) {for (uint64_t id : consumed[i]) {if (id == INITIAL_ID) {++delivered;}}}
    out.op_counts["SharedOptionalVariable(value): initial value delivered"] += delivered;
    if (delivered != 1) {
      ReaderLog & L = out.logs[0];
      if (L.violation.empty()) {
        L.kind = delivered == 0 ? "optional_initial_value_not_delivered" : "optional_value_consumed_twice";
        L.violation = vh::J().s("at", "a slot constructed with a value, first consume() completed before the first store()").f("times_delivered", delivered).str();
      }
    }
  }
  // quiescence: with every thread joined, an empty slot means the value of the globally last
  // store - some producer's final store - was handed to a consumer
  std::optional<uint64_t> left = var.consume();
  bool some_final_consumed = false;
  for (int i = 0; i < sc.consumers; ++i) {
    for (uint64_t id : consumed[i]) {if ((id & ((1ULL << 40) - 1)) == per) {some_final_consumed = true;}}
  }
  if (!left && !some_final_consumed && per > 0) {
    ReaderLog & L = out.logs[0];
    if (L.violation.empty()) {L.kind = "optional_stored_value_not_delivered"; L.violation = vh::J().s("at", "quiescence").f("stores_per_producer", per).str();}
  }
  if (left) {consumed[0].push_back(*left);}
  // offline checker over the recorded history
  std::unordered_map<uint64_t, int> seen;
  for (int i = 0; i < sc.consumers; ++i) {
    ReaderLog & L = out.logs[i];
    std::map<uint64_t, uint64_t> last_seq;
    for (uint64_t id : consumed[i]) {
      if (with_initial && id == INITIAL_ID) {continue;}      // counted above
      uint64_t p = id >> 40, k = id & ((1ULL << 40) - 1);
      if (p < 1 || p > (uint64_t)sc.producers || k < 1 || k > per) {
        if (L.violation.empty()) {L.kind = "optional_value_never_stored"; L.violation = vh::J().f("id", id).str();}
      }
      if (k <= last_seq[p]) {
        if (L.violation.empty()) {L.kind = "optional_out_of_store_order"; L.violation = vh::J().f("producer", p).f("seq", k).f("previous", last_seq[p]).str();}
      }
      last_seq[p] = k;
      auto it = seen.find(id);
      if (it != seen.end()) {
        if (L.violation.empty()) {L.kind = "optional_value_consumed_twice"; L.violation = vh::J().f("id", id).f("first_consumer", it->second).f("second_consumer", i).str();}
      } else {seen[id] = i;}
    }
    L.distinct = consumed[i].size();
  }
  out.writer_ops = per * sc.producers;
  out.op_counts["SharedOptionalVariable::store"] = per * sc.producers;
  for (auto & L : out.logs) {out.op_counts["SharedOptionalVariable::consume"] += L.reads;}
  out.op_counts["SharedOptionalVariable::consume(non-empty)"] = seen.size();
  return out;
}

// ------------------------------------------------------------------------------ S3/S4 online statistics
struct StatState {double avg, var; bool available;};
static uint64_t bits(double d) {uint64_t u; std::memcpy(&u, &d, 8); return u;}

template<class Stat>
static Outcome run_online_stat(const Scenario & sc, bool variance)
{
  Outcome out; out.logs.resize(sc.readers);
  const size_t W = 2 + sc.ops % 13;
  Stat stat(0.01, W);
  // operation sequence: update(x_j) with x strictly increasing, a reset in the middle third
  const uint64_t n = sc.ops, reset_at = n / 2;
  std::vector<double> xs(n + 1);
  for (uint64_t j = 1; j <= n; ++j) {xs[j] = 0.25 * (double)j * (1.0 + (double)(j % 7));}
  // sequential reference: the library's own code, single-threaded, state after every operation
  std::vector<StatState> ref(n + 1);
  {
    Stat seq(0.01, W);
    auto snap = [&]() {
        StatState s; s.avg = seq.getAverage(); s.available = seq.isAvailable();
        if constexpr (std::is_same<Stat, OnlineVariance>::value) {s.var = seq.getVariance();} else {s.var = 0;}
        return s;
      };
    ref[0] = snap();
    for (uint64_t j = 1; j <= n; ++j) {if (j == reset_at) {seq.reset();} else {seq.update(xs[j]);} ref[j] = snap();}
  }
  std::unordered_map<uint64_t, std::vector<uint32_t>> by_avg, by_var;
  for (uint64_t j = 0; j <= n; ++j) {by_avg[bits(ref[j].avg)].push_back((uint32_t)j); by_var[bits(ref[j].var)].push_back((uint32_t)j);}
  std::atomic<bool> done{false};
  StartGate gate;
  std::vector<std::thread> th;
  auto locate = [](const std::vector<uint32_t> * v, uint32_t from) -> int64_t {
      if (!v) {return -1;}
      auto it = std::lower_bound(v->begin(), v->end(), from);
      return it == v->end() ? -1 : (int64_t)*it;
    };
  for (int i = 0; i < sc.readers; ++i) {
    th.emplace_back([&, i]() {
        ReaderLog & L = out.logs[i];
        gate.arrive_and_wait();
        uint32_t last = 0; uint64_t prev_bits = bits(ref[0].avg);
        while (!done.load(std::memory_order_acquire)) {
          int which = (int)(L.reads % 3);
          ++L.reads;
          if (which == 0) {
            double a = stat.getAverage();
            auto f = by_avg.find(bits(a));
            int64_t j = locate(f == by_avg.end() ? nullptr : &f->second, last);
            if (j < 0) {
              if (L.violation.empty()) {L.kind = "statistic_not_a_sequential_value"; L.violation = vh::J().s("getter", "getAverage").f("observed", a).f("not_a_state_at_or_after_operation", last).str();}
            } else {last = (uint32_t)j;}
            if (bits(a) != prev_bits) {++L.changes; prev_bits = bits(a);}
          } else if (which == 1 && variance) {
            if constexpr (std::is_same<Stat, OnlineVariance>::value) {
              double v = stat.getVariance();
              auto f = by_var.find(bits(v));
              int64_t j = locate(f == by_var.end() ? nullptr : &f->second, last);
              if (j < 0) {
                if (L.violation.empty()) {L.kind = "statistic_not_a_sequential_value"; L.violation = vh::J().s("getter", "getVariance").f("observed", v).f("not_a_state_at_or_after_operation", last).str();}
              } else {last = (uint32_t)j;}
            }
          } else {
            bool av = stat.isAvailable();
            uint32_t j = last;
            while (j <= n && ref[j].available != av) {++j;}
            if (j > n) {
              if (L.violation.empty()) {L.kind = "statistic_not_a_sequential_value"; L.violation = vh::J().s("getter", "isAvailable").boolean("observed", av).f("no_such_state_at_or_after_operation", last).str();}
            } else {last = j;}
          }
          maybe_yield();
        }
      });
  }
  th.emplace_back([&]() {
      gate.arrive_and_wait();
      for (uint64_t j = 1; j <= n; ++j) {if (j == reset_at) {stat.reset();} else {stat.update(xs[j]);} maybe_yield();}
      done.store(true, std::memory_order_release);
    });
  gate.open(sc.readers + 1);
  for (auto & t : th) {t.join();}
  out.writer_ops = n;
  const std::string cls = variance ? "OnlineVariance" : "OnlineAverage";
  out.op_counts[cls + "::update"] = n - 1; out.op_counts[cls + "::reset"] = 1;
  for (auto & L : out.logs) {
    uint64_t third = L.reads / 3;
    out.op_counts[cls + "::getAverage"] += L.reads - 2 * third;
    if (variance) {out.op_counts[cls + "::getVariance"] += third; out.op_counts[cls + "::isAvailable"] += third;} else {
      out.op_counts[cls + "::isAvailable"] += 2 * third;
    }
  }
  return out;
}

// ------------------------------------------------------------------------------ S5..S8 check-ups
template<class CheckupT, class Eval, class Get>
static Outcome run_checkup(const Scenario & sc, const std::string & cls, CheckupT & obj, CheckupT & seq, Eval eval, Get get)
{
  Outcome out; out.logs.resize(sc.readers);
  // value table: half-integers so that the printed value is exact and distinct
  const int K = 64;
  std::vector<double> table(K);
  for (int k = 0; k < K; ++k) {table[k] = -8.0 + 0.5 * k;}
  std::set<Triple> allowed;
  allowed.insert(triple_of(get(seq)));                       // initial report
  for (int k = 0; k < K; ++k) {eval(seq, table[k]); allowed.insert(triple_of(get(seq)));}
  std::atomic<bool> done{false};
  StartGate gate;
  std::vector<std::thread> th;
  for (int i = 0; i < sc.readers; ++i) {
    th.emplace_back([&, i]() {
        ReaderLog & L = out.logs[i];
        gate.arrive_and_wait();
        Triple prev{-2, "", ""};
        std::set<Triple> seen;
        while (!done.load(std::memory_order_acquire)) {
          DiagnosticReport r = get(obj);              // a copy, as a caller takes it
          Triple t = triple_of(r);
          ++L.reads;
          if (!allowed.count(t)) {if (L.violation.empty()) {L.kind = "torn_report"; L.violation = show(t);}}
          if (!(t == prev)) {++L.changes; prev = t;}
          if (seen.size() < 200) {seen.insert(t);}
          maybe_yield();
        }
        L.distinct = seen.size();
      });
  }
  th.emplace_back([&]() {
      gate.arrive_and_wait();
      uint64_t x = 88172645463325252ULL;
      for (uint64_t j = 0; j < sc.ops; ++j) {
        x ^= x << 13; x ^= x >> 7; x ^= x << 17;
        eval(obj, table[x % K]);
        maybe_yield();
      }
      done.store(true, std::memory_order_release);
    });
  gate.open(sc.readers + 1);
  for (auto & t : th) {t.join();}
  out.writer_ops = sc.ops;
  out.op_counts[cls + "::evaluate"] = sc.ops;
  for (auto & L : out.logs) {out.op_counts[cls + "::getReport"] += L.reads;}
  return out;
}

// ------------------------------------------------------------------------------ S9/S10 rate check-ups, S11 bare monitor
static bool rate_triple_consistent(const Triple & t, const std::string & name, std::string & why)
{
  const std::string q = name + "_rate";
  if (t.message == "no data received from " + name) {
    if (t.status != (int)DiagnosticStatus::ERROR || !t.value.empty()) {why = "no-data message with status/value of another evaluation"; return false;}
    return true;
  }
  if (t.message == q + " timeout.") {
    if (t.status != (int)DiagnosticStatus::STALE || !t.value.empty()) {why = "timeout message with status/value of another evaluation"; return false;}
    return true;
  }
  bool ok_msg = t.message == q + " is OK.", low = t.message == q + " is too low.", high = t.message == q + " is too high.";
  if (!ok_msg && !low && !high) {why = "unknown / mixed message"; return false;}
  if (ok_msg && t.status != (int)DiagnosticStatus::OK) {why = "OK message with non-OK status"; return false;}
  if ((low || high) && t.status != (int)DiagnosticStatus::ERROR) {why = "too low/high message with non-ERROR status"; return false;}
  if (t.value.empty()) {why = "evaluation message with empty value"; return false;}
  char * end = nullptr; double v = std::strtod(t.value.c_str(), &end);
  if (end == t.value.c_str() || *end != 0 || !(v >= 0)) {why = "value string is not a rate"; return false;}
  return true;
}

template<class RateCheckup>
static Outcome run_rate_checkup(const Scenario & sc, const std::string & cls)
{
  Outcome out; out.logs.resize(sc.readers);
  const std::string name = "imu";
  RateCheckup obj(name, 10.0, 0.5);
  std::atomic<bool> done{false};
  std::atomic<long long> now_ns{0};
  StartGate gate;
  std::vector<std::thread> th;
  for (int i = 0; i < sc.readers; ++i) {
    th.emplace_back([&, i]() {
        ReaderLog & L = out.logs[i];
        gate.arrive_and_wait();
        Triple prev{-2, "", ""};
        std::set<Triple> seen;
        while (!done.load(std::memory_order_acquire)) {
          DiagnosticReport r = obj.getReport();
          Triple t = triple_of(r);
          ++L.reads;
          std::string why;
          if (!rate_triple_consistent(t, name, why)) {if (L.violation.empty()) {L.kind = "torn_report"; L.violation = vh::J().s("why", why).raw("report", show(t)).str();}}
          if (!(t == prev)) {++L.changes; prev = t;}
          if (seen.size() < 200) {seen.insert(t);}
          maybe_yield();
        }
        L.distinct = seen.size();
      });
  }
  // heartbeat thread: stamps around the writer's clock, sometimes far enough ahead to time out
  std::atomic<uint64_t> beats{0}, timeouts{0};
  th.emplace_back([&]() {
      gate.arrive_and_wait();
      uint64_t x = 0x2545F4914F6CDD1DULL;
      while (!done.load(std::memory_order_acquire)) {
        x ^= x << 13; x ^= x >> 7; x ^= x << 17;
        long long t = now_ns.load() + (long long)(x % 3 == 0 ? 700000000LL : (x % 100000000ULL));
        bool alive = obj.heartBeatCallback(Duration(t));
        beats.fetch_add(1); if (!alive) {timeouts.fetch_add(1);}
        maybe_yield();
      }
    });
  th.emplace_back([&]() {
      gate.arrive_and_wait();
      long long t = 1000000000LL;
      uint64_t x = 88172645463325252ULL;
      for (uint64_t j = 0; j < sc.ops; ++j) {
        x ^= x << 13; x ^= x >> 7; x ^= x << 17;
        // periods around 100 ms (10 Hz) with phases that are too slow / too fast
        long long period = (j / 97) % 3 == 0 ? 100000000LL : ((j / 97) % 3 == 1 ? 140000000LL : 70000000LL);
        t += period + (long long)(x % 2000000ULL);
        now_ns.store(t);
        obj.evaluate(Duration(t));
        maybe_yield();
      }
      done.store(true, std::memory_order_release);
    });
  gate.open(sc.readers + 2);
  for (auto & t : th) {t.join();}
  out.writer_ops = sc.ops; out.aux_ops = beats.load();
  out.op_counts[cls + "::evaluate"] = sc.ops;
  out.op_counts[cls + "::heartBeatCallback"] = beats.load();
  out.op_counts[cls + "::heartBeatCallback(timeout)"] = timeouts.load();
  for (auto & L : out.logs) {out.op_counts[cls + "::getReport"] += L.reads;}
  return out;
}

static Outcome run_rate_monitor(const Scenario & sc)
{
  Outcome out; out.logs.resize(sc.readers);
  RateMonitoring mon(20.0);
  // sequential reference of the rates the writer's stamps produce
  std::vector<long long> stamps(sc.ops);
  {
    long long t = 1000000000LL; uint64_t x = 88172645463325252ULL;
    for (uint64_t j = 0; j < sc.ops; ++j) {x ^= x << 13; x ^= x >> 7; x ^= x << 17; t += 40000000LL + (long long)(x % 20000000ULL); stamps[j] = t;}
  }
  std::unordered_map<uint64_t, int> allowed;
  {
    RateMonitoring seq(20.0);
    allowed[bits(0.0)] = 1;
    for (uint64_t j = 0; j < sc.ops; ++j) {allowed[bits(seq.update(Duration(stamps[j])))] = 1;}
  }
  std::atomic<bool> done{false};
  std::atomic<long long> now_ns{0};
  StartGate gate;
  std::vector<std::thread> th;
  for (int i = 0; i < sc.readers; ++i) {
    th.emplace_back([&, i]() {
        ReaderLog & L = out.logs[i];
        gate.arrive_and_wait();
        uint64_t prev = bits(0.0);
        while (!done.load(std::memory_order_acquire)) {
          double r = mon.getRate();
          ++L.reads;
          if (!allowed.count(bits(r))) {if (L.violation.empty()) {L.kind = "rate_not_a_sequential_value"; L.violation = vh::J().f("observed", r).str();}}
          if (bits(r) != prev) {++L.changes; prev = bits(r);}
          maybe_yield();
        }
      });
  }
  std::atomic<uint64_t> beats{0};
  th.emplace_back([&]() {
      gate.arrive_and_wait();
      uint64_t x = 0x2545F4914F6CDD1DULL;
      while (!done.load(std::memory_order_acquire)) {
        x ^= x << 13; x ^= x >> 7; x ^= x << 17;
        long long t = now_ns.load() + (long long)(x % 5 == 0 ? 600000000LL : (x % 100000000ULL));
        (void)mon.timeout(Duration(t)); beats.fetch_add(1);
        maybe_yield();
      }
    });
  th.emplace_back([&]() {
      gate.arrive_and_wait();
      for (uint64_t j = 0; j < sc.ops; ++j) {now_ns.store(stamps[j]); mon.update(Duration(stamps[j])); maybe_yield();}
      done.store(true, std::memory_order_release);
    });
  gate.open(sc.readers + 2);
  for (auto & t : th) {t.join();}
  out.writer_ops = sc.ops; out.aux_ops = beats.load();
  out.op_counts["RateMonitoring::update"] = sc.ops;
  out.op_counts["RateMonitoring::timeout"] = beats.load();
  for (auto & L : out.logs) {out.op_counts["RateMonitoring::getRate"] += L.reads;}
  return out;
}

// Two mutators: update() from one thread while another thread calls reset().  Both take the
// object's mutex, so any interleaving is a sequence of whole operations; at a quiescent point,
// after 2W further known samples, the statistics must equal those of a fresh object fed the same
// 2W samples (the sums are exact integers, so the comparison is bitwise).
template<class Stat>
static Outcome run_stat_concurrent_reset(const Scenario & sc, const std::string & cls)
{
  Outcome out; out.logs.resize(1);
  const size_t W = 2 + sc.ops % 13;
  Stat stat(0.01, W);
  const int rounds = 40;
  const uint64_t burst = std::max<uint64_t>(50, sc.ops / rounds / 4);
  uint64_t resets_total = 0;
  ReaderLog & L = out.logs[0];
  for (int rd = 0; rd < rounds; ++rd) {
    std::atomic<bool> done{false};
    std::atomic<uint64_t> resets{0};
    StartGate gate;
    std::thread upd([&]() {
        gate.arrive_and_wait();
        for (uint64_t j = 1; j <= burst; ++j) {stat.update(0.25 * (double)(j % 97) + rd); maybe_yield();}
        done.store(true, std::memory_order_release);
      });
    std::thread rst([&]() {
        gate.arrive_and_wait();
        while (!done.load(std::memory_order_acquire)) {stat.reset(); resets.fetch_add(1); maybe_yield(); sched_yield();}
      });
    std::thread rdr([&]() {
        gate.arrive_and_wait();
        while (!done.load(std::memory_order_acquire)) {(void)stat.getAverage(); (void)stat.isAvailable(); maybe_yield();}
      });
    gate.open(3);
    upd.join(); rst.join(); rdr.join();
    resets_total += resets.load();
    // quiescent point
    Stat ref(0.01, W);
    for (size_t j = 0; j < 2 * W; ++j) {double x = 1.5 * (double)j + 0.25 * rd; stat.update(x); ref.update(x);}
    ++L.reads;
    bool ok = bits(stat.getAverage()) == bits(ref.getAverage()) && stat.isAvailable() == ref.isAvailable();
    double v1 = 0, v2 = 0;
    if constexpr (std::is_same<Stat, OnlineVariance>::value) {v1 = stat.getVariance(); v2 = ref.getVariance(); ok = ok && bits(v1) == bits(v2);}
    if (!ok) {
      if (L.violation.empty()) {
        L.kind = "statistic_corrupted_after_concurrent_reset";
        L.violation = vh::J().f("round", rd).f("average", stat.getAverage()).f("expected_average", ref.getAverage()).f("variance", v1).f("expected_variance", v2).str();
      }
    } else {++L.changes;}
  }
  out.writer_ops = burst * rounds;
  out.op_counts[cls + "::update(concurrent with reset)"] = burst * rounds;
  out.op_counts[cls + "::reset(concurrent with update)"] = resets_total;
  return out;
}

// Slow source (period 1 s > the 0.5 s time-out): a heartbeat stamped 0.4 s before the stamp the
// writer is about to feed times out only if it takes effect BEFORE that update; once update() /
// evaluate() has returned, no sequential order of the calls leaves the rate at 0 or the report
// STALE.  Checked by the writer thread itself right after its own call returns (real-time order).
template<class Obj, class Feed, class Beat, class Check>
static Outcome run_slow_source(const Scenario & sc, const std::string & cls, Obj & obj, Feed feed, Beat beat, Check check)
{
  Outcome out; out.logs.resize(1);
  std::atomic<bool> done{false};
  std::atomic<long long> upcoming{0};
  StartGate gate;
  std::vector<std::thread> th;
  std::atomic<uint64_t> beats{0}, timeouts{0};
  const int nbeat = std::max(1, sc.readers);
  for (int b = 0; b < nbeat; ++b) {
    th.emplace_back([&]() {
        gate.arrive_and_wait();
        while (!done.load(std::memory_order_acquire)) {
          long long t = upcoming.load(std::memory_order_acquire);
          if (t > 0) {if (beat(obj, Duration(t - 400000000LL))) {timeouts.fetch_add(1);} beats.fetch_add(1);}
          maybe_yield();
        }
      });
  }
  th.emplace_back([&]() {
      ReaderLog & L = out.logs[0];
      gate.arrive_and_wait();
      long long t = 5000000000LL;
      const uint64_t n = std::min<uint64_t>(sc.ops, 20000);
      for (uint64_t j = 0; j < n; ++j) {
        t += 1000000000LL;
        upcoming.store(t, std::memory_order_release);
        feed(obj, Duration(t));
        ++L.reads;
        std::string why = check(obj, j);
        if (!why.empty()) {
          if (L.violation.empty()) {L.kind = "stale_after_fresh_data"; L.violation = vh::J().f("stamp_index", j).s("observed", why).str();}
        } else {++L.changes;}
        maybe_yield();
      }
      out.writer_ops = n;
      done.store(true, std::memory_order_release);
    });
  gate.open(nbeat + 1);
  for (auto & t : th) {t.join();}
  out.aux_ops = beats.load();
  out.op_counts[cls + "::feed(slow source)"] = out.writer_ops;
  out.op_counts[cls + "::heartbeat(slow source)"] = beats.load();
  out.op_counts[cls + "::heartbeat(slow source, timed out)"] = timeouts.load();
  return out;
}

// ------------------------------------------------------------------------------ driver
static const char * SCEN[] = {"SharedVariable", "SharedOptionalVariable", "OnlineAverage", "OnlineVariance",
  "CheckupEqualTo", "CheckupGreaterThan", "CheckupLowerThan", "CheckupReliability", "CheckupEqualToRate",
  "CheckupGreaterThanRate", "RateMonitoring", "RateMonitoring_slow_source", "CheckupEqualToRate_slow_source",
  "CheckupGreaterThanRate_slow_source", "OnlineAverage_concurrent_reset", "OnlineVariance_concurrent_reset"};
static const int NSCEN = 16;

static void one_case(vh::Ctx & c, uint64_t idx)
{
  vh::Rng r(c.seed, idx);
  Scenario sc;
  int s = (int)(idx % NSCEN);
  sc.name = SCEN[s];
  static const int RD[4] = {1, 2, 4, 8};
  sc.readers = RD[(idx / NSCEN) % 4];
  sc.producers = 1 + (int)((idx / NSCEN) % 4); sc.consumers = 1 + (int)((idx / (NSCEN * 4)) % 4);
  bool thorough = c.tier == "thorough";
  sc.ops = (thorough ? 60000 : 12000) + (uint64_t)r.range(0, 2000);
  if (s == 1 && (idx / NSCEN) % 4 == 0) {
    // the real-time-order monitor of the optional slot needs exactly one producer and one consumer:
    // every fourth SharedOptionalVariable case is 1 x 1 (or 1 x N on odd rounds) and four times longer
    const uint64_t round = idx / (NSCEN * 4);
    sc.producers = 1; sc.consumers = (round % 2 == 0) ? 1 : 1 + (int)(round % 4);
    if (sc.consumers == 1) {sc.ops *= 4;}
  }
  sc.yield_permille = (int)(((idx / NSCEN) % 3) == 0 ? 0 : r.range(1, 30));
  g_yield_permille.store(sc.yield_permille);
  g_seed_salt.store(vh::mix(c.seed, idx) | 1);
  if (s == 1) {sc.initial_value = ((idx / NSCEN) % 2) == 1; c.cat(sc.initial_value ? "optional_constructed_with_value" : "optional_constructed_empty");}
  c.cat("scenario_" + sc.name);
  c.cat("readers_" + std::to_string(s == 1 ? sc.consumers : sc.readers));
  if (s == 1) {c.cat("producers_" + std::to_string(sc.producers));}
  c.cat(sc.yield_permille ? "with_injected_yields" : "no_injected_yields");

  Outcome out;
  switch (s) {
    case 0: out = run_shared_variable(sc); break;
    case 1: out = run_shared_optional(sc); break;
    case 2: out = run_online_stat<OnlineAverage>(sc, false); break;
    case 3: out = run_online_stat<OnlineVariance>(sc, true); break;
    case 4: {
        CheckupEqualTo<double> a("speed", 1.0, 2.25), b("speed", 1.0, 2.25);
        out = run_checkup(sc, "CheckupEqualTo", a, b, [](CheckupEqualTo<double> & o, double v) {o.evaluate(v);},
            [](const CheckupEqualTo<double> & o) {return DiagnosticReport(o.getReport());});
        break;
      }
    case 5: {
        CheckupGreaterThan<double> a("speed", 1.0, 0.25), b("speed", 1.0, 0.25);
        out = run_checkup(sc, "CheckupGreaterThan", a, b, [](CheckupGreaterThan<double> & o, double v) {o.evaluate(v);},
            [](const CheckupGreaterThan<double> & o) {return DiagnosticReport(o.getReport());});
        break;
      }
    case 6: {
        CheckupLowerThan<double> a("speed", 1.0, 0.25), b("speed", 1.0, 0.25);
        out = run_checkup(sc, "CheckupLowerThan", a, b, [](CheckupLowerThan<double> & o, double v) {o.evaluate(v);},
            [](const CheckupLowerThan<double> & o) {return DiagnosticReport(o.getReport());});
        break;
      }
    case 7: {
        CheckupReliability a("fix", -2.0, 3.0), b("fix", -2.0, 3.0);
        out = run_checkup(sc, "CheckupReliability", a, b, [](CheckupReliability & o, double v) {o.evaluate(v);},
            [](const CheckupReliability & o) {return o.getReport();});
        break;
      }
    case 8: out = run_rate_checkup<CheckupEqualToRate>(sc, "CheckupEqualToRate"); break;
    case 9: out = run_rate_checkup<CheckupGreaterThanRate>(sc, "CheckupGreaterThanRate"); break;
    case 10: out = run_rate_monitor(sc); break;
    case 11: {
        RateMonitoring mon(1.0);
        out = run_slow_source(sc, "RateMonitoring", mon,
            [](RateMonitoring & o, const Duration & d) {o.update(d);},
            [](RateMonitoring & o, const Duration & d) {return o.timeout(d);},
            [](RateMonitoring & o, uint64_t j) {
              double r = o.getRate();
              // W = 4: the rate is defined from the 5th stamp on and is exactly 1 Hz
              if (j >= 4 && r != 1.0) {return std::string("getRate()=") + std::to_string(r) + " right after update()";}
              return std::string();
            });
        break;
      }
    case 12: {
        CheckupEqualToRate chk("imu", 1.0, 0.1);
        out = run_slow_source(sc, "CheckupEqualToRate", chk,
            [](CheckupEqualToRate & o, const Duration & d) {o.evaluate(d);},
            [](CheckupEqualToRate & o, const Duration & d) {return !o.heartBeatCallback(d);},
            [](CheckupEqualToRate & o, uint64_t j) {
              Triple t = triple_of(o.getReport());
              if (j >= 4 && !(t.status == (int)DiagnosticStatus::OK && t.value == "1")) {return show(t) + " right after evaluate()";}
              return std::string();
            });
        break;
      }
    case 14: out = run_stat_concurrent_reset<OnlineAverage>(sc, "OnlineAverage"); break;
    case 15: out = run_stat_concurrent_reset<OnlineVariance>(sc, "OnlineVariance"); break;
    default: {
        CheckupGreaterThanRate chk("imu", 1.0, 0.1);
        out = run_slow_source(sc, "CheckupGreaterThanRate", chk,
            [](CheckupGreaterThanRate & o, const Duration & d) {o.evaluate(d);},
            [](CheckupGreaterThanRate & o, const Duration & d) {return !o.heartBeatCallback(d);},
            [](CheckupGreaterThanRate & o, uint64_t j) {
              Triple t = triple_of(o.getReport());
              if (j >= 4 && !(t.status == (int)DiagnosticStatus::OK && t.value == "1")) {return show(t) + " right after evaluate()";}
              return std::string();
            });
        break;
      }
  }
  g_yield_permille.store(0);

  uint64_t total_reads = 0, total_changes = 0;
  for (auto & L : out.logs) {total_reads += L.reads; total_changes += L.changes;}
  for (auto & kv : out.op_counts) {c.count("ops." + kv.first, kv.second);}
  c.count("operations_total", out.writer_ops + out.aux_ops + total_reads);
  c.count("reader_observed_value_changes", total_changes);
  bool nontrivial = total_changes > 0 && (s == 1 ? sc.consumers + sc.producers > 2 : sc.readers > 1);
  c.distinct(vh::hash_doubles({(double)s, (double)sc.readers, (double)sc.producers, (double)sc.consumers, (double)sc.ops, (double)sc.yield_permille}), nontrivial);
  auto params = [&]() {
      return vh::Params{{"scenario", (double)s}, {"readers", (double)sc.readers}, {"producers", (double)sc.producers},
        {"consumers", (double)sc.consumers}, {"yield_permille", (double)sc.yield_permille}};
    };
  c.sample("scenario_" + sc.name, [&]() {
      return vh::J().s("scenario", sc.name).f("readers", s == 1 ? sc.consumers : sc.readers).f("producers", s == 1 ? sc.producers : 1)
             .f("writer_operations", out.writer_ops).f("reads", total_reads).f("value_changes_seen_by_readers", total_changes)
             .f("injected_yield_permille", sc.yield_permille).str();
    });
  // a scenario run in which the readers never saw the value change shows no overlap: counted as
  // inconclusive material (skip), never as pass
  if (total_changes == 0) {c.skip("overlap:readers_never_saw_a_change_in_" + sc.name);} else {c.count("scenario_runs_with_overlap");}
  for (size_t i = 0; i < out.logs.size(); ++i) {
    const ReaderLog & L = out.logs[i];
    c.expect(("values_sequentially_explainable." + sc.name).c_str(), L.violation.empty(), L.kind.empty() ? "torn_value" : L.kind.c_str(), params, [&]() {
        return vh::J().s("scenario", sc.name).f("reader", (int)i).f("reads", L.reads).raw("observation", L.violation.empty() ? "{}" : L.violation).str();
      });
  }
}

int main(int argc, char ** argv)
{
  return vh::run(argc, argv, "C19", {256, 2560}, one_case, [](vh::Ctx & c) {
      c.count("hook.Checkup::setDiagnostic_", g_hook_hits[0].load());
      c.count("hook.CheckupRate::evaluate", g_hook_hits[1].load());
      c.count("hook.CheckupRate::heartBeatCallback", g_hook_hits[2].load());
    });
}
