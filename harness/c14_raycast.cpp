// C14  Ray casting visits a connected, in-bounds chain of cells covering the segment.
//
// A case is one grid (float/double x 2D/3D) plus a sequence of casts on ONE reused caster,
// mixing the cast overloads, the manual next() loop, stray calls that disturb the traversal
// state and changes of the grid the caster sees (setGridIndexMapping with another mapping, or a
// new mapping assigned to the pointed-to object) followed by a cast from the same origin, and
// calls whose arguments are references to the caster's own origin / end point.  Every cast is checked against
//   * exact, combinatorial oracles: first cell, number of cells = L1 + 1, face-adjacent steps,
//     indexes inside the grid, accessors, bitwise equality with a fresh caster (history);
//   * geometric oracles in long double, on the grid geometry published by the mapping (cell
//     centre table, resolution): every visited cell's closed extent meets the segment, the last
//     cell's closed extent contains the end point, an end point well inside its own cell ends
//     the ray in that cell.  The geometric oracles carry the allowance argued in DESIGN (C14):
//     eps * (8 * Ncoord + j^2 / 2) cells after j steps of the incremental traversal, Ncoord the
//     coordinate magnitude in cells (= cells per axis for grids that contain the origin of the
//     frame).  Where the allowance exceeds a quarter of a cell the sub-check cannot discriminate
//     and is counted as skipped, never as held.
#include <memory>
#include <Eigen/Core>
#include "romea_core_common/containers/grid/RayTracing.hpp"
#include "vh.hpp"

typedef long double LD;

namespace
{

const LD VACUOUS_CELLS = 0.25L;     // allowance above which a geometric sub-check is vacuous

enum RayKind
{
  RK_GENERIC = 0, RK_COINCIDENT, RK_SAME_CELL, RK_AXIS_ALIGNED, RK_PLANAR, RK_DIAGONAL,
  RK_NEAR_AXIS, RK_EXTENT_CORNERS, RK_REVERSE, RK_BORDER_END, RK_COUNT
};
const char * const RK_NAME[RK_COUNT] = {
  "ray_generic", "ray_coincident", "ray_same_cell", "ray_axis_aligned", "ray_planar",
  "ray_diagonal", "ray_near_axis", "ray_extent_corners", "ray_reverse", "ray_border_end"};

enum ApiMode
{
  API_CAST_OE = 0, API_SETO_CAST_E, API_CAST_E_KEEP_ORIGIN, API_SET_SET_CAST, API_NEXT_LOOP,
  // arguments that are references to the caster's own members (no copy in between)
  API_ALIAS_FIRST,
  API_AL_CAST_END_Q = API_ALIAS_FIRST,   // cast(getEndPoint(), q)             polyline
  API_AL_CAST_P_ORIGIN,                  // cast(p, getOriginPoint())          back to the previous origin
  API_AL_CAST_END_ORIGIN,                // cast(getEndPoint(), getOriginPoint())   reverse ray
  API_AL_CAST_ORIGIN_END,                // cast(getOriginPoint(), getEndPoint())   same ray again
  API_AL_CAST_END,                       // cast(getEndPoint())
  API_AL_CAST_ORIGIN,                    // cast(getOriginPoint())             coincident
  API_AL_SETEND_ORIGIN_CAST,             // setEndPoint(getOriginPoint()); cast()
  API_AL_SETORIGIN_END_CAST_Q,           // setOriginPoint(getEndPoint()); cast(q)
  API_COUNT
};
const int API_REGULAR_COUNT = API_ALIAS_FIRST;
const char * const API_NAME[API_COUNT] = {
  "api_cast_o_e", "api_setorigin_cast_e", "api_cast_e_keep_origin", "api_setorigin_setend_cast",
  "api_next_loop",
  "api_alias_cast_getend_q", "api_alias_cast_p_getorigin", "api_alias_cast_getend_getorigin",
  "api_alias_cast_getorigin_getend", "api_alias_cast_getend", "api_alias_cast_getorigin",
  "api_alias_setend_getorigin_cast", "api_alias_setorigin_getend_cast_q"};

enum Disturb
{
  DI_NONE = 0, DI_NEXT, DI_STALE_CAST, DI_SETEND, DI_SETORIGIN, DI_VALUE_OP, DI_SAME_GRID_AGAIN,
  DI_LONG_256, DI_LONG_65536, DI_COUNT
};
const char * const DI_NAME[DI_COUNT] = {
  "disturb_none", "disturb_stray_next", "disturb_stale_cast", "disturb_setend_only",
  "disturb_setorigin_only", "disturb_caster_copied_or_moved", "disturb_same_grid_set_again",
  "disturb_mutator_repeated_2p8_plus_k", "disturb_mutator_repeated_2p16_plus_k"};

// value-semantics operations on the caster under test; afterwards the history goes on with the
// object named last
enum ValueOp
{
  VO_COPY_CONSTRUCT = 0,   // copy, then the source is overwritten and destroyed -> copy
  VO_COPY_ASSIGN,          // assigned over a used caster, source overwritten and destroyed -> target
  VO_MOVE_CONSTRUCT, VO_MOVE_ASSIGN,
  VO_SELF_ASSIGN,          // -> same object
  VO_COPY_USED_SOURCE_KEPT,   // a copy is made and used for other rays -> source
  VO_COUNT
};
const char * const VO_NAME[VO_COUNT] = {
  "value_copy_construct", "value_copy_assign", "value_move_construct", "value_move_assign",
  "value_self_assign", "value_copy_used_source_kept"};

template<int D>
bool slab_hit(const LD * A, const LD * B, const LD * lo, const LD * hi, LD e)
{
  LD t0 = 0, t1 = 1;
  for (int i = 0; i < D; ++i) {
    LD d = B[i] - A[i], l = lo[i] - e, h = hi[i] + e;
    if (d == 0) {
      if (A[i] < l || A[i] > h) {return false;}
    } else {
      LD ta = (l - A[i]) / d, tb = (h - A[i]) / d;
      if (ta > tb) {std::swap(ta, tb);}
      if (ta > t0) {t0 = ta;}
      if (tb < t1) {t1 = tb;}
      if (t0 > t1) {return false;}
    }
  }
  return true;
}

// smallest inflation (same length unit as the operands) of the closed box [lo,hi] that makes it
// meet the closed segment AB; 0 when they already meet.  Upper bound, accurate to 0.1 %.
template<int D>
LD seg_box_gap(const LD * A, const LD * B, const LD * lo, const LD * hi, LD unit)
{
  if (slab_hit<D>(A, B, lo, hi, 0)) {return 0;}
  LD b = unit * 1e-21L;
  int guard = 0;
  while (!slab_hit<D>(A, B, lo, hi, b) && ++guard < 120) {b *= 4;}
  LD a = b / 4;
  for (int k = 0; k < 12; ++k) {
    LD mid = (a + b) / 2;
    if (slab_hit<D>(A, B, lo, hi, mid)) {b = mid;} else {a = mid;}
  }
  return b;
}

template<class S> struct ScalarName;
template<> struct ScalarName<float> {static constexpr const char * v = "f"; static constexpr int bits = 32;};
template<> struct ScalarName<double> {static constexpr const char * v = "d"; static constexpr int bits = 64;};

template<class S, int D>
struct Runner
{
  using G = romea::core::GridIndexMapping<S, D>;
  using RC = romea::core::RayCasting<S, D>;
  using P = typename G::PointType;
  using C = typename G::CellIndexes;
  using Ray = romea::core::VectorOfEigenVector<C>;
  using Itv = romea::core::Interval<S, D>;

  // ---- grid description (everything needed to rebuild it from a witness)
  struct GridDesc
  {
    bool symmetric = false;
    S max_range = 0;
    P lower, upper;
    S res = 0;
    LD coord_cells = 0;       // max |bound| / res
    size_t ncells_max = 0;
    bool dyadic = false;
    std::string json() const
    {
      vh::J j;
      j.s("scalar", ScalarName<S>::v).f("dim", D).boolean("symmetric_ctor", symmetric).f("res", res);
      if (symmetric) {j.f("max_range", max_range);}
      j.raw("lower", vh::jvec(lower)).raw("upper", vh::jvec(upper));
      return j.str();
    }
  };

  static S clampS(S v, S lo, S hi) {return v < lo ? lo : (v > hi ? hi : v);}

  static S nudge(vh::Rng & r, S v)
  {
    int k = static_cast<int>(r.range(0, 2));
    S dir = r.coin() ? std::numeric_limits<S>::max() : std::numeric_limits<S>::lowest();
    for (int i = 0; i < k; ++i) {v = std::nextafter(v, dir);}
    return v;
  }

  // one coordinate along `axis`, by mode
  static S pick_coord(vh::Rng & r, const G & m, const GridDesc & g, int axis, int mode)
  {
    const std::vector<S> & ctr = m.getCellCentersPositionAlong(axis);
    const S lo = g.lower[axis], hi = g.upper[axis], res = g.res;
    const int64_t n = static_cast<int64_t>(ctr.size());
    S v;
    switch (mode) {
      default:
      case 0: v = static_cast<S>(r.uni(static_cast<double>(lo), static_cast<double>(hi))); break;
      case 1: v = ctr[r.range(0, n - 1)]; break;                                   // centre
      case 2: {                                                                    // border
          S c0 = ctr[r.range(0, n - 1)];
          v = r.coin() ? static_cast<S>(c0 + res * S(0.5)) : static_cast<S>(c0 - res * S(0.5));
          if (r.coin(0.5)) {v = nudge(r, v);}
          break;
        }
      case 3: v = r.coin() ? lo : hi; if (r.coin(0.3)) {v = nudge(r, v);} break;   // extent bound
      case 4: {                                                                    // k*res, (k+.5)*res
          int64_t k0 = static_cast<int64_t>(std::ceil(static_cast<double>(lo) / static_cast<double>(res)));
          int64_t k1 = static_cast<int64_t>(std::floor(static_cast<double>(hi) / static_cast<double>(res)));
          if (k1 < k0) {k1 = k0;}
          S k = static_cast<S>(r.range(k0, k1));
          v = r.coin() ? static_cast<S>(k * res) : static_cast<S>((k + S(0.5)) * res);
          break;
        }
      case 6: {                                                                    // exact special values
          static const S SP[] = {S(0), -S(0), std::numeric_limits<S>::denorm_min(), -std::numeric_limits<S>::denorm_min(),
            std::numeric_limits<S>::min(), -std::numeric_limits<S>::min(), S(1), S(-1)};
          int q = static_cast<int>(r.range(0, 9));
          if (q < 8) {v = SP[q];} else {
            v = static_cast<S>(std::round(r.uni(static_cast<double>(lo), static_cast<double>(hi))));   // an integer
          }
          break;
        }
      case 5: {                                                                    // close to centre / border
          S c0 = ctr[r.range(0, n - 1)];
          double off = r.sign() * r.logu(1e-7, 1e-2) * static_cast<double>(res);
          v = static_cast<S>(static_cast<double>(c0) + (r.coin() ? 0.0 : r.sign() * 0.5 * static_cast<double>(res)) + off);
          break;
        }
    }
    return clampS(v, lo, hi);
  }

  static P pick_point(vh::Rng & r, const G & m, const GridDesc & g, int forced_mode = -1)
  {
    P p;
    // generic 30 %, centre 15 %, border 15 %, extent bound 10 %, k*res 15 %, near centre/border 10 %,
    // special values (0, -0, denormals, smallest normal, +-1, integers) 5 %
    static const int MODES[20] = {0, 0, 0, 0, 0, 0, 6, 1, 1, 1, 2, 2, 2, 3, 3, 4, 4, 4, 5, 5};
    int common = MODES[r.range(0, 19)];
    bool same = r.coin(0.4);
    for (int i = 0; i < D; ++i) {
      int mode = forced_mode >= 0 ? forced_mode : (same ? common : MODES[r.range(0, 19)]);
      p[i] = pick_coord(r, m, g, i, mode);
    }
    if (forced_mode < 0 && r.coin(0.04)) {      // all components equal (when the extents allow it)
      for (int i = 1; i < D; ++i) {p[i] = clampS(p[0], g.lower[i], g.upper[i]);}
    }
    return p;
  }

  // ---- grid generation
  static int64_t pick_ncells(vh::Rng & r)
  {
    double u = r.uni();
    if (u < 0.03) {return r.range(1, 3);}
    if (u < 0.40) {return r.range(2, 60);}
    if (u < 0.75) {return r.range(60, 250);}
    if (u < 0.94) {return r.range(250, 1000);}
    return r.range(1000, 1998);
  }

  static GridDesc make_grid_desc(vh::Rng & r)
  {
    GridDesc g;
    g.res = pick_res(r);
    const double res = static_cast<double>(g.res);
    g.symmetric = r.coin(0.35);
    if (g.symmetric) {
      int64_t n = pick_ncells(r);
      if (n < 3) {n = 3;}
      // cells = ceil(R/res) - floor(-R/res) + 1 ~ 2 R/res + 1
      double R = res * (static_cast<double>(n - 1) / 2.0);
      if (r.coin(0.5)) {R -= res * r.uni(0.0, 0.5);}
      if (R < 0) {R = 0;}
      if (R > 1000.0) {R = 1000.0;}
      g.max_range = static_cast<S>(R);
      g.lower = P::Constant(-g.max_range);
      g.upper = P::Constant(g.max_range);
    } else {
      int64_t ncommon = pick_ncells(r);
      bool same = r.coin(0.5);
      for (int i = 0; i < D; ++i) {
        int64_t n = same ? ncommon : pick_ncells(r);
        double w = res * static_cast<double>(n - 1);
        if (r.coin(0.6) && n > 1) {w -= res * r.uni(0.0, 1.0);}
        if (w < 0) {w = 0;}
        if (w > 1999.0 * res) {w = 1999.0 * res;}
        double lo;
        int om = static_cast<int>(r.range(0, 9));
        if (om <= 4) {                       // contains the frame origin
          lo = -w * r.uni();
        } else if (om <= 6) {                // multiples of the resolution, contains the origin
          lo = -res * std::floor(r.uni() * (w / res));
        } else if (om == 7) {                // starts or ends at the frame origin
          lo = r.coin() ? 0.0 : -w;
        } else if (om == 9 && r.coin(0.6)) { // far from the frame origin: |bound| log-spaced up to max_coord_cells() cells
          double top = std::max(1100.0, max_coord_cells() * res - w);
          lo = r.logu(1000.0, top);
          if (r.coin()) {lo = -lo - w;}
          if (r.coin()) {lo = res * std::round(lo / res);}
        } else {                             // offset grid, |bounds| <= 1000
          double room = 1000.0 - w;
          lo = r.uni(-1000.0, -1000.0 + 2 * room);
          if (r.coin()) {lo = res * std::round(lo / res);}
          if (lo < -1000.0) {lo = -1000.0;}
          if (lo + w > 1000.0) {lo = 1000.0 - w;}
        }
        S lof = static_cast<S>(lo), hif = static_cast<S>(lo + w);
        if (hif < lof) {hif = lof;}
        g.lower[i] = lof; g.upper[i] = hif;
      }
    }
    finalize_desc(g);
    return g;
  }

  static void finalize_desc(GridDesc & g)
  {
    int ex; double fr = std::frexp(static_cast<double>(g.res), &ex);
    g.dyadic = (fr == 0.5);
    LD mx = 0;
    for (int i = 0; i < D; ++i) {
      mx = std::max(mx, std::max(fabsl(static_cast<LD>(g.lower[i])), fabsl(static_cast<LD>(g.upper[i]))));
    }
    g.coord_cells = mx / static_cast<LD>(g.res);
  }

  // largest coordinate magnitude, in cells, of the generated grids: the unchanged mapping stays
  // consistent (cell counts, indexes in range) up to here; found by sweeping, see checks/C14.py
  static double max_coord_cells()
  {
    static const double v = []() {
        if (const char * e = getenv(ScalarName<S>::bits == 32 ? "VERIF_C14_MAXCC_F" : "VERIF_C14_MAXCC_D")) {return atof(e);}
        return ScalarName<S>::bits == 32 ? 1.0e6 : 1.0e13;
      }();
    return v;
  }

  static S pick_res(vh::Rng & r)
  {
    static const double RES[] = {0.1, 0.125, 0.01, 1.0, 0.5, 0.25, 0.05, 0.2, 0.0625, 0.015625};
    return static_cast<S>(r.coin(0.55) ? RES[r.range(0, 9)] : r.logu(0.01, 1.0));
  }

  // a second grid for the same caster: same bounds with another resolution (so that the same
  // point falls in another cell), perturbed bounds, or an unrelated grid
  static GridDesc derive_grid_desc(vh::Rng & r, const GridDesc & g0)
  {
    int mode = static_cast<int>(r.range(0, 3));
    if (mode == 3) {return make_grid_desc(r);}
    GridDesc g = g0;
    double wmax = 0;
    for (int i = 0; i < D; ++i) {wmax = std::max(wmax, static_cast<double>(g.upper[i]) - static_cast<double>(g.lower[i]));}
    if (mode <= 1 || r.coin()) {
      for (int t = 0; t < 6; ++t) {
        S res = pick_res(r);
        if (wmax / static_cast<double>(res) + 3 <= 1999 && res != g0.res &&
          (res >= g0.res || static_cast<double>(g0.coord_cells) * static_cast<double>(g0.res) / static_cast<double>(res) <= max_coord_cells()))
        {
          g.res = res; break;
        }
      }
    }
    if (mode == 2) {
      g.symmetric = false;
      for (int i = 0; i < D; ++i) {
        double lo = static_cast<double>(g.lower[i]), hi = static_cast<double>(g.upper[i]);
        double w = hi - lo;
        lo += w * r.uni(0.0, 0.3); hi -= w * r.uni(0.0, 0.3);
        if (r.coin(0.3)) {double sh = static_cast<double>(g.res) * static_cast<double>(r.range(-3, 3)); lo += sh; hi += sh;}
        if (lo < -1000.0) {lo = -1000.0;}
        if (hi > 1000.0) {hi = 1000.0;}
        S lof = static_cast<S>(lo), hif = static_cast<S>(hi);
        if (hif < lof) {hif = lof;}
        g.lower[i] = lof; g.upper[i] = hif;
      }
    }
    finalize_desc(g);
    return g;
  }

  static std::unique_ptr<G> build_grid(GridDesc & g, bool default_then_assign = false)
  {
    std::unique_ptr<G> mp;
    if (default_then_assign) {
      // default-constructed mapping that receives its grid by assignment
      mp.reset(new G());
      if (g.symmetric) {*mp = G(g.max_range, g.res);} else {*mp = G(Itv(g.lower, g.upper), g.res);}
    } else if (g.symmetric) {mp.reset(new G(g.max_range, g.res));} else {mp.reset(new G(Itv(g.lower, g.upper), g.res));}
    const C nc = mp->getNumberOfCellsAlongAxes();
    g.ncells_max = 0;
    for (int i = 0; i < D; ++i) {g.ncells_max = std::max<size_t>(g.ncells_max, nc[i]);}
    return mp;
  }

  // ---- the per-cast checks
  struct CastInfo
  {
    const GridDesc * g; const G * m;
    P o, e;
    int ray_kind, api, disturb, cast_no;
    const P * bound_o = nullptr; const P * bound_e = nullptr;       // references bound right after the cast,
    const C * bound_oi = nullptr; const C * bound_ei = nullptr;     // read after other objects were used
    int value_op = -1;        // value-semantics step (ValueOp) or VO_COUNT = interference, applied before / inside this cast
    int grid_changed = 0;     // 1: first cast after the grid seen by the caster changed, 2: ... with the previous origin
    LD ncoord;      // max(cells per axis, coordinate magnitude in cells)
  };

  static LD allowance_cells(const CastInfo & ci, LD steps)
  {
    const LD eps = std::numeric_limits<S>::epsilon();
    return eps * (8.0L * ci.ncoord + steps * steps / 2.0L);
  }

  static std::string ray_json(const Ray & ray, size_t from, size_t to)
  {
    std::string s = "[";
    for (size_t k = from; k < to && k < ray.size(); ++k) {
      if (k != from) {s += ",";}
      s += "[";
      for (int i = 0; i < D; ++i) {if (i) {s += ",";} s += std::to_string(ray[k][i]);}
      s += "]";
    }
    return s + "]";
  }

  // returns false when an exact sub-check failed (the geometric ones are then not meaningful)
  static bool check_cast(vh::Ctx & c, const CastInfo & ci, const Ray & ray, const Ray & fresh, const RC & rc)
  {
    const G & m = *ci.m;
    const GridDesc & g = *ci.g;
    const C nc = m.getNumberOfCellsAlongAxes();
    const C oi = m.computeCellIndexes(ci.o), ei = m.computeCellIndexes(ci.e);
    const LD res = static_cast<LD>(m.getCellResolution());
    const LD steps_total = ray.empty() ? 0 : static_cast<LD>(ray.size() - 1);
    LD dev_cells = 0;      // filled by whichever oracle reports
    size_t where = 0;
    // distance (in cells) of each point to the nearest cell border of the centre table: lets a
    // finding be delimited to "point within x cells of a border"
    auto border_dist_cells = [&](const P & p) {
        LD best = 1;
        for (int i = 0; i < D; ++i) {
          const std::vector<S> & t = m.getCellCentersPositionAlong(i);
          size_t k = std::lower_bound(t.begin(), t.end(), p[i]) - t.begin();
          if (k == t.size()) {k = t.size() - 1;}
          LD x = static_cast<LD>(p[i]);
          LD d = fabsl(x - static_cast<LD>(t[k]));
          if (k > 0) {d = std::min(d, fabsl(x - static_cast<LD>(t[k - 1])));}
          LD b = fabsl(res / 2 - d) / res;
          if (b < best) {best = b;}
        }
        return static_cast<double>(best);
      };

    auto params = [&]() {
        return vh::Params{{"scalar_bits", ScalarName<S>::bits}, {"dim", D}, {"res", static_cast<double>(g.res)},
          {"ncells_max", static_cast<double>(g.ncells_max)}, {"coord_cells", static_cast<double>(ci.ncoord)},
          {"steps", static_cast<double>(steps_total)},
          {"allowance_cells", static_cast<double>(allowance_cells(ci, steps_total))},
          {"deviation_cells", static_cast<double>(dev_cells)}, {"at_step", static_cast<double>(where)},
          {"origin_border_dist_cells", border_dist_cells(ci.o)}, {"end_border_dist_cells", border_dist_cells(ci.e)},
          {"ray_kind", ci.ray_kind}, {"api", ci.api}, {"disturb", ci.disturb}, {"cast_no", ci.cast_no},
          {"grid_changed", ci.grid_changed}, {"value_op", ci.value_op}};
      };
    auto wit = [&]() {
        size_t lo = where > 3 ? where - 3 : 0;
        return vh::J().raw("grid", g.json()).raw("ncells", vh::jvec(nc.template cast<double>()))
               .raw("origin", vh::jvec(ci.o)).raw("end", vh::jvec(ci.e))
               .raw("origin_idx", vh::jvec(oi.template cast<double>())).raw("end_idx", vh::jvec(ei.template cast<double>()))
               .s("ray_kind", RK_NAME[ci.ray_kind]).s("api", API_NAME[ci.api]).s("disturb", DI_NAME[ci.disturb])
               .f("cast_no", ci.cast_no).f("grid_changed_before_cast", ci.grid_changed)
               .s("value_op", ci.value_op < 0 ? "none" : (ci.value_op == VO_COUNT ? "interference" : VO_NAME[ci.value_op])).f("cells_returned", static_cast<uint64_t>(ray.size()))
               .f("at_step", static_cast<uint64_t>(where)).raw("cells_around", ray_json(ray, lo, where + 3))
               .raw("last_cells", ray_json(ray, ray.size() > 3 ? ray.size() - 3 : 0, ray.size())).str();
      };

    // ---------------- exact: history (reused caster == fresh caster, element by element)
    {
      bool same = ray.size() == fresh.size();
      if (same) {
        for (size_t k = 0; k < ray.size(); ++k) {
          if (std::memcmp(ray[k].data(), fresh[k].data(), sizeof(size_t) * D) != 0) {same = false; where = k; break;}
        }
      }
      if (ci.api >= API_ALIAS_FIRST) {
        // the arguments were references to the caster's own origin / end point: the ray asked for
        // is the one between the VALUES they had at the call (ci.o, ci.e), which is what a fresh
        // caster given copies returns, and the caster must then hold those two points.  A difference gets its own kind; the other oracles would
        // only repeat it (wrong length, wrong first/last cell).
        c.count("casts_with_aliased_arguments");
        const bool points_kept = rc.getOriginPoint() == ci.o && rc.getEndPoint() == ci.e;
        bool ok = c.expect("alias.equals_cast_of_copied_values", same && points_kept, "aliased_argument", params, [&]() {
            return vh::J().raw("case", wit()).f("cells_expected", static_cast<uint64_t>(fresh.size()))
                   .raw("expected_first_cells", ray_json(fresh, 0, 3))
                   .raw("expected_last_cells", ray_json(fresh, fresh.size() > 3 ? fresh.size() - 3 : 0, fresh.size()))
                   .raw("caster_origin_after", vh::jvec(rc.getOriginPoint()))
                   .raw("caster_end_after", vh::jvec(rc.getEndPoint())).str();
          });
        if (!ok) {return false;}
      }
      c.expect("history.equals_fresh_caster", same, "history_dependence", params, [&]() {
          return vh::J().raw("case", wit()).f("fresh_cells_returned", static_cast<uint64_t>(fresh.size()))
                 .raw("fresh_cells_around", ray_json(fresh, where > 3 ? where - 3 : 0, where + 3)).str();
        });
      where = 0;
      if (ci.disturb != DI_NONE || ci.cast_no > 0) {c.count("history_compared_on_reused_caster");}
    }

    // ---------------- exact: accessors agree with what was asked and returned
    {
      bool ok = rc.getOriginPoint() == ci.o && rc.getEndPoint() == ci.e &&
        rc.getOriginPointIndexes() == oi && rc.getEndPointIndexes() == ei &&
        rc.computeRayNumberOfCells() == ray.size();
      if (ci.bound_o) {
        ok = ok && *ci.bound_o == ci.o && *ci.bound_e == ci.e && *ci.bound_oi == oi && *ci.bound_ei == ei;
      }
      c.expect("accessors", ok, "accessor_mismatch", params, wit);
    }

    // ---------------- exact: length
    long l1 = 0;
    for (int i = 0; i < D; ++i) {l1 += std::labs(static_cast<long>(ei[i]) - static_cast<long>(oi[i]));}
    bool ok_len = c.expect("length.l1_plus_1", static_cast<long>(ray.size()) == l1 + 1, "bad_length", params, wit);
    if (ray.empty()) {return false;}

    // ---------------- exact: first cell
    bool ok_first = c.expect("start.cell_of_origin", ray.front() == oi, "bad_start", params, wit);

    // ---------------- exact: in bounds, face-adjacent steps
    bool ok_in = true, ok_adj = true;
    for (size_t k = 0; k < ray.size() && ok_in; ++k) {
      for (int i = 0; i < D; ++i) {if (ray[k][i] >= nc[i]) {ok_in = false; where = k;}}
    }
    c.expect("in_bounds", ok_in, "out_of_grid", params, wit);
    where = 0;
    for (size_t k = 1; k < ray.size(); ++k) {
      unsigned long d = 0;
      for (int i = 0; i < D; ++i) {
        size_t a = ray[k][i], b = ray[k - 1][i];
        d += (a > b) ? (a - b) : (b - a);
        if (d > 1) {break;}
      }
      if (d != 1) {ok_adj = false; where = k; break;}
    }
    c.expect("steps.face_adjacent", ok_adj, "non_adjacent_step", params, wit);
    where = 0;
    c.count("cells_visited", ray.size());
    c.maxi("max_steps", static_cast<double>(steps_total));
    if (!ok_in) {return false;}     // the geometric oracles index the centre table

    // ---------------- geometric (long double)
    LD A[D], B[D];
    for (int i = 0; i < D; ++i) {A[i] = static_cast<LD>(ci.o[i]); B[i] = static_cast<LD>(ci.e[i]);}
    const std::vector<S> * ctr[D];
    for (int i = 0; i < D; ++i) {ctr[i] = &m.getCellCentersPositionAlong(i);}
    const LD half = res / 2;

    // origin inside the closed extent of the first cell (no traversal yet: j = 0)
    {
      LD dmax = 0;
      for (int i = 0; i < D; ++i) {
        LD d = fabsl(A[i] - static_cast<LD>((*ctr[i])[ray.front()[i]])) - half;
        if (d > dmax) {dmax = d;}
      }
      dev_cells = dmax / res;
      LD a0 = allowance_cells(ci, 0);
      if (a0 <= VACUOUS_CELLS) {
        c.expect_le("start.contains_origin_cells", dev_cells, a0, "bad_start", params, wit);
      } else {
        c.skip("start.contains_origin:allowance_over_quarter_cell");
      }
      dev_cells = 0;
    }

    // every visited cell meets the segment
    {
      LD worst_ratio = -1, worst_gap = 0, worst_allow = 0; size_t worst_k = 0;
      LD max_gap = 0, max_gap_tail = 0;
      size_t checked = 0, tail = 0;
      for (size_t k = 0; k < ray.size(); ++k) {
        LD lo[D], hi[D];
        for (int i = 0; i < D; ++i) {
          LD cc = static_cast<LD>((*ctr[i])[ray[k][i]]);
          lo[i] = cc - half; hi[i] = cc + half;
        }
        LD gap = seg_box_gap<D>(A, B, lo, hi, res) / res;
        LD al = allowance_cells(ci, static_cast<LD>(k));
        if (al > VACUOUS_CELLS) {
          ++tail; if (gap > max_gap_tail) {max_gap_tail = gap;}
          continue;
        }
        ++checked;
        if (gap > max_gap) {max_gap = gap;}
        LD ratio = gap / al;
        if (ratio > worst_ratio) {worst_ratio = ratio; worst_gap = gap; worst_allow = al; worst_k = k;}
      }
      if (checked) {
        dev_cells = worst_gap; where = worst_k;
        c.expect_le("segment.cell_gap_cells", worst_gap, worst_allow, "off_segment", params, wit);
        dev_cells = 0; where = 0;
        c.count("cells_checked_against_segment", checked);
        c.maxi(std::string("max_gap_cells_") + ScalarName<S>::v, static_cast<double>(max_gap));
        if (ScalarName<S>::bits == 32) {c.count("float_rays_segment_checked");}
      }
      if (tail) {
        c.skip("segment.cell_gap:tail_allowance_over_quarter_cell");
        c.count("cells_beyond_decisive_allowance", tail);
        c.maxi(std::string("max_gap_cells_undecided_tail_") + ScalarName<S>::v, static_cast<double>(max_gap_tail));
      }
    }

    // end point: inside the closed extent of the last cell; own cell when well inside it
    {
      LD al = allowance_cells(ci, steps_total);
      LD dmax = 0;
      for (int i = 0; i < D; ++i) {
        LD d = fabsl(B[i] - static_cast<LD>((*ctr[i])[ray.back()[i]])) - half;
        if (d > dmax) {dmax = d;}
      }
      LD dev = dmax / res;
      c.maxi(std::string("max_end_deviation_cells_") + ScalarName<S>::v, static_cast<double>(dev));
      if (al > VACUOUS_CELLS) {
        c.skip("end.closed_extent:allowance_over_quarter_cell");
        c.skip("end.own_cell:allowance_over_quarter_cell");
      } else {
        dev_cells = dev; where = ray.size() - 1;
        c.expect_le("end.closed_extent_cells", dev, al, "bad_end", params, wit);
        // own cell by the oracle: nearest centre of the table, end point deeper than the allowance
        bool interior = true; C own;
        for (int i = 0; i < D; ++i) {
          const std::vector<S> & t = *ctr[i];
          size_t k = std::lower_bound(t.begin(), t.end(), ci.e[i]) - t.begin();
          if (k == t.size()) {k = t.size() - 1;}
          if (k > 0 && fabsl(B[i] - static_cast<LD>(t[k - 1])) < fabsl(B[i] - static_cast<LD>(t[k]))) {--k;}
          own[i] = k;
          if (!(fabsl(B[i] - static_cast<LD>(t[k])) < half - al * res)) {interior = false;}
        }
        if (interior) {
          c.expect("end.own_cell", ray.back() == own, "bad_end_cell", params, [&]() {
              return vh::J().raw("case", wit()).raw("own_cell", vh::jvec(own.template cast<double>())).str();
            });
        } else {
          c.skip("end.own_cell:end_point_within_allowance_of_a_border");
        }
        dev_cells = 0; where = 0;
      }
    }
    return ok_len && ok_first && ok_adj;
  }

  // ---- one case: a grid and a sequence of casts on one caster
  static void run(vh::Ctx & c, vh::Rng & r, uint64_t ncasts_max)
  {
    const std::string tag = std::string(ScalarName<S>::v) + std::to_string(D);
    struct Slot {std::unique_ptr<G> m; GridDesc g;};
    Slot slot[2];
    int cur = 0;
    slot[0].g = make_grid_desc(r);
    const bool dflt = r.coin(0.2);
    slot[0].m = build_grid(slot[0].g, dflt);
    uint64_t h = vh::hash_doubles({static_cast<double>(ScalarName<S>::bits), static_cast<double>(D),
          static_cast<double>(slot[0].g.res), slot[0].g.symmetric ? 1.0 : 0.0});
    for (int i = 0; i < D; ++i) {h = vh::hash_add(h, slot[0].g.lower[i]); h = vh::hash_add(h, slot[0].g.upper[i]);}
    if (slot[0].g.ncells_max > 2000) {
      // outside the quantifier (up to 2000 cells per axis); cannot happen with the generator's margins
      c.skip("grid:over_2000_cells");
      c.distinct(h, false);
      return;
    }
    c.cat(tag);
    if (dflt) {c.cat("grid_default_constructed_then_assigned");}
    auto grid_cats = [&](const G & m, const GridDesc & g) {
        const C nc = m.getNumberOfCellsAlongAxes();
        c.cat(g.symmetric ? "ctor_symmetric_range" : "ctor_interval");
        if (g.dyadic) {c.cat("res_dyadic");}
        if (g.ncells_max >= 1000) {c.cat("grid_1000_to_2000_cells");}
        if (static_cast<double>(g.coord_cells) > 1.5 * static_cast<double>(g.ncells_max)) {c.cat("grid_offset_from_frame_origin");}
        if (static_cast<double>(g.coord_cells) > 1.0e5) {c.cat("grid_beyond_1e5_cells_from_frame_origin");}
        for (int i = 0; i < D; ++i) {if (nc[i] <= 2) {c.cat("grid_axis_of_1_or_2_cells"); break;}}
      };
    grid_cats(*slot[0].m, slot[0].g);

    std::unique_ptr<RC> rcp;
    if (r.coin(0.3)) {rcp.reset(new RC()); rcp->setGridIndexMapping(slot[0].m.get());} else {rcp.reset(new RC(slot[0].m.get()));}
    RC * cp = rcp.get();          // the caster under test (changes with the value-semantics steps)

    // rays are bound as returned and kept until the end of the case
    std::vector<Ray> kept; std::vector<uint64_t> kept_hash;
    auto hash_ray = [](const Ray & ray) {
        uint64_t hh = 0x9e3779b9 + ray.size();
        for (const C & cell : ray) {for (int i = 0; i < D; ++i) {hh = vh::mix(hh, cell[i]);}}
        return hh;
      };

    auto scribble = [&](RC & x) {        // overwrite every piece of state of x with another ray
        G & mm = *slot[cur].m;
        x.cast(pick_point(r, mm, slot[cur].g), pick_point(r, mm, slot[cur].g));
        C sc = x.getOriginPointIndexes(); x.next(sc); x.next(sc);
      };
    auto value_op = [&](int v) {
        G * gp = slot[cur].m.get();
        switch (v) {
          case VO_COPY_CONSTRUCT: {std::unique_ptr<RC> n(new RC(*rcp)); scribble(*rcp); rcp = std::move(n); break;}
          case VO_COPY_ASSIGN: {
              std::unique_ptr<RC> n(new RC(gp)); scribble(*n); *n = *rcp; scribble(*rcp); rcp = std::move(n); break;
            }
          case VO_MOVE_CONSTRUCT: {std::unique_ptr<RC> n(new RC(std::move(*rcp))); scribble(*rcp); rcp = std::move(n); break;}
          case VO_MOVE_ASSIGN: {
              std::unique_ptr<RC> n(new RC(gp)); scribble(*n); *n = std::move(*rcp); scribble(*rcp); rcp = std::move(n); break;
            }
          case VO_SELF_ASSIGN: {const RC & same = *rcp; *rcp = same; break;}
          default: {RC used_copy(*rcp); scribble(used_copy); scribble(used_copy); break;}
        }
        cp = rcp.get();
        c.cat(VO_NAME[v]);
        c.count("value_semantics_steps");
      };
    // other facilities used between two observations: sibling casters on the same and on the
    // other grid, stream formatting, the mapping's own queries
    auto interfere = [&]() {
        G & mm = *slot[cur].m;
        RC sib(&mm);
        sib.cast(pick_point(r, mm, slot[cur].g), pick_point(r, mm, slot[cur].g));
        C sc = sib.getOriginPointIndexes(); sib.next(sc);
        if (slot[1 - cur].m) {
          G & mo = *slot[1 - cur].m;
          RC sib2(&mo);
          sib2.cast(pick_point(r, mo, slot[1 - cur].g), pick_point(r, mo, slot[1 - cur].g));
        }
        std::ostringstream os;
        os << mm.getCellResolution() << ' ' << sib.getEndPoint().transpose() << ' ' << sib.computeRayNumberOfCells();
        C q = mm.computeCellIndexes(pick_point(r, mm, slot[cur].g));
        P pc = mm.computeCellCenterPosition(q);
        if (os.str().empty() || pc[0] != pc[0]) {c.count("interference_unexpected");}
        c.count("interference_steps");
      };

    const int ncasts = static_cast<int>(r.range(3, static_cast<int64_t>(ncasts_max)));
    P prev_o = P::Zero(), prev_e = P::Zero();
    bool have_prev = false, nontrivial = !(ScalarName<S>::bits == 64 && D == 2 && slot[0].g.symmetric);
    CastInfo ci;
    bool sampled = false;
    kept.reserve(ncasts); kept_hash.reserve(ncasts);

    for (int k = 0; k < ncasts; ++k) {
      // -------- the grid seen by the caster may change between two casts of the history:
      //          (a) setGridIndexMapping(&another mapping), (b) a new mapping assigned to the
      //          object the caster points to.  The next cast specifies its origin (the statement
      //          is about casts given the grid, origin and end point) and is checked on the new grid.
      bool after_change = false, same_origin = false;
      if (k > 0 && r.coin(0.12)) {
        GridDesc ng = derive_grid_desc(r, slot[cur].g);
        std::unique_ptr<G> nm = build_grid(ng);
        if (ng.ncells_max > 2000) {
          c.skip("grid_change:over_2000_cells");
        } else {
          if (r.coin()) {
            slot[1 - cur].g = ng; slot[1 - cur].m = std::move(nm);
            cp->setGridIndexMapping(slot[1 - cur].m.get());
            cur = 1 - cur;
            c.cat("grid_change_set_mapping");
          } else {
            *slot[cur].m = *nm;          // same object, new grid
            slot[cur].g = ng;
            c.cat("grid_change_reassign_object");
          }
          after_change = true; nontrivial = true;
          grid_cats(*slot[cur].m, slot[cur].g);
          h = vh::hash_add(h, static_cast<double>(ng.res));
          for (int i = 0; i < D; ++i) {
            h = vh::hash_add(h, ng.lower[i]); h = vh::hash_add(h, ng.upper[i]);
            prev_o[i] = clampS(prev_o[i], ng.lower[i], ng.upper[i]);
            prev_e[i] = clampS(prev_e[i], ng.lower[i], ng.upper[i]);
          }
          same_origin = have_prev && r.coin(0.65);
        }
      }
      G & m = *slot[cur].m;
      GridDesc & g = slot[cur].g;
      const C nc = m.getNumberOfCellsAlongAxes();
      ci.g = &g; ci.m = &m;
      ci.ncoord = std::max(static_cast<LD>(g.ncells_max), g.coord_cells);

      // -------- the ray
      int rk = static_cast<int>(r.range(0, RK_COUNT - 1));
      if (r.coin(0.25)) {rk = RK_GENERIC;}
      if (rk == RK_REVERSE && !have_prev) {rk = RK_GENERIC;}
      P o = pick_point(r, m, g), e = pick_point(r, m, g);
      switch (rk) {
        case RK_COINCIDENT: e = o; break;
        case RK_SAME_CELL:
          for (int i = 0; i < D; ++i) {
            if (r.coin(0.3)) {e[i] = o[i];} else if (r.coin()) {e[i] = nudge(r, nudge(r, o[i]));} else {
              e[i] = static_cast<S>(static_cast<double>(o[i]) + r.sign() * r.logu(1e-6, 0.3) * static_cast<double>(g.res));
            }
            e[i] = clampS(e[i], g.lower[i], g.upper[i]);
          }
          break;
        case RK_AXIS_ALIGNED: {
            int a = static_cast<int>(r.range(0, D - 1));
            S ea = e[a]; e = o; e[a] = ea;
            break;
          }
        case RK_PLANAR: {        // one direction component exactly zero (3D); in 2D same as axis aligned
            int a = static_cast<int>(r.range(0, D - 1));
            e[a] = o[a];
            break;
          }
        case RK_DIAGONAL: {      // |dx| = |dy| (= |dz|) = k * res from a centre / border / corner
            o = pick_point(r, m, g, r.coin(0.7) ? 1 : 2);
            int sg[D]; int64_t room = 1 << 30;
            for (int i = 0; i < D; ++i) {
              sg[i] = r.coin() ? 1 : -1;
              double avail = sg[i] > 0 ? static_cast<double>(g.upper[i]) - static_cast<double>(o[i]) :
                static_cast<double>(o[i]) - static_cast<double>(g.lower[i]);
              int64_t kk = static_cast<int64_t>(std::floor(avail / static_cast<double>(g.res) - 1e-6));
              if (kk < room) {room = kk;}
            }
            if (room < 0) {room = 0;}
            int64_t kk = room > 0 ? r.range(r.coin(0.3) ? room : 1, room) : 0;
            S dlt = static_cast<S>(static_cast<S>(kk) * g.res);
            if (r.coin(0.25)) {dlt = static_cast<S>(dlt + g.res * S(0.5));}
            for (int i = 0; i < D; ++i) {
              e[i] = clampS(static_cast<S>(o[i] + static_cast<S>(sg[i]) * dlt), g.lower[i], g.upper[i]);
            }
            if (g.dyadic) {c.cat("ray_diagonal_dyadic");}
            break;
          }
        case RK_NEAR_AXIS: {     // all but one direction component tiny but non-zero
            int a = static_cast<int>(r.range(0, D - 1));
            for (int i = 0; i < D; ++i) {
              if (i == a) {continue;}
              if (r.coin()) {
                e[i] = std::nextafter(o[i], r.coin() ? std::numeric_limits<S>::max() : std::numeric_limits<S>::lowest());
              } else {
                e[i] = static_cast<S>(static_cast<double>(o[i]) + r.sign() * r.logu(1e-9, 1e-3) * static_cast<double>(g.res));
              }
              e[i] = clampS(e[i], g.lower[i], g.upper[i]);
            }
            break;
          }
        case RK_EXTENT_CORNERS:
          for (int i = 0; i < D; ++i) {
            bool up = r.coin();
            o[i] = up ? g.upper[i] : g.lower[i];
            if (r.coin(0.75)) {e[i] = up ? g.lower[i] : g.upper[i];}
          }
          break;
        case RK_REVERSE: o = prev_e; e = prev_o; break;
        case RK_BORDER_END:      // end point on borders / corners, origin generic
          e = pick_point(r, m, g, 2);
          if (r.coin(0.3)) {o = pick_point(r, m, g, 0);}
          break;
        default: break;
      }

      if (same_origin) {
        // bit-identical origin of the previous cast (clamped into the new extent when outside)
        o = prev_o;
        if (rk == RK_COINCIDENT) {e = o;} else if (rk != RK_GENERIC && rk != RK_BORDER_END) {rk = RK_GENERIC;}
        c.cat("same_origin_after_grid_change");
      }

      // -------- state disturbance before the cast
      ci.value_op = -1;
      int di = r.coin(0.35) ? DI_NONE : static_cast<int>(r.range(1, DI_SAME_GRID_AGAIN));
      {
        double u = r.uni();         // a small share of long repetitions of one cheap mutator
        if (u < 0.005) {di = DI_LONG_256;} else if (u < 0.006) {di = DI_LONG_65536;}
      }
      // right after a grid change the origin has to be specified again before anything else
      // touches the grid: setEndPoint() alone would use the origin cell cached for the old grid
      if (after_change && (di == DI_SETEND || di == DI_SETORIGIN || di == DI_LONG_256 || di == DI_LONG_65536)) {di = DI_NEXT;}
      switch (di) {
        case DI_VALUE_OP: ci.value_op = static_cast<int>(r.range(0, VO_COUNT - 1)); value_op(ci.value_op); break;
        case DI_SAME_GRID_AGAIN: cp->setGridIndexMapping(&m); break;
        case DI_LONG_256:
        case DI_LONG_65536: {
            const int64_t reps = (di == DI_LONG_256 ? 256 : 65536) + r.range(0, 3);
            const int which = static_cast<int>(r.range(0, di == DI_LONG_256 ? 3 : 2));
            const P a = pick_point(r, m, g), b = pick_point(r, m, g);
            C scratch = cp->getOriginPointIndexes();
            for (int64_t q = 0; q < reps; ++q) {
              switch (which) {
                case 0: cp->next(scratch); break;
                case 1: cp->setEndPoint((q & 1) ? a : b); break;
                case 2: cp->setOriginPoint((q & 1) ? a : b); break;
                default: {Ray tiny = cp->cast(a, a); (void)tiny; break;}
              }
            }
            c.count("long_repetitions");
            break;
          }
        case DI_NEXT: {
            C scratch = cp->getOriginPointIndexes();
            int nn = static_cast<int>(r.range(1, 40));
            for (int q = 0; q < nn; ++q) {cp->next(scratch);}
            break;
          }
        case DI_STALE_CAST: {    // cast() on whatever state is left; result deliberately unused
            if (cp->computeRayNumberOfCells() <= 8000) {Ray junk = cp->cast(); (void)junk;}
            break;
          }
        case DI_SETEND: {
            cp->setEndPoint(pick_point(r, m, g));
            if (r.coin()) {C scratch = cp->getOriginPointIndexes(); cp->next(scratch); cp->next(scratch);}
            break;
          }
        case DI_SETORIGIN: cp->setOriginPoint(pick_point(r, m, g)); break;
        default: break;
      }

      // -------- the cast
      int api = static_cast<int>(r.range(0, API_REGULAR_COUNT - 1));
      // aliased arguments need the caster's own points to be points of the current grid
      if (have_prev && !after_change && r.coin(0.25)) {
        api = static_cast<int>(r.range(API_ALIAS_FIRST, API_COUNT - 1));
      }
      if (api == API_CAST_E_KEEP_ORIGIN && !(have_prev || di == DI_SETORIGIN)) {api = API_SETO_CAST_E;}
      if (api == API_CAST_E_KEEP_ORIGIN && after_change) {api = r.coin() ? API_CAST_OE : API_SETO_CAST_E;}
      if (api == API_CAST_E_KEEP_ORIGIN) {
        o = cp->getOriginPoint();
        if (rk == RK_COINCIDENT) {e = o;}
        if (rk == RK_AXIS_ALIGNED || rk == RK_PLANAR || rk == RK_REVERSE || rk == RK_DIAGONAL ||
          rk == RK_NEAR_AXIS || rk == RK_SAME_CELL || rk == RK_EXTENT_CORNERS)
        {
          rk = RK_GENERIC;       // the relation between origin and end was lost
        }
      }
      const bool temporaries = api < API_ALIAS_FIRST && r.coin(0.3);
      const bool same_object_twice = api == API_CAST_OE && rk == RK_COINCIDENT && !temporaries;
      int mid_op = -1;              // what happens between setEndPoint() and the traversal
      if (api == API_SET_SET_CAST || api == API_NEXT_LOOP) {
        double u = r.uni();
        if (u < 0.25) {mid_op = static_cast<int>(r.range(0, VO_COUNT - 1));} else if (u < 0.5) {mid_op = VO_COUNT;}
      }
      if (mid_op >= 0) {ci.value_op = mid_op;}
      auto between = [&]() {
          if (mid_op < 0) {return;}
          if (mid_op == VO_COUNT) {interfere(); c.cat("interference_between_setend_and_traversal");} else {
            value_op(mid_op); c.cat("value_op_between_setend_and_traversal");
          }
        };
      auto do_cast = [&]() -> Ray {
          Ray ray;
          if (api >= API_ALIAS_FIRST) {
            // expected ray: between the values the references have right now (copies for the
            // oracle only; the library receives the references)
            const P own_o = cp->getOriginPoint(), own_e = cp->getEndPoint();
            rk = RK_GENERIC;
            switch (api) {
              case API_AL_CAST_END_Q: o = own_e; ray = cp->cast(cp->getEndPoint(), e); break;
              case API_AL_CAST_P_ORIGIN: e = own_o; ray = cp->cast(o, cp->getOriginPoint()); break;
              case API_AL_CAST_END_ORIGIN: o = own_e; e = own_o; ray = cp->cast(cp->getEndPoint(), cp->getOriginPoint()); break;
              case API_AL_CAST_ORIGIN_END: o = own_o; e = own_e; ray = cp->cast(cp->getOriginPoint(), cp->getEndPoint()); break;
              case API_AL_CAST_END: o = own_o; e = own_e; ray = cp->cast(cp->getEndPoint()); break;
              case API_AL_CAST_ORIGIN: o = own_o; e = own_o; rk = RK_COINCIDENT; ray = cp->cast(cp->getOriginPoint()); break;
              case API_AL_SETEND_ORIGIN_CAST:
                o = own_o; e = own_o; rk = RK_COINCIDENT; cp->setEndPoint(cp->getOriginPoint()); ray = cp->cast(); break;
              default: o = own_e; cp->setOriginPoint(cp->getEndPoint()); ray = cp->cast(e); break;
            }
            return ray;
          }
          switch (api) {
            case API_CAST_OE:
              if (same_object_twice) {ray = cp->cast(o, o);} else if (!temporaries) {ray = cp->cast(o, e);} else if (r.coin()) {
                ray = cp->cast(P(o), P(e));
              } else {
                P a = o, b = e; ray = cp->cast(std::move(a), std::move(b));
              }
              break;
            case API_SETO_CAST_E:
              if (temporaries) {cp->setOriginPoint(P(o)); ray = cp->cast(P(e));} else {cp->setOriginPoint(o); ray = cp->cast(e);}
              break;
            case API_CAST_E_KEEP_ORIGIN: if (temporaries) {ray = cp->cast(P(e));} else {ray = cp->cast(e);} break;
            case API_SET_SET_CAST:
              if (temporaries) {cp->setOriginPoint(P(o)); cp->setEndPoint(P(e));} else {cp->setOriginPoint(o); cp->setEndPoint(e);}
              between();
              ray = cp->cast();
              break;
            default: {
                cp->setOriginPoint(o); cp->setEndPoint(e);
                const bool in_the_middle = mid_op >= 0 && r.coin(0.5);
                if (!in_the_middle) {between();}
                size_t n = cp->computeRayNumberOfCells();
                if (n > 100000) {n = 100000;}      // the length oracle reports it
                ray.resize(n);
                C cur_cell = cp->getOriginPointIndexes();
                if (n) {ray[0] = cur_cell;}
                for (size_t q = 1; q < n; ++q) {
                  if (in_the_middle && q == n / 2) {between(); c.cat("interrupted_in_the_middle_of_next_loop");}
                  cp->next(cur_cell); ray[q] = cur_cell;
                }
                break;
              }
          }
          return ray;
        };
      if (c.verbose) {      // replay: say what is about to be called, so that an abort has its witness
        fprintf(stderr, "C14 cast_no=%d api=%s disturb=%s grid=%s ncells=%s o=%s e=%s\n", k, API_NAME[api], DI_NAME[di],
          g.json().c_str(), vh::jvec(nc.template cast<double>()).c_str(), vh::jvec(o).c_str(), vh::jvec(e).c_str());
      }
      kept.push_back(do_cast());
      const Ray & ray = kept.back();          // bound as returned, kept until the end of the case
      kept_hash.push_back(hash_ray(ray));
      // references to the caster's members, bound now and read after other objects were used
      ci.bound_o = &cp->getOriginPoint(); ci.bound_e = &cp->getEndPoint();
      ci.bound_oi = &cp->getOriginPointIndexes(); ci.bound_ei = &cp->getEndPointIndexes();
      {
        bool special = false;
        for (int i = 0; i < D; ++i) {
          if (std::fabs(o[i]) < std::numeric_limits<S>::min() || std::fabs(e[i]) < std::numeric_limits<S>::min()) {special = true;}
        }
        if (special) {c.cat("point_with_zero_or_denormal_coordinate");}
      }
      if (temporaries) {c.cat("arguments_as_temporaries");}
      if (same_object_twice) {c.cat("same_object_for_both_arguments");}
      RC fresh_caster(&m);
      Ray fresh = fresh_caster.cast(o, e);
      if (r.coin(0.15)) {interfere(); c.cat("interference_after_cast");}

      c.cat(RK_NAME[rk]); c.cat(API_NAME[api]); c.cat(DI_NAME[di]);
      c.count("casts");
      ci.o = o; ci.e = e; ci.ray_kind = rk; ci.api = api; ci.disturb = di; ci.cast_no = k;
      ci.grid_changed = after_change ? (same_origin ? 2 : 1) : 0;
      if (rk != RK_GENERIC || di != DI_NONE) {nontrivial = true;}
      if (after_change) {c.count("casts_right_after_grid_change");}
      for (int i = 0; i < D; ++i) {h = vh::hash_add(h, o[i]); h = vh::hash_add(h, e[i]);}
      h = vh::hash_addi(h, static_cast<uint64_t>(api * 16 + di));
      if (!sampled) {
        sampled = true;
        c.sample(tag, [&]() {
            return vh::J().raw("grid", g.json()).raw("ncells", vh::jvec(nc.template cast<double>()))
                   .f("casts_in_sequence", ncasts).raw("first_origin", vh::jvec(o)).raw("first_end", vh::jvec(e))
                   .s("first_ray_kind", RK_NAME[rk]).s("first_api", API_NAME[api]).s("first_disturbance", DI_NAME[di])
                   .f("first_cells_returned", static_cast<uint64_t>(ray.size())).str();
          });
      }
      check_cast(c, ci, ray, fresh, *cp);
      prev_o = o; prev_e = e; have_prev = true;
    }
    // -------- every ray returned during the case is still what it was when it was returned
    {
      bool same = true; size_t bad = 0;
      for (size_t q = 0; q < kept.size(); ++q) {if (hash_ray(kept[q]) != kept_hash[q]) {same = false; bad = q; break;}}
      c.expect("result.kept_rays_unchanged", same, "result_changed_later", [&]() {
          return vh::Params{{"scalar_bits", ScalarName<S>::bits}, {"dim", D}, {"cast_no", static_cast<double>(bad)}};
        }, [&]() {
          return vh::J().raw("grid", slot[cur].g.json()).f("cast_no", static_cast<uint64_t>(bad))
                 .f("casts_in_sequence", ncasts).str();
        });
    }
    c.distinct(h, nontrivial);
  }
};

void one_case(vh::Ctx & c, uint64_t idx)
{
  vh::Rng r(c.seed, idx);
  const uint64_t ncasts_max = c.tier == "thorough" ? 30 : 20;
  // the instantiation is drawn from the stream (not idx % 4) so that every shard sees all four
  switch (r.range(0, 3)) {
    case 0: Runner<float, 2>::run(c, r, ncasts_max); break;
    case 1: Runner<double, 2>::run(c, r, ncasts_max); break;
    case 2: Runner<float, 3>::run(c, r, ncasts_max); break;
    default: Runner<double, 3>::run(c, r, ncasts_max); break;
  }
}

}  // namespace

int main(int argc, char ** argv)
{
  return vh::run(argc, argv, "C14", {60000, 800000}, one_case);
}
