// C18  Check-ups classify by their thresholds; statuses aggregate as a severity order.
//
// Oracles (all independent of the code under test):
//  * thresholds: the real-number predicates of the statement (|v-t| <= e  <=>  t-e <= v <= t+e,
//    v > min-e, v < max+e, r < low / r < high) evaluated in long double (int: int64).  Exact regime:
//    (t, e) on a dyadic grid so that t-e and t+e are exactly representable in the check-up's scalar
//    type, hence the floating verdict must coincide with the real one for every value, including the
//    threshold itself and its nextafter neighbours.  Generic regime: random operands, the verdict
//    is demanded only outside a band of 8 eps(T) max(|t|,|e|) around a threshold (the library's
//    threshold fl(t+-e) is within eps/2*|t+-e| <= eps*max(|t|,|e|) of the real one); inside the band
//    either neighbouring verdict is accepted, the case is counted as an ambiguity skip, and only the
//    mutual consistency of (returned status, stored status, message, info) is checked.
//  * report: exactly one diagnostic and one info entry keyed by the name; message = name + text whose
//    verdict word ("low"/"high"/"OK"/"uncertain") matches the verdict; info value = printf("%g") (or
//    "%d") of the value -- printf, not iostream, is the reference.
//  * status algebra: severity rank from the statement (OK<WARN<ERROR<STALE) written as a switch, not
//    the enum's integer value; all 16 pairs, 64 triples and the 340 lists of length 1..4 are
//    enumerated in case 0 of every run; random lists up to length 20 in the other cases.
//  * report append: executable model on std::vector / std::map of the operands.
#include <climits>
#include <list>
#include <map>
#include <memory>
#include <string>
#include <type_traits>

#include "romea_core_common/diagnostic/CheckupEqualTo.hpp"
#include "romea_core_common/diagnostic/CheckupGreaterThan.hpp"
#include "romea_core_common/diagnostic/CheckupLowerThan.hpp"
#include "romea_core_common/diagnostic/CheckupReliability.hpp"
#include "romea_core_common/diagnostic/DiagnosticReport.hpp"
#include "romea_core_common/geodesy/GeodeticCoordinates.hpp"
#include "romea_core_common/geodesy/WGS84Coordinates.hpp"
#include "romea_core_common/geometry/Pose2D.hpp"
#include "romea_core_common/geometry/Pose3D.hpp"
#include "romea_core_common/geometry/PoseAndTwist2D.hpp"
#include "romea_core_common/geometry/PoseAndTwist3D.hpp"
#include "romea_core_common/geometry/Position2D.hpp"
#include "romea_core_common/geometry/Twist2D.hpp"
#include "romea_core_common/geometry/Twist3D.hpp"
#include <cfenv>
#include <locale>
#include <iomanip>
#include <optional>
#include <sstream>
#include "vh.hpp"

using romea::core::Checkup;
using romea::core::CheckupEqualTo;
using romea::core::CheckupGreaterThan;
using romea::core::CheckupLowerThan;
using romea::core::CheckupReliability;
using romea::core::Diagnostic;
using romea::core::DiagnosticReport;
using romea::core::DiagnosticStatus;
typedef long double LD;

enum Kind {EQ = 0, GT = 1, LT = 2, REL = 3};
static const char * KN[] = {"eq", "gt", "lt", "reliability"};
// verdicts, as a bit set
enum {V_LOW = 1, V_OK = 2, V_HIGH = 4, V_UNCERTAIN = 8};

static const DiagnosticStatus ST[4] = {
  DiagnosticStatus::OK, DiagnosticStatus::WARN, DiagnosticStatus::ERROR, DiagnosticStatus::STALE};

// severity rank as stated in the property (not the enum's integer value)
static int rank_of(DiagnosticStatus s)
{
  switch (s) {
    case DiagnosticStatus::OK: return 0;
    case DiagnosticStatus::WARN: return 1;
    case DiagnosticStatus::ERROR: return 2;
    case DiagnosticStatus::STALE: return 3;
  }
  return -1;
}
static const char * sname(DiagnosticStatus s)
{
  switch (s) {
    case DiagnosticStatus::OK: return "OK";
    case DiagnosticStatus::WARN: return "WARN";
    case DiagnosticStatus::ERROR: return "ERROR";
    case DiagnosticStatus::STALE: return "STALE";
  }
  return "?";
}

static const std::vector<std::string> NAMES = {
  "foo", "x", "imu.rate", "a b c", "", "speed_mps", "low_high_OK", "is too high.", "uncertain timeout",
  "gps/fix:hdop"};

template<class T> struct Tr;
template<> struct Tr<double>
{
  static constexpr int code = 0;
  static const char * nm() {return "double";}
  static std::string print(double v) {char b[64]; snprintf(b, sizeof b, "%g", v); return b;}
};
template<> struct Tr<float>
{
  static constexpr int code = 1;
  static const char * nm() {return "float";}
  static std::string print(float v) {char b[64]; snprintf(b, sizeof b, "%g", (double)v); return b;}
};
template<> struct Tr<int>
{
  static constexpr int code = 2;
  static const char * nm() {return "int";}
  static std::string print(int v) {char b[64]; snprintf(b, sizeof b, "%d", v); return b;}
};

template<> struct Tr<long double>
{
  static constexpr int code = 3;
  static const char * nm() {return "long_double";}
  static std::string print(long double v) {char b[64]; snprintf(b, sizeof b, "%Lg", v); return b;}
};
template<> struct Tr<short>
{
  static constexpr int code = 4;
  static const char * nm() {return "short";}
  static std::string print(short v) {char b[64]; snprintf(b, sizeof b, "%d", (int)v); return b;}
};
template<> struct Tr<long long>
{
  static constexpr int code = 5;
  static const char * nm() {return "long_long";}
  static std::string print(long long v) {char b[64]; snprintf(b, sizeof b, "%lld", v); return b;}
};
template<> struct Tr<unsigned>
{
  static constexpr int code = 6;
  static const char * nm() {return "unsigned";}
  static std::string print(unsigned v) {char b[64]; snprintf(b, sizeof b, "%u", v); return b;}
};

// ------------------------------------------------------------------------------------------
// the real-number verdicts
// ------------------------------------------------------------------------------------------
static int verdict(int kind, LD v, LD lo, LD hi)
{
  switch (kind) {
    case EQ: return v < lo ? V_LOW : (v > hi ? V_HIGH : V_OK);      // OK  <=>  |v - t| <= e
    case GT: return v > lo ? V_OK : V_LOW;                           // OK  <=>  v > min - e
    case LT: return v < hi ? V_OK : V_HIGH;                          // OK  <=>  v < max + e
  }
  return 0;
}
// set of verdicts acceptable for v when each threshold is only known to +-band
static int acceptable(int kind, LD v, LD lo, LD hi, LD band)
{
  int a = verdict(kind, v, lo, hi);
  if (band > 0) {
    a |= verdict(kind, v, lo - band, hi - band);
    a |= verdict(kind, v, lo - band, hi + band);
    a |= verdict(kind, v, lo + band, hi - band);
    a |= verdict(kind, v, lo + band, hi + band);
  }
  return a;
}
static bool single(int a) {return a && !(a & (a - 1));}

static bool status_fits(int kind, DiagnosticStatus s, int acc)
{
  if ((acc & V_OK) && s == DiagnosticStatus::OK) {return true;}
  if ((acc & (V_LOW | V_HIGH)) && s == DiagnosticStatus::ERROR) {return true;}
  if ((acc & V_UNCERTAIN) && s == DiagnosticStatus::WARN) {return true;}
  (void)kind;
  return false;
}

// verdict announced by (status, message-after-the-name); 0 when they do not form a verdict
static int decode(int kind, DiagnosticStatus s, const std::string & rest)
{
  bool lo = rest.find("low") != std::string::npos, hi = rest.find("high") != std::string::npos;
  bool ok = rest.find("OK") != std::string::npos, un = rest.find("uncertain") != std::string::npos;
  int n = lo + hi + ok + un;
  if (kind == REL) {
    if (s == DiagnosticStatus::ERROR && lo && n == 1) {return V_LOW;}
    if (s == DiagnosticStatus::WARN && un && n == 1) {return V_UNCERTAIN;}
    if (s == DiagnosticStatus::OK && (hi || ok) && !lo && !un) {return V_OK;}
    return 0;
  }
  if (n != 1) {return 0;}
  if (s == DiagnosticStatus::ERROR && lo) {return V_LOW;}
  if (s == DiagnosticStatus::ERROR && hi) {return V_HIGH;}
  if (s == DiagnosticStatus::OK && ok) {return V_OK;}
  return 0;
}

// ------------------------------------------------------------------------------------------
// Cheap accounting for the per-step oracles and categories (about 10 per evaluation, 1e9 per
// thorough run): a held oracle only bumps a local counter, flushed into Ctx::margins / Ctx::cats /
// Ctx::counters by the finish callback; a violated one goes through Ctx::expect as usual (which
// counts that evaluation itself and emits the violation record).
// ------------------------------------------------------------------------------------------
struct Tally
{
  std::map<const char *, uint64_t> oracles, cats, counters;    // keyed by literal address
};
static Tally & tally() {static Tally t; return t;}

static bool hold(
  vh::Ctx & c, const char * oracle, bool cond, const char * kind,
  const std::function<vh::Params()> & params, const std::function<std::string()> & witness)
{
  if (cond && c.caller_rounding == FE_TONEAREST) {++tally().oracles[oracle]; return true;}
  return c.expect(oracle, cond, kind, params, witness);
}
static void cat(const char * name) {++tally().cats[name];}
static void count(const char * name) {++tally().counters[name];}

static void flush_tally(vh::Ctx & c)
{
  // several call sites may share a name: sum by string
  for (auto & kv : tally().oracles) {if (kv.second) {c.margins[kv.first].n += kv.second;}}
  for (auto & kv : tally().cats) {if (kv.second) {c.cats[kv.first] += kv.second;}}
  for (auto & kv : tally().counters) {if (kv.second) {c.counters[kv.first] += kv.second;}}
}

// ------------------------------------------------------------------------------------------
// Context of the info-value oracle.
//  * after_library_printer: since the last evaluation the library's own printers (operator<< of
//    WGS84 / geodetic coordinates, poses, twists, positions, Eigen matrices, bool ...) were run through
//    the library's toStringInfoValue / setReportInfo on this thread; the next info value must still be
//    what a fresh default-formatted stream prints (printf "%g").
//  * locale case: std::locale::global is switched among classic, decimal-comma and decimal-comma with
//    '.' grouping by 3 during the history; the expected info value is what a FRESH std::ostringstream
//    constructed at the moment of evaluate() prints.  The classic locale is restored before the case ends.
// ------------------------------------------------------------------------------------------
static bool g_after_library_printer = false;
static bool g_locale_case = false;
static int g_locale_id = 0;

struct CommaPunct : std::numpunct<char>
{
  char do_decimal_point() const override {return ',';}
};
struct CommaGroupPunct : std::numpunct<char>
{
  char do_decimal_point() const override {return ',';}
  char do_thousands_sep() const override {return '.';}
  std::string do_grouping() const override {return "\3";}
};
static const std::locale & locale_of(int id)
{
  static const std::locale L[3] = {std::locale::classic(), std::locale(std::locale::classic(), new CommaPunct),
    std::locale(std::locale::classic(), new CommaGroupPunct)};
  return L[id];
}
static void set_global_locale(int id)
{
  std::locale::global(locale_of(id));
  g_locale_id = id;
  static const char * LC[] = {"locale_classic_during_history", "locale_decimal_comma", "locale_decimal_comma_grouping"};
  ++tally().cats[LC[id]];
}
struct LocaleCaseGuard
{
  ~LocaleCaseGuard()
  {
    if (g_locale_case || g_locale_id != 0) {std::locale::global(std::locale::classic());}
    g_locale_case = false; g_locale_id = 0;
  }
};
static void maybe_switch_locale(vh::Rng & r, double p, const char * where)
{
  if (g_locale_case && r.coin(p)) {set_global_locale((int)r.range(0, 2)); ++tally().cats[where];}
}
// every case with a small index starts under a non-classic global locale, so that the first evaluation
// of every process (shard, replay) already runs under one; otherwise 6% of the sequences are locale cases
static void begin_locale_case(vh::Ctx & c, vh::Rng & r)
{
  bool early = c.cur <= 256;
  bool on = r.coin(0.06);
  static const bool disabled = getenv("C18_NO_LOCALE_CASES") != nullptr;   // development aid: isolate the other info classes
  g_locale_case = (early || on) && !disabled;
  if (!g_locale_case) {return;}
  ++tally().cats["locale_switched_during_history"];
  if (early) {set_global_locale((int)r.range(1, 2)); ++tally().cats["locale_switched_before_first_evaluation_of_process"];} else {
    maybe_switch_locale(r, 0.5, "locale_switched_before_construction");
  }
}
// what the info entry must read for value v evaluated now
template<class T> static std::string expected_info(const T & v)
{
  if (g_locale_case) {std::ostringstream fresh; fresh << v; return fresh.str();}
  return Tr<T>::print(v);
}

struct Step {int op; LD value; int tag;};   // op 0 = evaluate, 1 = timeout
enum {TAG_OTHER = 0, TAG_ON = 1, TAG_ABOVE1 = 2, TAG_BELOW1 = 3, TAG_FEWULP = 4, TAG_NEARBAND = 5};

struct CaseDesc
{
  int kind = 0, scalar = 0;
  const char * scalar_name = "";
  std::string name;
  LD t = 0, e = 0, lo = 0, hi = 0, band = 0;
  bool exact = false;
  bool custom_initial = false;
  // caller in a directed rounding mode and target -+ epsilon beyond the finite range: the library's
  // threshold is then -+max (saturation) instead of -+inf, so a value of exactly -+max is ambiguous
  bool sat = false; LD lo_sat = 0, hi_sat = 0;
  mutable bool step_overflow_ambiguous = false;
  int ctor_mode = 0;
  uint64_t pre_n = 0;            // unobserved evaluations (cycling over pre_vals, a timeout every 97th) before the steps
  LD pre_vals[4] = {0, 0, 0, 0};
  std::vector<Step> steps;
  std::string json() const
  {
    std::string a = "[";
    for (size_t i = 0; i < steps.size(); ++i) {
      if (i) {a += ",";}
      a += steps[i].op ? std::string("\"timeout\"") : vh::jnum(steps[i].value);
    }
    a += "]";
    return vh::J().s("checkup", KN[kind]).s("scalar", scalar_name).s("name", name)
           .f(kind == REL ? "low" : "target", t).f(kind == REL ? "high" : "epsilon", e)
           .s("regime", exact ? "exact" : "generic").f("band", band)
           .boolean("custom_initial_diagnostic", custom_initial).f("constructor_form", ctor_mode)
           .f("unobserved_prehistory_length", pre_n).arr("prehistory_values", pre_vals, pre_vals + 4).raw("steps", a).str();
  }
};

// Everything the monitors need about one step; the params/witness closures capture one pointer to
// it (so that turning them into std::function does not allocate).
struct StepObs
{
  const CaseDesc * d;
  LD v;
  int acc;
  DiagnosticStatus ret;
  const DiagnosticReport * rep;
  const std::string * printed;
};

static vh::Params step_params(const StepObs & o)
{
  const CaseDesc & d = *o.d;
  return vh::Params{{"checkup", (double)d.kind}, {"scalar", (double)d.scalar},
    {"value", (double)o.v}, {d.kind == REL ? "low" : "target", (double)d.t},
    {d.kind == REL ? "high" : "epsilon", (double)d.e},
    {"value_minus_lower_threshold", (double)(o.v - d.lo)}, {"value_minus_upper_threshold", (double)(o.v - d.hi)},
    {"step", (double)d.steps.size()}, {"exact_regime", d.exact ? 1.0 : 0.0},
    {"global_locale", (double)g_locale_id}, {"locale_case", g_locale_case ? 1.0 : 0.0}};
}
static std::string step_witness(const StepObs & o)
{
  const DiagnosticReport & rep = *o.rep;
  vh::J j;
  j.raw("case", o.d->json()).f("value", o.v).s("returned", sname(o.ret))
  .f("n_diagnostics", (uint64_t)rep.diagnostics.size()).f("n_info", (uint64_t)rep.info.size());
  if (!rep.diagnostics.empty()) {
    j.s("stored", sname(rep.diagnostics.front().status)).s("message", rep.diagnostics.front().message);
  }
  if (!rep.info.empty()) {j.s("info_key", rep.info.begin()->first).s("info_value", rep.info.begin()->second);}
  if (o.printed) {j.s("expected_info", *o.printed);}
  j.f("acceptable_verdicts", o.acc).f("global_locale_now", g_locale_id).boolean("locale_case", g_locale_case);
  return j.str();
}

// Checks everything the statement says about the state after one evaluation.
static void check_after_evaluate(
  vh::Ctx & c, const CaseDesc & d, LD v, int acc, DiagnosticStatus ret, const DiagnosticReport & rep,
  const std::string & printed)
{
  StepObs obs{&d, v, acc, ret, &rep, &printed};
  const StepObs * po = &obs;
  auto params = [po]() {return step_params(*po);};
  auto wit = [po]() {return step_witness(*po);};
  bool shape = rep.diagnostics.size() == 1 && rep.info.size() == 1 && rep.info.begin()->first == d.name;
  if (!hold(c, "report.one_diagnostic_one_info", shape, "report_shape", params, wit)) {return;}
  const Diagnostic & dg = rep.diagnostics.front();
  hold(c, "status.returned_eq_stored", ret == dg.status, "returned_vs_stored", params, wit);

  static const char * VO[] = {"verdict.equal_to", "verdict.greater_than", "verdict.lower_than", "verdict.reliability"};
  static const std::string VS[] = {"verdict.equal_to:ambiguity_band", "verdict.greater_than:ambiguity_band",
    "verdict.lower_than:ambiguity_band", "verdict.reliability:ambiguity_band"};
  bool amb = !single(acc);
  bool fits = status_fits(d.kind, ret, acc);
  bool st_ok;
  bool starts = dg.message.compare(0, d.name.size(), d.name) == 0;
  int announced = starts ? decode(d.kind, dg.status, dg.message.substr(d.name.size())) : 0;
  if (amb && d.step_overflow_ambiguous) {
    c.skip("verdict:threshold_overflow_under_directed_rounding");
    st_ok = hold(c, "verdict.in_band_consistent", fits, "verdict_mismatch", params, wit);
  } else if (amb) {
    c.skip(VS[d.kind]);
    st_ok = hold(c, "verdict.in_band_consistent", fits, "verdict_mismatch", params, wit);
    // how much of the ambiguity band is really needed: distance from the threshold at which the
    // library's verdict differs from the real-number verdict, over the band
    int real = verdict(d.kind, v, d.lo, d.hi);
    LD dist = 0;
    if (announced != 0 && announced != real) {
      LD dl = fabsl(v - d.lo), dh = fabsl(v - d.hi);
      bool lo_side = d.kind == GT || (d.kind == EQ && ((real | announced) & V_LOW));
      dist = lo_side ? dl : dh;
    }
    c.expect_le("band.disagreement_distance_over_band", dist, d.band, "verdict_mismatch", params, wit);
  } else {
    st_ok = hold(c, VO[d.kind], fits, "verdict_mismatch", params, wit);
    if (d.exact && d.kind != REL) {hold(c, "verdict.exact_regime", fits, "verdict_mismatch", params, wit);}
  }
  // message: names the quantity, verdict word matches the verdict (of the stored status)
  if (hold(c, "message.names_quantity", starts, "message_mismatch", params, wit) && st_ok) {
    hold(c, "message.matching_verdict", announced != 0 && (announced & acc) != 0, "message_mismatch", params, wit);
  }
  bool info_ok = rep.info.begin()->second == printed;
  if (g_locale_case) {
    hold(c, "info.fresh_stream_under_global_locale", info_ok, "info_value_locale", params, wit);
  } else if (g_after_library_printer) {
    hold(c, "info.after_library_printer", info_ok, "info_value_after_library_printer", params, wit);
    ++tally().cats["eval_after_library_printer"];
  } else {
    hold(c, "info.printed_value", info_ok, "info_value_mismatch", params, wit);
  }
  g_after_library_printer = false;
}

static void check_after_timeout(vh::Ctx & c, const CaseDesc & d, const DiagnosticReport & rep)
{
  StepObs obs{&d, 0, 0, DiagnosticStatus::STALE, &rep, nullptr};
  const StepObs * po = &obs;
  auto params = [po]() {
      const CaseDesc & dd = *po->d;
      return vh::Params{{"checkup", (double)dd.kind}, {"scalar", (double)dd.scalar},
        {"target", (double)dd.t}, {"epsilon", (double)dd.e}, {"step", (double)dd.steps.size()}};
    };
  auto wit = [po]() {return step_witness(*po);};
  bool shape = rep.diagnostics.size() == 1 && rep.info.size() == 1 && rep.info.begin()->first == d.name;
  if (!hold(c, "report.one_diagnostic_one_info", shape, "report_shape", params, wit)) {return;}
  const Diagnostic & dg = rep.diagnostics.front();
  bool ok = dg.status == DiagnosticStatus::STALE && dg.message.compare(0, d.name.size(), d.name) == 0 &&
    decode(EQ, DiagnosticStatus::OK, dg.message.substr(d.name.size())) == 0 &&
    decode(EQ, DiagnosticStatus::ERROR, dg.message.substr(d.name.size())) == 0;
  hold(c, "timeout.stale_named_no_verdict", ok, "timeout_state", params, wit);
}

// ------------------------------------------------------------------------------------------
// threshold check-ups, floating point
// ------------------------------------------------------------------------------------------
template<class T> static T clampfin(T v)
{
  if (std::isfinite(v)) {return v;}
  return std::copysign(std::numeric_limits<T>::max(), v);
}

template<class T> struct Setup {T t, e; bool exact; int k;};

template<class T> static Setup<T> gen_fp(vh::Rng & r, vh::Ctx & c)
{
  constexpr bool isf = std::is_same<T, float>::value;
  constexpr bool isld = std::is_same<T, long double>::value;
  Setup<T> s; s.k = 0;
  int mode = (int)r.range(0, 9);
  if (mode <= 5 || isld) {
    s.exact = true;
    int m = (int)r.range(0, 9), k;
    if (m < 7) {k = (int)r.range(-10, 30); cat("scale_moderate");} else if (m == 7) {
      k = isf ? (int)r.range(100, 149) : (int)r.range(1000, 1074); cat("scale_tiny_subnormal");
    } else if (m == 8) {
      k = isf ? (int)r.range(-100, -60) : (int)r.range(-1000, -900); cat("scale_huge");
    } else {k = 0; cat("scale_moderate");}
    const int64_t A = 1 << 20;
    int64_t a = r.coin(0.15) ? 0 : r.range(-A, A);
    int64_t b = r.coin(0.2) ? 0 : (r.coin(0.3) ? r.range(0, 4) : r.range(0, A));
    s.t = std::ldexp((T)a, -k); s.e = std::ldexp((T)b, -k); s.k = k;
  } else if constexpr (!isld) {
    s.exact = false;
    int m = (int)r.range(0, 9);
    const double mx = (double)std::numeric_limits<T>::max();
    const double mn = (double)std::numeric_limits<T>::min(), dn = (double)std::numeric_limits<T>::denorm_min();
    double t, e;
    if (m < 6) {
      t = r.sign() * r.logu(1e-6, 1e6);
      e = r.coin() ? std::fabs(t) * r.logu(1e-12, 1.0) : r.logu(1e-9, 1e3);
      cat("scale_moderate");
    } else if (m == 6) {t = 0; e = r.logu(1e-9, 1e3); cat("scale_moderate");} else if (m == 7) {
      t = r.sign() * mx * r.uni(0.25, 1.0); e = mx * r.uni(0.0, 1.0); cat("scale_huge");
    } else if (m == 8) {
      t = r.sign() * r.logu(dn, mn * 16); e = r.logu(dn, mn * 16); cat("scale_tiny_subnormal");
    } else {t = r.sign() * r.logu(1e-6, 1e6); e = 0; cat("scale_moderate");}
    s.t = (T)t; s.e = (T)e;
    if (s.e == 0) {s.exact = true;}        // t +- 0 is exact
  }
  return s;
}

template<class T> static T gen_value_fp(vh::Rng & r, const Setup<T> & s, int kind, int & tag)
{
  const T INF = std::numeric_limits<T>::infinity();
  const T MX = std::numeric_limits<T>::max();
  bool useHi = kind == LT || (kind == EQ && r.coin());
  T thr = clampfin<T>(useHi ? s.t + s.e : s.t - s.e);      // only aims the generator
  tag = TAG_OTHER;
  T v;
  int m = (int)r.range(0, 11);
  if (!s.exact && (m == 1 || m == 3 || m == 5 || m == 7)) {
    // generic regime: just outside the ambiguity band (8.5 .. 1e4 eps max(|t|,|e|) from the threshold),
    // where a verdict is demanded and a threshold that is off by a few ulps would show
    T mag = std::max(std::fabs(s.t), std::fabs(s.e));
    T off = (T)(r.logu(8.5, 1e4)) * std::numeric_limits<T>::epsilon() * mag;
    v = r.coin() ? thr + off : thr - off;
    if (v != thr) {cat("value_just_outside_band"); tag = TAG_NEARBAND;}
    return clampfin<T>(v);
  }
  switch (m) {
    case 0: case 1: v = thr; tag = TAG_ON; break;
    case 2: case 3: v = std::nextafter(thr, INF); tag = TAG_ABOVE1; break;
    case 4: case 5: v = std::nextafter(thr, -INF); tag = TAG_BELOW1; break;
    case 6: {
        int j = (int)r.range(2, 4); T d = r.coin() ? INF : -INF; v = thr;
        for (int i = 0; i < j; ++i) {v = std::nextafter(v, d);}
        tag = TAG_FEWULP; break;
      }
    case 7:
      v = thr + (T)(r.sign() * (double)r.range(1, 3)) * std::ldexp((T)1, -s.k);
      break;
    case 8: v = s.t; break;
    case 9: v = s.t + s.e * (T)r.uni(-3.0, 3.0); break;
    case 10: v = r.coin(0.3) ? (T)0 : (T)r.sign() * MX * (T)r.uni(0.5, 1.0); break;
    default: v = (T)(r.sign() * r.logu(1e-6, 1e6)); break;
  }
  return clampfin<T>(v);
}

// Integer check-ups (int, short, long long, unsigned).  The library evaluates target - epsilon and
// target + epsilon in the promoted type P of the scalar; (target, epsilon) are kept where both are
// representable in P (for unsigned additionally epsilon <= target): outside, the C++ expression
// itself overflows (undefined for signed types).  Values cover the whole range of the scalar type.
typedef __int128 W;
template<class I> struct IntDom
{
  using P = decltype(I() - I());
  static W imax() {return std::numeric_limits<I>::max();}
  static W imin() {return std::numeric_limits<I>::min();}
  static W half() {return (W)std::numeric_limits<P>::max() / 2;}
  static W thi() {return std::min<W>(imax(), half());}
  static W tlo() {return std::is_unsigned<I>::value ? (W)0 : std::max<W>(imin(), -half());}
  static W ehi() {return std::min<W>(imax(), half());}
};

template<class I> static Setup<I> gen_int(vh::Rng & r, vh::Ctx &)
{
  typedef IntDom<I> D;
  constexpr bool uns = std::is_unsigned<I>::value;
  Setup<I> s; s.exact = true; s.k = 0;
  int m = (int)r.range(0, 9);
  W t, e;
  if (m <= 6) {
    t = uns ? r.range(0, 2000) : r.range(-1000, 1000); e = r.coin(0.3) ? 0 : r.range(0, 20);
    cat("scale_moderate");
  } else if (m <= 8) {
    t = (W)r.range((int64_t)D::tlo(), (int64_t)D::thi()); e = (W)r.range(0, (int64_t)D::ehi());
    cat("scale_huge");
  } else {t = (uns || r.coin()) ? D::thi() : D::tlo(); e = D::ehi(); cat("scale_huge");}
  if (uns && e > t) {e = t;}
  s.t = (I)t; s.e = (I)e;
  return s;
}

template<class I> static I gen_value_int(vh::Rng & r, const Setup<I> & s, int kind, int & tag)
{
  typedef IntDom<I> D;
  bool useHi = kind == LT || (kind == EQ && r.coin());
  W thr = useHi ? (W)s.t + (W)s.e : (W)s.t - (W)s.e;
  tag = TAG_OTHER;
  W v;
  switch ((int)r.range(0, 9)) {
    case 0: case 1: v = thr; tag = TAG_ON; break;
    case 2: case 3: v = thr + 1; tag = TAG_ABOVE1; break;
    case 4: case 5: v = thr - 1; tag = TAG_BELOW1; break;
    case 6: v = thr + (r.coin() ? 1 : -1) * (W)r.range(2, 4); tag = TAG_FEWULP; break;
    case 7: v = s.t; break;
    case 8: v = r.coin() ? (W)r.range(-2000, 2000) : (W)(I)r.next(); break;
    default: v = r.coin(0.3) ? 0 : (r.coin() ? D::imax() : D::imin()); break;
  }
  if (v > D::imax()) {v = D::imax(); tag = TAG_OTHER;}
  if (v < D::imin()) {v = D::imin(); tag = TAG_OTHER;}
  return (I)v;
}

template<class T> static Setup<T> gen_setup(vh::Rng & r, vh::Ctx & c)
{
  if constexpr (std::is_integral<T>::value) {return gen_int<T>(r, c);} else {return gen_fp<T>(r, c);}
}
template<class T> static T gen_value(vh::Rng & r, const Setup<T> & s, int kind, int & tag)
{
  if constexpr (std::is_integral<T>::value) {return gen_value_int<T>(r, s, kind, tag);} else {
    return gen_value_fp<T>(r, s, kind, tag);
  }
}

// ------------------------------------------------------------------------------------------
// Calls to neighbouring library facilities that could share hidden per-thread / global state with
// the check-ups' value printing: setReportInfo / toStringInfoValue with every other type the
// library can print (WGS84 / geodetic coordinates, whose operator<< changes the stream precision,
// statuses, diagnostics, optionals, strings, ints, doubles with many digits) on a scratch report,
// plus streaming to a local stream with manipulators.  Nothing is asserted about the scratch
// objects; the check-up evaluated afterwards must be unaffected.
// ------------------------------------------------------------------------------------------
static bool g_neighbours_called_in_process = false;

static void neighbour_calls(vh::Rng & r)
{
  using namespace romea::core;
  DiagnosticReport scratch;
  int n = (int)r.range(1, 4);
  for (int i = 0; i < n; ++i) {
    switch ((int)r.range(0, 9)) {
      case 0: case 1: {
          WGS84Coordinates w = makeWGS84Coordinates(r.uni(-1.5, 1.5), r.uni(-3.1, 3.1));
          setReportInfo(scratch, "position", w);
          std::ostringstream os; os << w << std::hexfloat << std::showpos << std::uppercase << 1.5;
          cat("interleaved_wgs84_print");
          break;
        }
      case 2: {
          GeodeticCoordinates g = makeGeodeticCoordinates(r.uni(-1.5, 1.5), r.uni(-3.1, 3.1), r.uni(-100.0, 9000.0));
          (void)toStringInfoValue(g);
          setReportInfo(scratch, "geodetic", std::optional<GeodeticCoordinates>(g));
          cat("interleaved_wgs84_print");
          break;
        }
      case 3: {
          setReportInfo(scratch, "many_digits", 1.2345678901234567 * r.logu(1e-8, 1e8));
          // the other printers of the library, through the library's own toStringInfoValue / setReportInfo
          switch ((int)r.range(0, 7)) {
            case 0: {Twist2D t; t.angularSpeed = r.uni(); t.linearSpeeds << r.uni(), 1e-7 * r.uni(); setReportInfo(scratch, "twist2d", t); break;}
            case 1: {Twist3D t; t.linearSpeeds.setConstant(r.uni() * 1e5); t.angularSpeeds.setConstant(r.uni()); (void)toStringInfoValue(t); break;}
            case 2: {Pose2D q; q.yaw = r.uni(-3.0, 3.0); q.position << r.uni() * 1e3, r.uni(); setReportInfo(scratch, "pose2d", q); break;}
            case 3: {Position2D q; q.position << r.uni() * 1e3, r.uni(); setReportInfo(scratch, "position2d", std::optional<Position2D>(q)); break;}
            case 4: {PoseAndTwist2D q; q.pose.yaw = r.uni(); q.twist.angularSpeed = r.uni(); (void)toStringInfoValue(q); break;}
            case 5: {Pose3D q; q.position.setConstant(r.uni() * 1e4); q.orientation.setConstant(r.uni()); setReportInfo(scratch, "pose3d", q); break;}
            case 6: {PoseAndTwist3D q; q.pose.position.setConstant(r.uni()); q.twist.linearSpeeds.setConstant(r.uni()); (void)toStringInfoValue(q); break;}
            default: {
                Eigen::Matrix3d m = Eigen::Matrix3d::Constant(r.uni() * 1e6); Eigen::Vector3d x(r.uni(), 1e-9 * r.uni(), 1e9 * r.uni());
                setReportInfo(scratch, "matrix", m); (void)toStringInfoValue(x.transpose().format(Eigen::IOFormat(Eigen::FullPrecision)));
                break;
              }
          }
          cat("interleaved_library_geometry_eigen_print");
          break;
        }
      case 4: setReportInfo(scratch, "opt", r.coin() ? std::optional<double>(r.uni() * 1e-5) : std::optional<double>()); break;
      case 5: setReportInfo(scratch, "text", std::string("some text")); setReportInfo(scratch, "int", (int)r.range(-100000, 100000)); break;
      case 6: setReportInfo(scratch, "status", ST[r.range(0, 3)]); (void)toStringInfoValue(Diagnostic(ST[r.range(0, 3)], "m")); break;
      case 7: {
          // printing operators of the diagnostics types themselves (not part of the statement; no oracle):
          // a report with diagnostics, and a status value outside the four enumerators (prints as "")
          scratch.diagnostics.emplace_back(ST[r.range(0, 3)], "scratch");
          std::ostringstream os; os << scratch << static_cast<DiagnosticStatus>((int)r.range(4, 9));
          (void)toStringInfoValue(true); (void)toStringInfoValue('c');
          break;
        }
      case 8: (void)toStringInfoValue((float)r.uni() * 1e9f); (void)toStringInfoValue((long double)r.uni()); break;
      default: setReportInfo(scratch, "huge", r.sign() * r.logu(1e-300, 1e300)); (void)toStringInfoValue((unsigned long long)r.next()); break;
    }
  }
  cat("interleaved_neighbour_printing");
  g_neighbours_called_in_process = true;
  g_after_library_printer = true;
}

template<class T> static void after_neighbours_cat(T v)
{
  if (!g_neighbours_called_in_process) {return;}
  if constexpr (!std::is_integral<T>::value) {
    char a[64], b[64];
    snprintf(a, sizeof a, "%Lg", (long double)v); snprintf(b, sizeof b, "%.10Lg", (long double)v);
    if (std::strcmp(a, b) != 0) {cat("eval_after_neighbour_printing_needing_7plus_digits");}
  }
}

// ------------------------------------------------------------------------------------------
// Near-duplicate successor of the previously evaluated value: consecutive inputs that compare
// equal but print differently (+0.0 / -0.0), the same value again, the adjacent representable
// values, and the value +- a log-spaced delta.  An implementation that caches anything derived
// from the last input (printed text, verdict, message) keyed on == or on "close enough" shows here.
// ------------------------------------------------------------------------------------------
enum {FU_NONE = 0, FU_SAME = 1, FU_ZERO_FLIP = 2, FU_ADJACENT = 3, FU_DELTA = 4};

template<class T> static int followup_value(vh::Rng & r, T prev, T & v)
{
  if constexpr (std::is_integral<T>::value) {
    const W lo = IntDom<T>::imin(), hi = IntDom<T>::imax();
    W w;
    switch ((int)r.range(0, 2)) {
      case 0: v = prev; return FU_SAME;
      case 1: w = (W)prev + (r.coin() ? 1 : -1); if (w > hi) {w = hi - 1;} if (w < lo) {w = lo + 1;} v = (T)w; return FU_ADJACENT;
      default:
        w = (W)prev + (r.coin() ? 1 : -1) * (W)std::floor(r.logu(2.0, 1e6));
        v = (T)std::min<W>(hi, std::max<W>(lo, w)); return FU_DELTA;
    }
  } else {
    const T INF = std::numeric_limits<T>::infinity();
    if (prev == 0 && r.coin(0.6)) {v = -prev; return FU_ZERO_FLIP;}
    switch ((int)r.range(0, 3)) {
      case 0: v = prev; return FU_SAME;
      case 1: v = clampfin<T>(std::nextafter(prev, r.coin() ? INF : -INF)); return FU_ADJACENT;
      case 2: {
          T rel = (T)r.logu((double)std::numeric_limits<T>::epsilon() / 4, 1e-3);
          v = clampfin<T>(prev + (r.coin() ? rel : -rel) * (prev == 0 ? (T)1 : prev)); return FU_DELTA;
        }
      default: v = r.coin() ? (T)0.0 : -(T)0.0; return FU_DELTA;     // sets up a zero for the next step
    }
  }
}

static void followup_cat(int fu)
{
  if (fu == FU_NONE) {return;}
  cat("seq_near_duplicate_consecutive");
  if (fu == FU_SAME) {cat("seq_same_value_again");} else if (fu == FU_ZERO_FLIP) {cat("seq_signed_zero_flip");} else if (fu == FU_ADJACENT) {
    cat("seq_adjacent_value");
  }
}

static bool same_report(const DiagnosticReport & a, const DiagnosticReport & b)
{
  if (a.diagnostics.size() != b.diagnostics.size() || a.info != b.info) {return false;}
  auto ib = b.diagnostics.begin();
  for (auto & x : a.diagnostics) {
    if (x.status != ib->status || x.message != ib->message) {return false;}
    ++ib;
  }
  return true;
}
static std::string report_json(const DiagnosticReport & rep)
{
  std::string got = "[";
  for (auto & dgn : rep.diagnostics) {got += (got.size() > 1 ? "," : "") + vh::jstr(std::string(sname(dgn.status)) + ":" + dgn.message);}
  got += "]";
  std::string inf = "{"; bool f = true;
  for (auto & kv : rep.info) {inf += (f ? "" : ",") + vh::jstr(kv.first) + ":" + vh::jstr(kv.second); f = false;}
  inf += "}";
  return vh::J().raw("diagnostics", got).raw("info", inf).str();
}

// The temporary (or reference) returned by getReport() is bound to `held` exactly as the signature
// allows and stays bound while f runs later calls on the same and on sibling objects.
template<class F> static void with_held(const DiagnosticReport & held, F && f) {f(held);}

// Construction forms: 0 lvalue arguments, 1 temporaries, 2 heap-held arguments that are overwritten
// and freed right after construction, 3 the same object passed for target and epsilon (t == e).
enum {CT_LVALUES = 0, CT_TEMPORARIES = 1, CT_FREED_ARGS = 2, CT_ALIAS_T_E = 3};
#define C18_MK(...) \
  (kind == EQ ? static_cast<Checkup<T> *>(new CheckupEqualTo<T>(__VA_ARGS__)) : \
  kind == GT ? static_cast<Checkup<T> *>(new CheckupGreaterThan<T>(__VA_ARGS__)) : \
  static_cast<Checkup<T> *>(new CheckupLowerThan<T>(__VA_ARGS__)))

template<class T> static std::unique_ptr<Checkup<T>> make_checkup(
  int kind, int mode, const std::string & name, const T & t, const T & e, bool custom, const Diagnostic & init)
{
  Checkup<T> * p = nullptr;
  switch (mode) {
    case CT_TEMPORARIES:
      p = custom ? C18_MK(std::string(name), T(t), T(e), Diagnostic(init.status, std::string(init.message))) :
        C18_MK(std::string(name), T(t), T(e));
      cat("construct_from_temporaries");
      break;
    case CT_FREED_ARGS: {
        auto hn = std::make_unique<std::string>(name); auto ht = std::make_unique<T>(t);
        auto he = std::make_unique<T>(e); auto hd = std::make_unique<Diagnostic>(init);
        p = custom ? C18_MK(*hn, *ht, *he, *hd) : C18_MK(*hn, *ht, *he);
        *hn = "overwritten name, long enough to leave the small-string buffer"; *ht = T(); *he = T();
        hd->message = "overwritten"; hd->status = DiagnosticStatus::WARN;
        cat("construct_then_free_arguments");
        break;
      }
    case CT_ALIAS_T_E:
      p = custom ? C18_MK(name, t, t, init) : C18_MK(name, t, t);
      cat("construct_alias_target_epsilon");
      break;
    default:
      p = custom ? C18_MK(name, t, e, init) : C18_MK(name, t, e);
      cat(custom ? "construct_4_arguments" : "construct_3_arguments");
      break;
  }
  return std::unique_ptr<Checkup<T>>(p);
}

// Call forms of evaluate(const T &): lvalue, temporary, std::move'd, heap-held value freed after the call
template<class T> static DiagnosticStatus do_evaluate(Checkup<T> & chk, const T & v, int form)
{
  switch (form) {
    case 1: cat("evaluate_temporary"); return chk.evaluate(T(v));
    case 2: {T w = v; cat("evaluate_moved"); return chk.evaluate(std::move(w));}
    case 3: {
        auto h = std::make_unique<T>(v);
        DiagnosticStatus st = chk.evaluate(*h);
        *h = T(); h.reset();
        cat("evaluate_then_free_argument");
        return st;
      }
    default: return chk.evaluate(v);
  }
}

template<class T> static void threshold_case(vh::Ctx & c, vh::Rng & r, int kind)
{
  Setup<T> s = gen_setup<T>(r, c);
  CaseDesc d;
  d.kind = kind; d.scalar = Tr<T>::code; d.scalar_name = Tr<T>::nm();
  d.name = r.pick(NAMES);
  d.custom_initial = r.coin(0.3);
  d.ctor_mode = r.coin(0.6) ? CT_LVALUES : (int)r.range(1, 3);
  if (d.ctor_mode == CT_ALIAS_T_E) {
    // one object for both reference parameters: target == epsilon >= 0 (t - e = 0 and t + e = 2t are exact)
    if (s.t < 0) {s.t = (s.t == std::numeric_limits<T>::lowest()) ? std::numeric_limits<T>::max() : (T)(-s.t);}
    if constexpr (std::is_integral<T>::value) {if ((W)s.t > IntDom<T>::ehi()) {s.t = (T)IntDom<T>::ehi();}}
    s.e = s.t; s.exact = true;
  }
  d.t = (LD)s.t; d.e = (LD)s.e; d.exact = s.exact;
  d.lo = d.t - d.e; d.hi = d.t + d.e;
  d.band = 0;
  if constexpr (!std::is_integral<T>::value) {
    if (!s.exact) {
      LD m = std::max(fabsl(d.t), fabsl(d.e));
      d.band = 8 * (LD)std::numeric_limits<T>::epsilon() * m;
    }
  }
  if constexpr (!std::is_integral<T>::value) {
    const LD MX = (LD)std::numeric_limits<T>::max();
    if (c.caller_rounding != FE_TONEAREST && (d.lo < -MX || d.hi > MX)) {
      d.sat = true; d.lo_sat = std::max(d.lo, -MX); d.hi_sat = std::min(d.hi, MX);
    }
  }
  std::string cname = std::string(KN[kind]) + "_" + Tr<T>::nm();
  c.cat(cname);
  cat(s.exact ? "regime_exact" : "regime_generic");
  if (s.e == 0) {cat("epsilon_zero");}

  LocaleCaseGuard locale_guard;
  begin_locale_case(c, r);
  Diagnostic init = d.custom_initial ? Diagnostic(ST[r.range(0, 3)], "initial message is OK, low, high") : Diagnostic();
  std::unique_ptr<Checkup<T>> chk = make_checkup<T>(kind, d.ctor_mode, d.name, s.t, s.e, d.custom_initial, init);
  const Checkup<T> & cchk = *chk;                 // getReport() through the const interface
  std::unique_ptr<Checkup<T>> sibling;            // another check-up with the same name, created on demand

  uint64_t h = vh::hash_doubles({(double)kind, (double)Tr<T>::code, (double)s.t, (double)s.e});
  bool nontrivial = false, had_timeout = false, timeout_then_eval = false;
  int seen_verdicts = 0;
  bool have_prev = false; T prev = T();
  bool have_last = false; DiagnosticReport last_rep;

  // ---- long unobserved pre-history: 2^8+k or 2^16+k evaluations (a timeout every 97th call)
  if (r.coin(1.0 / 300)) {
    d.pre_n = (r.coin(0.02) ? 65536 : 256) + (uint64_t)r.range(0, 3);
    T pv[4]; int tg;
    for (int j = 0; j < 4; ++j) {pv[j] = gen_value<T>(r, s, kind, tg); d.pre_vals[j] = (LD)pv[j];}
    for (uint64_t j = 0; j < d.pre_n; ++j) {
      if (j % 97 == 96) {chk->timeout();} else {chk->evaluate(pv[j & 3]);}
    }
    cat(d.pre_n >= 65536 ? "history_2pow16_plus_k" : "history_2pow8_plus_k");
    nontrivial = true;
    h = vh::hash_addi(h, d.pre_n);
  }

  auto other_objects = [&]() {
      // between two observations: a sibling object of the same class and name, and/or the neighbouring
      // printing facilities; the report of the object under test must not change
      if (r.coin(0.5)) {
        if (!sibling) {
          sibling = make_checkup<T>((kind + 1 + (int)r.range(0, 1)) % 3, CT_LVALUES, d.name, s.t, s.e, false, init);
        }
        int tg;
        if (r.coin(0.2)) {sibling->timeout();} else {sibling->evaluate(gen_value<T>(r, s, kind, tg));}
        cat("interleaved_sibling_checkup");
      } else {neighbour_calls(r);}
      if (have_last) {
        const DiagnosticReport & again = cchk.getReport();
        bool same = same_report(again, last_rep);
        if (same && c.caller_rounding == FE_TONEAREST) {++tally().oracles["stability.report_unchanged_by_other_objects"];} else hold(c, "stability.report_unchanged_by_other_objects", same, "observation_changed",
          [&]() {return vh::Params{{"checkup", (double)d.kind}, {"scalar", (double)d.scalar}, {"step", (double)d.steps.size()}};},
          [&]() {return vh::J().raw("case", d.json()).raw("before", report_json(last_rep)).raw("after", report_json(again)).str();});
      }
    };

  auto run_steps = [&](int from, int to) {
      for (int i = from; i < to; ++i) {
        if (r.coin(0.12)) {other_objects();}
        if (r.coin(0.12)) {
          have_prev = false;
          d.steps.push_back({1, 0, 0});
          chk->timeout();
          last_rep = (i & 1) ? cchk.getReport() : chk->getReport(); have_last = true;
          check_after_timeout(c, d, last_rep);
          count("timeouts");
          had_timeout = true;
          h = vh::hash_addi(h, 0x71);
          continue;
        }
        int tag, fu = FU_NONE;
        T v = gen_value<T>(r, s, kind, tag);
        if (have_prev && r.coin(0.35)) {fu = followup_value<T>(r, prev, v); tag = TAG_OTHER; nontrivial = true;}
        followup_cat(fu);
        prev = v; have_prev = true;
        d.steps.push_back({0, (LD)v, tag});
        after_neighbours_cat<T>(v);
        int form = r.coin(0.7) ? 0 : (int)r.range(1, 3);
        maybe_switch_locale(r, 0.4, "locale_switched_between_steps");
        const std::string expected = expected_info<T>(v);        // before the call: the stream of "now"
        const DiagnosticStatus & ret = do_evaluate<T>(*chk, v, form);
        maybe_switch_locale(r, 0.3, "locale_switched_between_evaluate_and_getReport");
        last_rep = (i & 1) ? cchk.getReport() : chk->getReport(); have_last = true;
        int acc = acceptable(kind, (LD)v, d.lo, d.hi, d.band);
        d.step_overflow_ambiguous = false;
        if (d.sat && single(acc)) {
          int a2 = acc | verdict(kind, (LD)v, d.lo_sat, d.hi_sat) | verdict(kind, (LD)v, d.lo_sat, d.hi) | verdict(kind, (LD)v, d.lo, d.hi_sat);
          if (a2 != acc) {acc = a2; d.step_overflow_ambiguous = true; cat("directed_rounding_threshold_overflow_at_max_value");}
        }
        check_after_evaluate(c, d, (LD)v, acc, ret, last_rep, expected);
        count("threshold_evaluations");
        if (tag == TAG_ON) {cat("value_on_threshold");} else if (tag == TAG_ABOVE1) {cat("value_one_ulp_above");} else if (tag == TAG_BELOW1) {
          cat("value_one_ulp_below");
        }
        if (tag != TAG_OTHER) {nontrivial = true;}
        if (had_timeout) {timeout_then_eval = true;}
        if (single(acc)) {
          if ((seen_verdicts & (V_LOW | V_HIGH)) && (acc & (V_LOW | V_HIGH)) && !(seen_verdicts & acc)) {
            cat("seq_error_low_and_high");
          }
          seen_verdicts |= acc;
        }
        h = vh::hash_add(h, (double)v);
      }
    };

  int L = (int)r.range(1, 8);
  int hold_at = (L >= 2 && r.coin(0.3)) ? (int)r.range(1, L - 1) : L;
  run_steps(0, hold_at);
  if (hold_at < L) {
    // result stability: a report obtained now is kept while the object and its sibling are used further
    with_held(cchk.getReport(), [&](const DiagnosticReport & held) {
        const DiagnosticReport snapshot = held;
        run_steps(hold_at, L);
        other_objects();
        bool same = same_report(held, snapshot);
        if (same && c.caller_rounding == FE_TONEAREST) {++tally().oracles["stability.held_report_unchanged_by_later_calls"];} else hold(c, "stability.held_report_unchanged_by_later_calls", same, "result_not_stable",
          [&]() {return vh::Params{{"checkup", (double)d.kind}, {"scalar", (double)d.scalar}, {"held_after_step", (double)hold_at}};},
          [&]() {return vh::J().raw("case", d.json()).raw("when_obtained", report_json(snapshot)).raw("at_end", report_json(held)).str();});
        cat("held_report_across_later_calls");
      });
  }
  if (timeout_then_eval) {cat("seq_timeout_then_evaluate"); nontrivial = true;}
  if (L >= 2) {cat("seq_multi_step");}
  c.distinct(h, nontrivial);
  c.sample(cname, [&]() {return d.json();});
}

// ------------------------------------------------------------------------------------------
// reliability check-up (double thresholds, plain comparisons: always exact)
// ------------------------------------------------------------------------------------------
static void reliability_case(vh::Ctx & c, vh::Rng & r)
{
  double low, high;
  int m = (int)r.range(0, 9);
  if (m < 4) {low = r.range(0, 1024) / 1024.0; high = r.range(0, 1024) / 1024.0;} else if (m < 8) {
    low = r.uni(); high = r.uni();
  } else if (m == 8) {low = high = r.uni();} else {
    low = r.sign() * r.logu(4.9406564584124654e-324, 1.7976931348623157e308);
    high = r.sign() * r.logu(4.9406564584124654e-324, 1.7976931348623157e308);
    low = clampfin<double>(low); high = clampfin<double>(high);
  }
  if (low > high) {std::swap(low, high);}
  CaseDesc d;
  d.kind = REL; d.scalar = 0; d.scalar_name = "double"; d.name = r.pick(NAMES);
  d.t = low; d.e = high; d.lo = low; d.hi = high; d.exact = true; d.band = 0;
  cat("reliability");
  cat("regime_exact");
  if (low == high) {cat("reliability_equal_thresholds");}
  d.ctor_mode = r.coin(0.6) ? CT_LVALUES : (int)r.range(1, 3);
  if (d.ctor_mode == CT_ALIAS_T_E) {high = low; d.e = d.hi = low; cat("reliability_equal_thresholds");}
  LocaleCaseGuard locale_guard;
  begin_locale_case(c, r);
  std::unique_ptr<CheckupReliability> chkp;
  switch (d.ctor_mode) {
    case CT_TEMPORARIES: chkp.reset(new CheckupReliability(std::string(d.name), double(low), double(high))); cat("construct_from_temporaries"); break;
    case CT_FREED_ARGS: {
        auto hn = std::make_unique<std::string>(d.name); auto hl = std::make_unique<double>(low); auto hh = std::make_unique<double>(high);
        chkp.reset(new CheckupReliability(*hn, *hl, *hh));
        *hn = "overwritten name, long enough to leave the small-string buffer"; *hl = -1; *hh = -1;
        cat("construct_then_free_arguments");
        break;
      }
    case CT_ALIAS_T_E: chkp.reset(new CheckupReliability(d.name, low, low)); cat("construct_alias_target_epsilon"); break;
    default: chkp.reset(new CheckupReliability(d.name, low, high)); cat("construct_3_arguments"); break;
  }
  CheckupReliability & chk = *chkp;
  const CheckupReliability & cchk = chk;
  std::unique_ptr<CheckupReliability> sibling;
  uint64_t h = vh::hash_doubles({(double)REL, 0.0, low, high});
  bool nontrivial = false;
  const double INF = std::numeric_limits<double>::infinity();
  double prev = 0; bool have_prev = false;
  bool have_last = false; DiagnosticReport last_rep;

  auto gen = [&](int & tag) {
      double thr = r.coin() ? low : high;
      double v; tag = TAG_OTHER;
      switch ((int)r.range(0, 9)) {
        case 0: case 1: v = thr; tag = TAG_ON; break;
        case 2: case 3: v = std::nextafter(thr, INF); tag = TAG_ABOVE1; break;
        case 4: case 5: v = std::nextafter(thr, -INF); tag = TAG_BELOW1; break;
        case 6: v = 0.5 * (low + high); break;
        case 7: v = r.coin() ? 0.0 : 1.0; break;
        case 8: v = r.uni(); break;
        default: v = r.sign() * r.logu(4.9406564584124654e-324, 1.7976931348623157e308); break;
      }
      return clampfin<double>(v);
    };

  if (r.coin(1.0 / 300)) {
    d.pre_n = (r.coin(0.02) ? 65536 : 256) + (uint64_t)r.range(0, 3);
    double pv[4]; int tg;
    for (int j = 0; j < 4; ++j) {pv[j] = gen(tg); d.pre_vals[j] = pv[j];}
    for (uint64_t j = 0; j < d.pre_n; ++j) {chk.evaluate(pv[j & 3]);}
    cat(d.pre_n >= 65536 ? "history_2pow16_plus_k" : "history_2pow8_plus_k");
    nontrivial = true;
    h = vh::hash_addi(h, d.pre_n);
  }

  auto other_objects = [&]() {
      if (r.coin(0.5)) {
        if (!sibling) {sibling.reset(new CheckupReliability(d.name, 0.5 * low, high));}
        int tg; sibling->evaluate(gen(tg));
        cat("interleaved_sibling_checkup");
      } else {neighbour_calls(r);}
      if (have_last) {
        const DiagnosticReport & again = cchk.getReport();
        bool same = same_report(again, last_rep);
        if (same && c.caller_rounding == FE_TONEAREST) {++tally().oracles["stability.report_unchanged_by_other_objects"];} else hold(c, "stability.report_unchanged_by_other_objects", same, "observation_changed",
          [&]() {return vh::Params{{"checkup", (double)d.kind}, {"scalar", (double)d.scalar}, {"step", (double)d.steps.size()}};},
          [&]() {return vh::J().raw("case", d.json()).raw("before", report_json(last_rep)).raw("after", report_json(again)).str();});
      }
    };

  auto run_steps = [&](int from, int to) {
      for (int i = from; i < to; ++i) {
        if (r.coin(0.12)) {other_objects();}
        int tag;
        double v = gen(tag);
        if (have_prev && r.coin(0.35)) {followup_cat(followup_value<double>(r, prev, v)); tag = TAG_OTHER; nontrivial = true;}
        prev = v; have_prev = true;
        d.steps.push_back({0, (LD)v, tag});
        after_neighbours_cat<double>(v);
        DiagnosticStatus st;
        maybe_switch_locale(r, 0.4, "locale_switched_between_steps");
        const std::string expected = expected_info<double>(v);
        switch (r.coin(0.7) ? 0 : (int)r.range(1, 2)) {
          case 1: st = chk.evaluate(double(v)); cat("evaluate_temporary"); break;
          case 2: {auto hv = std::make_unique<double>(v); st = chk.evaluate(*hv); *hv = -7; hv.reset(); cat("evaluate_then_free_argument"); break;}
          default: st = chk.evaluate(v); break;
        }
        const DiagnosticStatus & ret = st;
        maybe_switch_locale(r, 0.3, "locale_switched_between_evaluate_and_getReport");
        last_rep = (i & 1) ? cchk.getReport() : chk.getReport(); have_last = true;
        int acc = v < low ? V_LOW : (v < high ? V_UNCERTAIN : V_OK);
        check_after_evaluate(c, d, (LD)v, acc, ret, last_rep, expected);
        count("threshold_evaluations");
        if (tag == TAG_ON) {cat("value_on_threshold");} else if (tag == TAG_ABOVE1) {cat("value_one_ulp_above");} else if (tag == TAG_BELOW1) {
          cat("value_one_ulp_below");
        }
        if (tag != TAG_OTHER) {nontrivial = true;}
        h = vh::hash_add(h, v);
      }
    };

  int L = (int)r.range(1, 8);
  int hold_at = (L >= 2 && r.coin(0.3)) ? (int)r.range(1, L - 1) : L;
  run_steps(0, hold_at);
  if (hold_at < L) {
    with_held(cchk.getReport(), [&](const DiagnosticReport & held) {
        const DiagnosticReport snapshot = held;
        run_steps(hold_at, L);
        other_objects();
        bool same = same_report(held, snapshot);
        if (same && c.caller_rounding == FE_TONEAREST) {++tally().oracles["stability.held_report_unchanged_by_later_calls"];} else hold(c, "stability.held_report_unchanged_by_later_calls", same, "result_not_stable",
          [&]() {return vh::Params{{"checkup", (double)d.kind}, {"scalar", (double)d.scalar}, {"held_after_step", (double)hold_at}};},
          [&]() {return vh::J().raw("case", d.json()).raw("when_obtained", report_json(snapshot)).raw("at_end", report_json(held)).str();});
        cat("held_report_across_later_calls");
      });
  }
  if (L >= 2) {cat("seq_multi_step");}
  c.distinct(h, nontrivial);
  c.sample("reliability", [&]() {return d.json();});
}

// ------------------------------------------------------------------------------------------
// status algebra
// ------------------------------------------------------------------------------------------
static std::string jstatuses(const std::vector<int> & v)
{
  std::string a = "[";
  for (size_t i = 0; i < v.size(); ++i) {if (i) {a += ",";} a += std::string("\"") + sname(ST[v[i]]) + "\"";}
  return a + "]";
}

static void check_pair_triple(vh::Ctx & c, int a, int b, int k, const char * tagp, const char * tagt)
{
  using romea::core::worse;
  DiagnosticStatus A = ST[a], B = ST[b], C = ST[k];
  auto params = [&]() {return vh::Params{{"a", (double)a}, {"b", (double)b}, {"c", (double)k}};};
  auto wit = [&]() {
      return vh::J().s("a", sname(A)).s("b", sname(B)).s("c", sname(C)).s("worse_ab", sname(worse(A, B)))
             .s("worse_ba", sname(worse(B, A))).s("worse_ab_c", sname(worse(worse(A, B), C)))
             .s("worse_a_bc", sname(worse(A, worse(B, C)))).str();
    };
  DiagnosticStatus ab = worse(A, B);
  c.expect(tagp, rank_of(ab) == std::max(rank_of(A), rank_of(B)) && (ab == A || ab == B), "worse_not_max", params, wit);
  c.expect("worse.commutative", ab == worse(B, A), "worse_law", params, wit);
  c.expect("worse.idempotent", worse(A, A) == A, "worse_law", params, wit);
  DiagnosticStatus l = worse(ab, C), rr = worse(A, worse(B, C));
  c.expect("worse.associative", l == rr, "worse_law", params, wit);
  c.expect(tagt, rank_of(l) == std::max(rank_of(A), std::max(rank_of(B), rank_of(C))), "worse_not_max", params, wit);
  // temporaries for both reference parameters, and one object for both
  DiagnosticStatus same = A;
  c.expect("value_categories.status_functions", worse(DiagnosticStatus(A), DiagnosticStatus(B)) == ab && worse(same, same) == A,
    "worse_law", params, wit);
}

static void check_list(vh::Ctx & c, const std::vector<int> & v, const char * o1, const char * o2)
{
  std::list<Diagnostic> l;
  int mx = 0; bool all = true;
  for (size_t i = 0; i < v.size(); ++i) {
    l.emplace_back(ST[v[i]], "m" + std::to_string(i));
    mx = std::max(mx, rank_of(ST[v[i]]));
    all = all && ST[v[i]] == DiagnosticStatus::OK;
  }
  DiagnosticStatus w = romea::core::worseStatus(l);
  bool ao = romea::core::allOK(l);
  auto params = [&]() {return vh::Params{{"length", (double)v.size()}, {"max_rank", (double)mx}};};
  auto wit = [&]() {
      return vh::J().raw("statuses", jstatuses(v)).s("worseStatus", sname(w)).boolean("allOK", ao).str();
    };
  c.expect(o1, rank_of(w) == mx, "worst_of_list", params, wit);
  c.expect(o2, ao == all, "all_ok", params, wit);
  // the same list as a temporary and as a std::move'd object; the lvalue list must be left as it was
  std::list<Diagnostic> l2 = l, l3 = l;
  DiagnosticStatus wt = romea::core::worseStatus(std::list<Diagnostic>(l)), wm = romea::core::worseStatus(std::move(l2));
  bool at = romea::core::allOK(std::list<Diagnostic>(l)), am = romea::core::allOK(std::move(l3));
  bool untouched = l.size() == v.size();
  size_t i = 0;
  for (auto & dg : l) {untouched = untouched && dg.status == ST[v[i]] && dg.message == "m" + std::to_string(i); ++i;}
  c.expect("value_categories.status_functions", wt == w && wm == w && at == ao && am == ao && untouched, "worst_of_list", params, wit);
}

static void exhaustive_algebra(vh::Ctx & c)
{
  c.cat("algebra_exhaustive");
  for (int a = 0; a < 4; ++a) {
    for (int b = 0; b < 4; ++b) {
      c.count("algebra_pairs");
      for (int k = 0; k < 4; ++k) {
        check_pair_triple(c, a, b, k, "worse.pairs_exhaustive", "worse.triples_exhaustive");
        c.count("algebra_triples");
      }
    }
  }
  for (int len = 1; len <= 4; ++len) {
    int n = 1 << (2 * len);
    for (int code = 0; code < n; ++code) {
      std::vector<int> v(len);
      for (int i = 0; i < len; ++i) {v[i] = (code >> (2 * i)) & 3;}
      check_list(c, v, "worseStatus.lists_le4_exhaustive", "allOK.lists_le4_exhaustive");
      c.count("lists_exhaustive");
    }
  }
  c.distinct(0xA16EB4A, true);
}

static std::vector<int> random_statuses(vh::Rng & r, int len)
{
  static const double POK[] = {1.0, 0.9, 0.5, 0.25, 0.0};
  double pok = POK[r.range(0, 4)];
  std::vector<int> v(len);
  for (int i = 0; i < len; ++i) {v[i] = r.coin(pok) ? 0 : (int)r.range(0, 3);}
  return v;
}

static void list_case(vh::Ctx & c, vh::Rng & r)
{
  c.cat("status_lists_random");
  int len = r.coin(0.2) ? 20 : (int)r.range(1, 20);
  std::vector<int> v = random_statuses(r, len);
  check_list(c, v, "worseStatus.lists_random", "allOK.lists_random");
  check_pair_triple(c, (int)r.range(0, 3), (int)r.range(0, 3), (int)r.range(0, 3), "worse.pairs_random", "worse.triples_random");
  uint64_t h = 0x11; int distinct_vals = 0, seen = 0;
  for (int x : v) {h = vh::hash_addi(h, x); if (!(seen & (1 << x))) {seen |= 1 << x; ++distinct_vals;}}
  if (len > 4) {c.cat("status_lists_longer_than_4");}
  if (len == 20) {c.cat("status_lists_length_20");}
  c.distinct(h, len > 4 && distinct_vals >= 2);
  c.sample("status_lists_random", [&]() {return vh::J().raw("statuses", jstatuses(v)).str();});
}

// ------------------------------------------------------------------------------------------
// report append
// ------------------------------------------------------------------------------------------
static DiagnosticReport copy_of(const DiagnosticReport & x) {return x;}

static void append_case(vh::Ctx & c, vh::Rng & r)
{
  c.cat("report_append");
  static const std::vector<std::string> KEYS = {"a", "b", "c", "rate", "", "x.y", "z z", "k7", "k8", "k9", "k10", "k11"};
  int nrep = (int)r.range(1, 4);
  bool small_pool = r.coin(0.6);
  std::vector<std::unique_ptr<DiagnosticReport>> pool;
  pool.emplace_back(new DiagnosticReport());
  DiagnosticReport * accp = pool.back().get();
  DiagnosticReport * kept_source = nullptr; DiagnosticReport kept_snapshot;   // source of a copy, must stay as it was
  {
    DiagnosticReport & acc = *accp;
    // left operand to start with, in one of the four states {no diagnostics, diagnostics} x {no info, info}
    int state = (int)r.range(0, 3);
    int nd = (state & 1) ? (int)r.range(1, 5) : 0;
    for (int i = 0; i < nd; ++i) {acc.diagnostics.emplace_back(ST[r.range(0, 3)], "L" + std::to_string(i));}
    int ni = (state & 2) ? (int)r.range(1, 4) : 0;
    for (int i = 0; i < ni; ++i) {acc.info[KEYS[r.range(0, small_pool ? 4 : 11)]] = "L" + std::to_string(i);}
    if (state) {c.cat("append_nonempty_left");}
  }
  // model
  std::vector<std::pair<int, std::string>> mdiag;
  for (auto & dgn : accp->diagnostics) {mdiag.emplace_back(rank_of(dgn.status), dgn.message);}
  std::map<std::string, std::set<std::string>> minfo;     // key -> acceptable values
  for (auto & kv : accp->info) {minfo[kv.first].insert(kv.second);}
  uint64_t h = 0x22;
  bool dup_seen = false; size_t total = mdiag.size();
  std::string desc = "[";

  auto matches_model = [&](const DiagnosticReport & rep, bool & dok, bool & iok) {
      dok = rep.diagnostics.size() == mdiag.size();
      if (dok) {
        size_t i = 0;
        for (auto & dgn : rep.diagnostics) {
          if (rank_of(dgn.status) != mdiag[i].first || dgn.message != mdiag[i].second) {dok = false; break;}
          ++i;
        }
      }
      iok = rep.info.size() == minfo.size();
      if (iok) {
        for (auto & kv : rep.info) {
          auto it = minfo.find(kv.first);
          if (it == minfo.end() || !it->second.count(kv.second)) {iok = false; break;}
        }
      }
    };

  // ---- long history: one cheap append (no diagnostics, one info key) repeated 2^8+k / 2^16+k times
  if (r.coin(1.0 / 100)) {
    uint64_t n = (r.coin(0.05) ? 65536 : 256) + (uint64_t)r.range(0, 3);
    DiagnosticReport tiny; const std::string key = KEYS[r.range(0, small_pool ? 4 : 11)];
    tiny.info[key] = "tiny";
    for (uint64_t j = 0; j < n; ++j) {*accp += tiny;}
    minfo[key].insert("tiny");
    bool dok, iok; matches_model(*accp, dok, iok);
    c.expect("append.after_long_history", dok && iok, "append_info",
      [&]() {return vh::Params{{"repeats", (double)n}};},
      [&]() {return vh::J().f("repeats", n).s("key", key).raw("got", report_json(*accp)).str();});
    for (auto & kv : accp->info) {minfo[kv.first] = {kv.second};}
    c.cat(n >= 65536 ? "append_history_2pow16_plus_k" : "append_history_2pow8_plus_k");
    h = vh::hash_addi(h, n);
    desc += vh::J().f("repeated_tiny_appends", n).str() + ",";
  }

  for (int k = 0; k < nrep; ++k) {
    // ---- value semantics of the accumulated report: continue with a copy / moved-to object, the source
    // is overwritten and destroyed (or kept and re-checked at the end)
    if (r.coin(0.3)) {
      int mode = (int)r.range(0, 5);
      static const char * VS[] = {"append_copy_constructed", "append_copy_assigned", "append_move_constructed",
        "append_move_assigned", "append_self_assigned", "append_copy_source_kept"};
      DiagnosticReport junk;
      junk.diagnostics.emplace_back(DiagnosticStatus::WARN, "junk"); junk.info["junk"] = "junk"; junk.info["a"] = "junk";
      DiagnosticReport * src = accp, * dst = nullptr;
      switch (mode) {
        case 0: pool.emplace_back(new DiagnosticReport(*src)); dst = pool.back().get(); break;
        case 1: pool.emplace_back(new DiagnosticReport(junk)); dst = pool.back().get(); *dst = *src; break;
        case 2: pool.emplace_back(new DiagnosticReport(std::move(*src))); dst = pool.back().get(); break;
        case 3: pool.emplace_back(new DiagnosticReport(junk)); dst = pool.back().get(); *dst = std::move(*src); break;
        case 4: {DiagnosticReport & alias = *src; *src = alias; dst = src; break;}
        default: pool.emplace_back(new DiagnosticReport(*src)); dst = pool.back().get(); break;
      }
      if (mode == 5) {
        if (!kept_source) {kept_source = src; kept_snapshot = *src;}
      } else if (dst != src && src != kept_source) {
        *src = junk;                                     // overwrite, then destroy the source
        for (auto & up : pool) {if (up.get() == src) {up.reset();}}
      }
      accp = dst;
      bool dok, iok; matches_model(*accp, dok, iok);
      c.expect("value_semantics.report_copy_behaves_as_original", dok && iok, "report_copy_semantics",
        [&]() {return vh::Params{{"operand", (double)k}, {"mode", (double)mode}, {"n_diagnostics", (double)mdiag.size()}};},
        [&]() {return vh::J().f("mode", mode).raw("got", report_json(*accp)).str();});
      c.cat(VS[mode]);
      h = vh::hash_addi(h, 0x100 + mode);
    }
    DiagnosticReport & acc = *accp;
    DiagnosticReport rk;
    int nd = r.coin(0.15) ? 20 : (r.coin(0.15) ? 0 : (int)r.range(1, 20));
    if (total + nd > 20 && r.coin(0.7)) {nd = (int)r.range(0, 3);}
    for (int i = 0; i < nd; ++i) {
      rk.diagnostics.emplace_back(ST[r.range(0, 3)], "r" + std::to_string(k) + "d" + std::to_string(i));
    }
    const int nd0 = nd;
    int ni = (int)r.range(0, 6);
    for (int i = 0; i < ni; ++i) {
      rk.info[KEYS[r.range(0, small_pool ? 4 : 11)]] = "r" + std::to_string(k) + "v" + std::to_string(i);
    }
    total += nd;
    // value category of the right-hand side: lvalue, const lvalue, temporary returned by a function,
    // std::move'd object, or the report returned by a real check-up's getReport()
    int rhs = r.coin(0.06) ? 5 : (int)r.range(0, 4);
    if (rhs == 5) {
      // the same object for both reference parameters: expected from the values at call time
      // (diagnostics doubled in order, info unchanged)
      rk = acc; nd = (int)rk.diagnostics.size(); total += nd - nd0;
    }
    std::unique_ptr<CheckupGreaterThan<double>> chk;
    if (rhs == 4) {
      chk.reset(new CheckupGreaterThan<double>(KEYS[r.range(0, small_pool ? 4 : 11)], r.uni(-1.0, 1.0), 0.125));
      if (r.coin(0.8)) {chk->evaluate(r.uni(-2.0, 2.0));}
      rk = chk->getReport(); nd = (int)rk.diagnostics.size(); total += nd - nd0;
    }
    const DiagnosticReport rk_before = rk;
    static const char * LEFT[] = {"append_left_empty", "append_left_diagnostics_no_info", "append_left_info_no_diagnostics",
      "append_left_diagnostics_and_info"};
    int lstate = (acc.diagnostics.empty() ? 0 : 1) | (acc.info.empty() ? 0 : 2);
    c.cat(LEFT[lstate]);
    bool overlap = false;
    for (auto & kv : rk_before.info) {if (acc.info.count(kv.first)) {overlap = true;}}
    if (rhs >= 2 && rhs <= 4 && lstate == 2) {c.cat("append_rvalue_onto_info_only_left"); if (overlap) {c.cat("append_rvalue_onto_info_only_left_shared_keys");}}
    DiagnosticReport * retp;
    switch (rhs) {
      case 0: retp = &(acc += rk); c.cat("append_rhs_lvalue"); break;
      case 1: retp = &(acc += rk_before); c.cat("append_rhs_const_lvalue"); break;
      case 2: retp = &(acc += copy_of(rk_before)); c.cat("append_rhs_temporary"); break;
      case 3: retp = &(acc += std::move(rk)); c.cat("append_rhs_moved"); break;
      case 5: retp = &(acc += acc); c.cat("append_rhs_is_left_operand"); break;
      default: retp = &(acc += chk->getReport()); c.cat("append_rhs_checkup_report"); break;
    }
    DiagnosticReport & ret = *retp;
    // model update
    for (auto & dgn : rk_before.diagnostics) {mdiag.emplace_back(rank_of(dgn.status), dgn.message);}
    bool dup = false;
    for (auto & kv : rk_before.info) {
      auto it = minfo.find(kv.first);
      if (it != minfo.end()) {dup = true; it->second.insert(kv.second);} else {minfo[kv.first].insert(kv.second);}
    }
    if (dup) {dup_seen = true;}
    desc += (k ? "," : "") + vh::J().f("diagnostics", nd).f("info", (int)rk_before.info.size()).boolean("duplicate_keys", dup)
      .f("rhs_value_category", rhs).f("left_state", lstate).str();
    h = vh::hash_addi(vh::hash_addi(h, nd), (rk_before.info.size() * 2 + dup) * 64 + rhs * 4 + lstate);

    auto params = [&]() {
        return vh::Params{{"operand", (double)k}, {"n_left", (double)(mdiag.size() - nd)}, {"n_right", (double)nd},
          {"duplicate_keys", dup ? 1.0 : 0.0}, {"rhs_value_category", (double)rhs}, {"left_state", (double)lstate}};
      };
    auto wit = [&]() {
        std::string got = "[";
        for (auto & dgn : acc.diagnostics) {got += (got.size() > 1 ? "," : "") + vh::jstr(std::string(sname(dgn.status)) + ":" + dgn.message);}
        got += "]";
        std::string inf = "{"; bool f = true;
        for (auto & kv : acc.info) {inf += (f ? "" : ",") + vh::jstr(kv.first) + ":" + vh::jstr(kv.second); f = false;}
        inf += "}";
        return vh::J().f("operand", k).f("expected_diagnostics", (uint64_t)mdiag.size()).raw("got_diagnostics", got)
               .raw("got_info", inf).str();
      };
    c.expect("append.returns_left_operand", &ret == &acc, "append_diagnostics", params, wit);
    bool dok, iok; matches_model(acc, dok, iok);
    c.expect(rhs == 5 ? "append.self_alias" : "append.diagnostics_concatenated_in_order", dok,
      rhs == 5 ? "append_self_alias" : "append_diagnostics", params, wit);
    c.expect("append.info_merged", iok, rhs == 5 ? "append_self_alias" : "append_info", params, wit);
    // after the step, the accepted value of each key is the one now stored (values are preserved
    // by later appends of other keys)
    if (iok) {for (auto & kv : acc.info) {minfo[kv.first] = {kv.second};}}
    // right operand untouched
    if (rhs <= 1) {
      bool rok = rk.diagnostics.size() == rk_before.diagnostics.size() && rk.info == rk_before.info;
      c.expect("append.right_operand_unchanged", rok, "append_diagnostics", params, wit);
    }
  }
  desc += "]";
  DiagnosticReport & acc = *accp;
  if (kept_source) {
    c.expect("value_semantics.copy_source_unaffected", same_report(*kept_source, kept_snapshot), "report_copy_semantics",
      [&]() {return vh::Params{{"n_diagnostics", (double)kept_snapshot.diagnostics.size()}};},
      [&]() {return vh::J().raw("source_now", report_json(*kept_source)).raw("source_when_copied", report_json(kept_snapshot)).str();});
  }
  if (!acc.diagnostics.empty()) {
    int mx = 0; bool all = true;
    for (auto & m : mdiag) {mx = std::max(mx, m.first); all = all && m.first == 0;}
    auto params = [&]() {return vh::Params{{"length", (double)mdiag.size()}, {"max_rank", (double)mx}};};
    auto wit = [&]() {return vh::J().raw("operands", desc).str();};
    c.expect("worseStatus.of_appended_report", rank_of(romea::core::worseStatus(acc.diagnostics)) == mx, "worst_of_list", params, wit);
    c.expect("allOK.of_appended_report", romea::core::allOK(acc.diagnostics) == all, "all_ok", params, wit);
  }
  if (dup_seen) {c.cat("append_duplicate_keys");}
  if (nrep >= 2) {c.cat("append_chain");}
  if (total >= 20) {c.cat("append_20_or_more_diagnostics");}
  c.distinct(h, nrep >= 2 || dup_seen);
  c.sample("report_append", [&]() {return vh::J().raw("operands", desc).str();});
}

// ------------------------------------------------------------------------------------------
static void one_case(vh::Ctx & c, uint64_t idx)
{
  if (idx == 0) {exhaustive_algebra(c); return;}
  vh::Rng r(c.seed, idx);
  int fam = (int)r.range(0, 99);
  if (fam < 66) {
    int kind = (int)r.range(0, 2);
    int sc = (int)r.range(0, 19);
    if (sc < 8) {threshold_case<double>(c, r, kind);} else if (sc < 12) {threshold_case<float>(c, r, kind);} else if (sc < 14) {
      threshold_case<int>(c, r, kind);
    } else if (sc < 16) {threshold_case<long double>(c, r, kind);} else if (sc < 17) {threshold_case<short>(c, r, kind);} else if (sc < 19) {
      threshold_case<long long>(c, r, kind);
    } else {threshold_case<unsigned>(c, r, kind);}
  } else if (fam < 80) {reliability_case(c, r);} else if (fam < 90) {list_case(c, r);} else {append_case(c, r);}
}

int main(int argc, char ** argv)
{
  return vh::run(argc, argv, "C18", {1000000, 50000000}, one_case, flush_tally);
}
