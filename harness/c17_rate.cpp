// C17  Rate monitoring and rate check-ups follow the stamped-event history exactly.
//
// One case = one configuration (expected rate, tolerance, name) and one history of up to 500
// events (data stamps with strictly increasing integer-nanosecond times, heartbeats with
// arbitrary times).  The same history is fed to the three real objects
//     RateMonitoring, CheckupEqualToRate, CheckupGreaterThanRate
// and, after every single event, what they report is compared with a sequential reference
// model that keeps the *list of stamps* (not a queue of periods and a running sum):
//     W      = clamp(floor(2 * expected rate), 4, 64)
//     rate   = 0 while fewer than W+1 stamps, or after a timeout until the next stamp,
//              else W * 1e9 / (t_last - t_{last-W})            (long double, integer ns span)
//     heartbeat h: timeout  <=>  a stamp exists and h - t_last > 500 000 000 ns (integers)
//     check-up: NO_DATA -> (stamp) EVALUATED(rate) -> (timeout) STALE -> (stamp) EVALUATED ...
// Nothing of the library's arithmetic is mirrored; thresholds get an ambiguity band.
#include <cinttypes>
#include <iomanip>
#include <iostream>
#include <locale>
#include <memory>
#include <optional>
#include <sstream>
#include <string>
#include <type_traits>
#include <vector>

#include "romea_core_common/diagnostic/CheckupRate.hpp"
#include "romea_core_common/monitoring/RateMonitoring.hpp"
#include "vh.hpp"

using romea::core::CheckupEqualToRate;
using romea::core::CheckupGreaterThanRate;
using romea::core::DiagnosticReport;
using romea::core::DiagnosticStatus;
using romea::core::Duration;
using romea::core::RateMonitoring;
typedef long double LD;

namespace
{

const int64_t HALF_S = 500000000LL;
const int64_t PMIN = 1000LL;            // 1 us
const int64_t PMAX = 10000000000LL;     // 10 s
const unsigned MAX_EVENTS = 500;

enum HbKind
{
  HB_NONE = 0, HB_CLOCK, HB_M1, HB_EXACT, HB_P1, HB_EARLY, HB_LATE, HB_PAST, HB_SAME, HB_FAR,
  HB_PRE_FIRST, HB_REPEAT, HB_PREFIX
};

// quiet: the event is applied to the objects and to the model but nothing is observed after it
// (long runs of one cheap mutator before an observation)
struct Ev {bool hb; int64_t t; int kind; bool quiet = false;};

// Variants drawn from a second random stream (so that they are independent of the history)
struct Tie {double target, eps; int side; int64_t period;};      // side 0 lower, 1 upper threshold
const Tie TIES[] = {
  {10, 2, 0, 125000000}, {15, 5, 0, 100000000}, {15, 5, 1, 50000000}, {3, 1, 0, 500000000}, {3, 1, 1, 250000000},
  {7.5, 2.5, 0, 200000000}, {7.5, 2.5, 1, 100000000}, {150, 50, 0, 10000000}, {150, 50, 1, 5000000},
  {10, 0, 0, 100000000}, {100, 0, 1, 10000000}, {6, 1, 0, 200000000}, {25, 5, 0, 50000000},
  {1, 0.5, 0, 2000000000}, {0.5, 0.25, 0, 4000000000LL}, {40, 10, 1, 20000000}};

struct Extras
{
  int eps_kind = 0;          // 0 as drawn, 1 extreme magnitude, 2 the rate object itself is passed as tolerance
  double eps_value = 0;
  int tie = -1;              // index into TIES: the steady rate is exactly a threshold
  int t0_kind = 0;           // 0 as drawn, 10 log-spaced magnitude, 11 int64 max side, 12 int64 min side
  int64_t t0 = 0;
  int prefix_kind = 0;       // 0 none, 1 steady stamps, 2 alternating stamps, 3 early heartbeats, 4 timeout heartbeats
  bool prefix_16 = false;    // 2^16+k instead of 2^8+k repetitions
  unsigned prefix_n = 0;
  int64_t prefix_p = 0;
  int arg_style = 0;         // 0 named lvalue, 1 temporary, 2 std::move, 3 heap object freed right after the call
  bool default_ctor = false; // RateMonitoring() + initialize(rate) instead of RateMonitoring(rate)
  int copy_kind = 0;         // 0 none, 1 copy-construct and destroy the source, 2 same through std::move, 3 fork
  double copy_at = 0, snapshot_at = 0;   // positions in the history, as fractions
  bool interference = false;
  // global C++ locale switched during the history
  int nswitch = 0;
  struct Switch {double pos; int where; int loc;} sw[3];   // where: 0 before the event's calls, 1 between a
                                                            // library call and the getReport that observes it
};

// ------------------------------------------------------------------------------------------
// global locales the application may switch to: classic, decimal comma, decimal comma + '.' grouping
// ------------------------------------------------------------------------------------------
struct CommaPunct : std::numpunct<char>
{
  char do_decimal_point() const override {return ',';}
};
struct CommaGroupPunct : std::numpunct<char>
{
  char do_decimal_point() const override {return ',';}
  char do_thousands_sep() const override {return '.';}
  std::string do_grouping() const override {return "\3";}
};
const std::locale & loc_of(int id)
{
  static const std::locale L[3] = {std::locale::classic(), std::locale(std::locale::classic(), new CommaPunct),
    std::locale(std::locale::classic(), new CommaGroupPunct)};
  return L[id];
}
struct LocaleGuard      // the case must hand back the classic global locale on every path
{
  ~LocaleGuard() {std::locale::global(std::locale::classic());}
};

// Strict reading of a number printed under locale `id` (0 classic, 1 decimal comma, 2 decimal comma and
// '.' grouping by 3): returns false when the punctuation is not the one that locale produces, else the
// classic spelling in `out`.
bool delocalize(const std::string & v, int id, std::string & out)
{
  out.clear();
  if (id == 0) {
    if (v.find(',') != std::string::npos) {return false;}
    out = v;
    return true;
  }
  size_t i = 0;
  if (i < v.size() && (v[i] == '-' || v[i] == '+')) {out += v[i]; ++i;}
  // integer part
  size_t digits = 0, group = 0;
  bool grouped = false;
  for (; i < v.size() && ((v[i] >= '0' && v[i] <= '9') || v[i] == '.'); ++i) {
    if (v[i] == '.') {
      if (id != 2) {return false;}                         // a point is not a decimal comma
      if (group == 0 || (grouped && group != 3) || (!grouped && group > 3)) {return false;}
      grouped = true; group = 0;
    } else {out += v[i]; ++digits; ++group;}
  }
  if (grouped && group != 3) {return false;}
  if (id == 2 && !grouped && digits > 3) {return false;}   // grouping is not optional
  if (digits == 0) {return false;}
  // fraction and exponent: no point allowed any more, the comma is the decimal separator
  bool comma = false;
  for (; i < v.size(); ++i) {
    if (v[i] == '.') {return false;}
    if (v[i] == ',') {if (comma) {return false;} comma = true; out += '.';} else {out += v[i];}
  }
  return true;
}

std::string fresh_stream_format(double v)       // what a stream constructed now prints (global locale)
{
  std::ostringstream os;
  os << v;
  return os.str();
}

// largest first stamp: int64 max minus the longest history the generator can append
// (500 periods of 10 s + the far-future heartbeat + the continuation fed to a forked copy)
const int64_t T0_MAX = INT64_MAX - 8000000000000LL;
const int64_t T0_MIN = INT64_MIN + 20000000000LL;

void draw_extras(vh::Rng & q, Extras & x)
{
  double u = q.uni();
  if (u < 0.08) {
    static const double E[] = {0.0, 4.9406564584124654e-324, 1e-300, 1e-15, 1e15, 1e300, 1.7976931348623157e308};
    x.eps_kind = 1; x.eps_value = E[q.range(0, 6)];
  } else if (u < 0.12) {
    x.eps_kind = 2;
  } else if (u < 0.17) {
    x.tie = static_cast<int>(q.range(0, sizeof(TIES) / sizeof(TIES[0]) - 1));
  }
  u = q.uni();
  if (u < 0.06) {
    x.t0_kind = 10; x.t0 = static_cast<int64_t>(q.sign() * q.logu(1.0, 9.2e18));
    if (x.t0 > T0_MAX) {x.t0 = T0_MAX;}
    if (x.t0 < T0_MIN) {x.t0 = T0_MIN;}
  } else if (u < 0.09) {
    x.t0_kind = 11; x.t0 = T0_MAX - (q.coin(0.3) ? 0 : q.range(0, 1000000000000LL));
  } else if (u < 0.12) {
    x.t0_kind = 12; x.t0 = T0_MIN + (q.coin(0.3) ? 0 : q.range(0, 1000000000000LL));
  }
  u = q.uni();
  if (u < 0.017 && x.t0_kind == 0) {
    x.prefix_16 = u < 0.002;
    x.prefix_kind = static_cast<int>(q.range(1, 4));
    x.prefix_n = (x.prefix_16 ? 65536u : 256u) + static_cast<unsigned>(q.range(0, 3));
    x.prefix_p = static_cast<int64_t>(q.logu(1e3, 1e7));
  }
  x.arg_style = static_cast<int>(q.range(0, 3));
  x.default_ctor = q.coin(0.25);
  if (q.coin(0.3)) {x.copy_kind = static_cast<int>(q.range(1, 3));}
  x.copy_at = q.uni();
  x.snapshot_at = q.uni();
  x.interference = q.coin(0.25);
  if (q.coin(0.2)) {
    x.nswitch = static_cast<int>(q.range(1, 3));
    for (int i = 0; i < x.nswitch; ++i) {
      x.sw[i].pos = q.uni();
      x.sw[i].where = q.coin(0.35) ? 1 : 0;
      x.sw[i].loc = static_cast<int>(q.range(0, 2));
    }
    if (q.coin(0.4)) {x.sw[0].pos = -1.0; x.sw[0].where = 0; x.sw[0].loc = static_cast<int>(q.range(1, 2));}
    if (x.sw[0].loc == 0 && x.nswitch == 1) {x.sw[0].loc = static_cast<int>(q.range(1, 2));}
  }
}

struct Config
{
  double rate, eps;
  std::string name;
  int W;
};

// ------------------------------------------------------------------------------------------
// reference model
// ------------------------------------------------------------------------------------------
enum CuState {NO_DATA, EVALUATED, STALE_S};

struct Model
{
  int W;
  std::vector<int64_t> st;
  bool rate_forced_zero = false;
  CuState cu = NO_DATA;
  // statistics of the history (used for categories / non-triviality)
  unsigned timeouts = 0, recoveries = 0, timeouts_before_full = 0;
  bool nonconstant = false;

  explicit Model(int w)
  : W(w) {}
  bool full() const {return st.size() >= static_cast<size_t>(W) + 1;}
  LD rate() const
  {
    if (rate_forced_zero || !full()) {return 0;}
    int64_t span = st.back() - st[st.size() - 1 - W];
    return static_cast<LD>(W) * 1e9L / static_cast<LD>(span);
  }
  void stamp(int64_t t)
  {
    if (st.size() >= 2 && (t - st.back()) != (st.back() - st[st.size() - 2])) {nonconstant = true;}
    bool was_timed_out = rate_forced_zero;
    st.push_back(t);
    rate_forced_zero = false;
    cu = EVALUATED;
    if (was_timed_out && full()) {++recoveries;}
  }
  // returns true when the heartbeat is a timeout
  bool heartbeat(int64_t h)
  {
    if (st.empty()) {return false;}
    if (h - st.back() > HALF_S) {
      if (!rate_forced_zero) {++timeouts; if (!full()) {++timeouts_before_full;}}
      rate_forced_zero = true;
      cu = STALE_S;
      return true;
    }
    return false;
  }
};

int window_of(double rate)
{
  LD w = floorl(2.0L * static_cast<LD>(rate));
  if (w < 4) {w = 4;}
  if (w > 64) {w = 64;}
  return static_cast<int>(w);
}

// ------------------------------------------------------------------------------------------
// generators
// ------------------------------------------------------------------------------------------
int64_t clip_period(double p)
{
  if (!(p >= static_cast<double>(PMIN))) {return PMIN;}
  if (p >= static_cast<double>(PMAX)) {return PMAX;}
  return static_cast<int64_t>(p);
}

const char * const PERIOD_MODES[] = {"steady", "jittered", "bursty", "silences", "loguniform",
  "near_threshold", "extremes"};
const char * const HB_MODES[] = {"none", "clocked", "adversarial", "mixed"};

struct PeriodGen
{
  int mode;
  double base;
  double jitter = 0;
  double silence_p = 0;
  int burst_left = 0;
  double burst_period = 1000;
  int64_t next(vh::Rng & r)
  {
    switch (mode) {
      case 0: return clip_period(base);
      case 1: return clip_period(base * (1.0 + jitter * r.uni(-1.0, 1.0)));
      case 2:
        if (burst_left > 0) {--burst_left; return clip_period(burst_period * (1.0 + 0.2 * r.uni(-1, 1)));}
        burst_left = static_cast<int>(r.range(1, 40));
        burst_period = r.logu(1e3, 1e6);
        return clip_period(r.logu(1e6, 1e10));
      case 3:
        if (r.coin(silence_p)) {
          // silences concentrated around the 0.5 s timeout, up to the 10 s limit
          return r.coin(0.4) ? clip_period(r.uni(4.0e8, 7.0e8)) : clip_period(r.logu(5e8, 1e10));
        }
        return clip_period(base * (1.0 + jitter * r.uni(-1.0, 1.0)));
      case 4: return clip_period(r.logu(1e3, 1e10));
      case 5: return clip_period(base + static_cast<double>(r.range(-1, 1)) * jitter);
      default: {
          static const int64_t X[] = {1000, 1001, 10000000000LL, 9999999999LL, 499999999, 500000000,
            500000001, 1000000, 100000000};
          return X[r.range(0, 8)];
        }
    }
  }
};

void gen_case(
  vh::Rng & r, const Extras & x, Config & cfg, std::vector<Ev> & ev, int & pmode, int & hbmode, int & t0kind)
{
  // ---- configuration
  int rk = static_cast<int>(r.range(0, 9));
  if (rk <= 3) {
    static const double R[] = {0.5, 1, 2, 2.5, 5, 10, 20, 31.5, 32, 32.5, 50, 100, 200, 1.5, 3};
    cfg.rate = R[r.range(0, 14)];
  } else if (rk <= 5) {
    cfg.rate = static_cast<double>(r.range(1, 400)) / 2.0;
  } else if (rk <= 7) {
    cfg.rate = r.logu(0.5, 200.0);
  } else {
    cfg.rate = r.uni(0.5, 40.0);      // window between the clamps, 2*rate not an integer
  }
  if (r.coin(0.4)) {
    static const double E[] = {1e-3, 0.01, 0.1, 0.5, 1.0, 2.0, 10.0};
    cfg.eps = E[r.range(0, 6)];
  } else {
    cfg.eps = r.logu(1e-3, 10.0);
  }
  static const char * const N[] = {"foo", "imu", "gps/fix", "lidar_front", "a b", "x"};
  cfg.name = N[r.range(0, 5)];
  if (x.eps_kind == 1) {cfg.eps = x.eps_value;}
  if (x.eps_kind == 2) {cfg.eps = cfg.rate;}
  if (x.tie >= 0) {cfg.rate = TIES[x.tie].target; cfg.eps = TIES[x.tie].eps;}
  cfg.W = window_of(cfg.rate);

  // ---- history shape
  unsigned L;
  int lk = static_cast<int>(r.range(0, 9));
  if (lk <= 1) {L = static_cast<unsigned>(r.range(1, cfg.W + 3));} else if (lk <= 4) {
    L = static_cast<unsigned>(r.range(cfg.W + 1, 2 * cfg.W + 6));
  } else if (lk == 5) {L = MAX_EVENTS;} else {L = static_cast<unsigned>(r.range(2, MAX_EVENTS));}
  if (L > MAX_EVENTS) {L = MAX_EVENTS;}

  PeriodGen pg;
  pg.mode = pmode = static_cast<int>(r.range(0, 6));
  if (r.coin(0.55)) {
    static const double F[] = {1.0, 1.0, 0.5, 2.0, 0.9, 1.1};
    double f = r.coin(0.6) ? F[r.range(0, 5)] : r.uni(0.8, 1.25);
    pg.base = 1e9 / (cfg.rate * f);
  } else {
    pg.base = r.logu(1e3, 1e10);
  }
  static const double JIT[] = {1e-6, 0.01, 0.1, 0.5, 0.9};
  pg.jitter = JIT[r.range(0, 4)];
  pg.silence_p = r.coin() ? 0.02 : 0.15;
  if (pg.mode == 5) {
    // steady periods that put the rate within a few ns-quantisation steps of a threshold
    double s = static_cast<double>(r.range(-1, 1));
    double thr = cfg.rate + s * cfg.eps;
    if (!(thr > 0.11)) {thr = cfg.rate;}
    pg.base = std::floor(1e9 / thr) + static_cast<double>(r.range(-3, 3));
    pg.jitter = r.coin(0.6) ? 0.0 : 1.0;     // +-1 ns wobble
  }
  if (x.tie >= 0) {
    // steady period for which the rate is exactly the threshold (all quantities exact in binary)
    pg.mode = 0; pmode = 5;
    pg.base = static_cast<double>(TIES[x.tie].period);
  }

  hbmode = static_cast<int>(r.range(0, 3));
  double hb_p = r.coin() ? 0.08 : (r.coin() ? 0.3 : 0.6);
  static const int64_t CLK[] = {100000000, 50000000, 250000000, 1000000000, 499999999, 500000001};
  int64_t clk_period = CLK[r.range(0, 5)];

  // ---- first stamp
  int64_t t0;
  t0kind = static_cast<int>(r.range(0, 9));
  switch (t0kind) {
    case 0: case 1: t0 = 0; t0kind = 0; break;
    case 2: t0 = 1; break;
    case 3: case 4: t0 = r.range(1, 2000000000LL); t0kind = 3; break;
    case 5: case 6: t0 = 1700000000000000000LL + r.range(0, 100000000000000000LL); t0kind = 5; break;
    case 7: t0 = r.range(1, 1000000000000000LL); break;
    default: t0 = -r.range(1, 1000000000000LL); t0kind = 8; break;
  }
  if (x.t0_kind != 0) {t0 = x.t0; t0kind = x.t0_kind;}

  ev.clear();
  // heartbeats before the first stamp
  if (hbmode != 0 && r.coin(0.35)) {
    int k = static_cast<int>(r.range(1, 3));
    for (int i = 0; i < k && ev.size() + 1 < L; ++i) {
      int64_t h;
      switch (r.range(0, 3)) {
        case 0: h = r.range(0, 20000000000LL); break;          // after "time zero" by up to 20 s
        case 1: h = t0 - r.range(0, 3000000000LL); break;      // just before the first stamp
        case 2: h = HALF_S + r.range(-1, 1); break;
        default: h = t0 + r.range(0, 1000000000LL); break;
      }
      ev.push_back({true, h, HB_PRE_FIRST});
    }
  }
  int64_t tl = t0;
  ev.push_back({false, t0, 0});
  int64_t clk = t0;     // clocked heartbeat timer
  while (ev.size() < L) {
    int64_t p = pg.next(r);
    int64_t tn = tl + p;
    if (hbmode == 1 || hbmode == 3) {
      // ticks of the heartbeat timer that fall before the next stamp (chronological order)
      int emitted = 0;
      while (clk + clk_period < tn) {
        clk += clk_period;
        if (clk <= tl) {continue;}
        if (emitted < 8 && ev.size() + 1 < L) {ev.push_back({true, clk, HB_CLOCK}); ++emitted;}
      }
    }
    if ((hbmode == 2 || hbmode == 3) && r.coin(hb_p)) {
      int n = r.coin(0.8) ? 1 : static_cast<int>(r.range(2, 4));
      for (int i = 0; i < n && ev.size() + 1 < L; ++i) {
        int k = static_cast<int>(r.range(0, 11));
        int64_t h; int kind;
        if (k == 0) {h = tl + HALF_S - 1; kind = HB_M1;} else if (k <= 2) {
          h = tl + HALF_S; kind = HB_EXACT;
        } else if (k <= 4) {h = tl + HALF_S + 1; kind = HB_P1;} else if (k <= 6) {
          h = tl + r.range(0, HALF_S - 2); kind = HB_EARLY;
        } else if (k <= 8) {h = tl + r.range(HALF_S + 2, 20000000000LL); kind = HB_LATE;} else if (k == 9) {
          h = tl - r.range(1, 10000000000LL); kind = HB_PAST;
        } else if (k == 10) {h = tl; kind = HB_SAME;} else {h = tl + 1000000000000LL; kind = HB_FAR;}
        if (i > 0 && r.coin(0.5)) {h = ev.back().t; kind = HB_REPEAT;}     // the same heartbeat twice
        ev.push_back({true, h, kind});
      }
    }
    if (ev.size() >= L) {break;}
    ev.push_back({false, tn, 0});
    tl = tn;
    // a history may end in silence: trailing heartbeats walking through the timeout
    if (hbmode != 0 && ev.size() + 4 < L && r.coin(0.01)) {
      static const int64_t D[] = {300000000, HALF_S, HALF_S + 1, 700000000, 3000000000LL};
      for (int64_t d : D) {ev.push_back({true, tl + d, HB_CLOCK});}
      if (r.coin(0.5)) {break;}
    }
  }
}

// ------------------------------------------------------------------------------------------
// observation of a check-up report
// ------------------------------------------------------------------------------------------
struct Obs
{
  bool shape_ok = false;
  DiagnosticStatus status = DiagnosticStatus::OK;
  std::string message, value;
  bool operator==(const Obs & o) const
  {
    return shape_ok == o.shape_ok && status == o.status && message == o.message && value == o.value;
  }
};

Obs observe(const DiagnosticReport & rep, const std::string & key)
{
  Obs o;
  auto it = rep.info.find(key);
  if (rep.diagnostics.empty() || it == rep.info.end()) {return o;}
  o.shape_ok = true;
  o.status = rep.diagnostics.front().status;
  o.message = rep.diagnostics.front().message;
  o.value = it->second;
  return o;
}

bool has(const std::string & s, const char * w) {return s.find(w) != std::string::npos;}

enum {V_OK = 1, V_LOW = 2, V_HIGH = 4};

// verdicts the statement allows for a modelled rate (ambiguity band at the thresholds)
int allowed_verdicts(bool equal_to, LD rate, const Config & cfg)
{
  LD target = cfg.rate, eps = cfg.eps;
  LD band = 1e-9L * std::max<LD>(1.0L, fabsl(target) + fabsl(eps));
  LD lo = target - eps, hi = target + eps;
  int m = 0;
  if (rate < lo + band) {m |= V_LOW;}
  if (rate > lo - band && (!equal_to || rate < hi + band)) {m |= V_OK;}
  if (equal_to && rate > hi - band) {m |= V_HIGH;}
  return m;
}

int verdict_of_message(const std::string & msg)
{
  int m = 0;
  if (has(msg, "is OK")) {m |= V_OK;}
  if (has(msg, "too low")) {m |= V_LOW;}
  if (has(msg, "too high")) {m |= V_HIGH;}
  return m;
}

struct Names
{
  std::string shape, no_data, stale, msg, status, status_band, skip, value_parses, value_zero, value_vs_rate,
    eval_ret, hb_ret, hb_nochange, value_locale, value_fresh;
  explicit Names(const std::string & p)
  : shape(p + ".report_shape"), no_data(p + ".no_data"), stale(p + ".stale"), msg(p + ".message_matches_status"),
    status(p + ".status"), status_band(p + ".status_in_band"), skip(p + ".status:threshold_band"),
    value_parses(p + ".value_parses"), value_zero(p + ".value_zero"), value_vs_rate(p + ".value_vs_rate"),
    eval_ret(p + ".evaluate_returns_status"), hb_ret(p + ".heartbeat_return"),
    hb_nochange(p + ".early_heartbeat_changes_nothing"), value_locale(p + ".value_punctuation_of_locale_in_force"),
    value_fresh(p + ".value_equals_fresh_stream_output") {}
};
const Names N_EQ("checkup_eq"), N_GT("checkup_gt");

std::string status_name(DiagnosticStatus s)
{
  switch (s) {
    case DiagnosticStatus::OK: return "OK";
    case DiagnosticStatus::WARN: return "WARN";
    case DiagnosticStatus::ERROR: return "ERROR";
    case DiagnosticStatus::STALE: return "STALE";
  }
  return "?" + std::to_string(static_cast<int>(s));
}

// Fast path for the ~20 oracle evaluations per event: the Stat record of an oracle is looked up
// once per case; a passing evaluation only bumps its counters, a failing one goes through
// Ctx::expect / Ctx::expect_le (which build the violation record).
struct Fast
{
  vh::Ctx & c;
  const std::function<vh::Params()> & params;
  const std::function<std::string()> & wit;
  vh::Stat & stat(const char * name)
  {
    // keyed by the address of the (static) name; Ctx and its map nodes live for the whole process.
    // As in Ctx::expect*, cases run under a directed caller rounding mode are booked separately.
    static std::map<const char *, vh::Stat *> cache[2];
    const bool directed = c.caller_rounding != FE_TONEAREST;
    auto & ch = cache[directed ? 1 : 0];
    auto it = ch.find(name);
    if (it != ch.end()) {return *it->second;}
    vh::Stat * s = directed ? &c.margins[std::string(name) + "@directed_rounding"] : &c.margins[name];
    ch[name] = s;
    return *s;
  }
  bool expect(const char * name, bool cond, const char * kind)
  {
    if (cond) {++stat(name).n; return true;}
    return c.expect(name, false, kind, params, wit);
  }
  bool expect_le(const char * name, LD observed, LD tol, const char * kind)
  {
    const LD stol = tol * c.tol_scale;          // Ctx::expect_le applies the same widening itself
    bool ok = std::isfinite(static_cast<double>(observed)) && observed <= stol && stol > 0;
    if (!ok) {return c.expect_le(name, observed, tol, kind, params, wit);}
    vh::Stat & st = stat(name);
    ++st.n;
    LD ratio = observed / stol;
    if (ratio > st.worst) {st.worst = static_cast<double>(ratio); st.worst_case = std::to_string(c.cur);}
    return true;
  }
};

}  // namespace

static void one_case(vh::Ctx & c, uint64_t idx)
{
  vh::Rng r(c.seed, idx);
  vh::Rng q(c.seed, idx, 1);        // variants: independent of the history
  LocaleGuard locale_guard;
  Extras x;
  draw_extras(q, x);
  Config cfg;
  std::vector<Ev> ev;
  int pmode, hbmode, t0kind;
  gen_case(r, x, cfg, ev, pmode, hbmode, t0kind);
  const int W = cfg.W;

  // ---- long run of one cheap mutator, observed only at its end, before the ordinary history
  if (x.prefix_kind != 0) {
    size_t first = 0;
    while (first < ev.size() && ev[first].hb) {++first;}
    const int64_t t0 = ev[first].t;
    std::vector<Ev> pre;
    pre.reserve(x.prefix_n);
    if (x.prefix_kind <= 2) {
      // stamps t0 - sum of periods ... t0 - p, then the history's own first stamp t0
      std::vector<int64_t> ts(x.prefix_n);
      int64_t t = t0;
      for (unsigned i = 0; i < x.prefix_n; ++i) {
        t -= x.prefix_p + ((x.prefix_kind == 2 && (i & 1)) ? x.prefix_p / 3 + 1 : 0);
        ts[x.prefix_n - 1 - i] = t;
      }
      for (unsigned i = 0; i < x.prefix_n; ++i) {pre.push_back({false, ts[i], 0, i + 1 < x.prefix_n});}
      ev.insert(ev.begin() + first, pre.begin(), pre.end());
    } else {
      for (unsigned i = 0; i < x.prefix_n; ++i) {
        int64_t h = x.prefix_kind == 3 ? t0 + (i % 7 == 0 ? 0 : static_cast<int64_t>(i)) : t0 + HALF_S + 1 + i;
        pre.push_back({true, h, HB_PREFIX, i + 1 < x.prefix_n});
      }
      ev.insert(ev.begin() + first + 1, pre.begin(), pre.end());
    }
  }
  // 2^16 repetitions are fed to the bare monitor only (the check-ups cost 50x more per event)
  const bool drive_cu = !(x.prefix_kind != 0 && x.prefix_16);

  // ---- model-only pre-pass: categories, non-triviality, distinct hash
  unsigned nst = 0, nhb = 0;
  bool kinds_seen[16] = {false};
  bool pre_first = false, pre_first_late = false;
  {
    Model m(W);
    uint64_t h = vh::hash_doubles({cfg.rate, cfg.eps, static_cast<double>(cfg.name.size())});
    for (const Ev & e : ev) {
      h = vh::hash_addi(h, static_cast<uint64_t>(e.t) * 2 + (e.hb ? 1 : 0));
      if (e.hb) {
        ++nhb; kinds_seen[e.kind] = true;
        if (m.st.empty()) {pre_first = true; if (e.t > HALF_S) {pre_first_late = true;}}
        m.heartbeat(e.t);
      } else {++nst; m.stamp(e.t);}
    }
    bool rollover_nonconst = m.nonconstant && nst >= static_cast<unsigned>(W) + 2;
    bool nontrivial = m.recoveries > 0 || rollover_nonconst;
    c.distinct(h, nontrivial);
    c.cat(std::string("periods_") + PERIOD_MODES[pmode]);
    c.cat(std::string("hb_") + HB_MODES[hbmode]);
    c.cat(W == 4 ? "W_4" : (W == 64 ? "W_64" : "W_between"));
    if (2.0 * cfg.rate != std::floor(2.0 * cfg.rate)) {c.cat("two_rate_not_integer");}
    switch (t0kind) {
      case 0: c.cat("t0_zero"); break;
      case 5: c.cat("t0_epoch_ns"); break;
      case 8: c.cat("t0_negative"); break;
      case 10: c.cat("t0_logspaced_to_int64_limits"); break;
      case 11: c.cat("t0_int64_max_side"); break;
      case 12: c.cat("t0_int64_min_side"); break;
      default: c.cat("t0_other"); break;
    }
    if (nst <= static_cast<unsigned>(W)) {c.cat("window_never_full");}
    if (rollover_nonconst) {c.cat("rollover_nonconstant_periods");}
    if (m.recoveries) {c.cat("timeout_then_recovery");}
    if (m.timeouts_before_full) {c.cat("timeout_before_window_full");}
    if (m.timeouts) {c.cat("timeout");}
    if (pre_first) {c.cat("hb_before_first_stamp");}
    if (pre_first_late) {c.cat("hb_before_first_stamp_later_than_500ms");}
    if (kinds_seen[HB_EXACT]) {c.cat("hb_at_500ms_exact");}
    if (kinds_seen[HB_P1]) {c.cat("hb_at_500ms_plus_1ns");}
    if (kinds_seen[HB_M1]) {c.cat("hb_at_500ms_minus_1ns");}
    if (kinds_seen[HB_PAST]) {c.cat("hb_earlier_than_last_stamp");}
    if (kinds_seen[HB_REPEAT]) {c.cat("hb_same_value_twice");}
    if (ev.size() == MAX_EVENTS) {c.cat("events_500");}
    if (nst >= 257) {c.cat("stamps_ge_257");}
    if (x.eps_kind == 1) {c.cat(cfg.eps == 0 ? "eps_zero" : (cfg.eps < 1 ? "eps_tiny" : "eps_huge"));}
    if (x.eps_kind == 2 && x.tie < 0) {c.cat("ctor_rate_and_eps_same_object");}
    if (x.tie >= 0) {c.cat("steady_rate_exactly_on_threshold");}
    if (x.prefix_kind != 0) {
      c.cat(x.prefix_16 ? "long_prefix_2p16" : "long_prefix_2p8");
      c.cat(x.prefix_kind <= 2 ? "long_prefix_of_stamps" : "long_prefix_of_heartbeats");
    }
    static const char * const STYLE[] = {"args_named_lvalue", "args_temporary", "args_std_move", "args_freed_after_call"};
    c.cat(STYLE[x.arg_style]);
    if (x.default_ctor) {c.cat("monitor_default_ctor_then_initialize");}
    if (x.interference) {c.cat("interference_steps");}
    if (x.nswitch && drive_cu) {
      c.cat("locale_switched_during_history");
      for (int i = 0; i < x.nswitch; ++i) {
        if (x.sw[i].pos < 0) {c.cat("locale_switch_before_first_evaluation");}
        if (x.sw[i].where == 1) {c.cat("locale_switch_between_call_and_getReport");}
        c.cat(x.sw[i].loc == 0 ? "locale_switch_to_classic" : (x.sw[i].loc == 1 ? "locale_switch_to_decimal_comma" :
          "locale_switch_to_comma_and_grouping"));
      }
    }
    c.count("stamps", nst);
    c.count("heartbeats", nhb);
    c.count("timeouts", m.timeouts);
    c.count("recoveries", m.recoveries);
  }
  auto sample = [&]() {
      std::vector<int64_t> head;
      for (size_t i = 0; i < ev.size() && i < 6; ++i) {head.push_back(ev[i].t);}
      return vh::J().f("expected_rate", cfg.rate).f("epsilon", cfg.eps).s("name", cfg.name).f("W", W)
             .s("periods", PERIOD_MODES[pmode]).s("heartbeats", HB_MODES[hbmode])
             .f("events", static_cast<uint64_t>(ev.size())).f("stamps", nst)
             .f("arg_style", x.arg_style).f("copy_kind", x.copy_kind).f("prefix_kind", x.prefix_kind)
             .arr("first_event_times_ns", head.begin(), head.end()).str();
    };
  c.sample(std::string("periods_") + PERIOD_MODES[pmode], sample);

  // ---- global locale switches (only in histories that reach the check-ups)
  int cur_loc = 0;                       // locale in force
  int val_loc[2] = {0, 0};               // locale in force when the check-up last formatted its value
  std::string exp_val[2];                // what a fresh stream printed for the modelled rate at that moment
  bool seen_grouped = false, seen_comma = false;
  const bool locale_case = x.nswitch > 0 && drive_cu;
  size_t sw_k[3] = {0, 0, 0};
  for (int i = 0; i < x.nswitch; ++i) {
    sw_k[i] = x.sw[i].pos < 0 ? 0 : static_cast<size_t>(x.sw[i].pos * static_cast<double>(ev.size()));
  }
  auto apply_switches = [&](size_t at, int where) {
      if (!locale_case) {return;}
      for (int i = 0; i < x.nswitch; ++i) {
        if (sw_k[i] == at && x.sw[i].where == where && !(x.sw[i].pos < 0)) {
          cur_loc = x.sw[i].loc;
          std::locale::global(loc_of(cur_loc));
          c.count("locale_switches");
        }
      }
    };
  if (locale_case && x.sw[0].pos < 0) {
    // before anything is constructed, hence before the very first evaluation
    cur_loc = x.sw[0].loc;
    std::locale::global(loc_of(cur_loc));
    c.count("locale_switches");
  }

  // ---- construct the real objects.  The constructor arguments live on the heap, are overwritten
  // and freed right after construction (nothing may keep a reference to them); with eps_kind 2
  // the very same double object is passed for the rate and for the tolerance.
  const std::string key = cfg.name + "_rate";
  std::unique_ptr<RateMonitoring> mon;
  std::optional<CheckupEqualToRate> cu_eq_s;
  std::optional<CheckupGreaterThanRate> cu_gt_s;
  {
    auto pn = std::make_unique<std::string>(cfg.name);
    auto pr = std::make_unique<double>(cfg.rate);
    auto pe = std::make_unique<double>(cfg.eps);
    const double & eps_ref = (x.eps_kind == 2 && x.tie < 0) ? *pr : *pe;
    if (x.default_ctor) {
      mon = std::make_unique<RateMonitoring>();
      if (x.arg_style == 1) {mon->initialize(double(cfg.rate));} else {mon->initialize(*pr);}
    } else if (x.arg_style == 1) {
      mon = std::make_unique<RateMonitoring>(double(cfg.rate));
    } else {
      mon = std::make_unique<RateMonitoring>(*pr);
    }
    if (x.arg_style == 1 && x.eps_kind != 2) {
      cu_eq_s.emplace(std::string(cfg.name), double(cfg.rate), double(cfg.eps));
      cu_gt_s.emplace(std::string(cfg.name), double(cfg.rate), double(cfg.eps));
    } else if (x.arg_style == 2 && x.eps_kind != 2) {
      std::string n1 = cfg.name, n2 = cfg.name;
      double r1 = cfg.rate, e1 = cfg.eps, r2 = cfg.rate, e2 = cfg.eps;
      cu_eq_s.emplace(std::move(n1), std::move(r1), std::move(e1));
      cu_gt_s.emplace(std::move(n2), std::move(r2), std::move(e2));
    } else {
      cu_eq_s.emplace(*pn, *pr, eps_ref);
      cu_gt_s.emplace(*pn, *pr, eps_ref);
    }
    *pn = "CLOBBERED is OK too low too high timeout";
    *pr = std::numeric_limits<double>::quiet_NaN();
    *pe = std::numeric_limits<double>::quiet_NaN();
  }
  CheckupEqualToRate & cu_eq = *cu_eq_s;
  CheckupGreaterThanRate & cu_gt = *cu_gt_s;
  const CheckupEqualToRate & ccu_eq = cu_eq;          // observations go through const access
  const CheckupGreaterThanRate & ccu_gt = cu_gt;
  auto rate_now = [&]() {const RateMonitoring & cm = *mon; return cm.getRate();};

  // every by-reference call in one of four argument styles
  auto call = [&](int64_t t, auto && fn) {
      switch (x.arg_style) {
        case 0: {const Duration d(t); return fn(d);}
        case 1: return fn(romea::core::durationFromNanoSecond(t));
        case 2: {Duration d(t); return fn(std::move(d));}
        default: {
            auto p = std::make_unique<Duration>(t);
            auto res = fn(*p);
            *p = Duration(0x5a5a5a5a5a5a5a5aLL);
            p.reset();
            return res;
          }
      }
    };
  auto do_update = [&](int64_t t) {
      return call(t, [&](auto && d) {return mon->update(std::forward<decltype(d)>(d));});
    };
  auto do_timeout = [&](int64_t t) {
      return call(t, [&](auto && d) {return mon->timeout(std::forward<decltype(d)>(d));});
    };
  auto do_eval_eq = [&](int64_t t) {
      return call(t, [&](auto && d) {return cu_eq.evaluate(std::forward<decltype(d)>(d));});
    };
  auto do_eval_gt = [&](int64_t t) {
      return call(t, [&](auto && d) {return cu_gt.evaluate(std::forward<decltype(d)>(d));});
    };
  auto do_hb_eq = [&](int64_t t) {
      return call(t, [&](auto && d) {return cu_eq.heartBeatCallback(std::forward<decltype(d)>(d));});
    };
  auto do_hb_gt = [&](int64_t t) {
      return call(t, [&](auto && d) {return cu_gt.heartBeatCallback(std::forward<decltype(d)>(d));});
    };

  Model m(W);
  const Model * pm = &m;       // model the violation records describe (the fork's while a copy is driven)
  size_t k = 0;                // event index
  int who = 0;                 // 0 monitor, 1 equal-to, 2 greater-than, 3 copy of the monitor
  int copied = 0;              // copy variant already applied to the monitor under test
  LD mrate = 0;
  Obs cur;
  double lib_rate = 0;
  bool seen_ok = false, seen_low = false, seen_high = false, seen_stale = false, seen_nodata = false;
  bool seen_tie = false;
  uint64_t band_skips[2] = {0, 0};

  const std::function<vh::Params()> params = [&]() {
      const Ev & e = ev[k < ev.size() ? k : ev.size() - 1];
      const Model & mm = *pm;
      // heartbeat: time since the last stamp; data stamp (already in the model): its period
      double since = 0.0;
      if (who == 3) {since = 0.0;} else if (e.hb) {
        since = mm.st.empty() ? 0.0 : static_cast<double>(e.t - mm.st.back());
      } else if (mm.st.size() >= 2) {
        since = static_cast<double>(mm.st.back() - mm.st[mm.st.size() - 2]);
      }
      return vh::Params{{"expected_rate", cfg.rate}, {"epsilon", cfg.eps}, {"W", static_cast<double>(W)},
        {"object", static_cast<double>(who)}, {"event", static_cast<double>(k)},
        {"is_heartbeat", e.hb ? 1.0 : 0.0}, {"stamps_so_far", static_cast<double>(mm.st.size())},
        {"ns_since_last_stamp", since}, {"model_rate", static_cast<double>(mrate)},
        {"arg_style", static_cast<double>(x.arg_style)}, {"copied", static_cast<double>(copied)},
        {"first_stamp_ns", mm.st.empty() ? 0.0 : static_cast<double>(mm.st.front())}};
    };
  const std::function<std::string()> wit = [&]() {
      const Model & mm = *pm;
      size_t a = mm.st.size() > static_cast<size_t>(W) + 2 ? mm.st.size() - W - 2 : 0;
      std::vector<int64_t> tail(mm.st.begin() + a, mm.st.end());
      const Ev & e = ev[k < ev.size() ? k : ev.size() - 1];
      static const char * const OBJ[] = {"RateMonitoring", "CheckupEqualToRate", "CheckupGreaterThanRate",
        "copy of RateMonitoring"};
      return vh::J().f("expected_rate", cfg.rate).f("epsilon", cfg.eps).s("name", cfg.name).f("W", W)
             .s("object", OBJ[who])
             .f("event", static_cast<uint64_t>(k)).boolean("event_is_heartbeat", e.hb).f("event_time_ns", e.t)
             .f("heartbeat_kind", e.kind).arr("last_stamps_ns", tail.begin(), tail.end())
             .f("model_rate", mrate).f("library_rate", lib_rate)
             .f("arg_style", x.arg_style).f("copy_kind", x.copy_kind).f("prefix_kind", x.prefix_kind)
             .boolean("default_ctor", x.default_ctor)
             .s("status", status_name(cur.status)).s("message", cur.message).s("value", cur.value).str();
    };

  Fast f{c, params, wit};

  // check of one check-up's report against the model state; returns false after a violation
  auto check_report = [&](bool equal_to, const Obs & o) -> bool {
      cur = o;
      const Names & n = equal_to ? N_EQ : N_GT;
      if (!f.expect(n.shape.c_str(), o.shape_ok, "checkup_report_shape")) {return false;}
      if (m.cu == NO_DATA) {
        bool ok = o.status == DiagnosticStatus::ERROR && has(o.message, "no data received") && o.value.empty();
        seen_nodata = true;
        return f.expect(n.no_data.c_str(), ok, "checkup_no_data");
      }
      if (m.cu == STALE_S) {
        bool ok = o.status == DiagnosticStatus::STALE && o.value.empty() && has(o.message, "timeout") &&
          verdict_of_message(o.message) == 0;
        seen_stale = true;
        return f.expect(n.stale.c_str(), ok, "checkup_stale");
      }
      // evaluated: verdict by the thresholds
      int allowed = allowed_verdicts(equal_to, mrate, cfg);
      int mv = verdict_of_message(o.message);
      int sv = 0;      // verdict classes compatible with the status
      if (o.status == DiagnosticStatus::OK) {sv = V_OK;} else if (o.status == DiagnosticStatus::ERROR) {
        sv = V_LOW | V_HIGH;
      }
      bool single = (allowed == V_OK || allowed == V_LOW || allowed == V_HIGH);
      // message and status agree with each other, and the message names the monitored quantity
      bool consistent = (mv == V_OK || mv == V_LOW || mv == V_HIGH) && (mv & sv) != 0 &&
        has(o.message, key.c_str()) && !has(o.message, "timeout") && !has(o.message, "no data");
      if (!f.expect(n.msg.c_str(), consistent, "checkup_message")) {return false;}
      if (single) {
        if (!f.expect(n.status.c_str(), mv == allowed, "checkup_status")) {return false;}
      } else {
        ++band_skips[equal_to ? 0 : 1];
        LD lo = static_cast<LD>(cfg.rate) - static_cast<LD>(cfg.eps), hi = static_cast<LD>(cfg.rate) + static_cast<LD>(cfg.eps);
        if (mrate == lo || mrate == hi) {seen_tie = true;}
        if (!f.expect(n.status_band.c_str(), (mv & allowed) != 0, "checkup_status")) {return false;}
      }
      if (mv == V_OK) {seen_ok = true;} else if (mv == V_LOW) {seen_low = true;} else {seen_high = true;}
      // value string = the rate, to the 6 significant digits of the default stream format, read
      // according to the global locale that was in force when the check-up formatted it
      const int vl = val_loc[equal_to ? 0 : 1];
      const LD unit6 = mrate > 0 ? powl(10.0L, floorl(log10l(mrate)) - 5.0L) : 0;   // one unit of the 6th digit
      const LD vtol = unit6 + 1e-12L * mrate;
      auto read = [&](int loc, double & pv) -> bool {
          std::string norm;
          if (o.value.empty() || !delocalize(o.value, loc, norm)) {return false;}
          char * end = nullptr;
          pv = std::strtod(norm.c_str(), &end);
          return end && *end == '\0' && std::isfinite(pv);
        };
      auto agrees = [&](double pv) {
          return mrate == 0 ? pv == 0.0 : fabsl(static_cast<LD>(pv) - mrate) <= vtol * c.tol_scale;
        };
      double pv = NAN;
      const bool parsed = read(vl, pv);
      if (locale_case) {
        if (!(parsed && agrees(pv))) {
          // the right number in the punctuation of another locale is a failure of its own kind
          for (int l2 = 0; l2 < 3; ++l2) {
            double p2 = NAN;
            if (l2 != vl && read(l2, p2) && agrees(p2)) {
              return f.expect(n.value_locale.c_str(), false, "info_value_locale");
            }
          }
        } else {
          f.expect(n.value_locale.c_str(), true, "info_value_locale");
        }
      }
      if (!f.expect(n.value_parses.c_str(), parsed, "checkup_value")) {return false;}
      if (mrate == 0) {
        if (!f.expect(n.value_zero.c_str(), pv == 0.0, "checkup_value")) {return false;}
      } else if (!f.expect_le(n.value_vs_rate.c_str(), fabsl(static_cast<LD>(pv) - mrate), vtol, "checkup_value")) {
        return false;
      }
      if (locale_case) {
        // exactly what a fresh stream printed at the time of the formatting call; the library's double may
        // differ from the modelled rate in the last places, so its neighbours are admitted as well
        if (o.value.find(',') != std::string::npos) {seen_comma = true;}
        if (vl == 2 && o.value.find('.') != std::string::npos) {seen_grouped = true;}
        bool same = o.value == exp_val[equal_to ? 0 : 1];
        if (!same) {
          double lo = static_cast<double>(mrate), hi = lo;
          for (int j = 0; j < 8 && !same; ++j) {
            lo = std::nextafter(lo, 0.0); hi = std::nextafter(hi, INFINITY);
            for (double d : {lo, hi}) {
              std::ostringstream os;
              os.imbue(loc_of(vl));
              os << d;
              if (os.str() == o.value) {same = true;}
            }
          }
        }
        return f.expect(n.value_fresh.c_str(), same, "info_value_locale");
      }
      return true;
    };
  auto finish_case = [&]() {
      if (seen_ok) {c.cat("status_ok_seen");}
      if (seen_low) {c.cat("status_too_low_seen");}
      if (seen_high) {c.cat("status_too_high_seen");}
      if (seen_stale) {c.cat("status_stale_seen");}
      if (seen_nodata) {c.cat("status_no_data_seen");}
      if (seen_tie) {c.cat("rate_exactly_on_threshold_seen");}
      if (seen_comma) {c.cat("value_with_decimal_comma_seen");}
      if (seen_grouped) {c.cat("value_with_thousands_grouping_seen");}
      if (band_skips[0]) {c.skips[N_EQ.skip] += band_skips[0];}
      if (band_skips[1]) {c.skips[N_GT.skip] += band_skips[1];}
    };

  // before anything: both check-ups say "no data", the monitor says 0.  These first reports are
  // bound as the signature allows and kept until the end of the case (result stability).
  const auto & first_eq = ccu_eq.getReport();
  const auto & first_gt = ccu_gt.getReport();
  Obs prev_eq = observe(first_eq, key), prev_gt = observe(first_gt, key);
  const Obs first_eq_obs = prev_eq, first_gt_obs = prev_gt;
  std::optional<DiagnosticReport> mid_eq, mid_gt;
  Obs mid_eq_obs, mid_gt_obs;
  lib_rate = rate_now();
  {
    who = 1; bool ok = check_report(true, prev_eq);
    who = 2; ok = check_report(false, prev_gt) && ok;
    who = 0; ok = f.expect("monitor.initial_rate_zero", lib_rate == 0.0, "rate_mismatch") && ok;
    if (!ok) {finish_case(); return;}
  }

  // ---- value semantics of the monitor (the check-ups hold mutexes and cannot be copied)
  std::unique_ptr<RateMonitoring> fork;
  std::optional<Model> fork_model;
  double fork_rate = 0;
  const size_t copy_k = x.copy_kind ? static_cast<size_t>(x.copy_at * static_cast<double>(ev.size())) : ev.size();
  const size_t snap_k = static_cast<size_t>(x.snapshot_at * static_cast<double>(ev.size()));
  auto copy_step = [&]() -> bool {
      bool ok = true;
      who = 3;
      if (x.copy_kind == 1 || x.copy_kind == 2) {
        // the copy replaces the source, which is destroyed; the history simply continues on the copy
        std::unique_ptr<RateMonitoring> cp = x.copy_kind == 1 ?
          std::make_unique<RateMonitoring>(static_cast<const RateMonitoring &>(*mon)) :
          std::make_unique<RateMonitoring>(std::move(*mon));
        mon.reset();
        mon = std::move(cp);
        copied = x.copy_kind;
        c.cat(x.copy_kind == 1 ? "monitor_copy_then_source_destroyed" : "monitor_move_then_source_destroyed");
        return f.expect("copy.rate_equals_source", rate_now() == lib_rate, "copy_semantics");
      }
      // fork: the copy is fed its own continuation and checked against a copy of the model; afterwards
      // the source must be untouched (and keeps being checked by the ordinary history)
      c.cat("monitor_copy_forked");
      fork = std::make_unique<RateMonitoring>(static_cast<const RateMonitoring &>(*mon));
      fork_model = m;
      Model & m2 = *fork_model;
      pm = &m2;
      const LD saved_mrate = mrate;
      const double saved_lib = lib_rate;
      ok = f.expect("copy.rate_equals_source", fork->getRate() == saved_lib, "copy_semantics") && ok;
      int64_t tb = m2.st.empty() ? ev[k].t : m2.st.back();
      double frate = fork->getRate();
      int n = static_cast<int>(q.range(1, W + 3));
      for (int i = 0; i < n && ok; ++i) {
        if (!m2.st.empty() && q.coin(0.25)) {
          int64_t h = tb + (q.coin() ? q.range(0, HALF_S) : q.range(HALF_S + 1, 3000000000LL));
          bool to = m2.heartbeat(h);
          mrate = m2.rate();
          bool lib_to = fork->timeout(Duration(h));
          lib_rate = fork->getRate();
          ok = f.expect("copy.timeout_flag", lib_to == to, "copy_semantics") && ok;
          ok = f.expect("copy.rate_after_heartbeat", to ? lib_rate == 0.0 : lib_rate == frate, "copy_semantics") && ok;
        } else {
          tb += clip_period(q.logu(1e3, 1e10));
          m2.stamp(tb);
          mrate = m2.rate();
          double ret = fork->update(Duration(tb));
          lib_rate = fork->getRate();
          ok = f.expect("copy.update_returns_rate", ret == lib_rate, "copy_semantics") && ok;
          if (mrate == 0) {
            ok = f.expect("copy.rate_zero_until_window_full", lib_rate == 0.0, "copy_semantics") && ok;
          } else {
            ok = f.expect_le("copy.rate_rel", fabsl(static_cast<LD>(lib_rate) - mrate) / mrate, 1e-12L,
                "copy_semantics") && ok;
          }
        }
        frate = lib_rate;
      }
      fork_rate = frate;
      pm = &m;
      mrate = saved_mrate;
      lib_rate = saved_lib;
      who = 0;
      ok = f.expect("copy.source_unaffected_by_copy", rate_now() == saved_lib, "copy_semantics") && ok;
      return ok;
    };

  // ---- neighbouring facilities sharing hidden state, if there were any: other objects of the same
  // classes (one of them with the same name), stream formatting state, the library's report helpers
  std::unique_ptr<RateMonitoring> decoy_mon;
  std::optional<CheckupEqualToRate> decoy_eq;
  std::optional<CheckupGreaterThanRate> decoy_gt;
  int64_t decoy_t = 0;
  size_t sink = 0;
  bool prev_valid = true;
  auto interfere = [&]() -> bool {
      if (!decoy_mon) {
        double orate = cfg.rate < 50 ? cfg.rate * 3 + 1 : cfg.rate / 7;
        decoy_mon = std::make_unique<RateMonitoring>(orate);
        decoy_eq.emplace(cfg.name, orate, 0.25);
        decoy_gt.emplace("decoy", orate, 2.0);
      }
      int n = static_cast<int>(q.range(1, 6));
      for (int i = 0; i < n; ++i) {
        decoy_t += q.coin(0.8) ? q.range(1000, 200000000LL) : q.range(HALF_S, 3000000000LL);
        decoy_mon->update(Duration(decoy_t));
        decoy_eq->evaluate(Duration(decoy_t));
        decoy_gt->evaluate(Duration(decoy_t));
        if (q.coin(0.3)) {
          int64_t h = decoy_t + q.range(0, 1000000000LL);
          decoy_mon->timeout(Duration(h));
          decoy_eq->heartBeatCallback(Duration(h));
          decoy_gt->heartBeatCallback(Duration(h));
        }
      }
      std::ostringstream os;
      os << std::fixed << std::setprecision(12) << std::showpos << 1.0 / 3 << decoy_eq->getReport()
         << DiagnosticStatus::STALE << std::scientific << std::setprecision(2) << 12345.678;
      std::cout.precision(static_cast<int>(q.range(1, 17)));
      std::cout.setf(q.coin() ? std::ios::scientific : std::ios::fixed, std::ios::floatfield);
      DiagnosticReport rep = decoy_gt->getReport();
      romea::core::setReportInfo(rep, key, 0.125);
      rep += decoy_eq->getReport();
      sink += os.str().size() + romea::core::toStringInfoValue(123456.789).size() +
        romea::core::toString(romea::core::worseStatus(rep.diagnostics)).size() +
        romea::core::asString(Duration(decoy_t)).size() + (romea::core::allOK(rep.diagnostics) ? 1 : 0);
      c.count("interference_steps");
      bool ok = true;
      who = 0;
      ok = f.expect("interference.rate_unchanged", rate_now() == lib_rate, "interference") && ok;
      if (drive_cu && prev_valid) {
        who = 1; cur = observe(ccu_eq.getReport(), key);
        ok = f.expect("interference.report_eq_unchanged", cur == prev_eq, "interference") && ok;
        who = 2; cur = observe(ccu_gt.getReport(), key);
        ok = f.expect("interference.report_gt_unchanged", cur == prev_gt, "interference") && ok;
      }
      return ok;
    };

  for (k = 0; k < ev.size(); ++k) {
    const Ev & e = ev[k];
    bool ok = true;
    apply_switches(k, 0);
    if (e.quiet) {
      // ---------------------------------------------------------------- unobserved repetition
      if (!e.hb) {
        m.stamp(e.t);
        do_update(e.t);
        if (locale_case) {
          val_loc[0] = val_loc[1] = cur_loc;
          exp_val[0] = exp_val[1] = fresh_stream_format(static_cast<double>(m.rate()));
        }
        if (drive_cu) {do_eval_eq(e.t); do_eval_gt(e.t);}
      } else {
        m.heartbeat(e.t);
        do_timeout(e.t);
        if (drive_cu) {do_hb_eq(e.t); do_hb_gt(e.t);}
      }
      mrate = m.rate();
      lib_rate = rate_now();
      prev_valid = false;
      continue;
    }
    if (!e.hb) {
      // ------------------------------------------------------------------ data stamp
      m.stamp(e.t);
      mrate = m.rate();
      const double ret = do_update(e.t);
      lib_rate = rate_now();
      who = 0;
      ok = f.expect("monitor.update_returns_rate", ret == lib_rate, "rate_mismatch") && ok;
      if (mrate == 0) {
        ok = f.expect("monitor.rate_zero_until_window_full", lib_rate == 0.0, "rate_mismatch") && ok;
      } else {
        ok = f.expect_le("monitor.rate_rel", fabsl(static_cast<LD>(lib_rate) - mrate) / mrate, 1e-12L,
            "rate_mismatch") && ok;
      }
      if (drive_cu) {
        if (locale_case) {val_loc[0] = cur_loc; exp_val[0] = fresh_stream_format(static_cast<double>(mrate));}
        const DiagnosticStatus s1 = do_eval_eq(e.t);
        apply_switches(k, 1);            // between evaluate and the getReport that observes it
        Obs o1 = observe(ccu_eq.getReport(), key);
        if (locale_case) {val_loc[1] = cur_loc; exp_val[1] = fresh_stream_format(static_cast<double>(mrate));}
        const DiagnosticStatus s2 = do_eval_gt(e.t);
        Obs o2 = observe(ccu_gt.getReport(), key);
        who = 1;
        ok = (check_report(true, o1) && f.expect(N_EQ.eval_ret.c_str(), s1 == o1.status, "checkup_return")) && ok;
        who = 2;
        ok = (check_report(false, o2) && f.expect(N_GT.eval_ret.c_str(), s2 == o2.status, "checkup_return")) && ok;
        prev_eq = std::move(o1);
        prev_gt = std::move(o2);
        prev_valid = true;
      }
    } else {
      // ------------------------------------------------------------------ heartbeat
      const bool to = m.heartbeat(e.t);
      mrate = m.rate();
      const double before = lib_rate;
      const bool lib_to = do_timeout(e.t);
      lib_rate = rate_now();
      who = 0;
      ok = f.expect("monitor.timeout_flag", lib_to == to, "timeout_flag") && ok;
      if (to) {
        ok = f.expect("monitor.timeout_forces_rate_zero", lib_rate == 0.0, "timeout_rate_not_zero") && ok;
      } else {
        ok = f.expect("monitor.early_heartbeat_changes_nothing", lib_rate == before, "heartbeat_side_effect") && ok;
      }
      if (drive_cu) {
        const bool r1 = do_hb_eq(e.t);
        apply_switches(k, 1);            // between heartBeatCallback and the getReport that observes it
        Obs o1 = observe(ccu_eq.getReport(), key);
        const bool r2 = do_hb_gt(e.t);
        Obs o2 = observe(ccu_gt.getReport(), key);
        who = 1; cur = o1;
        ok = f.expect(N_EQ.hb_ret.c_str(), r1 == !to, "timeout_flag") && ok;
        if (!to && prev_valid) {
          ok = f.expect(N_EQ.hb_nochange.c_str(), o1 == prev_eq, "heartbeat_side_effect") && ok;
        }
        ok = check_report(true, o1) && ok;
        who = 2; cur = o2;
        ok = f.expect(N_GT.hb_ret.c_str(), r2 == !to, "timeout_flag") && ok;
        if (!to && prev_valid) {
          ok = f.expect(N_GT.hb_nochange.c_str(), o2 == prev_gt, "heartbeat_side_effect") && ok;
        }
        ok = check_report(false, o2) && ok;
        prev_eq = std::move(o1);
        prev_gt = std::move(o2);
        prev_valid = true;
      }
    }
    if (ok && k == snap_k && drive_cu) {
      mid_eq = ccu_eq.getReport(); mid_eq_obs = prev_eq;
      mid_gt = ccu_gt.getReport(); mid_gt_obs = prev_gt;
    }
    if (ok && k == copy_k) {ok = copy_step();}
    if (ok && x.interference && q.coin(0.06)) {ok = interfere();}
    if (!ok) {break;}       // the objects have left the model's trajectory: stop this history
  }
  // ---- end of the case: everything retained is still what it was
  who = 1; cur = observe(first_eq, key);
  bool stable = cur == first_eq_obs && (!mid_eq || observe(*mid_eq, key) == mid_eq_obs);
  f.expect("checkup_eq.retained_reports_stable", stable, "result_stability");
  who = 2; cur = observe(first_gt, key);
  stable = cur == first_gt_obs && (!mid_gt || observe(*mid_gt, key) == mid_gt_obs);
  f.expect("checkup_gt.retained_reports_stable", stable, "result_stability");
  if (fork) {
    who = 3; pm = &*fork_model;
    const RateMonitoring & cf = *fork;
    f.expect("copy.unaffected_by_later_use_of_source", cf.getRate() == fork_rate, "copy_semantics");
    pm = &m;
  }
  if (sink == 0x7fffffff) {c.count("never");}
  c.count("nonzero_rate_histories", mrate > 0 || m.recoveries > 0 ? 1 : 0);
  finish_case();
}

int main(int argc, char ** argv)
{
  return vh::run(argc, argv, "C17", {30000, 1000000}, one_case);
}
