// C17  Rate monitoring and rate check-ups follow the stamped-event history exactly.
//
// One case = one configuration (expected rate, tolerance, name) and one history of up to 500
// events (data stamps with strictly increasing integer-nanosecond times, heartbeats with
// arbitrary times).  The same history is fed to the three real objects
//     RateMonitoring, CheckupEqualToRate, CheckupGreaterThanRate
// and, after every single event, what they report is compared with a sequential reference
// model that keeps the *list of stamps* (not a queue of periods and a running sum):
//     W      = clamp(floor(2 * expected rate), 4, 64)
//     rate   = 0 while fewer than W+1 stamps, or after a timeout until the next stamp,
//              else W * 1e9 / (t_last - t_{last-W})            (long double, integer ns span)
//     heartbeat h: timeout  <=>  a stamp exists and h - t_last > 500 000 000 ns (integers)
//     check-up: NO_DATA -> (stamp) EVALUATED(rate) -> (timeout) STALE -> (stamp) EVALUATED ...
// Nothing of the library's arithmetic is mirrored; thresholds get an ambiguity band.
#include <cinttypes>
#include <string>
#include <vector>

#include "romea_core_common/diagnostic/CheckupRate.hpp"
#include "romea_core_common/monitoring/RateMonitoring.hpp"
#include "vh.hpp"

using romea::core::CheckupEqualToRate;
using romea::core::CheckupGreaterThanRate;
using romea::core::DiagnosticReport;
using romea::core::DiagnosticStatus;
using romea::core::Duration;
using romea::core::RateMonitoring;
typedef long double LD;

namespace
{

const int64_t HALF_S = 500000000LL;
const int64_t PMIN = 1000LL;            // 1 us
const int64_t PMAX = 10000000000LL;     // 10 s
const unsigned MAX_EVENTS = 500;

enum HbKind
{
  HB_NONE = 0, HB_CLOCK, HB_M1, HB_EXACT, HB_P1, HB_EARLY, HB_LATE, HB_PAST, HB_SAME, HB_FAR,
  HB_PRE_FIRST
};

struct Ev {bool hb; int64_t t; int kind;};

struct Config
{
  double rate, eps;
  std::string name;
  int W;
};

// ------------------------------------------------------------------------------------------
// reference model
// ------------------------------------------------------------------------------------------
enum CuState {NO_DATA, EVALUATED, STALE_S};

struct Model
{
  int W;
  std::vector<int64_t> st;
  bool rate_forced_zero = false;
  CuState cu = NO_DATA;
  // statistics of the history (used for categories / non-triviality)
  unsigned timeouts = 0, recoveries = 0, timeouts_before_full = 0;
  bool nonconstant = false;

  explicit Model(int w)
  : W(w) {}
  bool full() const {return st.size() >= static_cast<size_t>(W) + 1;}
  LD rate() const
  {
    if (rate_forced_zero || !full()) {return 0;}
    int64_t span = st.back() - st[st.size() - 1 - W];
    return static_cast<LD>(W) * 1e9L / static_cast<LD>(span);
  }
  void stamp(int64_t t)
  {
    if (st.size() >= 2 && (t - st.back()) != (st.back() - st[st.size() - 2])) {nonconstant = true;}
    bool was_timed_out = rate_forced_zero;
    st.push_back(t);
    rate_forced_zero = false;
    cu = EVALUATED;
    if (was_timed_out && full()) {++recoveries;}
  }
  // returns true when the heartbeat is a timeout
  bool heartbeat(int64_t h)
  {
    if (st.empty()) {return false;}
    if (h - st.back() > HALF_S) {
      if (!rate_forced_zero) {++timeouts; if (!full()) {++timeouts_before_full;}}
      rate_forced_zero = true;
      cu = STALE_S;
      return true;
    }
    return false;
  }
};

int window_of(double rate)
{
  LD w = floorl(2.0L * static_cast<LD>(rate));
  if (w < 4) {w = 4;}
  if (w > 64) {w = 64;}
  return static_cast<int>(w);
}

// ------------------------------------------------------------------------------------------
// generators
// ------------------------------------------------------------------------------------------
int64_t clip_period(double p)
{
  if (!(p >= static_cast<double>(PMIN))) {return PMIN;}
  if (p >= static_cast<double>(PMAX)) {return PMAX;}
  return static_cast<int64_t>(p);
}

const char * const PERIOD_MODES[] = {"steady", "jittered", "bursty", "silences", "loguniform",
  "near_threshold", "extremes"};
const char * const HB_MODES[] = {"none", "clocked", "adversarial", "mixed"};

struct PeriodGen
{
  int mode;
  double base;
  double jitter = 0;
  double silence_p = 0;
  int burst_left = 0;
  double burst_period = 1000;
  int64_t next(vh::Rng & r)
  {
    switch (mode) {
      case 0: return clip_period(base);
      case 1: return clip_period(base * (1.0 + jitter * r.uni(-1.0, 1.0)));
      case 2:
        if (burst_left > 0) {--burst_left; return clip_period(burst_period * (1.0 + 0.2 * r.uni(-1, 1)));}
        burst_left = static_cast<int>(r.range(1, 40));
        burst_period = r.logu(1e3, 1e6);
        return clip_period(r.logu(1e6, 1e10));
      case 3:
        if (r.coin(silence_p)) {
          // silences concentrated around the 0.5 s timeout, up to the 10 s limit
          return r.coin(0.4) ? clip_period(r.uni(4.0e8, 7.0e8)) : clip_period(r.logu(5e8, 1e10));
        }
        return clip_period(base * (1.0 + jitter * r.uni(-1.0, 1.0)));
      case 4: return clip_period(r.logu(1e3, 1e10));
      case 5: return clip_period(base + static_cast<double>(r.range(-1, 1)) * jitter);
      default: {
          static const int64_t X[] = {1000, 1001, 10000000000LL, 9999999999LL, 499999999, 500000000,
            500000001, 1000000, 100000000};
          return X[r.range(0, 8)];
        }
    }
  }
};

void gen_case(vh::Rng & r, Config & cfg, std::vector<Ev> & ev, int & pmode, int & hbmode, int & t0kind)
{
  // ---- configuration
  int rk = static_cast<int>(r.range(0, 9));
  if (rk <= 3) {
    static const double R[] = {0.5, 1, 2, 2.5, 5, 10, 20, 31.5, 32, 32.5, 50, 100, 200, 1.5, 3};
    cfg.rate = R[r.range(0, 14)];
  } else if (rk <= 5) {
    cfg.rate = static_cast<double>(r.range(1, 400)) / 2.0;
  } else if (rk <= 7) {
    cfg.rate = r.logu(0.5, 200.0);
  } else {
    cfg.rate = r.uni(0.5, 40.0);      // window between the clamps, 2*rate not an integer
  }
  if (r.coin(0.4)) {
    static const double E[] = {1e-3, 0.01, 0.1, 0.5, 1.0, 2.0, 10.0};
    cfg.eps = E[r.range(0, 6)];
  } else {
    cfg.eps = r.logu(1e-3, 10.0);
  }
  static const char * const N[] = {"foo", "imu", "gps/fix", "lidar_front", "a b", "x"};
  cfg.name = N[r.range(0, 5)];
  cfg.W = window_of(cfg.rate);

  // ---- history shape
  unsigned L;
  int lk = static_cast<int>(r.range(0, 9));
  if (lk <= 1) {L = static_cast<unsigned>(r.range(1, cfg.W + 3));} else if (lk <= 4) {
    L = static_cast<unsigned>(r.range(cfg.W + 1, 2 * cfg.W + 6));
  } else if (lk == 5) {L = MAX_EVENTS;} else {L = static_cast<unsigned>(r.range(2, MAX_EVENTS));}
  if (L > MAX_EVENTS) {L = MAX_EVENTS;}

  PeriodGen pg;
  pg.mode = pmode = static_cast<int>(r.range(0, 6));
  if (r.coin(0.55)) {
    static const double F[] = {1.0, 1.0, 0.5, 2.0, 0.9, 1.1};
    double f = r.coin(0.6) ? F[r.range(0, 5)] : r.uni(0.8, 1.25);
    pg.base = 1e9 / (cfg.rate * f);
  } else {
    pg.base = r.logu(1e3, 1e10);
  }
  static const double JIT[] = {1e-6, 0.01, 0.1, 0.5, 0.9};
  pg.jitter = JIT[r.range(0, 4)];
  pg.silence_p = r.coin() ? 0.02 : 0.15;
  if (pg.mode == 5) {
    // steady periods that put the rate within a few ns-quantisation steps of a threshold
    double s = static_cast<double>(r.range(-1, 1));
    double thr = cfg.rate + s * cfg.eps;
    if (!(thr > 0.11)) {thr = cfg.rate;}
    pg.base = std::floor(1e9 / thr) + static_cast<double>(r.range(-3, 3));
    pg.jitter = r.coin(0.6) ? 0.0 : 1.0;     // +-1 ns wobble
  }

  hbmode = static_cast<int>(r.range(0, 3));
  double hb_p = r.coin() ? 0.08 : (r.coin() ? 0.3 : 0.6);
  static const int64_t CLK[] = {100000000, 50000000, 250000000, 1000000000, 499999999, 500000001};
  int64_t clk_period = CLK[r.range(0, 5)];

  // ---- first stamp
  int64_t t0;
  t0kind = static_cast<int>(r.range(0, 9));
  switch (t0kind) {
    case 0: case 1: t0 = 0; t0kind = 0; break;
    case 2: t0 = 1; break;
    case 3: case 4: t0 = r.range(1, 2000000000LL); t0kind = 3; break;
    case 5: case 6: t0 = 1700000000000000000LL + r.range(0, 100000000000000000LL); t0kind = 5; break;
    case 7: t0 = r.range(1, 1000000000000000LL); break;
    default: t0 = -r.range(1, 1000000000000LL); t0kind = 8; break;
  }

  ev.clear();
  // heartbeats before the first stamp
  if (hbmode != 0 && r.coin(0.35)) {
    int k = static_cast<int>(r.range(1, 3));
    for (int i = 0; i < k && ev.size() + 1 < L; ++i) {
      int64_t h;
      switch (r.range(0, 3)) {
        case 0: h = r.range(0, 20000000000LL); break;          // after "time zero" by up to 20 s
        case 1: h = t0 - r.range(0, 3000000000LL); break;      // just before the first stamp
        case 2: h = HALF_S + r.range(-1, 1); break;
        default: h = t0 + r.range(0, 1000000000LL); break;
      }
      ev.push_back({true, h, HB_PRE_FIRST});
    }
  }
  int64_t tl = t0;
  ev.push_back({false, t0, 0});
  int64_t clk = t0;     // clocked heartbeat timer
  while (ev.size() < L) {
    int64_t p = pg.next(r);
    int64_t tn = tl + p;
    if (hbmode == 1 || hbmode == 3) {
      // ticks of the heartbeat timer that fall before the next stamp (chronological order)
      int emitted = 0;
      while (clk + clk_period < tn) {
        clk += clk_period;
        if (clk <= tl) {continue;}
        if (emitted < 8 && ev.size() + 1 < L) {ev.push_back({true, clk, HB_CLOCK}); ++emitted;}
      }
    }
    if ((hbmode == 2 || hbmode == 3) && r.coin(hb_p)) {
      int n = r.coin(0.8) ? 1 : static_cast<int>(r.range(2, 4));
      for (int i = 0; i < n && ev.size() + 1 < L; ++i) {
        int k = static_cast<int>(r.range(0, 11));
        int64_t h; int kind;
        if (k == 0) {h = tl + HALF_S - 1; kind = HB_M1;} else if (k <= 2) {
          h = tl + HALF_S; kind = HB_EXACT;
        } else if (k <= 4) {h = tl + HALF_S + 1; kind = HB_P1;} else if (k <= 6) {
          h = tl + r.range(0, HALF_S - 2); kind = HB_EARLY;
        } else if (k <= 8) {h = tl + r.range(HALF_S + 2, 20000000000LL); kind = HB_LATE;} else if (k == 9) {
          h = tl - r.range(1, 10000000000LL); kind = HB_PAST;
        } else if (k == 10) {h = tl; kind = HB_SAME;} else {h = tl + 1000000000000LL; kind = HB_FAR;}
        ev.push_back({true, h, kind});
      }
    }
    if (ev.size() >= L) {break;}
    ev.push_back({false, tn, 0});
    tl = tn;
    // a history may end in silence: trailing heartbeats walking through the timeout
    if (hbmode != 0 && ev.size() + 4 < L && r.coin(0.01)) {
      static const int64_t D[] = {300000000, HALF_S, HALF_S + 1, 700000000, 3000000000LL};
      for (int64_t d : D) {ev.push_back({true, tl + d, HB_CLOCK});}
      if (r.coin(0.5)) {break;}
    }
  }
}

// ------------------------------------------------------------------------------------------
// observation of a check-up report
// ------------------------------------------------------------------------------------------
struct Obs
{
  bool shape_ok = false;
  DiagnosticStatus status = DiagnosticStatus::OK;
  std::string message, value;
  bool operator==(const Obs & o) const
  {
    return shape_ok == o.shape_ok && status == o.status && message == o.message && value == o.value;
  }
};

Obs observe(const DiagnosticReport & rep, const std::string & key)
{
  Obs o;
  auto it = rep.info.find(key);
  if (rep.diagnostics.empty() || it == rep.info.end()) {return o;}
  o.shape_ok = true;
  o.status = rep.diagnostics.front().status;
  o.message = rep.diagnostics.front().message;
  o.value = it->second;
  return o;
}

bool has(const std::string & s, const char * w) {return s.find(w) != std::string::npos;}

enum {V_OK = 1, V_LOW = 2, V_HIGH = 4};

// verdicts the statement allows for a modelled rate (ambiguity band at the thresholds)
int allowed_verdicts(bool equal_to, LD rate, const Config & cfg)
{
  LD target = cfg.rate, eps = cfg.eps;
  LD band = 1e-9L * std::max<LD>(1.0L, fabsl(target) + fabsl(eps));
  LD lo = target - eps, hi = target + eps;
  int m = 0;
  if (rate < lo + band) {m |= V_LOW;}
  if (rate > lo - band && (!equal_to || rate < hi + band)) {m |= V_OK;}
  if (equal_to && rate > hi - band) {m |= V_HIGH;}
  return m;
}

int verdict_of_message(const std::string & msg)
{
  int m = 0;
  if (has(msg, "is OK")) {m |= V_OK;}
  if (has(msg, "too low")) {m |= V_LOW;}
  if (has(msg, "too high")) {m |= V_HIGH;}
  return m;
}

struct Names
{
  std::string shape, no_data, stale, msg, status, status_band, skip, value_parses, value_zero, value_vs_rate,
    eval_ret, hb_ret, hb_nochange;
  explicit Names(const std::string & p)
  : shape(p + ".report_shape"), no_data(p + ".no_data"), stale(p + ".stale"), msg(p + ".message_matches_status"),
    status(p + ".status"), status_band(p + ".status_in_band"), skip(p + ".status:threshold_band"),
    value_parses(p + ".value_parses"), value_zero(p + ".value_zero"), value_vs_rate(p + ".value_vs_rate"),
    eval_ret(p + ".evaluate_returns_status"), hb_ret(p + ".heartbeat_return"),
    hb_nochange(p + ".early_heartbeat_changes_nothing") {}
};
const Names N_EQ("checkup_eq"), N_GT("checkup_gt");

std::string status_name(DiagnosticStatus s)
{
  switch (s) {
    case DiagnosticStatus::OK: return "OK";
    case DiagnosticStatus::WARN: return "WARN";
    case DiagnosticStatus::ERROR: return "ERROR";
    case DiagnosticStatus::STALE: return "STALE";
  }
  return "?" + std::to_string(static_cast<int>(s));
}

// Fast path for the ~20 oracle evaluations per event: the Stat record of an oracle is looked up
// once per case; a passing evaluation only bumps its counters, a failing one goes through
// Ctx::expect / Ctx::expect_le (which build the violation record).
struct Fast
{
  vh::Ctx & c;
  const std::function<vh::Params()> & params;
  const std::function<std::string()> & wit;
  vh::Stat & stat(const char * name)
  {
    // keyed by the address of the (static) name; Ctx and its map nodes live for the whole process
    static std::map<const char *, vh::Stat *> cache;
    auto it = cache.find(name);
    if (it != cache.end()) {return *it->second;}
    vh::Stat * s = &c.margins[name];
    cache[name] = s;
    return *s;
  }
  bool expect(const char * name, bool cond, const char * kind)
  {
    if (cond) {++stat(name).n; return true;}
    return c.expect(name, false, kind, params, wit);
  }
  bool expect_le(const char * name, LD observed, LD tol, const char * kind)
  {
    bool ok = std::isfinite(static_cast<double>(observed)) && observed <= tol && tol > 0;
    if (!ok) {return c.expect_le(name, observed, tol, kind, params, wit);}
    vh::Stat & st = stat(name);
    ++st.n;
    LD ratio = observed / tol;
    if (ratio > st.worst) {st.worst = static_cast<double>(ratio); st.worst_case = std::to_string(c.cur);}
    return true;
  }
};

}  // namespace

static void one_case(vh::Ctx & c, uint64_t idx)
{
  vh::Rng r(c.seed, idx);
  Config cfg;
  std::vector<Ev> ev;
  int pmode, hbmode, t0kind;
  gen_case(r, cfg, ev, pmode, hbmode, t0kind);
  const int W = cfg.W;

  // ---- model-only pre-pass: categories, non-triviality, distinct hash
  unsigned nst = 0, nhb = 0;
  bool kinds_seen[16] = {false};
  bool pre_first_late = false;
  {
    Model m(W);
    uint64_t h = vh::hash_doubles({cfg.rate, cfg.eps, static_cast<double>(cfg.name.size())});
    for (const Ev & e : ev) {
      h = vh::hash_addi(h, static_cast<uint64_t>(e.t) * 2 + (e.hb ? 1 : 0));
      if (e.hb) {
        ++nhb; kinds_seen[e.kind] = true;
        if (m.st.empty() && e.t > HALF_S) {pre_first_late = true;}
        m.heartbeat(e.t);
      } else {++nst; m.stamp(e.t);}
    }
    bool rollover_nonconst = m.nonconstant && nst >= static_cast<unsigned>(W) + 2;
    bool nontrivial = m.recoveries > 0 || rollover_nonconst;
    c.distinct(h, nontrivial);
    c.cat(std::string("periods_") + PERIOD_MODES[pmode]);
    c.cat(std::string("hb_") + HB_MODES[hbmode]);
    c.cat(W == 4 ? "W_4" : (W == 64 ? "W_64" : "W_between"));
    if (2.0 * cfg.rate != std::floor(2.0 * cfg.rate)) {c.cat("two_rate_not_integer");}
    c.cat(t0kind == 0 ? "t0_zero" : (t0kind == 5 ? "t0_epoch_ns" : (t0kind == 8 ? "t0_negative" : "t0_other")));
    if (nst <= static_cast<unsigned>(W)) {c.cat("window_never_full");}
    if (rollover_nonconst) {c.cat("rollover_nonconstant_periods");}
    if (m.recoveries) {c.cat("timeout_then_recovery");}
    if (m.timeouts_before_full) {c.cat("timeout_before_window_full");}
    if (m.timeouts) {c.cat("timeout");}
    if (kinds_seen[HB_PRE_FIRST]) {c.cat("hb_before_first_stamp");}
    if (pre_first_late) {c.cat("hb_before_first_stamp_later_than_500ms");}
    if (kinds_seen[HB_EXACT]) {c.cat("hb_at_500ms_exact");}
    if (kinds_seen[HB_P1]) {c.cat("hb_at_500ms_plus_1ns");}
    if (kinds_seen[HB_M1]) {c.cat("hb_at_500ms_minus_1ns");}
    if (kinds_seen[HB_PAST]) {c.cat("hb_earlier_than_last_stamp");}
    if (ev.size() == MAX_EVENTS) {c.cat("events_500");}
    c.count("stamps", nst);
    c.count("heartbeats", nhb);
    c.count("timeouts", m.timeouts);
    c.count("recoveries", m.recoveries);
  }
  auto sample = [&]() {
      std::vector<int64_t> head;
      for (size_t i = 0; i < ev.size() && i < 6; ++i) {head.push_back(ev[i].t);}
      return vh::J().f("expected_rate", cfg.rate).f("epsilon", cfg.eps).s("name", cfg.name).f("W", W)
             .s("periods", PERIOD_MODES[pmode]).s("heartbeats", HB_MODES[hbmode])
             .f("events", static_cast<uint64_t>(ev.size())).f("stamps", nst)
             .arr("first_event_times_ns", head.begin(), head.end()).str();
    };
  c.sample(std::string("periods_") + PERIOD_MODES[pmode], sample);

  // ---- drive the real objects
  RateMonitoring mon(cfg.rate);
  CheckupEqualToRate cu_eq(cfg.name, cfg.rate, cfg.eps);
  CheckupGreaterThanRate cu_gt(cfg.name, cfg.rate, cfg.eps);
  const std::string key = cfg.name + "_rate";
  Model m(W);
  size_t k = 0;                // event index
  int who = 0;                 // 0 monitor, 1 equal-to, 2 greater-than
  LD mrate = 0;
  Obs cur;
  double lib_rate = 0;
  bool seen_ok = false, seen_low = false, seen_high = false, seen_stale = false, seen_nodata = false;
  uint64_t band_skips[2] = {0, 0};

  const std::function<vh::Params()> params = [&]() {
      const Ev & e = ev[k < ev.size() ? k : ev.size() - 1];
      // heartbeat: time since the last stamp; data stamp (already in the model): its period
      double since = 0.0;
      if (e.hb) {since = m.st.empty() ? 0.0 : static_cast<double>(e.t - m.st.back());} else if (m.st.size() >= 2) {
        since = static_cast<double>(m.st.back() - m.st[m.st.size() - 2]);
      }
      return vh::Params{{"expected_rate", cfg.rate}, {"epsilon", cfg.eps}, {"W", static_cast<double>(W)},
        {"object", static_cast<double>(who)}, {"event", static_cast<double>(k)},
        {"is_heartbeat", e.hb ? 1.0 : 0.0}, {"stamps_so_far", static_cast<double>(m.st.size())},
        {"ns_since_last_stamp", since}, {"model_rate", static_cast<double>(mrate)}};
    };
  const std::function<std::string()> wit = [&]() {
      size_t a = m.st.size() > static_cast<size_t>(W) + 2 ? m.st.size() - W - 2 : 0;
      std::vector<int64_t> tail(m.st.begin() + a, m.st.end());
      const Ev & e = ev[k < ev.size() ? k : ev.size() - 1];
      return vh::J().f("expected_rate", cfg.rate).f("epsilon", cfg.eps).s("name", cfg.name).f("W", W)
             .s("object", who == 0 ? "RateMonitoring" : who == 1 ? "CheckupEqualToRate" : "CheckupGreaterThanRate")
             .f("event", static_cast<uint64_t>(k)).boolean("event_is_heartbeat", e.hb).f("event_time_ns", e.t)
             .f("heartbeat_kind", e.kind).arr("last_stamps_ns", tail.begin(), tail.end())
             .f("model_rate", mrate).f("library_rate", lib_rate)
             .s("status", status_name(cur.status)).s("message", cur.message).s("value", cur.value).str();
    };

  Fast f{c, params, wit};

  // check of one check-up's report against the model state; returns false after a violation
  auto check_report = [&](bool equal_to, const Obs & o) -> bool {
      cur = o;
      const Names & n = equal_to ? N_EQ : N_GT;
      if (!f.expect(n.shape.c_str(), o.shape_ok, "checkup_report_shape")) {return false;}
      if (m.cu == NO_DATA) {
        bool ok = o.status == DiagnosticStatus::ERROR && has(o.message, "no data received") && o.value.empty();
        seen_nodata = true;
        return f.expect(n.no_data.c_str(), ok, "checkup_no_data");
      }
      if (m.cu == STALE_S) {
        bool ok = o.status == DiagnosticStatus::STALE && o.value.empty() && has(o.message, "timeout") &&
          verdict_of_message(o.message) == 0;
        seen_stale = true;
        return f.expect(n.stale.c_str(), ok, "checkup_stale");
      }
      // evaluated: verdict by the thresholds
      int allowed = allowed_verdicts(equal_to, mrate, cfg);
      int mv = verdict_of_message(o.message);
      int sv = 0;      // verdict classes compatible with the status
      if (o.status == DiagnosticStatus::OK) {sv = V_OK;} else if (o.status == DiagnosticStatus::ERROR) {
        sv = V_LOW | V_HIGH;
      }
      bool single = (allowed == V_OK || allowed == V_LOW || allowed == V_HIGH);
      // message and status agree with each other, and the message names the monitored quantity
      bool consistent = (mv == V_OK || mv == V_LOW || mv == V_HIGH) && (mv & sv) != 0 &&
        has(o.message, key.c_str()) && !has(o.message, "timeout") && !has(o.message, "no data");
      if (!f.expect(n.msg.c_str(), consistent, "checkup_message")) {return false;}
      if (single) {
        if (!f.expect(n.status.c_str(), mv == allowed, "checkup_status")) {return false;}
      } else {
        ++band_skips[equal_to ? 0 : 1];
        if (!f.expect(n.status_band.c_str(), (mv & allowed) != 0, "checkup_status")) {return false;}
      }
      if (mv == V_OK) {seen_ok = true;} else if (mv == V_LOW) {seen_low = true;} else {seen_high = true;}
      // value string = the rate, to the 6 significant digits of the default stream format
      char * end = nullptr;
      double pv = o.value.empty() ? NAN : std::strtod(o.value.c_str(), &end);
      bool parsed = !o.value.empty() && end && *end == '\0' && std::isfinite(pv);
      if (!f.expect(n.value_parses.c_str(), parsed, "checkup_value")) {return false;}
      if (mrate == 0) {
        return f.expect(n.value_zero.c_str(), pv == 0.0, "checkup_value");
      }
      LD unit6 = powl(10.0L, floorl(log10l(mrate)) - 5.0L);     // one unit of the 6th significant digit
      return f.expect_le(n.value_vs_rate.c_str(), fabsl(static_cast<LD>(pv) - mrate), unit6 + 1e-12L * mrate,
               "checkup_value");
    };
  auto finish_case = [&]() {
      if (seen_ok) {c.cat("status_ok_seen");}
      if (seen_low) {c.cat("status_too_low_seen");}
      if (seen_high) {c.cat("status_too_high_seen");}
      if (seen_stale) {c.cat("status_stale_seen");}
      if (seen_nodata) {c.cat("status_no_data_seen");}
      if (band_skips[0]) {c.skips[N_EQ.skip] += band_skips[0];}
      if (band_skips[1]) {c.skips[N_GT.skip] += band_skips[1];}
    };

  // before anything: both check-ups say "no data", the monitor says 0
  who = 1; Obs prev_eq = observe(cu_eq.getReport(), key);
  who = 2; Obs prev_gt = observe(cu_gt.getReport(), key);
  who = 0; lib_rate = mon.getRate();
  {
    who = 1; bool ok = check_report(true, prev_eq);
    who = 2; ok = check_report(false, prev_gt) && ok;
    who = 0; ok = f.expect("monitor.initial_rate_zero", lib_rate == 0.0, "rate_mismatch") && ok;
    if (!ok) {finish_case(); return;}
  }

  for (k = 0; k < ev.size(); ++k) {
    const Ev & e = ev[k];
    const Duration d = romea::core::durationFromNanoSecond(e.t);
    bool ok = true;
    if (!e.hb) {
      // ------------------------------------------------------------------ data stamp
      m.stamp(e.t);
      mrate = m.rate();
      const double ret = mon.update(d);
      lib_rate = mon.getRate();
      const DiagnosticStatus s1 = cu_eq.evaluate(d);
      Obs o1 = observe(cu_eq.getReport(), key);
      const DiagnosticStatus s2 = cu_gt.evaluate(d);
      Obs o2 = observe(cu_gt.getReport(), key);

      who = 0;
      ok = f.expect("monitor.update_returns_rate", ret == lib_rate, "rate_mismatch") && ok;
      if (mrate == 0) {
        ok = f.expect("monitor.rate_zero_until_window_full", lib_rate == 0.0, "rate_mismatch") && ok;
      } else {
        ok = f.expect_le("monitor.rate_rel", fabsl(static_cast<LD>(lib_rate) - mrate) / mrate, 1e-12L,
            "rate_mismatch") && ok;
      }
      who = 1;
      ok = (check_report(true, o1) &&
        f.expect(N_EQ.eval_ret.c_str(), s1 == o1.status, "checkup_return")) && ok;
      who = 2;
      ok = (check_report(false, o2) &&
        f.expect(N_GT.eval_ret.c_str(), s2 == o2.status, "checkup_return")) && ok;
      prev_eq = std::move(o1);
      prev_gt = std::move(o2);
    } else {
      // ------------------------------------------------------------------ heartbeat
      const bool to = m.heartbeat(e.t);
      mrate = m.rate();
      const double before = lib_rate;
      const bool lib_to = mon.timeout(d);
      lib_rate = mon.getRate();
      const bool r1 = cu_eq.heartBeatCallback(d);
      Obs o1 = observe(cu_eq.getReport(), key);
      const bool r2 = cu_gt.heartBeatCallback(d);
      Obs o2 = observe(cu_gt.getReport(), key);

      who = 0;
      ok = f.expect("monitor.timeout_flag", lib_to == to, "timeout_flag") && ok;
      if (to) {
        ok = f.expect("monitor.timeout_forces_rate_zero", lib_rate == 0.0, "timeout_rate_not_zero") && ok;
      } else {
        ok = f.expect("monitor.early_heartbeat_changes_nothing", lib_rate == before, "heartbeat_side_effect") && ok;
      }
      who = 1; cur = o1;
      ok = f.expect(N_EQ.hb_ret.c_str(), r1 == !to, "timeout_flag") && ok;
      if (!to) {
        ok = f.expect(N_EQ.hb_nochange.c_str(), o1 == prev_eq, "heartbeat_side_effect") && ok;
      }
      ok = check_report(true, o1) && ok;
      who = 2; cur = o2;
      ok = f.expect(N_GT.hb_ret.c_str(), r2 == !to, "timeout_flag") && ok;
      if (!to) {
        ok = f.expect(N_GT.hb_nochange.c_str(), o2 == prev_gt, "heartbeat_side_effect") && ok;
      }
      ok = check_report(false, o2) && ok;
      prev_eq = std::move(o1);
      prev_gt = std::move(o2);
    }
    if (!ok) {break;}       // the objects have left the model's trajectory: stop this history
  }
  c.count("nonzero_rate_histories", mrate > 0 || m.recoveries > 0 ? 1 : 0);
  finish_case();
}

int main(int argc, char ** argv)
{
  return vh::run(argc, argv, "C17", {30000, 1000000}, one_case);
}
