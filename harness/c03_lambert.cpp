// C03  Lambert conformal conic: conformal, true scale on its parallels, origin / central meridian
//      where the parameters put them, inverse(forward) = identity to 1e-11 rad.
//
// Oracles (all independent of the library's constants n, c, xs, ys):
//  (1) the defining geometry, observed on the library's *forward map itself*: 4th-order
//      (Richardson) central differences of toLambert along the meridian and along the parallel,
//      divided by the long-double meridional radius M and by N cos(lat), give the two local scales
//      h and k; conformal <=> h = k, images of meridian and parallel orthogonal, orientation kept;
//      k = h = 1 on a standard parallel (k0 on the tangent parallel);
//  (2) origin -> (x0, y0); points of the central meridian -> x = x0;
//  (3) inverse(forward(lat, lon)) = (lat, lon) to 1e-11 rad, finite, and the fixed-point loop of
//      computeLatitude ends (guarded loop hook; 10 000 iterations = non-termination);
//  (4) sensitivity: a differently factored long-double implementation (Snyder, USGS PP 1395,
//      eqs 15-1..15-11: t, m, n = ln(m1/m2)/ln(t1/t2), F, rho = a F t^n) of the projection that
//      the parameter set *defines*; agreement of x, y to a conditioning-aware bound >= 1e-6 m.
//
// One case = one parameter set (secant or tangent, either hemisphere, ellipsoid) and P points
// inside the +-8 deg x +-30 deg box around its origin.
#include <Eigen/Core>
#include "romea_core_common/geodesy/LambertConverter.hpp"
#include "vh.hpp"
#include "vh_hooks.hpp"

using romea::core::EarthEllipsoid;
using romea::core::LambertConverter;
using romea::core::WGS84Coordinates;
typedef long double LD;

static const LD PI_L = 3.14159265358979323846264338327950288L;
static const double DEG = M_PI / 180.0;

// ------------------------------------------------------------------------------------------
// long double reference (Snyder form)
// ------------------------------------------------------------------------------------------
static LD t_of(LD phi, LD e)
{
  LD s = sinl(phi);
  return tanl(PI_L / 4 - phi / 2) / powl((1 - e * s) / (1 + e * s), e / 2);
}
static LD m_of(LD phi, LD e)
{
  LD s = sinl(phi);
  return cosl(phi) / sqrtl(1 - e * e * s * s);
}

struct Ref
{
  LD a, e, e2, n, F, rho0, x0, y0, lon0;
  void secant(LD A, LD B, LD lat0, LD lon0_, LD lat1, LD lat2, LD X0, LD Y0)
  {
    a = A; e2 = (A * A - B * B) / (A * A); e = sqrtl(e2); lon0 = lon0_; x0 = X0; y0 = Y0;
    LD m1 = m_of(lat1, e), m2 = m_of(lat2, e), t1 = t_of(lat1, e), t2 = t_of(lat2, e);
    n = (logl(m1) - logl(m2)) / (logl(t1) - logl(t2));
    F = m1 / (n * powl(t1, n));
    rho0 = a * F * powl(t_of(lat0, e), n);
  }
  void tangent(LD A, LD B, LD lat0, LD lon0_, LD k0, LD X0, LD Y0)
  {
    a = A; e2 = (A * A - B * B) / (A * A); e = sqrtl(e2); lon0 = lon0_; x0 = X0; y0 = Y0;
    n = sinl(lat0);
    LD t0 = t_of(lat0, e);
    F = k0 * m_of(lat0, e) / (n * powl(t0, n));
    rho0 = a * F * powl(t0, n);
  }
  LD rho(LD lat) const {return a * F * powl(t_of(lat, e), n);}
  void fwd(LD lat, LD lon, LD & x, LD & y) const
  {
    LD r = rho(lat), th = n * (lon - lon0);
    x = x0 + r * sinl(th);
    y = y0 + rho0 - r * cosl(th);
  }
  LD M(LD lat) const {LD s = sinl(lat), W = sqrtl(1 - e2 * s * s); return a * (1 - e2) / (W * W * W);}
  LD Ncos(LD lat) const {LD s = sinl(lat), W = sqrtl(1 - e2 * s * s); return a * cosl(lat) / W;}
};

// ------------------------------------------------------------------------------------------
// parameter sets
// ------------------------------------------------------------------------------------------
struct PSet
{
  bool tangent = false;
  int zone = -1;                 // index in ZONES or -1
  std::string name = "random";
  const char * ell = "";
  int ell_id = 0;
  double a = 0, b = 0;
  double lat0 = 0, lon0 = 0, lat1 = 0, lat2 = 0, k0 = 1, x0 = 0, y0 = 0;
};

static const double GRS80_A = 6378137.0, GRS80_B = 6356752.314;
static const double CLARKE_A = 6378249.2, CLARKE_B = 6356515.0;
static const double INTL_A = 6378388.0, INTL_B = 6356911.946116942;
static const double LON_PARIS = (2.0 + 20.0 / 60 + 14.025 / 3600) * DEG;

static const int NZONES = 15;
static PSet zone(int z)
{
  PSet p;
  p.zone = z;
  if (z == 0) {
    p.name = "Lambert93"; p.ell = "GRS80"; p.ell_id = 0; p.a = GRS80_A; p.b = GRS80_B;
    p.lat0 = 46.5 * DEG; p.lon0 = 3 * DEG; p.lat1 = 44 * DEG; p.lat2 = 49 * DEG; p.x0 = 700000; p.y0 = 6600000;
  } else if (z <= 9) {
    int cc = 41 + z;   // CC42 .. CC50
    p.name = "CC" + std::to_string(cc); p.ell = "GRS80"; p.ell_id = 0; p.a = GRS80_A; p.b = GRS80_B;
    p.lat0 = cc * DEG; p.lon0 = 3 * DEG; p.lat1 = (cc - 0.75) * DEG; p.lat2 = (cc + 0.75) * DEG;
    p.x0 = 1700000; p.y0 = (cc - 41) * 1000000.0 + 200000.0;
  } else {
    static const struct {const char * n; double gr, k0, x0, y0;} L[5] = {
      {"LambertI", 55.0, 0.99987734, 600000, 200000},
      {"LambertII", 52.0, 0.99987742, 600000, 200000},
      {"LambertIII", 49.0, 0.99987750, 600000, 200000},
      {"LambertIV", 46.85, 0.99994471, 234.358, 185861.369},
      {"LambertIIetendu", 52.0, 0.99987742, 600000, 2200000}};
    auto & l = L[z - 10];
    p.tangent = true; p.name = l.n; p.ell = "Clarke1880IGN"; p.ell_id = 1; p.a = CLARKE_A; p.b = CLARKE_B;
    p.lat0 = l.gr * 0.9 * DEG; p.lon0 = LON_PARIS; p.k0 = l.k0; p.x0 = l.x0; p.y0 = l.y0;
  }
  return p;
}
// the two sets the repository's tests pin a value for
static bool pinned_by_tests(const PSet & p) {return p.zone == 5 /*CC46*/ || p.zone == 10 /*Lambert I*/;}

static void pick_ellipsoid(vh::Rng & r, PSet & p)
{
  int k = (int)r.range(0, 9);
  if (k <= 1) {p.ell = "GRS80"; p.ell_id = 0; p.a = GRS80_A; p.b = GRS80_B;} else if (k == 2) {
    p.ell = "Clarke1880IGN"; p.ell_id = 1; p.a = CLARKE_A; p.b = CLARKE_B;
  } else if (k == 3) {p.ell = "International1924"; p.ell_id = 2; p.a = INTL_A; p.b = INTL_B;} else if (k == 4) {
    p.ell = "sphere"; p.ell_id = 3; p.a = r.coin() ? 6378137.0 : 6371000.0; p.b = p.a;
  } else {
    p.ell = "random"; p.ell_id = 4;
    p.a = 6378137.0 * (1.0 + r.uni(-1e-3, 1e-3));
    int m = (int)r.range(0, 7);
    double e = m == 0 ? 0.1 : m == 1 ? r.logu(1e-6, 1e-2) : r.uni(0.0, 0.1);
    p.b = p.a * std::sqrt(1.0 - e * e);
    if (p.b > p.a) {p.b = p.a;}
  }
}

static PSet random_set(vh::Rng & r)
{
  PSet p;
  pick_ellipsoid(r, p);
  double sgn = r.sign();
  p.tangent = r.coin(0.3);
  if (p.tangent) {
    int m = (int)r.range(0, 5);
    double l0 = m == 0 ? 15.0 : m == 1 ? 75.0 : r.uni(15.0, 75.0);
    p.lat0 = sgn * l0 * DEG;
    int km = (int)r.range(0, 4);
    p.k0 = km == 0 ? 1.0 : km == 1 ? 0.99 : r.uni(0.99, 1.0);
  } else {
    // two standard parallels 1..20 deg apart inside [15, 75] deg
    int gm = (int)r.range(0, 7);
    double gap = gm == 0 ? 1.0 : gm == 1 ? 20.0 : gm == 2 ? r.uni(1.0, 2.0) : r.uni(1.0, 20.0);
    int lm = (int)r.range(0, 5);
    double lo = lm == 0 ? 15.0 : lm == 1 ? 75.0 - gap : r.uni(15.0, 75.0 - gap);
    double hi = lo + gap;
    if (hi > 75.0) {hi = 75.0;}
    // origin latitude between / on / just outside the parallels, inside the 15..75 band
    int om = (int)r.range(0, 7);
    double l0 = om == 0 ? lo : om == 1 ? hi : om == 2 ? 0.5 * (lo + hi) :
      om == 3 ? std::min(75.0, std::max(15.0, r.coin() ? lo - r.uni(0, 3) : hi + r.uni(0, 3))) : r.uni(lo, hi);
    if (r.coin(0.3)) {std::swap(lo, hi);}      // the API does not order the parallels
    p.lat1 = sgn * lo * DEG; p.lat2 = sgn * hi * DEG; p.lat0 = sgn * l0 * DEG;
  }
  int lom = (int)r.range(0, 5);
  p.lon0 = lom == 0 ? 0.0 : lom == 1 ? r.sign() * 149.0 * DEG : r.uni(-149.0, 149.0) * DEG;
  int fm = (int)r.range(0, 4);
  if (fm == 0) {p.x0 = 0; p.y0 = 0;} else if (fm == 1) {p.x0 = 700000; p.y0 = 6600000;} else {
    p.x0 = r.uni(-2e6, 2e6); p.y0 = r.uni(-1e7, 1e7);
  }
  return p;
}

// ------------------------------------------------------------------------------------------
static void one_case(vh::Ctx & c, uint64_t idx)
{
  vh::Rng r(c.seed, idx);
  PSet p;
  if (idx < (uint64_t)NZONES) {p = zone((int)idx);} else if (r.coin(0.03)) {
    p = zone((int)r.range(0, NZONES - 1));
  } else {p = random_set(r);}
  const bool south = p.lat0 < 0;
  const int P = c.tier == "thorough" ? 40 : 25;

  std::string cat = std::string(p.tangent ? "tangent_" : "secant_") + (south ? "south" : "north");
  c.cat(cat);
  c.cat(std::string("ellipsoid_") + p.ell);
  if (p.zone >= 0) {c.cat("named_zone"); c.cat("zone_" + p.name);}
  c.distinct(
    vh::hash_doubles({(double)p.tangent, p.a, p.b, p.lat0, p.lon0, p.lat1, p.lat2, p.k0, p.x0, p.y0}),
    !pinned_by_tests(p));

  EarthEllipsoid ell(p.a, p.b);
  Ref ref;
  if (p.tangent) {ref.tangent(p.a, p.b, p.lat0, p.lon0, p.k0, p.x0, p.y0);} else {
    ref.secant(p.a, p.b, p.lat0, p.lon0, p.lat1, p.lat2, p.x0, p.y0);
  }
  // conditioning of the cone constants: n = d(ln m)/d(ln t) of the two parallels, so its
  // relative rounding error is ~ eps / |ln t1 - ln t2|; it moves a point by ~ |rho - rho0| + |rho sin|
  // (the common part rho0 cancels between ys and rho).  Floor 1e-6 m as in the design.
  LD cond = 1;
  if (!p.tangent) {
    cond = 1 / fabsl(logl(t_of(p.lat1, ref.e)) - logl(t_of(p.lat2, ref.e)));
  }
  const LD EPS = std::numeric_limits<double>::epsilon();
  const LD snyder_tol = std::max<LD>(
    1e-6L, 64 * EPS * (cond + 4) * (fabsl(ref.rho0) + fabsl(p.x0) + fabsl(p.y0)));

  double lat = 0, lon = 0;      // current point (captured by the lambdas)
  const char * pcat = "";
  auto params = [&]() {
      return vh::Params{{"south", south ? 1.0 : 0.0}, {"tangent", p.tangent ? 1.0 : 0.0},
        {"lat0_deg", p.lat0 / DEG}, {"lat1_deg", p.lat1 / DEG}, {"lat2_deg", p.lat2 / DEG},
        {"k0", p.k0}, {"e", (double)ref.e}, {"n", (double)ref.n},
        {"dlat_deg", (lat - p.lat0) / DEG}, {"dlon_deg", (lon - p.lon0) / DEG},
        {"lat", lat}, {"lon", lon}, {"zone", (double)p.zone}};
    };
  auto setj = [&]() {
      return vh::J().s("set", p.name).boolean("tangent", p.tangent).s("ellipsoid", p.ell).f("a", p.a)
             .f("b", p.b).f("lat0", p.lat0).f("lon0", p.lon0).f("lat1", p.lat1).f("lat2", p.lat2)
             .f("k0", p.k0).f("x0", p.x0).f("y0", p.y0).str();
    };
  auto wit = [&]() {
      return vh::J().raw("set", setj()).s("point", pcat).f("lat", lat).f("lon", lon).str();
    };
  c.sample(cat, setj);
  if (p.zone >= 0) {c.sample("named_zone", setj);}

  // ---- the converter under test, built through the public parameter-set constructors
  LambertConverter conv = p.tangent ?
    LambertConverter(
    LambertConverter::TangentProjectionParameters{p.lat0, p.lon0, p.k0, p.x0, p.y0}, ell) :
    LambertConverter(
    LambertConverter::SecantProjectionParameters{p.lon0, p.lat0, p.lat1, p.lat2, p.x0, p.y0}, ell);

  auto & lw = vh::loopwatch();
  bool inverse_dead = false;     // after a non-terminating inverse stop calling it for this set

  auto fwd = [&](double la, double lo, LD out[2]) -> bool {
      Eigen::Vector2d v = conv.toLambert(WGS84Coordinates{la, lo});
      out[0] = v.x(); out[1] = v.y();
      return std::isfinite(v.x()) && std::isfinite(v.y());
    };
  // 4th order central difference of the library's forward map along one coordinate
  auto deriv = [&](bool along_lat, LD d[2]) -> bool {
      const double H = 2e-4;
      LD D[2][2];
      for (int k = 0; k < 2; ++k) {
        double h = k == 0 ? H : H / 2;
        double ap = (along_lat ? lat : lon) + h, am = (along_lat ? lat : lon) - h;
        LD Pp[2], Pm[2];
        bool ok = along_lat ? (fwd(ap, lon, Pp) && fwd(am, lon, Pm)) : (fwd(lat, ap, Pp) && fwd(lat, am, Pm));
        if (!ok) {return false;}
        LD den = (LD)ap - (LD)am;
        D[k][0] = (Pp[0] - Pm[0]) / den; D[k][1] = (Pp[1] - Pm[1]) / den;
      }
      d[0] = (4 * D[1][0] - D[0][0]) / 3; d[1] = (4 * D[1][1] - D[0][1]) / 3;
      return true;
    };

  const double BOX_LAT = 8 * DEG, BOX_LON = 30 * DEG;
  for (int ip = 0; ip < P; ++ip) {
    // ---------------------------------------------------------------- point selection
    bool on_parallel = false, on_meridian = false, at_origin = false;
    LD k_expected = 1;
    double dlat = 0, dlon = 0;
    auto rnd_dlon = [&]() {
        int m = (int)r.range(0, 5);
        return m == 0 ? r.sign() * r.logu(1e-12, 0.5) : m == 1 ? r.sign() * BOX_LON : r.uni(-BOX_LON, BOX_LON);
      };
    auto rnd_dlat = [&]() {
        int m = (int)r.range(0, 5);
        return m == 0 ? r.sign() * r.logu(1e-12, 0.13) : m == 1 ? r.sign() * BOX_LAT : r.uni(-BOX_LAT, BOX_LAT);
      };
    if (ip == 0) {
      pcat = "origin"; at_origin = true; on_meridian = true; lat = p.lat0; lon = p.lon0;
      if (p.tangent) {on_parallel = true; k_expected = p.k0;}
    } else if (ip == 1 || ip == 2) {
      // standard parallel (secant: each of the two, if inside the +-8 deg box) / tangent parallel
      double lp = p.tangent ? p.lat0 : (ip == 1 ? p.lat1 : p.lat2);
      dlon = rnd_dlon();
      if (std::fabs(lp - p.lat0) <= BOX_LAT) {
        pcat = "on_parallel"; on_parallel = true; lat = lp; lon = p.lon0 + dlon;
        k_expected = p.tangent ? (LD)p.k0 : 1.0L;
      } else {
        c.count("standard_parallel_outside_box");
        pcat = "generic"; lat = p.lat0 + rnd_dlat(); lon = p.lon0 + dlon;
      }
    } else if (ip == 3 || ip == 4) {
      pcat = "on_central_meridian"; on_meridian = true; lat = p.lat0 + rnd_dlat(); lon = p.lon0;
    } else if (ip == 5) {
      pcat = "box_corner"; lat = p.lat0 + r.sign() * BOX_LAT; lon = p.lon0 + r.sign() * BOX_LON;
    } else {
      pcat = "generic"; lat = p.lat0 + rnd_dlat(); lon = p.lon0 + rnd_dlon();
    }
    c.cat(std::string("pt_") + pcat);
    c.count("points");

    // ---------------------------------------------------------------- forward
    LD X[2];
    bool fin = fwd(lat, lon, X);
    if (!c.expect("forward.finite", fin, "nonfinite", params, wit)) {continue;}

    // (2) origin and central meridian
    if (at_origin) {
      c.expect_le("origin.to_false_origin_m", hypotl(X[0] - (LD)p.x0, X[1] - (LD)p.y0), 1e-7L, "origin",
        params, [&]() {return vh::J().raw("case", wit()).f("x", X[0]).f("y", X[1]).str();});
    }
    if (on_meridian) {
      c.expect_le("central_meridian.x_m", fabsl(X[0] - (LD)p.x0), 1e-7L, "central_meridian",
        params, [&]() {return vh::J().raw("case", wit()).f("x", X[0]).f("y", X[1]).str();});
    }

    // (4) differently factored long-double implementation
    {
      LD rx, ry;
      ref.fwd(lat, lon, rx, ry);
      c.maxi("forward_vs_snyder_worst_m", (double)hypotl(X[0] - rx, X[1] - ry));
      c.expect_le("forward.vs_snyder_m", hypotl(X[0] - rx, X[1] - ry), snyder_tol, "forward_vs_reference",
        params, [&]() {
          return vh::J().raw("case", wit()).f("x", X[0]).f("y", X[1]).f("ref_x", rx).f("ref_y", ry).str();
        });
    }

    // (1) local scales from finite differences of the library's own forward map
    {
      LD dphi[2], dlam[2];
      if (!c.expect("fd.finite", deriv(true, dphi) && deriv(false, dlam), "nonfinite", params, wit)) {continue;}
      LD nphi = hypotl(dphi[0], dphi[1]), nlam = hypotl(dlam[0], dlam[1]);
      LD hs = nphi / ref.M(lat), ks = nlam / ref.Ncos(lat);
      LD cosang = (dphi[0] * dlam[0] + dphi[1] * dlam[1]) / (nphi * nlam);
      LD cross = dlam[0] * dphi[1] - dlam[1] * dphi[0];     // east x north must stay positive
      auto w2 = [&]() {
          return vh::J().raw("case", wit()).f("h_meridian", hs).f("k_parallel", ks).f("cos_angle", cosang).str();
        };
      c.expect_le("conformal.h_over_k", fabsl(hs / ks - 1), 1e-9L, "not_conformal", params, w2);
      c.expect_le("conformal.orthogonality", fabsl(cosang), 1e-9L, "not_conformal", params, w2);
      c.expect("conformal.orientation", cross > 0, "not_conformal", params, w2);
      if (on_parallel) {
        const char * o1 = p.tangent ? "scale.tangent_parallel_k" : "scale.standard_parallel_k";
        const char * o2 = p.tangent ? "scale.tangent_parallel_h" : "scale.standard_parallel_h";
        c.expect_le(o1, fabsl(ks - k_expected), 1e-9L, "scale_on_parallel", params, w2);
        c.expect_le(o2, fabsl(hs - k_expected), 1e-9L, "scale_on_parallel", params, w2);
      }
    }

    // (3) inverse of the forward image
    if (inverse_dead) {c.count("inverse_not_called_after_nontermination"); continue;}
    lw.reset_case();
    WGS84Coordinates back = conv.toWGS84(Eigen::Vector2d((double)X[0], (double)X[1]));
    c.maxi("lambert_loop_iterations", (double)lw.case_max);
    auto w3 = [&]() {
        return vh::J().raw("case", wit()).f("x", X[0]).f("y", X[1]).f("lat_back", back.latitude)
               .f("lon_back", back.longitude).f("loop_iterations", (uint64_t)lw.case_max).str();
      };
    if (lw.tripped) {
      c.violation("nontermination", params(), w3());
      inverse_dead = true;
      continue;
    }
    if (!c.expect("inverse.finite", std::isfinite(back.latitude) && std::isfinite(back.longitude),
      "nonfinite", params, w3)) {continue;}
    c.count(south ? "roundtrip_points_south" : "roundtrip_points_north");
    c.expect_le("roundtrip.lat_rad", fabsl((LD)back.latitude - (LD)lat), 1e-11L, "roundtrip", params, w3);
    c.expect_le("roundtrip.lon_rad", fabsl((LD)back.longitude - (LD)lon), 1e-11L, "roundtrip", params, w3);

    // sub-oracle: the two public static helpers are mutual inverses
    if ((ip & 3) == 0) {
      double e = ell.e;
      lw.reset_case();
      double L = LambertConverter::computeIsometricLatitude(lat, e);
      double lb = LambertConverter::computeLatitude(L, e);
      if (lw.tripped) {c.violation("nontermination", params(), wit()); inverse_dead = true; continue;}
      c.expect_le("isometric_latitude.mutual_inverse_rad", fabsl((LD)lb - (LD)lat), 1e-11L, "roundtrip",
        params, [&]() {return vh::J().raw("case", wit()).f("isolat", L).f("lat_back", lb).str();});
    }
  }
}

int main(int argc, char ** argv)
{
  return vh::run(argc, argv, "C03", {20000, 300000}, one_case, [](vh::Ctx & c) {
      c.count("loop_hook_calls", vh::loopwatch().calls);
    });
}
