// C03  Lambert conformal conic: conformal, true scale on its parallels, origin / central meridian
//      where the parameters put them, inverse(forward) = identity to 1e-11 rad.
//
// Oracles (all independent of the library's constants n, c, xs, ys):
//  (1) the defining geometry, observed on the library's *forward map itself*: 4th-order
//      (Richardson) central differences of toLambert along the meridian and along the parallel,
//      divided by the long-double meridional radius M and by N cos(lat), give the two local scales
//      h and k; conformal <=> h = k, images of meridian and parallel orthogonal, orientation kept;
//      k = h = 1 on a standard parallel (k0 on the tangent parallel);
//  (2) origin -> (x0, y0); points of the central meridian -> x = x0;
//  (3) inverse(forward(lat, lon)) = (lat, lon) to 1e-11 rad, finite, and the fixed-point loop of
//      computeLatitude ends (guarded loop hook; 10 000 iterations = non-termination);
//  (4) sensitivity: a differently factored long-double implementation (Snyder, USGS PP 1395,
//      eqs 15-1..15-11: t, m, n = ln(m1/m2)/ln(t1/t2), F, rho = a F t^n) of the projection that
//      the parameter set *defines*; agreement of x, y to a conditioning-aware bound >= 1e-6 m.
//
// One case = one parameter set (secant or tangent, either hemisphere, ellipsoid) and P points
// inside the +-8 deg x +-30 deg box around its origin.  For 40 % of the cases a *sibling* converter
// is alive at the same time: the same parameter set but for one parameter (k0, latitude0, the false
// origin, the semi-major axis at equal eccentricity, or longitude0).  Every library call of the
// point (forward image, each of the 8 finite-difference stencil points, inverse) is then made on
// the two converters in turn with bit-identical arguments, and every oracle is applied unchanged
// to each of them: state that leaks from one converter object to another (a cache keyed on part
// of the parameters, a static buffer) shows as the sibling's projection in place of one's own.
#include <deque>
#include <iomanip>
#include <memory>
#include <optional>
#include <sstream>
#include <type_traits>
#include <Eigen/Core>
#include "romea_core_common/geodesy/ECEFConverter.hpp"
#include "romea_core_common/geodesy/LambertConverter.hpp"
#include <cfenv>
#include "vh.hpp"
#include "vh_hooks.hpp"

using romea::core::EarthEllipsoid;
using romea::core::LambertConverter;
using romea::core::WGS84Coordinates;
typedef long double LD;

static const LD PI_L = 3.14159265358979323846264338327950288L;
static const double DEG = M_PI / 180.0;

// ------------------------------------------------------------------------------------------
// long double reference (Snyder form)
// ------------------------------------------------------------------------------------------
static LD t_of(LD phi, LD e)
{
  LD s = sinl(phi);
  return tanl(PI_L / 4 - phi / 2) / powl((1 - e * s) / (1 + e * s), e / 2);
}
static LD m_of(LD phi, LD e)
{
  LD s = sinl(phi);
  return cosl(phi) / sqrtl(1 - e * e * s * s);
}

struct Ref
{
  LD a, e, e2, n, F, rho0, x0, y0, lon0;
  void secant(LD A, LD B, LD lat0, LD lon0_, LD lat1, LD lat2, LD X0, LD Y0)
  {
    a = A; e2 = (A * A - B * B) / (A * A); e = sqrtl(e2); lon0 = lon0_; x0 = X0; y0 = Y0;
    LD m1 = m_of(lat1, e), m2 = m_of(lat2, e), t1 = t_of(lat1, e), t2 = t_of(lat2, e);
    n = (logl(m1) - logl(m2)) / (logl(t1) - logl(t2));
    F = m1 / (n * powl(t1, n));
    rho0 = a * F * powl(t_of(lat0, e), n);
  }
  void tangent(LD A, LD B, LD lat0, LD lon0_, LD k0, LD X0, LD Y0)
  {
    a = A; e2 = (A * A - B * B) / (A * A); e = sqrtl(e2); lon0 = lon0_; x0 = X0; y0 = Y0;
    n = sinl(lat0);
    LD t0 = t_of(lat0, e);
    F = k0 * m_of(lat0, e) / (n * powl(t0, n));
    rho0 = a * F * powl(t0, n);
  }
  LD rho(LD lat) const {return a * F * powl(t_of(lat, e), n);}
  void fwd(LD lat, LD lon, LD & x, LD & y) const
  {
    LD r = rho(lat), th = n * (lon - lon0);
    x = x0 + r * sinl(th);
    y = y0 + rho0 - r * cosl(th);
  }
  LD M(LD lat) const {LD s = sinl(lat), W = sqrtl(1 - e2 * s * s); return a * (1 - e2) / (W * W * W);}
  LD Ncos(LD lat) const {LD s = sinl(lat), W = sqrtl(1 - e2 * s * s); return a * cosl(lat) / W;}
};

// ------------------------------------------------------------------------------------------
// parameter sets
// ------------------------------------------------------------------------------------------
struct PSet
{
  bool tangent = false;
  int zone = -1;                 // index in ZONES or -1
  std::string name = "random";
  const char * ell = "";
  const char * radius_kind = "";   // spheres: round / authalic / continuous
  bool use_static_grs80 = false;   // pass the library's EarthEllipsoid::GRS80 object itself
  const char * extreme = "";       // "", "semi_major_axis", "false_origin"
  bool signed_zero = false;        // some zero parameter is -0.0
  int ell_id = 0;
  double a = 0, b = 0;
  double lat0 = 0, lon0 = 0, lat1 = 0, lat2 = 0, k0 = 1, x0 = 0, y0 = 0;
};

static const double GRS80_A = 6378137.0, GRS80_B = 6356752.314;
static const double CLARKE_A = 6378249.2, CLARKE_B = 6356515.0;
static const double INTL_A = 6378388.0, INTL_B = 6356911.946116942;
static const double LON_PARIS = (2.0 + 20.0 / 60 + 14.025 / 3600) * DEG;

static const int NZONES = 15;
static PSet zone(int z)
{
  PSet p;
  p.zone = z;
  if (z == 0) {
    p.name = "Lambert93"; p.ell = "GRS80"; p.ell_id = 0; p.a = GRS80_A; p.b = GRS80_B;
    p.lat0 = 46.5 * DEG; p.lon0 = 3 * DEG; p.lat1 = 44 * DEG; p.lat2 = 49 * DEG; p.x0 = 700000; p.y0 = 6600000;
  } else if (z <= 9) {
    int cc = 41 + z;   // CC42 .. CC50
    p.name = "CC" + std::to_string(cc); p.ell = "GRS80"; p.ell_id = 0; p.a = GRS80_A; p.b = GRS80_B;
    p.lat0 = cc * DEG; p.lon0 = 3 * DEG; p.lat1 = (cc - 0.75) * DEG; p.lat2 = (cc + 0.75) * DEG;
    p.x0 = 1700000; p.y0 = (cc - 41) * 1000000.0 + 200000.0;
  } else {
    static const struct {const char * n; double gr, k0, x0, y0;} L[5] = {
      {"LambertI", 55.0, 0.99987734, 600000, 200000},
      {"LambertII", 52.0, 0.99987742, 600000, 200000},
      {"LambertIII", 49.0, 0.99987750, 600000, 200000},
      {"LambertIV", 46.85, 0.99994471, 234.358, 185861.369},
      {"LambertIIetendu", 52.0, 0.99987742, 600000, 2200000}};
    auto & l = L[z - 10];
    p.tangent = true; p.name = l.n; p.ell = "Clarke1880IGN"; p.ell_id = 1; p.a = CLARKE_A; p.b = CLARKE_B;
    p.lat0 = l.gr * 0.9 * DEG; p.lon0 = LON_PARIS; p.k0 = l.k0; p.x0 = l.x0; p.y0 = l.y0;
  }
  return p;
}
// the two sets the repository's tests pin a value for
static bool pinned_by_tests(const PSet & p) {return p.zone == 5 /*CC46*/ || p.zone == 10 /*Lambert I*/;}

static void pick_ellipsoid(vh::Rng & r, PSet & p)
{
  int k = (int)r.range(0, 9);
  if (k <= 1) {
    p.ell = "GRS80"; p.ell_id = 0; p.a = GRS80_A; p.b = GRS80_B; p.use_static_grs80 = r.coin();
  } else if (k == 2) {
    p.ell = "Clarke1880IGN"; p.ell_id = 1; p.a = CLARKE_A; p.b = CLARKE_B;
  } else if (k == 3) {p.ell = "International1924"; p.ell_id = 2; p.a = INTL_A; p.b = INTL_B;} else if (k == 4) {
    // e = 0: the radius is a free parameter too (round values, the authalic radius, any double)
    p.ell = "sphere"; p.ell_id = 3;
    int m = (int)r.range(0, 9);
    p.radius_kind = m == 0 ? "round" : m == 1 ? "authalic" : "continuous";
    p.a = m == 0 ? (r.coin() ? 6378137.0 : 6371000.0) : m == 1 ? 6371007.180918475 : r.uni(6.3e6, 6.4e6);
    p.b = p.a;
  } else {
    p.ell = "random"; p.ell_id = 4;
    int m = (int)r.range(0, 7);
    p.a = m == 1 ? r.uni(6.3e6, 6.4e6) : 6378137.0 * (1.0 + r.uni(-1e-3, 1e-3));
    double e = m == 0 ? 0.1 : m == 1 ? r.logu(1e-9, 1e-2) : r.uni(0.0, 0.1);
    p.b = p.a * std::sqrt(1.0 - e * e);
    if (p.b >= p.a) {p.b = p.a; p.ell = "sphere"; p.ell_id = 3; p.radius_kind = "continuous";}
  }
}

static PSet random_set(vh::Rng & r)
{
  PSet p;
  pick_ellipsoid(r, p);
  double sgn = r.sign();
  p.tangent = r.coin(0.3);
  if (p.tangent) {
    int m = (int)r.range(0, 5);
    double l0 = m == 0 ? 15.0 : m == 1 ? 75.0 : r.uni(15.0, 75.0);
    p.lat0 = sgn * l0 * DEG;
    int km = (int)r.range(0, 4);
    p.k0 = km == 0 ? 1.0 : km == 1 ? 0.99 : r.uni(0.99, 1.0);
  } else {
    // two standard parallels 1..20 deg apart inside [15, 75] deg
    int gm = (int)r.range(0, 7);
    double gap = gm == 0 ? 1.0 : gm == 1 ? 20.0 : gm == 2 ? r.uni(1.0, 2.0) : r.uni(1.0, 20.0);
    int lm = (int)r.range(0, 5);
    double lo = lm == 0 ? 15.0 : lm == 1 ? 75.0 - gap : r.uni(15.0, 75.0 - gap);
    double hi = lo + gap;
    if (hi > 75.0) {hi = 75.0;}
    // origin latitude between / on / just outside the parallels, inside the 15..75 band
    int om = (int)r.range(0, 7);
    double l0 = om == 0 ? lo : om == 1 ? hi : om == 2 ? 0.5 * (lo + hi) :
      om == 3 ? std::min(75.0, std::max(15.0, r.coin() ? lo - r.uni(0, 3) : hi + r.uni(0, 3))) : r.uni(lo, hi);
    if (r.coin(0.3)) {std::swap(lo, hi);}      // the API does not order the parallels
    p.lat1 = sgn * lo * DEG; p.lat2 = sgn * hi * DEG; p.lat0 = sgn * l0 * DEG;
  }
  int lom = (int)r.range(0, 5);
  p.lon0 = lom == 0 ? 0.0 : lom == 1 ? r.sign() * 149.0 * DEG : r.uni(-149.0, 149.0) * DEG;
  int fm = (int)r.range(0, 5);
  if (fm == 0) {p.x0 = 0; p.y0 = 0;} else if (fm == 1) {p.x0 = 700000; p.y0 = 6600000;} else if (fm == 2) {
    p.x0 = p.y0 = r.uni(-2e6, 2e6);                       // equal components
  } else {
    p.x0 = r.uni(-2e6, 2e6); p.y0 = r.uni(-1e7, 1e7);
  }
  // signed zeros where a parameter is zero
  if (r.coin(0.25)) {
    if (p.lon0 == 0.0) {p.lon0 = -0.0; p.signed_zero = true;}
    if (p.x0 == 0.0) {p.x0 = -0.0; p.signed_zero = true;}
    if (p.y0 == 0.0 && r.coin()) {p.y0 = -0.0; p.signed_zero = true;}
  }
  // extreme magnitudes of the parameters the statement leaves free
  int xm = (int)r.range(0, 49);
  if (xm == 0) {
    // the whole figure scaled: semi-major axis 1e-100 .. 1e100 times the Earth's (a*a in
    // EarthEllipsoid stays a normal double up to ~1e+-150), false origin scaled along
    double s = std::pow(10.0, r.coin(0.3) ? r.sign() * 100.0 : r.uni(-100.0, 100.0));
    if (r.coin(0.2)) {s = 1.0 / p.a;}                     // unit sphere / unit ellipsoid
    p.a *= s; p.b *= s; p.x0 *= s; p.y0 *= s; p.use_static_grs80 = false;
    if (p.b > p.a) {p.b = p.a;}
    p.extreme = "semi_major_axis"; p.ell = p.a == p.b ? "sphere" : "random"; p.ell_id = p.a == p.b ? 3 : 4;
    if (p.a == p.b) {p.radius_kind = "continuous";}
  } else if (xm == 1) {
    // false origin up to 3e9 m: beyond ~1e10 m one ulp of an easting (2e-6 m) is itself a
    // sizeable part of 1e-11 rad at 83 deg of latitude, whatever the implementation
    p.x0 = r.sign() * (r.coin(0.3) ? 3e9 : r.logu(1e7, 3e9));
    p.y0 = r.coin(0.3) ? p.x0 : r.sign() * (r.coin(0.3) ? 3e9 : r.logu(1e7, 3e9));
    p.extreme = "false_origin";
  }
  return p;
}

// ------------------------------------------------------------------------------------------
// One converter under test with everything its oracles need.  A case has one unit, or two
// ("siblings": parameter sets that differ in a single parameter) whose calls are interleaved.
// ------------------------------------------------------------------------------------------
// How the converter under test comes into being.  A copy / a moved-to object must behave like an
// independent object once its source holds another configuration or is gone (value semantics).
enum Construction
{
  DIRECT = 0, COPY_SOURCE_OVERWRITTEN, MOVE_SOURCE_OVERWRITTEN, COPY_SOURCE_DESTROYED, VECTOR_GROWTH,
  COPY_ASSIGNED, MOVE_ASSIGNED, SELF_ASSIGNED, COPY_SOURCE_KEPT,
  CTOR_SIX_SCALARS_CLOBBERED, CTOR_CONSTANTS_STRUCT_CLOBBERED, N_CONSTRUCTIONS
};
static const char * const CONSTRUCTION_NAME[] = {
  "direct", "copy_source_overwritten", "move_source_overwritten", "copy_source_destroyed", "vector_growth",
  "copy_assigned", "move_assigned", "self_assigned", "copy_source_kept_both_used",
  "ctor_six_scalars_then_clobbered", "ctor_constants_struct_then_clobbered"};

// assignment only where the class offers it (a class that lost it leaves the categories empty,
// which makes the run inconclusive instead of failing to compile)
template<class C> static bool assign_copy(C & dst, const C & src)
{
  if constexpr (std::is_copy_assignable_v<C>) {dst = src; return true;} else {(void)dst; (void)src; return false;}
}
template<class C> static bool assign_move(C & dst, C & src)
{
  if constexpr (std::is_move_assignable_v<C>) {dst = std::move(src); return true;} else {(void)dst; (void)src; return false;}
}

// calls f(parameter struct, ellipsoid) with the public parameter struct of the set
template<class F> static auto with_parameters(const PSet & s, F && f)
{
  EarthEllipsoid local(s.a, s.b);
  const EarthEllipsoid & ell = s.use_static_grs80 ? EarthEllipsoid::GRS80 : local;
  if (s.tangent) {
    return f(LambertConverter::TangentProjectionParameters{s.lat0, s.lon0, s.k0, s.x0, s.y0}, ell);
  }
  return f(LambertConverter::SecantProjectionParameters{s.lon0, s.lat0, s.lat1, s.lat2, s.x0, s.y0}, ell);
}

struct Unit
{
  PSet p;
  Ref ref;
  // owners (which of them is used depends on the construction) and the converter under test
  std::unique_ptr<LambertConverter> own, source_heap, spare;
  std::optional<LambertConverter> source_slot;
  std::vector<LambertConverter> vec;
  const LambertConverter * conv = nullptr;     // (all conversions are const members)
  bool assignment_available = true;
  EarthEllipsoid ell_obj;
  int construction = DIRECT;
  double e_lib;
  LD snyder_tol, origin_tol, len_scale;
  bool south;
  bool inverse_dead = false;     // after a non-terminating inverse stop calling it for this unit

  Unit(const PSet & ps, int how = DIRECT, const PSet * other = nullptr)
  : p(ps), ell_obj(ps.a, ps.b), construction(how), e_lib(EarthEllipsoid(ps.a, ps.b).e), south(ps.lat0 < 0)
  {
    auto heap = [](const auto & pp, const EarthEllipsoid & e) {return new LambertConverter(pp, e);};
    auto slot = [this](const auto & pp, const EarthEllipsoid & e) {
        source_slot.emplace(pp, e); return (LambertConverter *)nullptr;
      };
    auto push = [this](const auto & pp, const EarthEllipsoid & e) {
        vec.emplace_back(pp, e); return (LambertConverter *)nullptr;
      };
    switch (how) {
      case COPY_SOURCE_OVERWRITTEN:
        with_parameters(p, slot);
        own.reset(new LambertConverter(*source_slot));               // copy of a named source
        with_parameters(*other, slot);                               // the source slot now holds another zone
        conv = own.get();
        break;
      case MOVE_SOURCE_OVERWRITTEN:
        with_parameters(p, slot);
        own.reset(new LambertConverter(std::move(*source_slot)));    // moved-to object
        with_parameters(*other, slot);
        conv = own.get();
        break;
      case COPY_SOURCE_DESTROYED:
        source_heap.reset(with_parameters(p, heap));
        own.reset(new LambertConverter(*source_heap));
        source_heap.reset();                                         // the source is gone
        spare.reset(with_parameters(*other, heap));                  // and its memory may be reused
        conv = own.get();
        break;
      case VECTOR_GROWTH:
        with_parameters(p, push);                                    // element 0 ...
        for (int i = 0; i < 4; ++i) {with_parameters(*other, push);} // ... relocated by the growth
        conv = &vec[0];
        break;
      case COPY_ASSIGNED:
        own.reset(with_parameters(*other, heap));                    // target held another zone
        with_parameters(p, slot);
        assignment_available = assign_copy(*own, *source_slot);
        with_parameters(*other, slot);                               // source overwritten afterwards
        if (!assignment_available) {own.reset(with_parameters(p, heap));}
        conv = own.get();
        break;
      case MOVE_ASSIGNED:
        own.reset(with_parameters(*other, heap));
        with_parameters(p, slot);
        assignment_available = assign_move(*own, *source_slot);
        with_parameters(*other, slot);
        if (!assignment_available) {own.reset(with_parameters(p, heap));}
        conv = own.get();
        break;
      case SELF_ASSIGNED: {
          own.reset(with_parameters(p, heap));
          LambertConverter & alias = *own;
          assignment_available = assign_copy(*own, alias);
          conv = own.get();
          break;
        }
      case COPY_SOURCE_KEPT:
        with_parameters(p, slot);                                    // the source stays as it is and is
        own.reset(new LambertConverter(*source_slot));               // used in turn with its copy
        conv = own.get();
        break;
      case CTOR_SIX_SCALARS_CLOBBERED: {
          // raw constructors fed with the library's own constants, by reference, from storage that
          // is overwritten with another zone's constants right after the construction
          auto pp = with_parameters(p, [](const auto & q, const EarthEllipsoid & e) {
                return LambertConverter::computeProjectionParameters(q, e);
              });
          auto po = with_parameters(*other, [](const auto & q, const EarthEllipsoid & e) {
                return LambertConverter::computeProjectionParameters(q, e);
              });
          double e = e_lib;
          own.reset(new LambertConverter(pp.longitude0, pp.n, pp.c, pp.xs, pp.ys, e));
          pp = po; e = EarthEllipsoid(other->a, other->b).e;
          conv = own.get();
          break;
        }
      case CTOR_CONSTANTS_STRUCT_CLOBBERED: {
          auto pp = with_parameters(p, [](const auto & q, const EarthEllipsoid & e) {
                return LambertConverter::computeProjectionParameters(q, e);
              });
          auto po = with_parameters(*other, [](const auto & q, const EarthEllipsoid & e) {
                return LambertConverter::computeProjectionParameters(q, e);
              });
          double e = e_lib;
          own.reset(new LambertConverter(pp, e));
          pp = po; e = EarthEllipsoid(other->a, other->b).e;
          conv = own.get();
          break;
        }
      default:
        own.reset(with_parameters(p, heap));                         // constructed in place
        conv = own.get();
    }
    if (p.tangent) {ref.tangent(p.a, p.b, p.lat0, p.lon0, p.k0, p.x0, p.y0);} else {
      ref.secant(p.a, p.b, p.lat0, p.lon0, p.lat1, p.lat2, p.x0, p.y0);
    }
    // conditioning of the cone constants: n = d(ln m)/d(ln t) of the two parallels, so its
    // relative rounding error is ~ eps / |ln t1 - ln t2|; it moves a point by ~ |rho - rho0| + |rho sin|
    // (the common part rho0 cancels between ys and rho).  Floor 1e-6 m as in the design.
    LD cond = 1;
    if (!p.tangent) {cond = 1 / fabsl(logl(t_of(p.lat1, ref.e)) - logl(t_of(p.lat2, ref.e)));}
    const LD EPS = std::numeric_limits<double>::epsilon();
    // lengths are judged at the scale of the figure: 1e-7 m / 1e-6 m on the Earth (a = 6378137 m)
    len_scale = (LD)p.a / 6378137.0L;
    const LD magnitude = fabsl(ref.rho0) + fabsl(p.x0) + fabsl(p.y0);
    snyder_tol = std::max<LD>(1e-6L * len_scale, 64 * EPS * (cond + 4) * magnitude);
    // "maps to (x0, y0)" to rounding: one ulp of ys = y0 + rho0 is the best any double result can do
    origin_tol = std::max<LD>(1e-7L * len_scale, 8 * EPS * magnitude);
  }
  // the kept source of another unit's copy: same parameter set, converter owned elsewhere
  Unit(const PSet & ps, const LambertConverter * borrowed)
  : Unit(ps)
  {
    conv = borrowed;
    own.reset();
  }
  Unit(const Unit &) = delete;
  Unit & operator=(const Unit &) = delete;
};

static LambertConverter::ProjectionParameters library_constants(const PSet & p)
{
  EarthEllipsoid ell(p.a, p.b);
  return p.tangent ?
         LambertConverter::computeProjectionParameters(
    LambertConverter::TangentProjectionParameters{p.lat0, p.lon0, p.k0, p.x0, p.y0}, ell) :
         LambertConverter::computeProjectionParameters(
    LambertConverter::SecantProjectionParameters{p.lon0, p.lat0, p.lat1, p.lat2, p.x0, p.y0}, ell);
}

// sibling of p: the same parameter set but for ONE parameter.  Returns the name of that parameter.
static const char * make_sibling(vh::Rng & r, const PSet & p, PSet & q)
{
  q = p;
  q.zone = -1;
  q.name = p.name + "~sibling";
  int k = (int)r.range(0, 3);
  if (p.tangent && k == 0) {
    // other scale factor on the same tangent parallel (n and e bit-identical, c differs)
    do {
      int km = (int)r.range(0, 3);
      q.k0 = km == 0 ? 1.0 : km == 1 ? 0.99 : r.uni(0.99, 1.0);
    } while (q.k0 == p.k0);
    return "k0";
  }
  if (!p.tangent && k == 0) {
    // other origin latitude between the same parallels (n, c, e identical; ys differs)
    double s = p.lat0 < 0 ? -1.0 : 1.0, l0 = std::fabs(p.lat0) / DEG;
    double l = l0 + r.sign() * r.uni(0.05, 2.0);
    l = std::min(75.0, std::max(15.0, l));
    if (l == l0) {l = l0 > 45 ? l0 - 1.0 : l0 + 1.0;}
    q.lat0 = s * l * DEG;
    return "latitude0";
  }
  if (k == 1) {
    const double ls = p.a / 6378137.0;      // lengths at the scale of the figure
    if (r.coin()) {q.x0 = p.x0 + r.sign() * r.logu(1e-3, 1e6) * ls; q.y0 = p.y0;} else {
      q.x0 = r.uni(-2e6, 2e6) * ls; q.y0 = r.uni(-1e7, 1e7) * ls;
    }
    return "false_origin";
  }
  if (k == 2) {
    // other semi-major axis, same shape: e stays bit-identical for a sphere and is re-drawn a few
    // times to make it bit-identical for an ellipsoid (otherwise equal to 1 ulp)
    double e0 = EarthEllipsoid(p.a, p.b).e;
    q.use_static_grs80 = false;
    for (int t = 0; t < 6; ++t) {
      double s = 1.0 + r.sign() * r.logu(1e-6, 1e-3);
      q.a = p.a * s; q.b = (p.b == p.a) ? q.a : p.b * s;
      if (q.b > q.a) {q.b = q.a;}
      if (EarthEllipsoid(q.a, q.b).e == e0) {break;}
    }
    return "semi_major_axis";
  }
  // other central meridian, a few degrees away so that the two boxes overlap
  q.lon0 = p.lon0 + r.sign() * (r.coin(0.3) ? r.logu(1e-9, 1e-2) : r.uni(0.1, 5.0) * DEG);
  q.lon0 = std::min(149.0 * DEG, std::max(-149.0 * DEG, q.lon0));
  if (q.lon0 == p.lon0) {q.lon0 = p.lon0 > 0 ? p.lon0 - DEG : p.lon0 + DEG;}
  return "longitude0";
}

// ------------------------------------------------------------------------------------------
static void one_case(vh::Ctx & c, uint64_t idx)
{
  vh::Rng r(c.seed, idx);
  PSet p;
  if (idx < (uint64_t)NZONES) {p = zone((int)idx);} else if (r.coin(0.03)) {
    p = zone((int)r.range(0, NZONES - 1));
  } else {p = random_set(r);}
  const int P = c.tier == "thorough" ? 40 : 25;

  std::string cat = std::string(p.tangent ? "tangent_" : "secant_") + (p.lat0 < 0 ? "south" : "north");
  c.cat(cat);
  c.cat(std::string("ellipsoid_") + p.ell);
  if (p.a == p.b) {c.cat(std::string("sphere_radius_") + p.radius_kind);} else if (
    EarthEllipsoid(p.a, p.b).e < 1e-4)
  {
    c.cat("ellipsoid_tiny_eccentricity");
  }
  if (p.zone >= 0) {c.cat("named_zone"); c.cat("zone_" + p.name);}
  if (p.extreme[0]) {c.cat(std::string("extreme_") + p.extreme);}
  if (p.signed_zero) {c.cat("signed_zero_parameter");}
  if (p.use_static_grs80) {c.cat("static_GRS80_object_passed");}

  // ---- units: the set alone, or the set and a sibling used in turn on identical points
  std::deque<Unit> U;           // (deque: the units themselves are never relocated)
  int how = DIRECT;
  PSet other;
  if (r.coin(0.3)) {
    how = (int)r.range(COPY_SOURCE_OVERWRITTEN, N_CONSTRUCTIONS - 1);
    if (r.coin()) {
      int z = (int)r.range(0, NZONES - 1);
      other = zone(z == p.zone ? (z + 1) % NZONES : z);
    } else {other = random_set(r);}
  }
  U.emplace_back(p, how, &other);
  if (how != DIRECT) {
    if (!U[0].assignment_available) {c.cat("assignment_unavailable");} else if (how >= CTOR_SIX_SCALARS_CLOBBERED) {
      c.cat("constructor_overloads");
      c.cat(std::string("constructor_") + CONSTRUCTION_NAME[how]);
    } else {
      c.cat("value_semantics");
      c.cat(std::string("value_semantics_") + CONSTRUCTION_NAME[how]);
    }
  }
  const char * sib = "";
  if (how == COPY_SOURCE_KEPT) {
    // the copy and its untouched source are used in turn: neither may be affected by the other
    sib = "nothing_copy_and_its_source";
    U.emplace_back(p, &*U[0].source_slot);
  } else if (r.coin(0.4)) {
    PSet q;
    sib = make_sibling(r, p, q);
    U.emplace_back(q);
    c.cat("sibling_converters_interleaved");
    c.cat(std::string("sibling_differs_in_") + sib);
    auto ca = library_constants(p), cb = library_constants(q);
    if (ca.n == cb.n && U[0].e_lib == U[1].e_lib && ca.c != cb.c) {
      c.count("sibling_sets_with_bit_identical_n_and_e_but_other_c");
    }
  }
  const int NU = (int)U.size();
  {
    const PSet & q = U[NU - 1].p;
    c.distinct(
      vh::hash_doubles({(double)p.tangent, p.a, p.b, p.lat0, p.lon0, p.lat1, p.lat2, p.k0, p.x0, p.y0,
          (double)NU, q.a, q.b, q.lat0, q.lon0, q.k0, q.x0, q.y0, (double)how}),
      !pinned_by_tests(p) || NU > 1 || how != DIRECT);
  }

  double lat = 0, lon = 0;      // current point (captured by the lambdas)
  const char * pcat = "";
  int cu = 0;                   // unit the oracles are currently speaking about
  auto params = [&]() {
      const Unit & u = U[cu];
      return vh::Params{{"south", u.south ? 1.0 : 0.0}, {"tangent", u.p.tangent ? 1.0 : 0.0},
        {"lat0_deg", u.p.lat0 / DEG}, {"lat1_deg", u.p.lat1 / DEG}, {"lat2_deg", u.p.lat2 / DEG},
        {"k0", u.p.k0}, {"e", (double)u.ref.e}, {"n", (double)u.ref.n},
        {"dlat_deg", (lat - u.p.lat0) / DEG}, {"dlon_deg", (lon - u.p.lon0) / DEG},
        {"lat", lat}, {"lon", lon}, {"zone", (double)u.p.zone},
        {"interleaved", NU > 1 ? 1.0 : 0.0}, {"unit", (double)cu},
        {"construction", (double)u.construction}};
    };
  auto setj_of = [&](const PSet & s) {
      return vh::J().s("set", s.name).boolean("tangent", s.tangent).s("ellipsoid", s.ell).f("a", s.a)
             .f("b", s.b).f("lat0", s.lat0).f("lon0", s.lon0).f("lat1", s.lat1).f("lat2", s.lat2)
             .f("k0", s.k0).f("x0", s.x0).f("y0", s.y0).str();
    };
  auto setj = [&]() {return setj_of(p);};
  auto wit = [&]() {
      vh::J j;
      j.raw("set", setj_of(U[cu].p)).s("point", pcat).f("lat", lat).f("lon", lon);
      j.s("construction", CONSTRUCTION_NAME[U[cu].construction]);
      if (U[cu].construction != DIRECT) {j.raw("source_now_holds", setj_of(other));}
      if (NU > 1) {j.s("sibling_differs_in", sib).raw("used_in_turn_with", setj_of(U[1 - cu].p));}
      return j.str();
    };
  c.sample(cat, setj);
  if (p.zone >= 0) {c.sample("named_zone", setj);}
  if (how != DIRECT) {
    c.sample("value_semantics", [&]() {
        return vh::J().s("construction", CONSTRUCTION_NAME[how]).raw("set", setj_of(p)).raw("source_now_holds", setj_of(other)).str();
      });
  }
  if (NU > 1) {
    c.sample("sibling_converters_interleaved", [&]() {
        return vh::J().s("differs_in", sib).raw("a", setj_of(U[0].p)).raw("b", setj_of(U[1].p)).str();
      });
  }

  auto & lw = vh::loopwatch();
  const double BOX_LAT = 8 * DEG, BOX_LON = 30 * DEG, BOX_SLACK = 1e-12;
  const double H = 2e-4;

  auto same_bits = [](double x, double y) {return std::memcmp(&x, &y, sizeof x) == 0;};
  const Unit & ua = U[0];
  const Unit & ub = U[NU - 1];

  // ---- long history: many calls on the object(s) before anything is observed
  {
    uint64_t nrep = 0;
    if (r.coin(0.02)) {nrep = 256 + r.range(0, 3); c.cat("long_history_2p8_calls");} else if (r.coin(0.003)) {
      nrep = 65536 + r.range(0, 3); c.cat("long_history_2p16_calls");
    }
    double acc = 0;
    for (uint64_t i = 0; i < nrep; ++i) {
      const Unit & u = (i & 1) ? ub : ua;
      double la = p.lat0 + ((i % 3) - 1.0) * 0.01, lo = p.lon0 + ((i % 5) - 2.0) * 0.02;
      acc += u.conv->toLambert(WGS84Coordinates{la, lo}).x();
    }
    if (nrep && !std::isfinite(acc)) {c.count("long_history_nonfinite_sum");}
  }

  // ---- result stability: results bound as the signatures allow, kept until the end of the case
  const WGS84Coordinates probe_w{p.lat0 + r.uni(-BOX_LAT, BOX_LAT), p.lon0 + r.uni(-BOX_LON, BOX_LON)};   // lvalues
  const auto & kept_fa = ua.conv->toLambert(probe_w);
  const double fa0[2] = {kept_fa.x(), kept_fa.y()};
  const auto & kept_fb = ub.conv->toLambert(probe_w);
  const double fb0[2] = {kept_fb.x(), kept_fb.y()};
  const Eigen::Vector2d probe_xy(fa0[0], fa0[1]);
  lw.reset_case();
  const auto & kept_inv = ua.conv->toWGS84(probe_xy);
  const bool probe_inv_ok = !lw.tripped;
  const double inv0[2] = {kept_inv.latitude, kept_inv.longitude};
  const auto & kept_pp = library_constants(p);
  const double pp0[5] = {kept_pp.longitude0, kept_pp.n, kept_pp.c, kept_pp.xs, kept_pp.ys};

  // ---- argument aliasing / value categories of the by-reference static helpers and constructors
  {
    lat = probe_w.latitude; lon = probe_w.longitude; pcat = "aliasing_probe"; cu = 0;
    double v = r.uni(1e-3, 0.1);          // a value that is a valid latitude, isometric latitude and e
    const double v1 = v, v2 = v, v3 = v;
    lw.reset_case();
    double al[3] = {LambertConverter::computeLatitude(v, v), LambertConverter::computeIsometricLatitude(v, v),
      LambertConverter::computeGrandeNormal(v, v, v)};
    double sep[3] = {LambertConverter::computeLatitude(v1, v2), LambertConverter::computeIsometricLatitude(v1, v2),
      LambertConverter::computeGrandeNormal(v1, v2, v3)};
    double tmp[3] = {LambertConverter::computeLatitude(v + 0.0, v * 1.0),
      LambertConverter::computeIsometricLatitude(v + 0.0, v * 1.0),
      LambertConverter::computeGrandeNormal(v + 0.0, v * 1.0, double(v))};
    bool ok = true;
    for (int i = 0; i < 3; ++i) {ok = ok && same_bits(al[i], sep[i]) && same_bits(tmp[i], sep[i]);}
    c.expect("aliasing.static_helpers_same_object_for_all_arguments", ok && !lw.tripped, "argument_aliasing",
      params, [&]() {
        return vh::J().f("v", v).f("computeLatitude_aliased", al[0]).f("computeLatitude_separate", sep[0])
               .f("computeIsometricLatitude_aliased", al[1]).f("computeIsometricLatitude_separate", sep[1])
               .f("computeGrandeNormal_aliased", al[2]).f("computeGrandeNormal_separate", sep[2]).str();
      });
    // six-scalar constructor: one variable for xs and ys, the library's own constants passed by
    // reference out of the struct it returned
    double xy = kept_pp.xs;
    const double e = ua.e_lib;
    LambertConverter aliased(kept_pp.longitude0, kept_pp.n, kept_pp.c, xy, xy, e);
    LambertConverter separate(pp0[0], pp0[1], pp0[2], pp0[3], pp0[3], ua.e_lib);
    Eigen::Vector2d q1 = aliased.toLambert(probe_w), q2 = separate.toLambert(probe_w);
    c.expect("aliasing.constructor_one_variable_for_xs_and_ys", same_bits(q1.x(), q2.x()) && same_bits(q1.y(), q2.y()),
      "argument_aliasing", params, [&]() {
        return vh::J().f("x_aliased", q1.x()).f("y_aliased", q1.y()).f("x_separate", q2.x()).f("y_separate", q2.y()).str();
      });
  }

  for (int ip = 0; ip < P; ++ip) {
    // ---------------------------------------------------------------- point selection
    // special points are taken in turn from either unit's parameter set (b: base unit)
    const int b = (NU > 1 && (ip & 1)) ? 1 : 0;
    const PSet & bp = U[b].p;
    double dlon = 0;
    // offsets from the origin: log-spaced tiny ones (down to a denormal), the box edge, exact
    // (signed) zero, whole degrees, uniform
    auto rnd_dlon = [&]() {
        int m = (int)r.range(0, 9);
        return m == 0 ? r.sign() * (r.coin(0.1) ? 4.9406564584124654e-324 : r.logu(1e-12, 0.5)) :
               m == 1 ? r.sign() * BOX_LON : m == 2 ? r.sign() * 0.0 :
               m == 3 ? (double)r.range(-30, 30) * DEG : r.uni(-BOX_LON, BOX_LON);
      };
    auto rnd_dlat = [&]() {
        int m = (int)r.range(0, 9);
        return m == 0 ? r.sign() * r.logu(1e-12, 0.13) : m == 1 ? r.sign() * BOX_LAT : m == 2 ? r.sign() * 0.0 :
               m == 3 ? (double)r.range(-8, 8) * DEG : r.uni(-BOX_LAT, BOX_LAT);
      };
    const int slot = NU > 1 ? ip / 2 : ip;       // with siblings each special slot is used once per unit
                                                 // (slots 0..5 then cover ip 0..11)
    if (slot == 0) {
      pcat = "origin"; lat = bp.lat0; lon = bp.lon0;
    } else if (slot == 1 || slot == 2) {
      // standard parallel (secant: each of the two, if inside the +-8 deg box) / tangent parallel
      double lp = bp.tangent ? bp.lat0 : (slot == 1 ? bp.lat1 : bp.lat2);
      dlon = rnd_dlon();
      if (std::fabs(lp - bp.lat0) <= BOX_LAT) {
        pcat = "on_parallel"; lat = lp; lon = bp.lon0 + dlon;
      } else {
        c.count("standard_parallel_outside_box");
        pcat = "generic"; lat = bp.lat0 + rnd_dlat(); lon = bp.lon0 + dlon;
      }
    } else if (slot == 3 || slot == 4) {
      pcat = "on_central_meridian"; lat = bp.lat0 + rnd_dlat(); lon = bp.lon0;
    } else if (slot == 5) {
      pcat = "box_corner"; lat = bp.lat0 + r.sign() * BOX_LAT; lon = bp.lon0 + r.sign() * BOX_LON;
    } else {
      pcat = "generic";
      double dla = rnd_dlat(), dlo = rnd_dlon();
      int sm = (int)r.range(0, 19);
      if (sm == 0) {dlo = dla; c.count("points_with_equal_offsets");}          // equal components
      lat = bp.lat0 + dla; lon = bp.lon0 + dlo;
      if (sm == 1) {
        // whole degrees of latitude and longitude (if that stays inside the box)
        double la = std::round(lat / DEG) * DEG, lo = std::round(lon / DEG) * DEG;
        if (std::fabs(la - bp.lat0) <= BOX_LAT && std::fabs(lo - bp.lon0) <= BOX_LON) {
          lat = la; lon = lo; c.count("points_at_whole_degrees");
        }
      }
    }
    c.cat(std::string("pt_") + pcat);

    // ---- which units see this point (the base unit always; the other one if the point is in its
    //      box too), in which order, and what the point is for each of them (bit-for-bit tests)
    struct PerUnit
    {
      bool active = false, at_origin = false, on_meridian = false, on_parallel = false, ok = true;
      LD k_expected = 1;
      LD X[2] = {0, 0};
      LD S[8][2];       // forward images of the 8 stencil points
    };
    PerUnit pu[2];
    int order[2] = {0, 1};
    if (NU > 1 && r.coin()) {order[0] = 1; order[1] = 0;}
    int nactive = 0;
    for (int u = 0; u < NU; ++u) {
      const PSet & s = U[u].p;
      PerUnit & q = pu[u];
      q.active = (u == b) ||
        (std::fabs(lat - s.lat0) <= BOX_LAT + BOX_SLACK && std::fabs(lon - s.lon0) <= BOX_LON + BOX_SLACK);
      if (!q.active) {c.count("point_outside_sibling_box"); continue;}
      ++nactive;
      q.at_origin = lat == s.lat0 && lon == s.lon0;
      q.on_meridian = lon == s.lon0;
      q.on_parallel = s.tangent ? lat == s.lat0 : (lat == s.lat1 || lat == s.lat2);
      q.k_expected = s.tangent ? (LD)s.k0 : 1.0L;
      c.count("points");
    }
    if (nactive > 1) {c.count("points_evaluated_on_both_siblings_in_turn");}

    auto fwd = [&](int u, double la, double lo, LD out[2]) -> bool {
        Eigen::Vector2d v = U[u].conv->toLambert(WGS84Coordinates{la, lo});
        out[0] = v.x(); out[1] = v.y();
        return std::isfinite(v.x()) && std::isfinite(v.y());
      };

    // ---------------------------------------------------------------- forward, units in turn
    for (int o = 0; o < NU; ++o) {
      int u = order[o];
      if (!pu[u].active) {continue;}
      cu = u;
      pu[u].ok = c.expect("forward.finite", fwd(u, lat, lon, pu[u].X), "nonfinite", params, wit);
    }
    // ---- every 4th point: neighbouring facilities are used between two observations of the same
    //      quantity (stream formatting, the ECEF converter on the shared GRS80 object, the static
    //      helpers); the second observation, with an lvalue argument, must be bit-identical
    if ((ip & 3) == 2) {
      std::ostringstream os;
      os << std::setprecision(3) << std::scientific << WGS84Coordinates{lat, lon};
      romea::core::ECEFConverter ecef;
      Eigen::Vector3d x3 = ecef.toECEF(romea::core::makeGeodeticCoordinates(lat, lon, 100.0));
      romea::core::GeodeticCoordinates g3 = ecef.toWGS84(x3);
      double hl = LambertConverter::computeLatitude(LambertConverter::computeIsometricLatitude(0.5, 0.08), 0.08);
      c.count("interference_probes");
      if (os.str().empty() || !std::isfinite(g3.latitude + hl)) {c.count("interference_probe_odd_output");}
      const WGS84Coordinates w{lat, lon};
      for (int o = 0; o < NU; ++o) {
        int u = order[o];
        if (!pu[u].active || !pu[u].ok) {continue;}
        cu = u;
        const auto & again = U[u].conv->toLambert(w);
        c.expect("stability.after_neighbouring_facilities",
          same_bits(again.x(), (double)pu[u].X[0]) && same_bits(again.y(), (double)pu[u].X[1]), "result_unstable",
          params, [&]() {
            return vh::J().raw("case", wit()).f("x_first", pu[u].X[0]).f("y_first", pu[u].X[1])
                   .f("x_again", again.x()).f("y_again", again.y()).str();
          });
      }
    }
    // ---- stencil of the 4th order central differences, every stencil point on the units in turn
    //      0,1: lat +-H   2,3: lat +-H/2   4,5: lon +-H   6,7: lon +-H/2
    double sla[8], slo[8];
    for (int k = 0; k < 8; ++k) {
      double h = ((k >> 1) & 1) ? H / 2 : H;
      double sg = (k & 1) ? -1.0 : 1.0;
      sla[k] = k < 4 ? lat + sg * h : lat;
      slo[k] = k < 4 ? lon : lon + sg * h;
    }
    bool fd_ok[2] = {true, true};
    for (int k = 0; k < 8; ++k) {
      for (int o = 0; o < NU; ++o) {
        int u = order[o];
        if (!pu[u].active || !pu[u].ok) {continue;}
        if (!fwd(u, sla[k], slo[k], pu[u].S[k])) {fd_ok[u] = false;}
      }
    }

    // ---------------------------------------------------------------- oracles per unit
    for (int o = 0; o < NU; ++o) {
      const int u = order[o];
      PerUnit & q = pu[u];
      if (!q.active || !q.ok) {continue;}
      cu = u;
      Unit & un = U[u];
      const PSet & s = un.p;
      LD * X = q.X;

      // (2) origin and central meridian
      if (q.at_origin) {
        c.expect_le("origin.to_false_origin_m", hypotl(X[0] - (LD)s.x0, X[1] - (LD)s.y0), un.origin_tol, "origin",
          params, [&]() {return vh::J().raw("case", wit()).f("x", X[0]).f("y", X[1]).str();});
      }
      if (q.on_meridian) {
        c.expect_le("central_meridian.x_m", fabsl(X[0] - (LD)s.x0), un.origin_tol, "central_meridian",
          params, [&]() {return vh::J().raw("case", wit()).f("x", X[0]).f("y", X[1]).str();});
      }

      // (4) differently factored long-double implementation
      {
        LD rx, ry;
        un.ref.fwd(lat, lon, rx, ry);
        c.maxi("forward_vs_snyder_worst_m_at_earth_scale", (double)(hypotl(X[0] - rx, X[1] - ry) / un.len_scale));
        c.expect_le("forward.vs_snyder_m", hypotl(X[0] - rx, X[1] - ry), un.snyder_tol, "forward_vs_reference",
          params, [&]() {
            return vh::J().raw("case", wit()).f("x", X[0]).f("y", X[1]).f("ref_x", rx).f("ref_y", ry).str();
          });
      }

      // the radii of curvature the local scales are defined against, as the library itself states
      // them (EarthEllipsoid), against the long double ones used below
      if ((ip & 3) == 1) {
        const EarthEllipsoid & el = s.use_static_grs80 ? EarthEllipsoid::GRS80 : un.ell_obj;
        LD Mr = un.ref.M(lat), Nc = un.ref.Ncos(lat);
        LD em = fabsl((LD)el.meridionalRadius(lat) - Mr) / Mr, et = fabsl((LD)el.transversalRadius(lat) - Nc) / Nc;
        const LD rtol = 64 * std::numeric_limits<double>::epsilon();
        auto w1 = [&]() {
            return vh::J().raw("case", wit()).f("meridionalRadius", el.meridionalRadius(lat)).f("reference_M", Mr)
                   .f("transversalRadius", el.transversalRadius(lat)).f("reference_N_cos_lat", Nc).str();
          };
        c.expect_le("ellipsoid.meridional_radius_rel", em, rtol, "ellipsoid_radius", params, w1);
        c.expect_le("ellipsoid.transversal_radius_rel", et, rtol * (1 + fabsl(tanl((LD)lat))), "ellipsoid_radius", params, w1);
      }

      // (1) local scales from finite differences of the library's own forward map
      // the differences resolve the scales only while one ulp of a coordinate is small against the
      // displacement over half a step (H/2 * M): otherwise the point is vacuous for this oracle
      const LD fd_noise = 4 * std::numeric_limits<double>::epsilon() *
        std::max(fabsl(X[0]), fabsl(X[1])) / ((LD)H / 2 * un.ref.M(lat));
      if (fd_noise > 8e-11L) {
        c.skip("conformal:finite_differences_unresolved_at_this_false_origin");
      } else if (c.expect("fd.finite", fd_ok[u], "nonfinite", params, wit)) {
        LD dphi[2], dlam[2];
        for (int d = 0; d < 2; ++d) {
          LD * out = d == 0 ? dphi : dlam;
          const int k0 = d * 4;
          LD den1 = d == 0 ? (LD)sla[k0] - (LD)sla[k0 + 1] : (LD)slo[k0] - (LD)slo[k0 + 1];
          LD den2 = d == 0 ? (LD)sla[k0 + 2] - (LD)sla[k0 + 3] : (LD)slo[k0 + 2] - (LD)slo[k0 + 3];
          for (int i = 0; i < 2; ++i) {
            LD D1 = (q.S[k0][i] - q.S[k0 + 1][i]) / den1;         // step H
            LD D2 = (q.S[k0 + 2][i] - q.S[k0 + 3][i]) / den2;     // step H/2
            out[i] = (4 * D2 - D1) / 3;
          }
        }
        LD nphi = hypotl(dphi[0], dphi[1]), nlam = hypotl(dlam[0], dlam[1]);
        LD hs = nphi / un.ref.M(lat), ks = nlam / un.ref.Ncos(lat);
        LD cosang = (dphi[0] * dlam[0] + dphi[1] * dlam[1]) / (nphi * nlam);
        LD cross = dlam[0] * dphi[1] - dlam[1] * dphi[0];     // east x north must stay positive
        auto w2 = [&]() {
            return vh::J().raw("case", wit()).f("h_meridian", hs).f("k_parallel", ks).f("cos_angle", cosang).str();
          };
        c.expect_le("conformal.h_over_k", fabsl(hs / ks - 1), 1e-9L, "not_conformal", params, w2);
        c.expect_le("conformal.orthogonality", fabsl(cosang), 1e-9L, "not_conformal", params, w2);
        c.expect("conformal.orientation", cross > 0, "not_conformal", params, w2);
        if (q.on_parallel) {
          const char * o1 = s.tangent ? "scale.tangent_parallel_k" : "scale.standard_parallel_k";
          const char * o2 = s.tangent ? "scale.tangent_parallel_h" : "scale.standard_parallel_h";
          c.expect_le(o1, fabsl(ks - q.k_expected), 1e-9L, "scale_on_parallel", params, w2);
          c.expect_le(o2, fabsl(hs - q.k_expected), 1e-9L, "scale_on_parallel", params, w2);
        }
      }

      // (3) inverse of the forward image
      if (un.inverse_dead) {c.count("inverse_not_called_after_nontermination"); continue;}
      lw.reset_case();
      WGS84Coordinates back = un.conv->toWGS84(Eigen::Vector2d((double)X[0], (double)X[1]));
      c.maxi("lambert_loop_iterations", (double)lw.case_max);
      auto w3 = [&]() {
          return vh::J().raw("case", wit()).f("x", X[0]).f("y", X[1]).f("lat_back", back.latitude)
                 .f("lon_back", back.longitude).f("loop_iterations", (uint64_t)lw.case_max).str();
        };
      if (lw.tripped) {
        c.violation("nontermination", params(), w3());
        un.inverse_dead = true;
        continue;
      }
      if (!c.expect("inverse.finite", std::isfinite(back.latitude) && std::isfinite(back.longitude),
        "nonfinite", params, w3)) {continue;}
      c.count(un.south ? "roundtrip_points_south" : "roundtrip_points_north");
      c.expect_le("roundtrip.lat_rad", fabsl((LD)back.latitude - (LD)lat), 1e-11L, "roundtrip", params, w3);
      c.expect_le("roundtrip.lon_rad", fabsl((LD)back.longitude - (LD)lon), 1e-11L, "roundtrip", params, w3);

      // sub-oracle: the two public static helpers are mutual inverses
      if ((ip & 3) == 0) {
        double e = un.e_lib;
        lw.reset_case();
        double L = LambertConverter::computeIsometricLatitude(lat, e);
        double lb = LambertConverter::computeLatitude(L, e);
        if (lw.tripped) {c.violation("nontermination", params(), wit()); un.inverse_dead = true; continue;}
        c.expect_le("isometric_latitude.mutual_inverse_rad", fabsl((LD)lb - (LD)lat), 1e-11L, "roundtrip",
          params, [&]() {return vh::J().raw("case", wit()).f("isolat", L).f("lat_back", lb).str();});
      }
    }
  }

  // ---- end of the case: the results kept since before the first point are still what they were,
  //      and the same calls (temporaries as arguments this time) give the same bits again
  {
    lat = probe_w.latitude; lon = probe_w.longitude; pcat = "stability_probe"; cu = 0;
    bool kept = same_bits(kept_fa.x(), fa0[0]) && same_bits(kept_fa.y(), fa0[1]) &&
      same_bits(kept_fb.x(), fb0[0]) && same_bits(kept_fb.y(), fb0[1]) &&
      same_bits(kept_inv.latitude, inv0[0]) && same_bits(kept_inv.longitude, inv0[1]) &&
      same_bits(kept_pp.longitude0, pp0[0]) && same_bits(kept_pp.n, pp0[1]) && same_bits(kept_pp.c, pp0[2]) &&
      same_bits(kept_pp.xs, pp0[3]) && same_bits(kept_pp.ys, pp0[4]);
    c.expect("stability.kept_results_unchanged", kept, "result_unstable", params, [&]() {
        return vh::J().raw("case", wit()).f("x_then", fa0[0]).f("x_now", kept_fa.x()).f("y_then", fa0[1])
               .f("y_now", kept_fa.y()).f("lat_then", inv0[0]).f("lat_now", kept_inv.latitude).str();
      });
    Eigen::Vector2d fa1 = ua.conv->toLambert(WGS84Coordinates{probe_w.latitude, probe_w.longitude});
    Eigen::Vector2d fb1 = ub.conv->toLambert(WGS84Coordinates{probe_w.latitude, probe_w.longitude});
    bool again = same_bits(fa1.x(), fa0[0]) && same_bits(fa1.y(), fa0[1]) && same_bits(fb1.x(), fb0[0]) &&
      same_bits(fb1.y(), fb0[1]);
    double inv1[2] = {inv0[0], inv0[1]};
    if (probe_inv_ok) {
      lw.reset_case();
      WGS84Coordinates i1 = ua.conv->toWGS84(Eigen::Vector2d(fa0[0], fa0[1]));
      inv1[0] = i1.latitude; inv1[1] = i1.longitude;
      again = again && same_bits(inv1[0], inv0[0]) && same_bits(inv1[1], inv0[1]);
    }
    auto pp1 = library_constants(p);
    again = again && same_bits(pp1.longitude0, pp0[0]) && same_bits(pp1.n, pp0[1]) && same_bits(pp1.c, pp0[2]) &&
      same_bits(pp1.xs, pp0[3]) && same_bits(pp1.ys, pp0[4]);
    c.expect("stability.reevaluation_bit_identical", again, "result_unstable", params, [&]() {
        return vh::J().raw("case", wit()).f("x_first", fa0[0]).f("x_again", fa1.x()).f("y_first", fa0[1])
               .f("y_again", fa1.y()).f("sibling_x_first", fb0[0]).f("sibling_x_again", fb1.x())
               .f("lat_first", inv0[0]).f("lat_again", inv1[0]).f("n_first", pp0[1]).f("n_again", pp1.n).str();
      });
    // the library's shared, mutable GRS80 object is what it was
    // (reference built under round-to-nearest, like the static object itself: this case may be one
    // the framework runs with a directed caller rounding mode)
    const int caller_mode = fegetround();
    fesetround(FE_TONEAREST);
    const EarthEllipsoid fresh(6378137.0, 6356752.314);
    fesetround(caller_mode);
    const EarthEllipsoid & g = EarthEllipsoid::GRS80;
    c.expect("shared_state.static_GRS80_unchanged",
      same_bits(g.a, fresh.a) && same_bits(g.b, fresh.b) && same_bits(g.e2, fresh.e2) && same_bits(g.e, fresh.e),
      "shared_state_changed", params, [&]() {
        return vh::J().f("a", g.a).f("b", g.b).f("e2", g.e2).f("e", g.e).str();
      });
  }
}

int main(int argc, char ** argv)
{
  return vh::run(argc, argv, "C03", {20000, 300000}, one_case, [](vh::Ctx & c) {
      c.count("loop_hook_calls", vh::loopwatch().calls);
    });
}
